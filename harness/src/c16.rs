//! C16 — SVG path text: lexer, parser (`BezPath::from_svg`), writer (`to_svg`), `Arc::from_svg_arc`.
//!
//! Correspondence: byte strings are passed one f64 per byte; the Coq side re-lexes them with the
//! model, converts every number token with its own exact decimal->binary64 routine and compares the
//! whole result (elements bit for bit incl. the sign of zero, or the error kind).
//! Laws: independent SVG-specification interpreter of abstract command lists vs. `from_svg` on
//! random spellings; round trips; documented errors on malformed input; arcs; no panic.
#[cfg(feature = "libm")]
#[allow(unused_imports)]
use crate::util::ToSvgCompat;
use crate::geom::*;
use crate::util::{Out, Rng};
use crate::{Law, Prop};
use kurbo::{Arc, BezPath, PathEl, PathSeg, Point, SvgArc, SvgParseError, Vec2};
use std::collections::BTreeMap;

pub fn prop() -> Prop {
    Prop { id: "C16", corr, laws, extra, law_budget: (250, 6000) }
}

// ------------------------------------------------------------------ running the implementation

fn parse_catch(s: &str) -> Option<Result<BezPath, SvgParseError>> {
    let s2 = s.to_string();
    std::panic::catch_unwind(move || BezPath::from_svg(&s2)).ok()
}

fn negzero(x: f64) -> f64 {
    if x == 0.0 && x.is_sign_negative() {
        1.0
    } else {
        0.0
    }
}

fn el_coords(e: &PathEl) -> Vec<f64> {
    match e {
        PathEl::MoveTo(p) | PathEl::LineTo(p) => vec![p.x, p.y],
        PathEl::QuadTo(a, b) => vec![a.x, a.y, b.x, b.y],
        PathEl::CurveTo(a, b, c) => vec![a.x, a.y, b.x, b.y, c.x, c.y],
        PathEl::ClosePath => vec![],
    }
}

/// 0 :: elements ++ sign-of-zero flags | 1 Wrong | 2 UnexpectedEof | 3 c UnknownCommand | 4 UninitializedPath | 9 panic
fn enc_result(r: &Option<Result<BezPath, SvgParseError>>) -> Vec<f64> {
    match r {
        None => vec![9.0],
        Some(Ok(p)) => {
            let mut v = vec![0.0];
            v.extend(enc_els(p.elements()));
            for e in p.elements() {
                v.extend(el_coords(e).iter().map(|x| negzero(*x)));
            }
            v
        }
        Some(Err(SvgParseError::Wrong)) => vec![1.0],
        Some(Err(SvgParseError::UnexpectedEof)) => vec![2.0],
        Some(Err(SvgParseError::UnknownCommand(c))) => vec![3.0, *c as u32 as f64],
        Some(Err(SvgParseError::UninitializedPath)) => vec![4.0],
        Some(Err(_)) => vec![8.0],
    }
}

fn res_tag(r: &Option<Result<BezPath, SvgParseError>>) -> &'static str {
    match r {
        None => "panic",
        Some(Ok(_)) => "ok",
        Some(Err(SvgParseError::Wrong)) => "err-wrong",
        Some(Err(SvgParseError::UnexpectedEof)) => "err-eof",
        Some(Err(SvgParseError::UnknownCommand(_))) => "err-unknown-command",
        Some(Err(SvgParseError::UninitializedPath)) => "err-uninitialized",
        Some(Err(_)) => "err-other",
    }
}

/// length, then six bytes per f64 (little endian, exactly representable): float literals are the
/// expensive part of a Coq case file
fn pk(s: &str) -> Vec<f64> {
    let b = s.as_bytes();
    let mut v = vec![b.len() as f64];
    for ch in b.chunks(6) {
        let mut x: u64 = 0;
        for (i, c) in ch.iter().enumerate() {
            x |= (*c as u64) << (8 * i);
        }
        v.push(x as f64);
    }
    v
}

#[allow(dead_code)]
fn bytes_f(s: &str) -> Vec<f64> {
    s.bytes().map(|b| b as f64).collect()
}

// ------------------------------------------------------------------ abstract commands (SVG syntax level)

#[derive(Clone, Debug, PartialEq)]
enum Cmd {
    M(bool, f64, f64),
    L(bool, f64, f64),
    H(bool, f64),
    V(bool, f64),
    C(bool, [f64; 6]),
    S(bool, [f64; 4]),
    Q(bool, [f64; 4]),
    T(bool, f64, f64),
    A(bool, [f64; 3], bool, bool, f64, f64),
    Z(bool), // upper case?
}

impl Cmd {
    fn letter(&self) -> u8 {
        let (u, rel) = match self {
            Cmd::M(r, ..) => (b'M', *r),
            Cmd::L(r, ..) => (b'L', *r),
            Cmd::H(r, ..) => (b'H', *r),
            Cmd::V(r, ..) => (b'V', *r),
            Cmd::C(r, ..) => (b'C', *r),
            Cmd::S(r, ..) => (b'S', *r),
            Cmd::Q(r, ..) => (b'Q', *r),
            Cmd::T(r, ..) => (b'T', *r),
            Cmd::A(r, ..) => (b'A', *r),
            Cmd::Z(up) => (b'Z', !*up),
        };
        if rel {
            u.to_ascii_lowercase()
        } else {
            u
        }
    }
}

/// one argument of a command as it is spelled
#[derive(Clone, Debug)]
enum Arg {
    Num(f64),
    Flag(bool),
}

fn cmd_args(c: &Cmd) -> Vec<Arg> {
    use Arg::*;
    match c {
        Cmd::M(_, x, y) | Cmd::L(_, x, y) | Cmd::T(_, x, y) => vec![Num(*x), Num(*y)],
        Cmd::H(_, x) | Cmd::V(_, x) => vec![Num(*x)],
        Cmd::C(_, a) => a.iter().map(|x| Num(*x)).collect(),
        Cmd::S(_, a) | Cmd::Q(_, a) => a.iter().map(|x| Num(*x)).collect(),
        Cmd::A(_, a, l, s, x, y) => vec![Num(a[0]), Num(a[1]), Num(a[2]), Flag(*l), Flag(*s), Num(*x), Num(*y)],
        Cmd::Z(_) => vec![],
    }
}

// ------------------------------------------------------------------ the SVG-specification interpreter (independent of kurbo)

/// What a path data string means according to SVG 1.1 section 8.3 / SVG 2 section 9.3, expressed in kurbo's
/// element vocabulary: an arc stays abstract.
#[derive(Clone, Debug, PartialEq)]
enum El {
    P(PathEl),
    Arc { from: Point, to: Point, rx: f64, ry: f64, rot_deg: f64, large: bool, sweep: bool },
}

#[derive(Clone, Copy, PartialEq)]
enum Prev {
    Other,
    Cubic(Point), // second control point of the preceding C/c/S/s
    Quad(Point),  // control point of the preceding Q/q/T/t
}

/// `None`: the data does not start with a moveto (an error according to the grammar)
fn spec_interp(cmds: &[Cmd]) -> Option<Vec<El>> {
    let mut out = Vec::new();
    let mut cur = Point::new(0.0, 0.0);
    let mut start = cur;
    let mut prev = Prev::Other;
    let mut pending = false; // a closepath was the last command: the next non-moveto starts a sub-path at `start`
    let mut started = false;
    let ab = |rel: bool, cur: Point, x: f64, y: f64| if rel { Point::new(cur.x + x, cur.y + y) } else { Point::new(x, y) };
    for c in cmds {
        if !matches!(c, Cmd::M(..)) {
            if !started {
                return None;
            }
            if pending {
                out.push(El::P(PathEl::MoveTo(start)));
                pending = false;
            }
        }
        match c {
            Cmd::M(rel, x, y) => {
                let p = ab(*rel, cur, *x, *y);
                out.push(El::P(PathEl::MoveTo(p)));
                cur = p;
                start = p;
                prev = Prev::Other;
                pending = false;
                started = true;
            }
            Cmd::L(rel, x, y) => {
                let p = ab(*rel, cur, *x, *y);
                out.push(El::P(PathEl::LineTo(p)));
                cur = p;
                prev = Prev::Other;
            }
            Cmd::H(rel, x) => {
                let p = Point::new(if *rel { cur.x + x } else { *x }, cur.y);
                out.push(El::P(PathEl::LineTo(p)));
                cur = p;
                prev = Prev::Other;
            }
            Cmd::V(rel, y) => {
                let p = Point::new(cur.x, if *rel { cur.y + y } else { *y });
                out.push(El::P(PathEl::LineTo(p)));
                cur = p;
                prev = Prev::Other;
            }
            Cmd::C(rel, a) => {
                let (p1, p2, p3) = (ab(*rel, cur, a[0], a[1]), ab(*rel, cur, a[2], a[3]), ab(*rel, cur, a[4], a[5]));
                out.push(El::P(PathEl::CurveTo(p1, p2, p3)));
                cur = p3;
                prev = Prev::Cubic(p2);
            }
            Cmd::S(rel, a) => {
                // first control point: reflection of the previous command's second control point about the
                // current point, but only if the previous command was C, c, S or s; else the current point
                let p1 = match prev {
                    Prev::Cubic(c2) => Point::new(2.0 * cur.x - c2.x, 2.0 * cur.y - c2.y),
                    _ => cur,
                };
                let (p2, p3) = (ab(*rel, cur, a[0], a[1]), ab(*rel, cur, a[2], a[3]));
                out.push(El::P(PathEl::CurveTo(p1, p2, p3)));
                cur = p3;
                prev = Prev::Cubic(p2);
            }
            Cmd::Q(rel, a) => {
                let (p1, p2) = (ab(*rel, cur, a[0], a[1]), ab(*rel, cur, a[2], a[3]));
                out.push(El::P(PathEl::QuadTo(p1, p2)));
                cur = p2;
                prev = Prev::Quad(p1);
            }
            Cmd::T(rel, x, y) => {
                let p1 = match prev {
                    Prev::Quad(q1) => Point::new(2.0 * cur.x - q1.x, 2.0 * cur.y - q1.y),
                    _ => cur,
                };
                let p2 = ab(*rel, cur, *x, *y);
                out.push(El::P(PathEl::QuadTo(p1, p2)));
                cur = p2;
                prev = Prev::Quad(p1);
            }
            Cmd::A(rel, a, l, s, x, y) => {
                let p = ab(*rel, cur, *x, *y);
                out.push(El::Arc { from: cur, to: p, rx: a[0], ry: a[1], rot_deg: a[2], large: *l, sweep: *s });
                cur = p;
                prev = Prev::Other;
            }
            Cmd::Z(_) => {
                out.push(El::P(PathEl::ClosePath));
                cur = start;
                prev = Prev::Other;
                pending = true;
            }
        }
    }
    Some(out)
}

// ------------------------------------------------------------------ spelling

/// spell the exact value of `x` in one of many ways; every result denotes exactly the decimal expansion
/// that `{}` prints, so a correctly rounded parse returns `x` itself
fn spell_num(r: &mut Rng, x: f64, allow_plus: bool) -> String {
    let neg = x.is_sign_negative();
    let mag = x.abs();
    let plain_len = format!("{}", mag).len();
    let body = match r.below(10) {
        // (very long plain expansions only now and then: they dominate the cost of the Coq-side conversion)
        0..=3 if plain_len <= 40 || r.chance(1, 12) => format!("{}", mag),
        0..=3 => format!("{:e}", mag),
        4 => format!("{:e}", mag),
        5 => format!("{:E}", mag),
        _ => {
            // move the decimal point of the plain expansion and compensate with an exponent
            let plain = format!("{}", mag);
            if plain.len() > 40 {
                format!("{:e}", mag)
            } else {
                let (ip, fp) = match plain.split_once('.') {
                    Some((a, b)) => (a.to_string(), b.to_string()),
                    None => (plain.clone(), String::new()),
                };
                let digits: Vec<u8> = ip.bytes().chain(fp.bytes()).collect();
                let p = ip.len() as i64;
                let p2 = r.range_i(0, digits.len() as i64);
                let exp = p - p2;
                let (i2, f2) = digits.split_at(p2 as usize);
                let mut s = String::new();
                if i2.is_empty() {
                    if r.bool() {
                        s.push('0');
                    }
                } else {
                    s.push_str(std::str::from_utf8(i2).unwrap());
                }
                if f2.is_empty() {
                    if !i2.is_empty() && r.chance(1, 4) {
                        s.push('.');
                    } else if i2.is_empty() {
                        s.push('0');
                    }
                } else {
                    s.push('.');
                    s.push_str(std::str::from_utf8(f2).unwrap());
                }
                if exp != 0 || r.chance(1, 4) {
                    s.push(if r.bool() { 'e' } else { 'E' });
                    if exp < 0 {
                        s.push('-');
                    } else if r.chance(1, 3) {
                        s.push('+');
                    }
                    if r.chance(1, 5) {
                        s.push('0');
                    }
                    s.push_str(&format!("{}", exp.abs()));
                }
                s
            }
        }
    };
    if neg {
        format!("-{}", body)
    } else if allow_plus && r.chance(1, 6) {
        format!("+{}", body)
    } else {
        body
    }
}

fn ws(r: &mut Rng, allow_empty: bool) -> String {
    let opts: &[&str] = if allow_empty { &["", "", " ", " ", "  ", "\t", "\n", "\r\n", "\x0c "] } else { &[" ", " ", "  ", "\t", "\n", " \n", "\x0c"] };
    r.pick(opts).to_string()
}

/// comma-wsp between two arguments; the empty separator only where the next token cannot extend the previous one
fn sep(r: &mut Rng, prev: &str, next: &str, prev_is_flag: bool) -> String {
    let n0 = next.as_bytes()[0];
    let can_empty = prev_is_flag
        || n0 == b'-'
        || n0 == b'+'
        || (n0 == b'.' && (prev.contains('.') || prev.contains('e') || prev.contains('E')));
    if can_empty && r.chance(2, 3) {
        return String::new();
    }
    match r.below(8) {
        0..=2 => " ".into(),
        3 => ",".into(),
        4 => ", ".into(),
        5 => " ,".into(),
        6 => format!("{},{}", ws(r, false), ws(r, false)),
        _ => ws(r, false),
    }
}

#[derive(Clone, Copy)]
struct SpellOpts {
    /// explicit '+' signs anywhere (also at the head of a repeated argument group)
    plus: bool,
    /// probability (in 1/8) of omitting a repeatable command letter
    omit: u64,
}

/// render a command list; returns the text and the number of letters omitted / '+'-headed repeated groups
fn render(r: &mut Rng, cmds: &[Cmd], o: SpellOpts, stats: &mut BTreeMap<String, u64>) -> String {
    let mut s = String::new();
    let mut prev_letter: u8 = 0;
    let mut prev_tok = String::new();
    let mut prev_flag = false;
    for c in cmds {
        let letter = c.letter();
        let args = cmd_args(c);
        let toks: Vec<(String, bool)> = args
            .iter()
            .map(|a| match a {
                Arg::Num(x) => (spell_num(r, *x, o.plus), false),
                Arg::Flag(b) => ((if *b { "1" } else { "0" }).to_string(), true),
            })
            .collect();
        let repeatable = !args.is_empty()
            && ((prev_letter == letter && letter != b'M' && letter != b'm')
                || (prev_letter == b'M' && letter == b'L')
                || (prev_letter == b'm' && letter == b'l'));
        let omit = repeatable && r.below(8) < o.omit;
        if omit {
            *stats.entry("letter-omitted".into()).or_default() += 1;
            if toks[0].0.starts_with('+') {
                *stats.entry("repeat-group-starts-with-plus".into()).or_default() += 1;
            }
            s.push_str(&sep(r, &prev_tok, &toks[0].0, prev_flag));
        } else {
            s.push_str(&ws(r, true));
            s.push(letter as char);
            if !toks.is_empty() {
                s.push_str(&ws(r, true));
            }
        }
        for (i, (t, is_flag)) in toks.iter().enumerate() {
            if i > 0 {
                s.push_str(&sep(r, &prev_tok, t, prev_flag));
            }
            s.push_str(t);
            prev_tok = t.clone();
            prev_flag = *is_flag;
        }
        // after M the implicit command is L (same case); Z is never repeated
        prev_letter = match letter {
            b'M' => b'M',
            b'm' => b'm',
            l => l,
        };
        if letter == b'M' || letter == b'm' {
            // a following *moveto* must be spelled with its letter; a following lineto may omit it
        }
        *stats.entry(format!("cmd-{}", letter as char)).or_default() += 1;
    }
    s.push_str(&ws(r, true));
    s
}

// ------------------------------------------------------------------ generators of abstract command lists

fn gen_val(r: &mut Rng, dyadic: bool) -> f64 {
    if dyadic {
        match r.below(6) {
            0 => r.range_i(-20, 20) as f64,
            1 => r.range_i(-64, 64) as f64 / 8.0,
            2 => r.range_i(-9, 9) as f64 / 2.0,
            3 => 0.0,
            _ => r.range_i(-800, 800) as f64 / 16.0,
        }
    } else {
        match r.below(12) {
            0 => r.range_i(-20, 20) as f64,
            1 => r.range_i(-64, 64) as f64 / 8.0,
            2 => (r.range_i(-9999, 9999) as f64) / 100.0,
            3 => (r.range_i(-999, 999) as f64) / 1000.0,
            4 => r.generic(-30, 30),
            5 => r.generic(-300, 300),
            6 => *r.pick(&[0.0, -0.0, 1e-300, -1e-300, 1e300, -1e300, 5e-324, 1.7976931348623157e308, 2.2250738585072014e-308, 0.1, 0.3]),
            _ => r.coord(),
        }
    }
}

/// `smooth_any`: allow S/T after every kind of command (exercises the smooth-ctrl finding)
/// `arcs`: 0 none; 1 radii comfortably large enough for the chord; 2 radii comfortably too small (they get
/// scaled up: the centre is then computed from the square root of a rounding residue and is only
/// accurate to about 1e-8 relative to the radii); 3 either
fn gen_cmds(r: &mut Rng, dyadic: bool, arcs: u8, smooth_any: bool, maxlen: u64) -> Vec<Cmd> {
    let n = 1 + r.below(maxlen);
    let mut v = Vec::new();
    let rel0 = r.bool();
    v.push(Cmd::M(rel0, gen_val(r, dyadic), gen_val(r, dyadic)));
    let mut prev_kind = b'M';
    for _ in 0..n {
        let rel = r.chance(2, 5);
        let k = loop {
            let k = *r.pick(&[b'M', b'L', b'L', b'H', b'V', b'C', b'C', b'S', b'S', b'Q', b'Q', b'T', b'T', b'Z', b'Z', b'A']);
            if k == b'A' && arcs == 0 {
                continue;
            }
            if !smooth_any {
                if k == b'S' && matches!(prev_kind, b'Q' | b'T' | b'Z') {
                    continue;
                }
                if k == b'T' && matches!(prev_kind, b'C' | b'S' | b'Z') {
                    continue;
                }
            }
            break k;
        };
        let mut g = || gen_val(r, dyadic);
        let c = match k {
            b'M' => Cmd::M(rel, g(), g()),
            b'L' => Cmd::L(rel, g(), g()),
            b'H' => Cmd::H(rel, g()),
            b'V' => Cmd::V(rel, g()),
            b'C' => Cmd::C(rel, [g(), g(), g(), g(), g(), g()]),
            b'S' => Cmd::S(rel, [g(), g(), g(), g()]),
            b'Q' => Cmd::Q(rel, [g(), g(), g(), g()]),
            b'T' => Cmd::T(rel, g(), g()),
            b'Z' => Cmd::Z(r.bool()),
            _ => {
                // generic arc, well inside every decision boundary
                let sg = |r: &mut Rng| if r.bool() { -1.0 } else { 1.0 };
                let (dx, dy) = (r.uniform(0.3, 30.0) * sg(r), r.uniform(0.3, 30.0) * sg(r));
                let h = 0.5 * (dx * dx + dy * dy).sqrt();
                let class = if arcs == 3 { 1 + r.below(2) as u8 } else { arcs };
                let (lo, hi) = if class == 1 { (0.15, 2.0) } else { (-1.5, -0.12) };
                let rx = h * 10f64.powf(r.uniform(lo, hi));
                let ry = h * 10f64.powf(r.uniform(lo, hi));
                let rot = r.uniform(-400.0, 400.0);
                // arcs are always spelled relative here so that the chord is what was drawn
                Cmd::A(true, [rx, ry, rot], r.bool(), r.bool(), dx, dy)
            }
        };
        prev_kind = k;
        v.push(c);
    }
    v
}

fn has_arc(cmds: &[Cmd]) -> bool {
    cmds.iter().any(|c| matches!(c, Cmd::A(..)))
}

// ------------------------------------------------------------------ malformed input

const BAD_NUMS: &[&str] = &["1e", "1e+", "1e-", ".", "-", "-.", "e5", "--1", ".e1", "1E", "-e", "+.", "1e+-2", "..5"];

/// a valid prefix, then one malformation; returns the text and the error the documentation promises
fn gen_malformed(r: &mut Rng) -> (String, &'static str) {
    let mut st = BTreeMap::new();
    let cmds = gen_cmds(r, true, 0, false, 4);
    let prefix = render(r, &cmds, SpellOpts { plus: false, omit: 0 }, &mut st);
    let letters_args: &[(&str, usize)] = &[("M", 2), ("L", 2), ("l", 2), ("H", 1), ("v", 1), ("C", 6), ("s", 4), ("Q", 4), ("t", 2), ("A", 7)];
    match r.below(6) {
        0 => {
            // malformed number in a position where a number is required
            let (l, n) = *r.pick(letters_args);
            let bad = r.below(n as u64) as usize;
            let mut s = format!("{} {}", prefix.trim_end(), l);
            for i in 0..n {
                s.push(' ');
                if i == bad {
                    if l == "A" && (i == 3 || i == 4) {
                        s.push_str(*r.pick(&["2", "x", "-", "."]));
                    } else {
                        s.push_str(*r.pick(BAD_NUMS));
                    }
                } else if l == "A" && (i == 3 || i == 4) {
                    s.push('1');
                } else {
                    s.push_str(&format!("{}", r.range_i(-9, 9)));
                }
            }
            if r.bool() {
                s.push_str(" L 1 1");
            }
            (s, "err-wrong")
        }
        1 => {
            // unknown command letter after a complete command
            let c = *r.pick(&['B', 'b', 'D', 'F', 'G', 'x', 'X', 'y', 'n', 'R', 'e', 'E', 'k', 'W']);
            (format!("{} {}{}", prefix.trim_end(), c, r.pick(&["", " 1 2", "1,2", " "])), "err-unknown-command")
        }
        2 => {
            // no initial moveto
            let (l, n) = *r.pick(&letters_args[1..]);
            let mut s = format!("{}{}", ws(r, true), l);
            for _ in 0..n {
                s.push_str(" 1");
            }
            if r.bool() {
                s.push_str(" Z");
            }
            (s, "err-uninitialized")
        }
        3 => (format!("{}{}", ws(r, true), r.pick(&["Z", "z", "X 1 2", "q"])), "err-uninitialized"),
        4 => {
            // the text ends where an argument is required
            let (l, n) = *r.pick(letters_args);
            let have = r.below(n as u64) as usize;
            let mut s = format!("{} {}", prefix.trim_end(), l);
            for i in 0..have {
                s.push(' ');
                if l == "A" && (i == 3 || i == 4) {
                    s.push('0');
                } else {
                    s.push_str(&format!("{}", r.range_i(-9, 9)));
                }
            }
            s.push_str(*r.pick(if have > 0 { &["", " ", ",", " , "] } else { &["", " ", "\n", "  "] }));
            (s, "err-eof")
        }
        _ => {
            // a number cut inside its exponent at the very end
            let (l, n) = *r.pick(&letters_args[..9]);
            let mut s = format!("{} {}", prefix.trim_end(), l);
            for _ in 0..n - 1 {
                s.push_str(" 2");
            }
            s.push_str(*r.pick(&[" 1e", " 1e-", " 3E+", " -", " +", " ."]));
            (s, "err-wrong")
        }
    }
}

const ALPHABET: &[u8] = b"MmLlHhVvCcSsQqTtZz0123456789.-+eE, \t\n,  0011--..XaA";

fn gen_bytes(r: &mut Rng, with_arcs: bool) -> String {
    let n = r.below(65) as usize;
    let mut v: Vec<u8> = Vec::with_capacity(n);
    // usually start with a moveto so that the rest is reached
    if r.chance(4, 5) {
        v.extend_from_slice(*r.pick(&[&b"M1 2"[..], &b"m-1,.5"[..], &b"M0 0"[..], &b"M 3e1 4"[..]]));
    }
    while v.len() < n {
        let c = *r.pick(ALPHABET);
        if !with_arcs && (c == b'a' || c == b'A') {
            continue;
        }
        v.push(c);
    }
    if with_arcs {
        // keep arc radii moderate: a huge radius with the large-arc flag asks for billions of cubics
        let long_digits = v.split(|c| !c.is_ascii_digit()).any(|run| run.len() > 5);
        if long_digits || v.iter().any(|c| *c == b'e' || *c == b'E') {
            for c in v.iter_mut() {
                if *c == b'e' || *c == b'E' {
                    *c = b' ';
                }
            }
            let mut run = 0;
            for c in v.iter_mut() {
                if c.is_ascii_digit() {
                    run += 1;
                    if run > 5 {
                        *c = b' ';
                        run = 0;
                    }
                } else {
                    run = 0;
                }
            }
        }
    }
    String::from_utf8(v).unwrap()
}

// ------------------------------------------------------------------ random paths for the round trip

fn rt_val(r: &mut Rng) -> f64 {
    match r.below(14) {
        0 => -0.0,
        1 => 0.0,
        2 => *r.pick(&[1e-300, -1e-300, 1e300, -1e300]),
        3 => *r.pick(&[5e-324, -5e-324, f64::MAX, f64::MIN, f64::MIN_POSITIVE, 2.2250738585072009e-308]),
        4 => r.generic(-1000, 1000),
        5 => r.generic(-60, 60),
        6 => r.range_i(-5, 5) as f64,
        7 => r.range_i(-999, 999) as f64 / 100.0,
        _ => r.coord(),
    }
}

fn gen_rt_path(r: &mut Rng, maxlen: u64, moderate: bool) -> Vec<PathEl> {
    let mut g = |r: &mut Rng| if moderate { if r.chance(1, 8) { -0.0 } else { r.coord() } } else { rt_val(r) };
    let mut p = |r: &mut Rng| Point::new(g(r), g(r));
    let n = r.below(maxlen + 1);
    let mut v = vec![];
    if n == 0 && r.bool() {
        return v;
    }
    v.push(PathEl::MoveTo(p(r)));
    let close_heavy = r.chance(1, 3);
    for _ in 0..n {
        let k = if close_heavy { r.below(8) } else { r.below(12) };
        v.push(match k {
            0 | 1 | 2 => PathEl::ClosePath,
            3 => PathEl::MoveTo(p(r)),
            4 | 5 | 8 => PathEl::LineTo(p(r)),
            6 | 9 => PathEl::QuadTo(p(r), p(r)),
            _ => PathEl::CurveTo(p(r), p(r), p(r)),
        });
    }
    v
}

fn closes_followed_by_move(els: &[PathEl]) -> bool {
    els.iter().enumerate().all(|(i, e)| !matches!(e, PathEl::ClosePath) || i + 1 == els.len() || matches!(els[i + 1], PathEl::MoveTo(_)))
}

// ------------------------------------------------------------------ correspondence

const HARD_NUMS: &[&str] = &[
    "9007199254740993", "9007199254740992", "9007199254740995", "1.00000000000000011102230246251565404236316680908203125",
    "1.00000000000000011102230246251565404236316680908203124", "1.00000000000000011102230246251565404236316680908203126",
    "2.4703282292062327e-324", "2.4703282292062328e-324", "4.9406564584124654e-324", "2.2250738585072011e-308",
    "2.2250738585072014e-308", "1.7976931348623157e308", "1.7976931348623158e308", "1.7976931348623159e308", "1e309", "1e-400",
    "-1e-400", "0e999999999999", "1e99999999999999999999", "1e-99999999999999999999", "0.1", "0.30000000000000004", "123456789012345678901234567890",
    "0.000001", "1E5", "1e+5", "+1.5", "-.5e-3", "00012.500", "1.", ".5", "5.e2", "8.5e-1", "179769313486231580793728971405303415079934132710037826936173778980444968292764750946649017977587207096330286416692887910946555547851940402630657488671505820681908902000708383676273854845817711531764475730270069855571366959622842914819860834936475292719074168444365510704342711559699508093042880177904174497791.999",
    "179769313486231580793728971405303415079934132710037826936173778980444968292764750946649017977587207096330286416692887910946555547851940402630657488671505820681908902000708383676273854845817711531764475730270069855571366959622842914819860834936475292719074168444365510704342711559699508093042880177904174497792",
    "-0", "-0.0", "0", "4.35", "8.41", "1.005", "2.675", "1e23", "8.5e22", "6.02214076e23", "1.616255e-35",
];

fn corr(r: &mut Rng, thorough: bool, o: &mut Out) {
    let mut stats: BTreeMap<String, u64> = BTreeMap::new();
    let scale = if thorough { 12 } else { 1 };

    // (a) abstract command sequences in random spellings, exact arithmetic not required: any doubles
    for i in 0..(700 * scale) {
        let dyadic = i % 3 == 0;
        let cmds = gen_cmds(r, dyadic, 0, true, 9);
        let text = render(r, &cmds, SpellOpts { plus: true, omit: 5 }, &mut stats);
        let res = parse_catch(&text);
        let tag = res_tag(&res);
        o.case(1, "spellings", pk(&text), enc_result(&res), cmds.len() > 2, tag);
    }
    // (b) with arc commands (libm: tolerance), generic parameters only
    for i in 0..(120 * scale) {
        let class = 1 + (i % 2) as u8;
        let cmds = gen_cmds(r, false, class, true, 5);
        if !has_arc(&cmds) {
            continue;
        }
        // moderate coordinates so that the chord and the radii stay commensurable
        let cmds: Vec<Cmd> = cmds
            .into_iter()
            .map(|c| match c {
                Cmd::A(..) => c,
                Cmd::M(rel, ..) => Cmd::M(rel, r.uniform(-50.0, 50.0), r.uniform(-50.0, 50.0)),
                Cmd::L(rel, ..) => Cmd::L(rel, r.uniform(-50.0, 50.0), r.uniform(-50.0, 50.0)),
                Cmd::Z(u) => Cmd::Z(u),
                Cmd::H(rel, _) => Cmd::H(rel, r.uniform(-50.0, 50.0)),
                Cmd::V(rel, _) => Cmd::V(rel, r.uniform(-50.0, 50.0)),
                other => {
                    let _ = other;
                    Cmd::L(false, r.uniform(-50.0, 50.0), r.uniform(-50.0, 50.0))
                }
            })
            .collect();
        let text = render(r, &cmds, SpellOpts { plus: true, omit: 4 }, &mut stats);
        let res = parse_catch(&text);
        let tag = format!("{} {}", res_tag(&res), if class == 1 { "radii-sufficient" } else { "radii-scaled-up" });
        o.case(if class == 1 { 2 } else { 12 }, "spellings-arc", pk(&text), enc_result(&res), true, &tag);
    }
    // degenerate arcs (x-rotation 0: sin/cos exact on both sides)
    for t in ["M0 0A1 1 0 0 0 1e-200 0", "M0 0 A1000 1000 0 0 1 1e-14 0", "M0 0 A1000 1000 0 1 1 1e-14 0", "M1 1a5 5 0 0 1 0 0", "M1 1a0 5 0 0 1 2 2L3 3", "M1 1A5,1e-6,0,0,1 2 2"] {
        let res = parse_catch(t);
        o.case(12, "spellings-arc", pk(t), enc_result(&res), true, &format!("{} degenerate", res_tag(&res)));
    }
    // (c) malformed stream
    for _ in 0..(300 * scale) {
        let (text, want) = gen_malformed(r);
        let res = parse_catch(&text);
        let tag = format!("{}{}", res_tag(&res), if res_tag(&res) == want { "" } else { "(unexpected)" });
        o.case(1, "malformed", pk(&text), enc_result(&res), true, &tag);
    }
    // (d) arbitrary bytes over the command/number alphabet, up to 64 bytes
    for _ in 0..(900 * scale) {
        let text = gen_bytes(r, false);
        let res = parse_catch(&text);
        let nontrivial = text.len() > 4;
        o.case(1, "bytes", pk(&text), enc_result(&res), nontrivial, res_tag(&res));
    }
    // (e) hard number tokens
    for (i, t) in HARD_NUMS.iter().enumerate() {
        let text = match i % 3 {
            0 => format!("M{} 0", t),
            1 => format!("M0,{}", t),
            _ => format!("M1 1l{} -{}", t, t),
        };
        let res = parse_catch(&text);
        o.case(1, "numbers", pk(&text), enc_result(&res), true, res_tag(&res));
    }
    for _ in 0..(150 * scale) {
        // random long decimal expansions around binary64 rounding boundaries
        let x = if r.chance(1, 6) { f64::from_bits(1 + r.below((1u64 << 52) - 1)) } else { r.generic(-1020, 1020) };
        let lo = f64::from_bits(x.to_bits() - 1);
        let t = match r.below(3) {
            0 => format!("{:e}", x),
            1 => {
                // about half-way between two neighbours, written with 25 digits
                let s = format!("{:.25e}", x);
                let s2 = format!("{:.25e}", lo);
                if r.bool() { s } else { s2 }
            }
            _ => format!("{}", x),
        };
        if t.len() > 400 {
            continue;
        }
        let text = format!("M{} 0", t);
        let res = parse_catch(&text);
        o.case(1, "numbers", pk(&text), enc_result(&res), true, res_tag(&res));
    }
    // (f) round trips: writer, Display/parse hypotheses, parser on the written text
    let mut shown: std::collections::HashSet<u64> = std::collections::HashSet::new();
    for i in 0..(120 * scale) {
        let els = gen_rt_path(r, 10, i % 2 == 0);
        let bp = BezPath::from_vec(els.clone());
        let text = bp.to_svg();
        // table of Display strings for the coordinates of this path
        let mut tbl: Vec<f64> = vec![];
        let mut seen: Vec<u64> = vec![];
        for e in &els {
            for x in el_coords(e) {
                if !seen.contains(&x.to_bits()) {
                    seen.push(x.to_bits());
                    let s = format!("{}", x);
                    tbl.push(x);
                    tbl.push(s.len() as f64);
                    tbl.extend(pk(&s)[1..].iter());
                    if shown.insert(x.to_bits()) && shown.len() <= 500 * scale as usize {
                        o.case(6, "display-parse", std::iter::once(x).chain(pk(&s)).collect(), vec![1.0, x, negzero(x), 1.0], true, if s.len() > 30 { "long" } else { "short" });
                    }
                }
            }
        }
        let enc = enc_els(&els);
        let mut args = vec![enc.len() as f64];
        args.extend(enc);
        args.extend(tbl);
        let ncl = els.iter().filter(|e| matches!(e, PathEl::ClosePath)).count();
        o.case(5, "write", args, pk(&text), !els.is_empty(), if ncl > 0 { "with-closepath" } else { "no-closepath" });
        let res = parse_catch(&text);
        let same = matches!(&res, Some(Ok(p)) if p.elements() == &els[..]);
        o.case(1, "roundtrip-parse", pk(&text), enc_result(&res), !els.is_empty(), if same { "elements-identical" } else if closes_followed_by_move(&els) { "elements-differ(unexpected)" } else { "elements-differ(closepath-not-followed-by-moveto)" });
    }
    // (g) Arc::from_svg_arc directly, generic parameters
    for i in 0..(150 * scale) {
        let class = 1 + (i % 2);
        let from = Point::new(r.uniform(-50.0, 50.0), r.uniform(-50.0, 50.0));
        let d = Vec2::new(r.uniform(0.3, 30.0) * if r.bool() { -1.0 } else { 1.0 }, r.uniform(0.3, 30.0) * if r.bool() { -1.0 } else { 1.0 });
        let to = from + d;
        let h = 0.5 * d.hypot();
        let (lo, hi) = if class == 1 { (0.15, 2.5) } else { (-2.0, -0.12) };
        let radii = Vec2::new(h * 10f64.powf(r.uniform(lo, hi)), h * 10f64.powf(r.uniform(lo, hi)));
        let radii = if r.chance(1, 6) { Vec2::new(-radii.x, radii.y) } else { radii };
        let xr = r.uniform(-7.0, 7.0);
        let (la, sw) = (r.bool(), r.bool());
        let sa = SvgArc { from, to, radii, x_rotation: xr, large_arc: la, sweep: sw };
        let args = vec![from.x, from.y, to.x, to.y, radii.x, radii.y, xr, if la { 1.0 } else { 0.0 }, if sw { 1.0 } else { 0.0 }];
        let (out, tag) = match Arc::from_svg_arc(&sa) {
            None => (vec![0.0], "straight".to_string()),
            Some(a) => {
                let n = a.append_iter(0.1).count();
                (vec![1.0, a.center.x, a.center.y, a.radii.x, a.radii.y, a.start_angle, a.sweep_angle, a.x_rotation, n as f64], format!("{} large={} sweep={} n={}", if class == 2 { "radii-scaled-up" } else { "radii-sufficient" }, la as u8, sw as u8, n.min(6)))
            }
        };
        o.case(if class == 1 { 3 } else { 13 }, "from_svg_arc", args, out, true, &tag);
    }
    // straight-line arcs (exact decisions)
    for _ in 0..(12 * scale) {
        let from = Point::new(r.grid(8, 2.0), r.grid(8, 2.0));
        let (to, radii) = match r.below(3) {
            0 => (from, Vec2::new(1.0, 2.0)),
            1 => (Point::new(from.x + 1.0, from.y), Vec2::new(1e-5, 2.0)),
            _ => (Point::new(from.x + 1.0, from.y), Vec2::new(3.0, -1e-6)),
        };
        let sa = SvgArc { from, to, radii, x_rotation: 0.5, large_arc: false, sweep: true };
        let out = match Arc::from_svg_arc(&sa) {
            None => vec![0.0],
            Some(_) => vec![1.0],
        };
        o.case(3, "from_svg_arc", vec![from.x, from.y, to.x, to.y, radii.x, radii.y, 0.5, 0.0, 1.0], out, true, "straight");
    }
    let d: Vec<String> = stats.iter().map(|(k, v)| format!("{}={}", k, v)).collect();
    o.notes.push(format!("C16 spelling distribution (correspondence): {}", d.join(" ")));
}

// ------------------------------------------------------------------ laws

fn fail(class: &str, d: String) -> Option<(String, String)> {
    Some((class.to_string(), d))
}

fn g_seed(r: &mut Rng) -> Vec<f64> {
    vec![(r.next_u64() >> 12) as f64]
}

fn pt_close(a: Point, b: Point, tol: f64) -> bool {
    (a.x - b.x).abs() <= tol && (a.y - b.y).abs() <= tol
}

/// compare what `from_svg` produced with the specification's meaning; arcs by structure and end point
fn compare_with_spec(got: &[PathEl], want: &[El]) -> Result<(), String> {
    let mut i = 0;
    for (k, w) in want.iter().enumerate() {
        match w {
            El::P(e) => {
                if i >= got.len() {
                    return Err(format!("element {} missing: want {:?}", k, e));
                }
                if got[i] != *e {
                    return Err(format!("element {}: got {:?}, the specification says {:?}", k, got[i], e));
                }
                i += 1;
            }
            El::Arc { from, to, rx, ry, .. } => {
                let straight = rx.abs() <= 1e-5 || ry.abs() <= 1e-5 || from == to;
                if straight {
                    if i >= got.len() || got[i] != PathEl::LineTo(*to) {
                        return Err(format!("element {}: degenerate arc should be a line to {:?}", k, to));
                    }
                    i += 1;
                } else {
                    // the cubics of the arc: up to the first piece that ends at the stated end point
                    let tol = 1e-7 * (1.0 + rx.abs().max(ry.abs()) + to.x.abs().max(to.y.abs()) + from.x.abs().max(from.y.abs()));
                    let mut last = None;
                    let mut n = 0;
                    while i < got.len() && n < 4096 {
                        if let PathEl::CurveTo(_, _, p3) = got[i] {
                            last = Some(p3);
                            i += 1;
                            n += 1;
                            if pt_close(p3, *to, tol) {
                                break;
                            }
                        } else {
                            break;
                        }
                    }
                    match last {
                        Some(p) if pt_close(p, *to, tol) => {}
                        _ => return Err(format!("element {}: arc from {:?} does not end at {:?} (ends at {:?}, {} cubics)", k, from, to, last, n)),
                    }
                }
            }
        }
    }
    if i != got.len() {
        return Err(format!("{} surplus elements, first {:?}", got.len() - i, got[i]));
    }
    Ok(())
}

fn first_diff_class(cmds: &[Cmd], text: &str) -> &'static str {
    // name the construct for the violation class: the classes are narrow on purpose
    let mut prev = b'M';
    for c in cmds {
        let l = c.letter().to_ascii_uppercase();
        if l == b'S' && matches!(prev, b'Q' | b'T') {
            return "smooth-cubic-after-quadratic";
        }
        if l == b'T' && matches!(prev, b'C' | b'S') {
            return "smooth-quadratic-after-cubic";
        }
        if (l == b'S' || l == b'T') && prev == b'Z' {
            return "smooth-after-closepath";
        }
        prev = l;
    }
    if text.contains('+') {
        return "explicit-plus-sign";
    }
    "other"
}

/// every spelling of the same command list means what the SVG specification says (exact: dyadic values)
fn law_spellings(a: &[f64]) -> Option<(String, String)> {
    let mut r = Rng::new(a[0] as u64);
    let mut st = BTreeMap::new();
    let smooth_any = r.chance(1, 2);
    let arcs = if r.chance(1, 4) { 3 } else { 0 };
    let cmds = gen_cmds(&mut r, true, arcs, smooth_any, 8);
    let want = spec_interp(&cmds).unwrap();
    let plus = r.chance(1, 2);
    let mut prev: Option<Vec<PathEl>> = None;
    for k in 0..2 {
        let text = render(&mut r, &cmds, SpellOpts { plus, omit: if k == 0 { 6 } else { 2 } }, &mut st);
        let got = match BezPath::from_svg(&text) {
            Ok(p) => p,
            Err(e) => return fail(&format!("spelling:error:{}", first_diff_class(&cmds, &text)), format!("{:?} (commands {:?}) is valid path data but from_svg returns {:?}", text, cmds, e)),
        };
        if let Err(d) = compare_with_spec(got.elements(), &want) {
            return fail(&format!("spelling:{}", first_diff_class(&cmds, &text)), format!("{:?}: {}", text, d));
        }
        if let Some(p) = &prev {
            if p[..] != *got.elements() {
                return fail("spelling:two-spellings-differ", format!("{:?} parses differently from another spelling of the same commands", text));
            }
        }
        prev = Some(got.elements().to_vec());
    }
    None
}

/// the drawing level: the same absolute drawing written with absolute/relative commands, H/V, S/T where
/// applicable (all on a dyadic grid so that relative offsets are exact) yields the same path
fn law_respell_drawing(a: &[f64]) -> Option<(String, String)> {
    let mut r = Rng::new(a[0] as u64);
    let g = |r: &mut Rng| r.range_i(-256, 256) as f64 / 8.0;
    let n = 1 + r.below(8);
    // the drawing, absolute
    let mut els: Vec<PathEl> = vec![PathEl::MoveTo(Point::new(g(&mut r), g(&mut r)))];
    let mut cur = els[0].end_point().unwrap();
    let mut start = cur;
    let mut prev = Prev::Other;
    for _ in 0..n {
        let p = |r: &mut Rng| Point::new(g(r), g(r));
        let refl = |c: Point, q: Point| Point::new(2.0 * c.x - q.x, 2.0 * c.y - q.y);
        match r.below(10) {
            0 => {
                els.push(PathEl::MoveTo(p(&mut r)));
                cur = els.last().unwrap().end_point().unwrap();
                start = cur;
                prev = Prev::Other;
            }
            1 => {
                if matches!(els.last(), Some(PathEl::ClosePath)) {
                    continue;
                }
                els.push(PathEl::ClosePath);
                // what follows must start a new sub-path explicitly (the drawing is an element list)
                els.push(PathEl::MoveTo(start));
                cur = start;
                prev = Prev::Other;
            }
            2 => {
                let q = Point::new(g(&mut r), cur.y);
                els.push(PathEl::LineTo(q));
                cur = q;
                prev = Prev::Other;
            }
            3 => {
                let q = Point::new(cur.x, g(&mut r));
                els.push(PathEl::LineTo(q));
                cur = q;
                prev = Prev::Other;
            }
            4 => {
                let q = p(&mut r);
                els.push(PathEl::LineTo(q));
                cur = q;
                prev = Prev::Other;
            }
            5 | 6 => {
                // cubic; half of the time with the first control point where S would put it
                let p1 = if r.bool() {
                    match prev {
                        Prev::Cubic(c2) => refl(cur, c2),
                        _ => cur,
                    }
                } else {
                    p(&mut r)
                };
                let (p2, p3) = (p(&mut r), p(&mut r));
                els.push(PathEl::CurveTo(p1, p2, p3));
                cur = p3;
                prev = Prev::Cubic(p2);
            }
            _ => {
                let p1 = if r.bool() {
                    match prev {
                        Prev::Quad(q1) => refl(cur, q1),
                        _ => cur,
                    }
                } else {
                    p(&mut r)
                };
                let p2 = p(&mut r);
                els.push(PathEl::QuadTo(p1, p2));
                cur = p2;
                prev = Prev::Quad(p1);
            }
        }
    }
    // ClosePath MoveTo(start) pairs may be written "Z" alone when something other than a moveto follows
    let mut texts = vec![];
    for _ in 0..2 {
        let mut cmds: Vec<Cmd> = vec![];
        let mut cur = Point::new(0.0, 0.0);
        let mut start = cur;
        let mut prev = Prev::Other;
        let mut i = 0;
        while i < els.len() {
            let rel = r.bool();
            let off = |rel: bool, cur: Point, q: Point| if rel { (q.x - cur.x, q.y - cur.y) } else { (q.x, q.y) };
            match els[i] {
                PathEl::MoveTo(q) => {
                    let (x, y) = off(rel, cur, q);
                    cmds.push(Cmd::M(rel, x, y));
                    cur = q;
                    start = q;
                    prev = Prev::Other;
                }
                PathEl::LineTo(q) => {
                    let (x, y) = off(rel, cur, q);
                    if q.y == cur.y && r.chance(2, 3) {
                        cmds.push(Cmd::H(rel, x));
                    } else if q.x == cur.x && r.chance(2, 3) {
                        cmds.push(Cmd::V(rel, y));
                    } else {
                        cmds.push(Cmd::L(rel, x, y));
                    }
                    cur = q;
                    prev = Prev::Other;
                }
                PathEl::CurveTo(p1, p2, p3) => {
                    let s1 = match prev {
                        Prev::Cubic(c2) => Point::new(2.0 * cur.x - c2.x, 2.0 * cur.y - c2.y),
                        _ => cur,
                    };
                    let (a1, a2, a3) = (off(rel, cur, p1), off(rel, cur, p2), off(rel, cur, p3));
                    if p1 == s1 && r.chance(2, 3) {
                        cmds.push(Cmd::S(rel, [a2.0, a2.1, a3.0, a3.1]));
                    } else {
                        cmds.push(Cmd::C(rel, [a1.0, a1.1, a2.0, a2.1, a3.0, a3.1]));
                    }
                    cur = p3;
                    prev = Prev::Cubic(p2);
                }
                PathEl::QuadTo(p1, p2) => {
                    let s1 = match prev {
                        Prev::Quad(q1) => Point::new(2.0 * cur.x - q1.x, 2.0 * cur.y - q1.y),
                        _ => cur,
                    };
                    let (a1, a2) = (off(rel, cur, p1), off(rel, cur, p2));
                    if p1 == s1 && r.chance(2, 3) {
                        cmds.push(Cmd::T(rel, a2.0, a2.1));
                    } else {
                        cmds.push(Cmd::Q(rel, [a1.0, a1.1, a2.0, a2.1]));
                    }
                    cur = p2;
                    prev = Prev::Quad(p1);
                }
                PathEl::ClosePath => {
                    cmds.push(Cmd::Z(r.bool()));
                    cur = start;
                    prev = Prev::Other;
                    // the MoveTo(start) that follows in the drawing is implied when a drawing command follows
                    if i + 2 < els.len() && !matches!(els[i + 2], PathEl::MoveTo(_)) && r.chance(2, 3) {
                        i += 1;
                    }
                }
            }
            i += 1;
        }
        let mut st = BTreeMap::new();
        let plus = r.bool();
        let text = render(&mut r, &cmds, SpellOpts { plus, omit: 4 }, &mut st);
        texts.push((text, cmds));
    }
    for (text, cmds) in &texts {
        match BezPath::from_svg(text) {
            Ok(p) => {
                if p.elements() != &els[..] {
                    let k = p.elements().iter().zip(els.iter()).position(|(a, b)| a != b).unwrap_or(els.len().min(p.elements().len()));
                    return fail(&format!("respell:{}", first_diff_class(cmds, text)), format!("{:?} should draw {:?}; element {} is {:?}", text, els, k, p.elements().get(k)));
                }
            }
            Err(e) => return fail(&format!("respell:error:{}", first_diff_class(cmds, text)), format!("{:?} -> {:?}", text, e)),
        }
    }
    None
}

/// write then parse: same segments; identical elements when every ClosePath is followed by MoveTo or the end
fn law_roundtrip(a: &[f64]) -> Option<(String, String)> {
    let mut r = Rng::new(a[0] as u64);
    let moderate = r.chance(1, 3);
    let els = gen_rt_path(&mut r, 12, moderate);
    let bp = BezPath::from_vec(els.clone());
    let text = bp.to_svg();
    let back = match BezPath::from_svg(&text) {
        Ok(p) => p,
        Err(e) => return fail("roundtrip:parse-error", format!("{:?} written as {:?} does not parse: {:?}", els, text, e)),
    };
    let s0: Vec<PathSeg> = bp.segments().collect();
    let s1: Vec<PathSeg> = back.segments().collect();
    if s0 != s1 {
        return fail("roundtrip:segments", format!("{:?} -> {:?} -> segments {:?} instead of {:?}", els, text, s1, s0));
    }
    // bitwise, so that the sign of zero counts
    let bits = |s: &[PathEl]| -> Vec<u64> { s.iter().flat_map(|e| el_coords(e)).map(|x| x.to_bits()).collect() };
    if closes_followed_by_move(&els) {
        if back.elements() != &els[..] || bits(back.elements()) != bits(&els) {
            return fail("roundtrip:elements", format!("{:?} -> {:?} -> {:?}", els, text, back.elements()));
        }
    } else {
        // exactly the implied MoveTo after each ClosePath not followed by one
        let mut want = vec![];
        let mut start = Point::new(0.0, 0.0);
        for (i, e) in els.iter().enumerate() {
            want.push(*e);
            if let PathEl::MoveTo(p) = e {
                start = *p;
            }
            if matches!(e, PathEl::ClosePath) && i + 1 < els.len() && !matches!(els[i + 1], PathEl::MoveTo(_)) {
                want.push(PathEl::MoveTo(start));
            }
        }
        if back.elements() != &want[..] {
            return fail("roundtrip:elements-implied-moveto", format!("{:?} -> {:?} -> {:?}", els, text, back.elements()));
        }
    }
    // the text uses only the documented shape: letters M L Q C Z, decimal numbers without exponent
    if !text.bytes().all(|c| b"MLQCZ0123456789.,- ".contains(&c)) {
        return fail("roundtrip:writer-alphabet", format!("{:?}", text));
    }
    None
}

/// malformed number / unknown letter / missing moveto / truncated data give the documented error
fn law_errors(a: &[f64]) -> Option<(String, String)> {
    let mut r = Rng::new(a[0] as u64);
    let (text, want) = gen_malformed(&mut r);
    let res = Some(BezPath::from_svg(&text));
    let got = res_tag(&res);
    if got != want {
        return fail(&format!("errors:{}", want), format!("{:?}: expected {}, got {} ({:?})", text, want, got, res.unwrap().map(|p| p.to_svg())));
    }
    None
}

fn g_bytes(r: &mut Rng) -> Vec<f64> {
    bytes_f(&gen_bytes(r, true))
}

/// arbitrary bytes: no panic (the caller catches unwinding), and the result is self-consistent:
/// an `Ok` path starts with MoveTo, contains only finite-or-overflowed numbers, and re-parsing the
/// re-written path gives the same segments when all coordinates are finite
fn law_bytes(a: &[f64]) -> Option<(String, String)> {
    let s: String = a.iter().map(|x| *x as u8 as char).collect();
    match BezPath::from_svg(&s) {
        Err(_) => None,
        Ok(p) => {
            let els = p.elements();
            if !els.is_empty() && !matches!(els[0], PathEl::MoveTo(_)) {
                return fail("bytes:no-initial-moveto", format!("{:?} -> {:?}", s, els));
            }
            let finite = els.iter().flat_map(|e| el_coords(e)).all(|x| x.is_finite());
            if finite {
                match BezPath::from_svg(&p.to_svg()) {
                    Ok(q) => {
                        if q.segments().collect::<Vec<_>>() != p.segments().collect::<Vec<_>>() {
                            return fail("bytes:rewrite", format!("{:?}", s));
                        }
                    }
                    Err(e) => return fail("bytes:rewrite-error", format!("{:?}: {:?}", s, e)),
                }
            }
            None
        }
    }
}

fn g_arc(r: &mut Rng) -> Vec<f64> {
    let from = (r.uniform(-100.0, 100.0), r.uniform(-100.0, 100.0));
    let rx = 10f64.powf(r.uniform(-3.0, 3.0));
    let ry = 10f64.powf(r.uniform(-3.0, 3.0));
    // chord between 1e-3 and 3 times the smaller radius, so that both "radii large enough" and
    // "radii scaled up" occur, away from the borderline (checked in the law)
    // ... and, now and then, a chord that is tiny against the radii (down to underflow): the arc
    // degenerates numerically, but the path must still reach the end point
    let (len, from) = match r.below(12) {
        // (from the origin, so that the tiny chord is not absorbed by the coordinates)
        0 => (rx.min(ry) * 10f64.powf(r.uniform(-20.0, -8.0)), (0.0, 0.0)),
        1 => (10f64.powf(r.uniform(-300.0, -150.0)), (0.0, 0.0)),
        _ => (rx.min(ry) * 10f64.powf(r.uniform(-3.0, 0.7)), from),
    };
    let ang = r.uniform(0.0, 6.283);
    let rot = r.uniform(-360.0, 360.0);
    vec![from.0, from.1, from.0 + len * ang.cos(), from.1 + len * ang.sin(), rx, ry, rot, r.below(2) as f64, r.below(2) as f64]
}

/// an arc command yields cubics from the current point to the stated end point, on the ellipse the
/// specification defines (appendix F.6), turning in the requested direction, the long way round iff large-arc
fn law_arc(a: &[f64]) -> Option<(String, String)> {
    let (x0, y0, x1, y1, rx, ry, rot, large, sweep) = (a[0], a[1], a[2], a[3], a[4], a[5], a[6], a[7] != 0.0, a[8] != 0.0);
    let text = format!("M{} {} A{} {} {} {} {} {} {}", x0, y0, rx, ry, rot, large as u8, sweep as u8, x1, y1);
    let p = match BezPath::from_svg(&text) {
        Ok(p) => p,
        Err(e) => return fail("arc:error", format!("{:?}: {:?}", text, e)),
    };
    if ((x0 - x1).abs() + (y0 - y1).abs()) < 1e-6 * rx.min(ry) {
        // numerically degenerate: only "something from the current point to the stated end point"
        let els = p.elements();
        let last = els.last().and_then(|e| e.end_point());
        if els.len() < 2 || last.map_or(true, |q| !pt_close(q, Point::new(x1, y1), 1e-9 * (1.0 + rx.max(ry)))) {
            return fail("arc:degenerate-no-end-point", format!("{:?} -> {:?}: does not reach the stated end point", text, els));
        }
        if els.iter().flat_map(|e| el_coords(e)).any(|v| !v.is_finite()) {
            return fail("arc:degenerate-non-finite", format!("{:?} -> {:?}", text, els));
        }
        return None;
    }
    // F.6.5 computed independently
    let phi = rot.to_radians();
    let (s, c) = (phi.sin(), phi.cos());
    let (dx, dy) = ((x0 - x1) / 2.0, (y0 - y1) / 2.0);
    let (xp, yp) = (c * dx + s * dy, -s * dx + c * dy);
    let lam = xp * xp / (rx * rx) + yp * yp / (ry * ry);
    if (lam - 1.0).abs() < 1e-3 {
        return None; // borderline: the half-ellipse, where large-arc is not meaningful
    }
    let (rx, ry) = if lam > 1.0 { (rx * lam.sqrt(), ry * lam.sqrt()) } else { (rx, ry) };
    let num = (rx * rx * ry * ry - rx * rx * yp * yp - ry * ry * xp * xp).max(0.0);
    let den = rx * rx * yp * yp + ry * ry * xp * xp;
    let k = (num / den).sqrt() * if large == sweep { -1.0 } else { 1.0 };
    let (cxp, cyp) = (k * rx * yp / ry, -k * ry * xp / rx);
    let (cx, cy) = (c * cxp - s * cyp + (x0 + x1) / 2.0, s * cxp + c * cyp + (y0 + y1) / 2.0);
    // unit-circle coordinates of a point
    let unit = |q: Point| {
        let (ux, uy) = (q.x - cx, q.y - cy);
        ((c * ux + s * uy) / rx, (-s * ux + c * uy) / ry)
    };
    let els = p.elements();
    let scale = 1.0 + rx.max(ry) + x0.abs().max(y0.abs()).max(x1.abs()).max(y1.abs());
    if els.len() < 2 {
        return fail("arc:empty", format!("{:?} -> {:?}", text, els));
    }
    let mut prev = Point::new(x0, y0);
    let mut total = 0.0;
    let cond = (rx / ry).max(ry / rx);
    for e in &els[1..] {
        let (p1, p2, p3) = match e {
            PathEl::CurveTo(a, b, c) => (*a, *b, *c),
            other => return fail("arc:element-kind", format!("{:?}: {:?}", text, other)),
        };
        let _ = (p1, p2);
        let (ux, uy) = unit(p3);
        if ((ux * ux + uy * uy).sqrt() - 1.0).abs() > 1e-6 * cond {
            return fail("arc:off-ellipse", format!("{:?}: end point {:?} of a piece is not on the ellipse (|u|={})", text, p3, (ux * ux + uy * uy).sqrt()));
        }
        // the middle of the cubic is close to the ellipse (tolerance 0.1 of to_cubic_beziers, generous)
        let m = kurbo::ParamCurve::eval(&kurbo::CubicBez::new(prev, p1, p2, p3), 0.5);
        let (mx, my) = unit(m);
        if ((mx * mx + my * my).sqrt() - 1.0).abs() * rx.min(ry) > 0.25 {
            return fail("arc:piece-off-ellipse", format!("{:?}: midpoint {:?}", text, m));
        }
        let (vx, vy) = unit(prev);
        let da = (vx * uy - vy * ux).atan2(vx * ux + vy * uy);
        if (da > 0.0) != sweep {
            return fail("arc:sweep-direction", format!("{:?}: a piece turns by {} but sweep={}", text, da, sweep));
        }
        total += da;
        prev = p3;
    }
    if !pt_close(prev, Point::new(x1, y1), 1e-9 * scale * cond) {
        return fail("arc:end-point", format!("{:?}: ends at {:?}", text, prev));
    }
    if (total.abs() > std::f64::consts::PI) != large && lam <= 1.0 {
        return fail("arc:large-arc", format!("{:?}: turns by {} with large-arc={}", text, total, large));
    }
    None
}

fn laws() -> Vec<Law> {
    // (the rarer violation classes first: the driver keeps the first 200 violations)
    vec![
        Law { name: "arc", gen: g_arc, check: law_arc, weight: 2 },
        Law { name: "errors", gen: g_seed, check: law_errors, weight: 2 },
        Law { name: "roundtrip", gen: g_seed, check: law_roundtrip, weight: 3 },
        Law { name: "bytes", gen: g_bytes, check: law_bytes, weight: 4 },
        Law { name: "respell_drawing", gen: g_seed, check: law_respell_drawing, weight: 3 },
        Law { name: "spellings", gen: g_seed, check: law_spellings, weight: 4 },
    ]
}

// ------------------------------------------------------------------ extra: witnesses of the findings, distribution

fn extra(r: &mut Rng, thorough: bool, o: &mut Out) {
    // distribution of the malformed stream and of the arbitrary byte stream (error kinds)
    let mut dist: BTreeMap<String, u64> = BTreeMap::new();
    let n = if thorough { 20000 } else { 2000 };
    for _ in 0..n {
        let (t, want) = gen_malformed(r);
        let got = res_tag(&parse_catch(&t));
        *dist.entry(format!("malformed:{}{}", got, if got == want { "" } else { "!" })).or_default() += 1;
        let b = gen_bytes(r, true);
        *dist.entry(format!("bytes:{}", res_tag(&parse_catch(&b)))).or_default() += 1;
    }
    let d: Vec<String> = dist.iter().map(|(k, v)| format!("{}={}", k, v)).collect();
    o.notes.push(format!("C16 error-kind distribution: {}", d.join(" ")));

    // the witnesses named in docs/C16.md, replayed on the implementation
    let w = |s: &str| parse_catch(s).and_then(|r| r.ok()).map(|p| p.to_svg());
    let plus = w("m1 1 +2 3");
    o.notes.push(format!("witness m1 1 +2 3 -> {:?} (required M1,1 L3,4)", plus));
    let sq = w("M0 0 Q1 1 2 0 S 3 1 4 0");
    o.notes.push(format!("witness M0 0 Q1 1 2 0 S 3 1 4 0 -> {:?} (required ... C2,0 3,1 4,0)", sq));
    let tiny = parse_catch("M0 0A1 1 0 0 0 1e-200 0");
    o.notes.push(format!("witness M0 0A1 1 0 0 0 1e-200 0 -> {}", match &tiny { None => "panic".to_string(), Some(r) => format!("{:?}", r.as_ref().map(|p| p.to_svg())) }));
}
