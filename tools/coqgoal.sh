#!/bin/bash
# usage: tools/coqgoal.sh <file.v relative to coq/> <line> [timeout_s] [tail_lines]
# Runs the file up to <line> under a time and memory limit and prints the open goals.
f=$1; n=$2; t=${3:-60}
tmp=$(mktemp /tmp/coqgoal_XXXXXX.v)
head -n "$n" "/verif/coq/$f" > "$tmp"
echo "Show." >> "$tmp"
cd /verif/coq && ( ulimit -v 12000000; timeout "$t" coqtop -Q base KV -Q model KV -Q spec KV -Q proofs KV -Q corr KV -Q Properties KV -batch -l "$tmp" 2>&1 | grep -v "coercion path\|ambiguous-paths\|^Warning:$" | tail -"${4:-40}" )
echo "rc=$?"
rm -f "$tmp"
