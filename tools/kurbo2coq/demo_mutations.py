#!/usr/bin/env python3
"""Demonstration: single-token mutations of the Rust source flip exactly the mutated function to
`differs`; harmless refactors keep `equal`.  Works in a scratch worktree (/tmp/wt-tr), never in /repo.

usage: python3 tools/kurbo2coq/demo_mutations.py [substring of a mutation name or file ...]
"""
import json, os, subprocess, sys, time

VERIF = os.path.dirname(os.path.dirname(os.path.dirname(os.path.abspath(__file__))))
WT = os.environ.get('KV_DEMO_WT', '/tmp/wt-tr')
WORK = os.environ.get('KV_DEMO_WORK', '/tmp/trw-demo')

# (name, file, old, new, expected set of non-equal functions)
MUTS = [
    ('operand swap in Affine * Affine', 'kurbo/src/affine.rs',
     'self.0[0] * other.0[0] + self.0[2] * other.0[1],', 'other.0[0] * self.0[0] + self.0[2] * other.0[1],',
     {'affine.rs::<Affine as Mul>::mul'}),
    ('< -> <= in Rect::contains', 'kurbo/src/rect.rs',
     'point.x >= self.x0 && point.x < self.x1 &&', 'point.x >= self.x0 && point.x <= self.x1 &&',
     {'rect.rs::Rect::contains'}),
    ('constant 20.0 -> 10.0 in CubicBez::signed_area', 'kurbo/src/cubicbez.rs',
     '* (1.0 / 20.0)', '* (1.0 / 10.0)',
     {'cubicbez.rs::<CubicBez as ParamCurveArea>::signed_area'}),
    ('min -> max in Rect::union', 'kurbo/src/rect.rs',
     'self.x0.min(other.x0),', 'self.x0.max(other.x0),',
     {'rect.rs::Rect::union'}),
    ('dropped term in CubicBez::eval', 'kurbo/src/cubicbez.rs',
     '(self.p2.to_vec2() * (mt * 3.0) + self.p3.to_vec2() * t) * t)', '(self.p2.to_vec2() * (mt * 3.0)) * t)',
     {'cubicbez.rs::<CubicBez as ParamCurve>::eval'}),
    ('sign dropped in Affine::inverse', 'kurbo/src/affine.rs',
     '-inv_det * self.0[1],', 'inv_det * self.0[1],',
     {'affine.rs::Affine::inverse'}),
    ('index 4 -> 5 in Affine::then_translate', 'kurbo/src/affine.rs',
     'self.0[4] += trans.x;', 'self.0[5] += trans.x;',
     {'affine.rs::Affine::then_translate'}),
    ('0.5 -> 0.25 in Point::midpoint', 'kurbo/src/point.rs',
     'Point::new(0.5 * (self.x + other.x), 0.5 * (self.y + other.y))', 'Point::new(0.25 * (self.x + other.x), 0.5 * (self.y + other.y))',
     {'point.rs::Point::midpoint'}),
    ('branches swapped in Rect::expand', 'kurbo/src/rect.rs',
     '''        let (x0, x1) = if self.x0 < self.x1 {
            (self.x0.floor(), self.x1.ceil())''', '''        let (x0, x1) = if self.x0 > self.x1 {
            (self.x0.floor(), self.x1.ceil())''',
     {'rect.rs::Rect::expand'}),
    ('> -> >= in solve_quadratic root ordering', 'kurbo/src/common.rs',
     'if root2 > root1 {', 'if root2 >= root1 {',
     {'common.rs::solve_quadratic'}),
    ('early return dropped in solve_quadratic (arg < 0)', 'kurbo/src/common.rs',
     'if arg < 0.0 {\n            return result;\n        } else if arg == 0.0 {', 'if arg == 0.0 {',
     {'common.rs::solve_quadratic'}),
    ('PathSeg::start dispatches Quad to end()', 'kurbo/src/bezpath.rs',
     'PathSeg::Quad(quad) => quad.start(),', 'PathSeg::Quad(quad) => quad.end(),',
     {'bezpath.rs::<PathSeg as ParamCurve>::start'}),
    ('self * T -> T * self in Affine::pre_scale', 'kurbo/src/affine.rs',
     '        self * Affine::scale(scale)\n', '        Affine::scale(scale) * self\n',
     {'affine.rs::Affine::pre_scale'}),
    ('recip dropped in Vec2 / f64', 'kurbo/src/vec2.rs',
     'self * other.recip()', 'self * other',
     {'vec2.rs::<Vec2 as Div<f64>>::div'}),
    # harmless refactors: introduce a let, rename a variable
    ('REFACTOR rename mt -> one_minus_t in QuadBez::eval', 'kurbo/src/quadbez.rs',
     '''        let mt = 1.0 - t;
        (self.p0.to_vec2() * (mt * mt)
            + (self.p1.to_vec2() * (mt * 2.0) + self.p2.to_vec2() * t) * t)''',
     '''        let one_minus_t = 1.0 - t;
        (self.p0.to_vec2() * (one_minus_t * one_minus_t)
            + (self.p1.to_vec2() * (one_minus_t * 2.0) + self.p2.to_vec2() * t) * t)''',
     set()),
    ('REFACTOR let + struct pattern with `..` in Rect::union', 'kurbo/src/rect.rs',
     '''        Rect::new(
            self.x0.min(other.x0),
            self.y0.min(other.y0),''', '''        let left = self.x0.min(other.x0);
        let Rect { y0: oy0, .. } = other;
        Rect::new(
            left,
            self.y0.min(oy0),''',
     set()),
    ('REFACTOR introduce a let in Rect::union', 'kurbo/src/rect.rs',
     '''        Rect::new(
            self.x0.min(other.x0),
            self.y0.min(other.y0),''', '''        let left = self.x0.min(other.x0);
        let other_top = other.y0;
        Rect::new(
            left,
            self.y0.min(other_top),''',
     set()),
    ('REFACTOR early return instead of else in eps_rel', 'kurbo/src/common.rs',
     '''    if a == 0.0 {
        raw.abs()
    } else {
        ((raw - a) / a).abs()
    }''', '''    if a == 0.0 {
        return raw.abs();
    }
    let rel = (raw - a) / a;
    rel.abs()''',
     set()),
    ('REFACTOR extrema_ranges pushes via a temporary', 'kurbo/src/param_curve.rs',
     '            result.push(t0..t);\n            t0 = t;\n', '            let piece = t0..t;\n            result.push(piece);\n            t0 = t;\n',
     set()),
    # ---- phase 2 families: &mut self state transformers, loops, bridges
    ('state field not updated in DashIterator::step', 'kurbo/src/stroke.rs',
     '            self.seg_remaining -= self.dash_remaining;\n', '',
     {"stroke.rs::DashIterator<'a,T>::step"}),
    ('wrong state in DashIterator::handle_closepath', 'kurbo/src/stroke.rs',
     '        self.state = DashState::FromStash;\n        self.reset_phase();', '        self.state = DashState::ToStash;\n        self.reset_phase();',
     {"stroke.rs::DashIterator<'a,T>::handle_closepath"}),
    ('comparison flipped in PathSeg::winding_inner (line branch)', 'kurbo/src/bezpath.rs',
     'if p.x < start.x.min(end.x) {', 'if p.x <= start.x.min(end.x) {',
     {'bezpath.rs::PathSeg::winding_inner'}),
    ('root test 0..=1 -> 0..1 in winding_inner (cubic loop)', 'kurbo/src/bezpath.rs',
     'for t in solve_cubic(d, c, b, a) {\n                    if (0.0..=1.0).contains(&t) {',
     'for t in solve_cubic(d, c, b, a) {\n                    if (0.0..1.0).contains(&t) {',
     {'bezpath.rs::PathSeg::winding_inner'}),
    ('PathSeg::winding: wrong test for a monotone segment', 'kurbo/src/bezpath.rs',
     'if ranges.len() == 1 {', 'if ranges.len() == 0 {',
     {'bezpath.rs::PathSeg::winding'}),
    ('dropped one_coord call (the y roots) in CubicBez::extrema', 'kurbo/src/cubicbez.rs',
     '        one_coord(&mut result, d0.y, d1.y, d2.y);\n', '',
     {'cubicbez.rs::<CubicBez as ParamCurveExtrema>::extrema'}),
    ('dropped push in one_coord', 'kurbo/src/cubicbez.rs',
     'if t > 0.0 && t < 1.0 {\n                    result.push(t);', 'if t > 0.0 && t < 1.0 {\n                    let _ = t;',
     'ANYSTATUS:cubicbez.rs::extrema::one_coord'),
    ('swap dropped in QuadBez::extrema', 'kurbo/src/quadbez.rs',
     'if result.len() == 2 && result[0] > t {', 'if result.len() == 3 && result[0] > t {',
     {'quadbez.rs::<QuadBez as ParamCurveExtrema>::extrema'}),
    ('t0 not advanced in extrema_ranges', 'kurbo/src/param_curve.rs',
     '            result.push(t0..t);\n            t0 = t;\n', '            result.push(t0..t);\n',
     {'param_curve.rs::<PathSeg as ParamCurveExtrema (default)>::extrema_ranges'}),
    ('bounding_box starts from swapped end points', 'kurbo/src/param_curve.rs',
     'Rect::from_points(self.start(), self.end())', 'Rect::from_points(self.end(), self.start())',
     {'param_curve.rs::<QuadBez as ParamCurveExtrema (default)>::bounding_box', 'param_curve.rs::<CubicBez as ParamCurveExtrema (default)>::bounding_box',
      'param_curve.rs::<PathSeg as ParamCurveExtrema (default)>::bounding_box'}),
    ('inner pivot on the wrong side in StrokeCtx::do_join', 'kurbo/src/stroke.rs',
     'if cross > 0.0 {\n                    self.backward_path.line_to(p0);', 'if cross > 0.0 {\n                    self.forward_path.line_to(p0);',
     {'stroke.rs::StrokeCtx::do_join'}),
    ('last_pt not updated in StrokeCtx::do_line', 'kurbo/src/stroke.rs',
     '        self.backward_path.line_to(p1 + norm);\n        self.last_pt = p1;', '        self.backward_path.line_to(p1 + norm);',
     {'stroke.rs::StrokeCtx::do_line'}),
    ('forward path not cleared in StrokeCtx::finish', 'kurbo/src/stroke.rs',
     'true, self.start_pt, self.start_norm),\n        }\n\n        self.forward_path.truncate(0);', 'true, self.start_pt, self.start_norm),\n        }\n',
     {'stroke.rs::StrokeCtx::finish'}),
    # ---- phase 3: state machines tied by simulation
    ('ClosePath arm of Segments::next does not reset `last`', 'kurbo/src/bezpath.rs',
     'PathSeg::Line(Line::new(mem::replace(last, *start), *start))', 'PathSeg::Line(Line::new(*last, *start))',
     {'bezpath.rs::<Segments<I> as Iterator>::next'}),
    ('MoveTo arm of Segments::next forgets `start`', 'kurbo/src/bezpath.rs',
     '                    *start = p;\n                    *last = p;\n                    continue;', '                    *last = p;\n                    continue;',
     {'bezpath.rs::<Segments<I> as Iterator>::next'}),
    ('get_seg: search range off by one', 'kurbo/src/bezpath.rs',
     'self.0[..ix].iter().rev().find_map(', 'self.0[..ix - 1].iter().rev().find_map(',
     {'bezpath.rs::BezPath::get_seg'}),
    ('reverse_subpath skips the MoveTo', 'kurbo/src/bezpath.rs',
     '    reversed.push(PathEl::MoveTo(end_pt));\n    for (ix, el) in els.iter().enumerate().rev() {', '    let _ = end_pt;\n    for (ix, el) in els.iter().enumerate().rev() {',
     {'bezpath.rs::reverse_subpath'}),
    ('reverse_subpaths: <= -> < before a ClosePath', 'kurbo/src/bezpath.rs',
     'if start_ix <= ix {', 'if start_ix < ix {',
     {'bezpath.rs::BezPath::reverse_subpaths'}),
    ('from_path_segments tracks the start instead of the end', 'kurbo/src/svg.rs',
     'current_pos = Some(segment.end());', 'current_pos = Some(segment.start());',
     {'svg.rs::BezPath::from_path_segments'}),
    ('DashIterator::next keeps closepath_pending set', 'kurbo/src/stroke.rs',
     '                            self.closepath_pending = false;\n                            self.state = DashState::NeedInput;', '                            self.state = DashState::NeedInput;',
     {"stroke.rs::<DashIterator<'_,T> as Iterator>::next"}),
    # ---- phase 4: the SVG lexer (simulation, abs (data, ix) = skipn ix data)
    ("`+` dropped from get_cmd's number-start test", 'kurbo/src/svg.rs',
     "(c == b'-' || c == b'+' || c == b'.' || c.is_ascii_digit())", "(c == b'-' || c == b'.' || c.is_ascii_digit())",
     {"svg.rs::SvgLexer<'_>::get_cmd"}),
    ('relative/absolute swapped in get_maybe_relative', 'kurbo/src/svg.rs',
     'if cmd.is_ascii_lowercase() {\n            Ok(self.last_pt + pt.to_vec2())', 'if cmd.is_ascii_uppercase() {\n            Ok(self.last_pt + pt.to_vec2())',
     {"svg.rs::SvgLexer<'_>::get_maybe_relative"}),
    ('exponent sign `+` dropped in get_number', 'kurbo/src/svg.rs',
     "                if c == b'-' || c == b'+' {\n                    c = self.get_byte()", "                if c == b'-' {\n                    c = self.get_byte()",
     {"svg.rs::SvgLexer<'_>::get_number"}),
    ('form feed no longer whitespace in skip_ws', 'kurbo/src/svg.rs',
     "c == 10 || c == 12 || c == 13", "c == 10 || c == 11 || c == 13",
     {"svg.rs::SvgLexer<'_>::skip_ws"}),
    ('get_flag reads `1` as false', 'kurbo/src/svg.rs',
     "b'1' => Ok(true),", "b'1' => Ok(false),",
     {"svg.rs::SvgLexer<'_>::get_flag"}),
    ('opt_comma puts back the comma instead of the other byte', 'kurbo/src/svg.rs',
     "            if c != b',' {\n                self.unget();", "            if c == b',' {\n                self.unget();",
     {"svg.rs::SvgLexer<'_>::opt_comma"}),
    ('second get_number of get_number_pair skipped comma handling', 'kurbo/src/svg.rs',
     '        let x = self.get_number()?;\n        self.opt_comma();\n        let y', '        let x = self.get_number()?;\n        let y',
     {"svg.rs::SvgLexer<'_>::get_number_pair"}),
    # the body of from_svg's command loop (tied to the model's step_cmd by simulation) and Arc::from_svg_arc
    ('last_ctrl not updated in the Q arm of from_svg', 'kurbo/src/svg.rs',
     '                    path.quad_to(p1, p2);\n                    last_ctrl = Some(p1);\n                    lexer.last_pt = p2;\n                    last_cmd = c;\n                }\n                b\'t\'',
     '                    path.quad_to(p1, p2);\n                    lexer.last_pt = p2;\n                    last_cmd = c;\n                }\n                b\'t\'',
     {'svg.rs::BezPath::from_svg (loop body)'}),
    ('S arm of from_svg reflects after q/Q/t/T instead of c/C/s/S', 'kurbo/src/svg.rs',
     "Some(ctrl) if matches!(last_cmd, b'c' | b'C' | b's' | b'S') => {", "Some(ctrl) if matches!(last_cmd, b'q' | b'Q' | b't' | b'T') => {",
     {'svg.rs::BezPath::from_svg (loop body)'}),
    ('h arm of from_svg adds last_pt.y instead of last_pt.x', 'kurbo/src/svg.rs',
     'x += lexer.last_pt.x;', 'x += lexer.last_pt.y;',
     {'svg.rs::BezPath::from_svg (loop body)'}),
    ('from_svg starts with last_cmd = 1 instead of 0', 'kurbo/src/svg.rs',
     'let mut last_cmd = 0;', 'let mut last_cmd = 1;',
     {'svg.rs::BezPath::from_svg'}),
    ('from_svg forgets the parsed path (returns an empty one)', 'kurbo/src/svg.rs',
     '        Ok(path)\n    }\n}\n\n/// An error which can be returned when parsing an SVG.', '        Ok(BezPath::new())\n    }\n}\n\n/// An error which can be returned when parsing an SVG.',
     {'svg.rs::BezPath::from_svg'}),
    ('large_arc == sweep -> != in Arc::from_svg_arc', 'kurbo/src/svg.rs',
     'let sign_coe = if arc.large_arc == arc.sweep {', 'let sign_coe = if arc.large_arc != arc.sweep {',
     {'svg.rs::Arc::from_svg_arc'}),
    ('is_straight_line threshold 1e-5 -> 1e-6', 'kurbo/src/svg.rs',
     'self.radii.x.abs() <= 1e-5 ||', 'self.radii.x.abs() <= 1e-6 ||',
     {'svg.rs::SvgArc::is_straight_line'}),
    # folds over a consumed Segments (tr_drain of the tied `next`) and the Shape methods on top
    ('Segments::bounding_box unions in the other order', 'kurbo/src/bezpath.rs',
     'bbox = Some(bb.union(seg_bb));', 'bbox = Some(seg_bb.union(bb));',
     {'bezpath.rs::Segments<I>::bounding_box'}),
    ('Segments::winding negates each contribution', 'kurbo/src/bezpath.rs',
     'self.map(|seg| seg.winding(p)).sum()', 'self.map(|seg| -seg.winding(p)).sum()',
     {'bezpath.rs::Segments<I>::winding'}),
    ('Segments::area sums arc lengths', 'kurbo/src/bezpath.rs',
     'self.map(|seg| seg.signed_area()).sum()', 'self.map(|seg| seg.arclen(1e-9)).sum()',
     {'bezpath.rs::Segments<I>::area'}),
    # the body of flatten's element loop (MoveTo/LineTo/QuadTo/ClosePath arms)
    ('flatten forgets the current point after ClosePath (the pre-repair C05 behaviour)', 'kurbo/src/bezpath.rs',
     '                last_pt = start_pt;\n                callback(PathEl::ClosePath);', '                last_pt = None;\n                callback(PathEl::ClosePath);',
     {'bezpath.rs::flatten (loop body)'}),
    ('flatten QuadTo arm: u = i / step', 'kurbo/src/bezpath.rs',
     'let u = (i as f64) * step;', 'let u = (i as f64) / step;',
     {'bezpath.rs::flatten (loop body)'}),
    # the CurveTo arm of flatten's loop body (consumed ToQuads, quad_buf, the `while` with `break` under the model's bound)
    ('flatten CurveTo arm: the inner loop stops one vertex early (i == n)', 'kurbo/src/bezpath.rs',
     '                            if i == n + 1 {', '                            if i == n {',
     {'bezpath.rs::flatten (loop body)'}),
    ('flatten CurveTo arm: u = (target + val_sum) * recip_val', 'kurbo/src/bezpath.rs',
     'let u = (target - val_sum) * recip_val;', 'let u = (target + val_sum) * recip_val;',
     {'bezpath.rs::flatten (loop body)'}),
    ('flatten CurveTo arm: the remaining tolerance is not used for the pieces', 'kurbo/src/bezpath.rs',
     'let params = q.estimate_subdiv(sqrt_remain_tol);', 'let params = q.estimate_subdiv(sqrt_tol);',
     {'bezpath.rs::flatten (loop body)'}),
    ('REFACTOR flatten CurveTo arm: a let for target - val_sum', 'kurbo/src/bezpath.rs',
     'let u = (target - val_sum) * recip_val;', 'let d = target - val_sum;\n                            let u = d * recip_val;',
     set()),
    # flatten as a whole (the fold over the path around the step function)
    ('flatten passes the tolerance itself as sqrt_tol (flips the whole function only)', 'kurbo/src/bezpath.rs',
     '    let sqrt_tol = tolerance.sqrt();\n    let mut start_pt = None;', '    let sqrt_tol = tolerance;\n    let mut start_pt = None;',
     {'bezpath.rs::flatten'}),
    ("dash_impl's initial phase does not toggle is_active", 'kurbo/src/stroke.rs',
     '        dash_remaining += dashes[dash_ix];\n        is_active = !is_active;', '        dash_remaining += dashes[dash_ix];\n        is_active = is_active;',
     {'stroke.rs::dash_impl (loop body)'}),
    # CubicBez::nearest: the loop over the consumed ToQuads iterator (tr_drain of the tied `next`)
    ('CubicBez::nearest keeps the later of two equally near pieces (< -> <=)', 'kurbo/src/cubicbez.rs',
     '.map(|best_r| nearest.distance_sq < best_r)', '.map(|best_r| nearest.distance_sq <= best_r)',
     {'cubicbez.rs::<CubicBez as ParamCurveNearest>::nearest'}),
    ('CubicBez::nearest maps the piece parameter with t1 + t0', 'kurbo/src/cubicbez.rs',
     'best_t = t0 + nearest.t * (t1 - t0);', 'best_t = t0 + nearest.t * (t1 + t0);',
     {'cubicbez.rs::<CubicBez as ParamCurveNearest>::nearest'}),
    ('ToQuads::next advances by two (flips next only: its users are proved against its specification)', 'kurbo/src/cubicbez.rs',
     '        self.i += 1;\n        Some((t0, t1, result))', '        self.i += 2;\n        Some((t0, t1, result))',
     {'cubicbez.rs::<ToQuads as Iterator>::next'}),
    ('PathSeg::nearest reverses the line first', 'kurbo/src/bezpath.rs',
     'PathSeg::Line(line) => line.nearest(p, accuracy),', 'PathSeg::Line(line) => line.reversed().nearest(p, accuracy),',
     {'bezpath.rs::<PathSeg as ParamCurveNearest>::nearest'}),
    ('REFACTOR rename nearest -> nr in CubicBez::nearest', 'kurbo/src/cubicbez.rs',
     '''            let nearest = q.nearest(p, accuracy);
            if best_r
                .map(|best_r| nearest.distance_sq < best_r)
                .unwrap_or(true)
            {
                best_t = t0 + nearest.t * (t1 - t0);
                best_r = Some(nearest.distance_sq);''',
     '''            let nr = q.nearest(p, accuracy);
            let d = nr.distance_sq;
            if best_r
                .map(|best_r| d < best_r)
                .unwrap_or(true)
            {
                best_t = t0 + nr.t * (t1 - t0);
                best_r = Some(d);''',
     set()),
    # dash_impl as a whole (the loop around the step function, the DashIterator literal)
    ("dash_impl's loop condition skips an exhausted *on* interval instead (flips the whole function only)", 'kurbo/src/stroke.rs',
     'while dash_remaining < 0.0 || (dash_remaining == 0.0 && !is_active) {', 'while dash_remaining < 0.0 || (dash_remaining == 0.0 && is_active) {',
     {'stroke.rs::dash_impl'}),
    ('dash_impl builds the iterator with input_done = true', 'kurbo/src/stroke.rs',
     '        inner,\n        input_done: false,', '        inner,\n        input_done: true,',
     {'stroke.rs::dash_impl'}),
    ('dash_impl records the initial phase before the loop result (init_dash_ix: 0)', 'kurbo/src/stroke.rs',
     '        init_dash_ix: dash_ix,', '        init_dash_ix: 0,',
     {'stroke.rs::dash_impl'}),
    # extend_reversed: the reversed index loop against the model's structural recursion
    ('extend_reversed does not swap the control points of a cubic', 'kurbo/src/stroke.rs',
     'PathEl::CurveTo(p1, p2, _) => out.curve_to(p2, p1, end),', 'PathEl::CurveTo(p1, p2, _) => out.curve_to(p1, p2, end),',
     {'stroke.rs::extend_reversed'}),
    ('extend_reversed also visits index 0', 'kurbo/src/stroke.rs',
     'for i in (1..elements.len()).rev() {', 'for i in (0..elements.len()).rev() {',
     {'stroke.rs::extend_reversed'}),
    # a helper without a model counterpart: every user follows
    ('helper Rect::new swaps y0/y1 (all users of the helper follow)', 'kurbo/src/rect.rs',
     'Rect { x0, y0, x1, y1 }\n    }', 'Rect { x0, y0: y1, x1, y1: y0 }\n    }',
     'MANY'),
]


def sh(cmd, **kw):
    return subprocess.run(cmd, stdout=subprocess.PIPE, stderr=subprocess.STDOUT, **kw)


def check(repo):
    p = subprocess.run([sys.executable, os.path.join(VERIF, 'tools', 'translate_check.py'), repo, WORK], stdout=subprocess.PIPE, stderr=subprocess.PIPE)
    if p.returncode != 0:
        print(p.stderr.decode())
        raise SystemExit('translate_check crashed')
    return json.loads(p.stdout.decode())


def main():
    if os.path.exists(WT):
        sh(['git', '-C', '/repo', 'worktree', 'remove', '--force', WT])
    r = sh(['git', '-C', '/repo', 'worktree', 'add', '--detach', WT, 'HEAD'])
    if r.returncode != 0:
        print(r.stdout.decode())
        raise SystemExit(1)
    # the scratch tree must carry the same working-tree state as /repo
    d = sh(['git', '-C', '/repo', 'diff', 'HEAD'])
    if d.stdout.strip():
        subprocess.run(['git', '-C', WT, 'apply'], input=d.stdout, check=True)
    ok = True
    try:
        base = check(WT)
        bad = [f['rust'] for f in base['functions'] if f['status'] != 'equal']
        print('baseline: %d equal, not equal: %s' % (base['summary']['equal'], bad))
        ok &= not bad
        only = [a for a in sys.argv[1:] if not a.startswith('-')]
        for name, file, old, new, expect in MUTS:
            if only and not any(o.lower() in name.lower() or o in file for o in only):
                continue
            path = os.path.join(WT, file)
            src = open(path).read()
            if src.count(old) != 1:
                print('SKIP  %-60s pattern occurs %d times' % (name, src.count(old)))
                ok = False
                continue
            open(path, 'w').write(src.replace(old, new))
            t0 = time.time()
            try:
                res = check(WT)
            finally:
                open(path, 'w').write(src)
            got = {f['rust']: f['status'] for f in res['functions'] if f['status'] != 'equal'}
            if isinstance(expect, str) and expect.startswith('ANYSTATUS:'):
                good = set(got) == {expect[len('ANYSTATUS:'):]}
                shown = str(got)
            elif expect == 'MANY':
                good = len(got) > 5
                shown = '%d functions' % len(got)
            elif expect is None:
                good = bool(got) and all(v == 'untranslatable' for v in got.values())
                shown = str(got)
            else:
                good = set(got) == expect and all(v == 'differs' for v in got.values())
                shown = str(got) if got else 'all equal'
            ok &= good
            print('%s %-62s -> %s  (%.1fs)' % ('ok   ' if good else 'FAIL ', name, shown, time.time() - t0))
    finally:
        sh(['git', '-C', '/repo', 'worktree', 'remove', '--force', WT])
    print('ALL AS EXPECTED' if ok else 'SOMETHING UNEXPECTED')
    sys.exit(0 if ok else 1)


if __name__ == '__main__':
    main()
