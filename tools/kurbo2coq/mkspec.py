#!/usr/bin/env python3
"""Regenerates /verif/props/translation.json (the kurbo2coq spec).

The table below is the hand-maintained part: Rust location -> generated name -> hand-model constant.
The `props` of each entry are computed: property Cxx relies on a model constant when one of the
statements of Properties/Cxx*.v (or its correspondence evaluator corr/Cxx_corr.v) reaches it through
the definitions and lemma statements/proofs of the development (word-level reference graph over
coq/**/*.v, an over-approximation).

usage: python3 tools/kurbo2coq/mkspec.py [--check]
"""
import json, os, re, sys, glob

VERIF = os.path.dirname(os.path.dirname(os.path.dirname(os.path.abspath(__file__))))
S = 'kurbo/src/'

TYPES = [
    dict(rust='Point', file=S + 'point.rs', coq='Point T', ctor='mkPoint', fields=[['x', 'px'], ['y', 'py']]),
    dict(rust='Vec2', file=S + 'vec2.rs', coq='Vec2 T', ctor='mkVec2', fields=[['x', 'vx'], ['y', 'vy']]),
    dict(rust='Size', file=S + 'size.rs', coq='Size T', ctor='mkSize', fields=[['width', 'width'], ['height', 'height']]),
    dict(rust='Rect', file=S + 'rect.rs', coq='Rect T', ctor='mkRect', fields=[['x0', 'rx0'], ['y0', 'ry0'], ['x1', 'rx1'], ['y1', 'ry1']]),
    dict(rust='Insets', file=S + 'insets.rs', coq='Insets T', ctor='mkInsets', fields=[['x0', 'ix0'], ['y0', 'iy0'], ['x1', 'ix1'], ['y1', 'iy1']]),
    dict(rust='Line', file=S + 'line.rs', coq='Line T', ctor='mkLine', fields=[['p0', 'l0'], ['p1', 'l1']]),
    dict(rust='QuadBez', file=S + 'quadbez.rs', coq='QuadBez T', ctor='mkQuad', fields=[['p0', 'q0'], ['p1', 'q1'], ['p2', 'q2']]),
    dict(rust='CubicBez', file=S + 'cubicbez.rs', coq='CubicBez T', ctor='mkCubic', fields=[['p0', 'c0'], ['p1', 'c1'], ['p2', 'c2'], ['p3', 'c3']]),
    dict(rust='Affine', file=S + 'affine.rs', coq='Affine T', ctor='mkAffine', array=['aa', 'ab', 'ac', 'ad', 'ae', 'af']),
    dict(rust='ConstPoint', file=S + 'line.rs', transparent=True),
    dict(rust='PathSeg', file=S + 'bezpath.rs', coq='PathSeg T', variants=[['Line', 'SegLine'], ['Quad', 'SegQuad'], ['Cubic', 'SegCubic']]),
    dict(rust='PathEl', file=S + 'bezpath.rs', coq='PathEl T',
         variants=[['MoveTo', 'MoveTo'], ['LineTo', 'LineTo'], ['QuadTo', 'QuadTo'], ['CurveTo', 'CurveTo'], ['ClosePath', 'ClosePath']]),
    dict(rust='Nearest', file=S + 'param_curve.rs', coq='(T * T)%type', ctor='pair', fields=[['t', 'fst'], ['distance_sq', 'snd']], destruct=False),
    dict(rust='FlattenParams', file=S + 'quadbez.rs', coq='KV.Flatten.FlattenParams T', ctor='KV.Flatten.mkFP',
         fields=[['a0', 'KV.Flatten.fp_a0'], ['a2', 'KV.Flatten.fp_a2'], ['u0', 'KV.Flatten.fp_u0'], ['uscale', 'KV.Flatten.fp_uscale'], ['val', 'KV.Flatten.fp_val']]),
    dict(rust='Circle', file=S + 'circle.rs', coq='Circle T', ctor='mkCircle', fields=[['center', 'ci_center'], ['radius', 'ci_radius']]),
    dict(rust='CircleSegment', file=S + 'circle.rs', coq='CircleSegment T', ctor='mkCircleSegment',
         fields=[['center', 'cs_center'], ['outer_radius', 'cs_outer_radius'], ['inner_radius', 'cs_inner_radius'], ['start_angle', 'cs_start_angle'], ['sweep_angle', 'cs_sweep_angle']]),
    dict(rust='Ellipse', file=S + 'ellipse.rs', coq='Ellipse T', ctor='mkEllipse', fields=[['inner', 'el_inner']]),
    dict(rust='Arc', file=S + 'arc.rs', coq='Arc T', ctor='mkArc',
         fields=[['center', 'arc_center'], ['radii', 'arc_radii'], ['start_angle', 'arc_start_angle'], ['sweep_angle', 'arc_sweep_angle'], ['x_rotation', 'arc_x_rotation']]),
    dict(rust='RoundedRectRadii', file=S + 'rounded_rect_radii.rs', coq='RoundedRectRadii T', ctor='mkRadii',
         fields=[['top_left', 'r_top_left'], ['top_right', 'r_top_right'], ['bottom_right', 'r_bottom_right'], ['bottom_left', 'r_bottom_left']]),
    dict(rust='RoundedRect', file=S + 'rounded_rect.rs', coq='RoundedRect T', ctor='mkRoundedRect', fields=[['rect', 'rr_rect'], ['radii', 'rr_radii']]),
    dict(rust='Triangle', file=S + 'triangle.rs', coq='Triangle T', ctor='mkTriangle', fields=[['a', 'tri_a'], ['b', 'tri_b'], ['c', 'tri_c']]),
    dict(rust='BezPath', file=S + 'bezpath.rs', transparent=True),
    dict(rust='Join', file=S + 'stroke.rs', coq='KV.Stroke.Join', variants=[['Bevel', 'KV.Stroke.JoinBevel'], ['Miter', 'KV.Stroke.JoinMiter'], ['Round', 'KV.Stroke.JoinRound']]),
    dict(rust='Cap', file=S + 'stroke.rs', coq='KV.Stroke.Cap', variants=[['Butt', 'KV.Stroke.CapButt'], ['Square', 'KV.Stroke.CapSquare'], ['Round', 'KV.Stroke.CapRound']]),
    dict(rust='Stroke', file=S + 'stroke.rs', coq='KV.Stroke.StrokeStyle T', ctor='KV.Stroke.mkStyle', partial=True,
         fields=[['width', 'KV.Stroke.sk_width'], ['join', 'KV.Stroke.sk_join'], ['miter_limit', 'KV.Stroke.sk_miter_limit'],
                 ['start_cap', 'KV.Stroke.sk_start_cap'], ['end_cap', 'KV.Stroke.sk_end_cap']]),
    dict(rust='StrokeCtx', file=S + 'stroke.rs', coq='KV.Stroke.StrokeCtx T', ctor='KV.Stroke.mkCtx',
         fields=[['output', 'KV.Stroke.cx_output'], ['forward_path', 'KV.Stroke.cx_forward'], ['backward_path', 'KV.Stroke.cx_backward'],
                 ['start_pt', 'KV.Stroke.cx_start_pt'], ['start_norm', 'KV.Stroke.cx_start_norm'], ['start_tan', 'KV.Stroke.cx_start_tan'],
                 ['last_pt', 'KV.Stroke.cx_last_pt'], ['last_tan', 'KV.Stroke.cx_last_tan'], ['join_thresh', 'KV.Stroke.cx_join_thresh']]),
    dict(rust='DashState', file=S + 'stroke.rs', coq='KV.Dash.DashState',
         variants=[['NeedInput', 'KV.Dash.NeedInput'], ['ToStash', 'KV.Dash.ToStash'], ['Working', 'KV.Dash.Working'], ['FromStash', 'KV.Dash.FromStash']]),
    dict(rust='DashIterator', file=S + 'stroke.rs', coq='KV.Dash.DS T', ctor='KV.Dash.mkDS', usize_as_nat=True,
         fields=[['inner', 'KV.Dash.inner', 'Vec<PathEl>'], ['input_done', 'KV.Dash.input_done'], ['closepath_pending', 'KV.Dash.closepath_pending'],
                 ['dash_ix', 'KV.Dash.dash_ix'], ['is_active', 'KV.Dash.is_active'], ['state', 'KV.Dash.state'], ['current_seg', 'KV.Dash.current_seg'],
                 ['t', 'KV.Dash.cur_t'], ['dash_remaining', 'KV.Dash.dash_remaining'], ['seg_remaining', 'KV.Dash.seg_remaining'],
                 ['start_pt', 'KV.Dash.start_pt'], ['last_pt', 'KV.Dash.last_pt'], ['stash', 'KV.Dash.stash'], ['stash_ix', 'KV.Dash.stash_ix']],
         ambient=[['dashes', 'dashes_'], ['init_dash_ix', '(KV.Dash.p_ix init_)'], ['init_dash_remaining', '(KV.Dash.p_rem init_)'], ['init_is_active', '(KV.Dash.p_act init_)']],
         ambient_binders=[['arclen_', '(PathSeg T) -> T'], ['inv_arclen_', '(PathSeg T) -> T -> T'], ['dashes_', 'list T'], ['init_', 'KV.Dash.Phase T']]),
    # no model record: the iterator state is the triple (c, i, n)
    dict(rust='ToQuads', file=S + 'cubicbez.rs', coq='(CubicBez T * Z * Z)%type', destruct=False,
         ctor='(fun tr_c tr_i tr_n => (tr_c, tr_i, tr_n))',
         fields=[['c', '(fun tr_s => fst (fst tr_s))'], ['i', '(fun tr_s => snd (fst tr_s))'], ['n', '(fun tr_s => snd tr_s)']],
         # consumed (`for (t0, t1, q) in self.to_quads(accuracy)`): `next` until `None`; n - i calls yield an item, one more ends it
         iter=['to_quads_next', '(f64, f64, QuadBez)', '(S (Z.to_nat (Z.sub (snd $0) (snd (fst $0)))))']),
    # Segments<I>: the remaining elements and the (start, last) pair; no model record (the model folds seg_step)
    dict(rust='Segments', file=S + 'bezpath.rs', coq='(list (PathEl T) * option (Point T * Point T))%type', destruct=False,
         ctor='(fun tr_e tr_s => (tr_e, tr_s))',
         fields=[['elements', '(fun tr_s => fst tr_s)', 'Vec<PathEl>'], ['start_last', '(fun tr_s => snd tr_s)']],
         iter=['segments_next', 'PathSeg', '(S (length (fst $0)))']),
    # the SVG lexer: (data as bytes, ix, last_pt); the model works on the remaining suffix `skipn ix data`
    dict(rust='SvgParseError', file=S + 'svg.rs', coq='KV.Svg.SvgErr',
         variants=[['Wrong', 'KV.Svg.Wrong'], ['UnexpectedEof', 'KV.Svg.UnexpectedEof'], ['UnknownCommand', 'KV.Svg.UnknownCommand'], ['UninitializedPath', 'KV.Svg.UninitializedPath']]),
    dict(rust='SvgLexer', file=S + 'svg.rs', coq='(list Z * nat * Point T)%type', destruct=False, usize_as_nat=True,
         ctor='(fun tr_d tr_i tr_p => (tr_d, tr_i, tr_p))',
         fields=[['data', '(fun tr_s => fst (fst tr_s))', 'Vec<u8>'], ['ix', '(fun tr_s => snd (fst tr_s))'], ['last_pt', '(fun tr_s => snd tr_s)']],
         ambient_binders=[['num_of_', 'list Z -> option T']]),
    dict(rust='SvgArc', file=S + 'svg.rs', coq='@KV.Svg.SvgArc T', ctor='KV.Svg.mkSvgArc',
         fields=[['from', 'KV.Svg.sa_from'], ['to', 'KV.Svg.sa_to'], ['radii', 'KV.Svg.sa_radii'], ['x_rotation', 'KV.Svg.sa_x_rotation'],
                 ['large_arc', 'KV.Svg.sa_large_arc'], ['sweep', 'KV.Svg.sa_sweep']]),
    dict(rust='TranslateScale', file=S + 'translate_scale.rs', coq='TranslateScale T', ctor='mkTS',
         fields=[['translation', 'ts_translation'], ['scale', 'ts_scale']]),
]

IMPORTS = ['Scalar', 'Geom', 'Rect', 'Curves', 'Path', 'Area', 'Affine', 'ShapeTypes', 'AffineOps', 'Solvers', 'Extrema', 'Flatten', 'ToQuads', 'Nearest', 'Winding', 'ShapeQueries', 'ShapePaths', 'Arclen', 'PathOps', 'Stroke', 'Dash', 'Svg']

FUNS = []


def F(file, impl, fn, gen, model=None, trait=None, **kw):
    d = dict(file=S + file, impl=impl, trait=trait, fn=fn, gen=gen, model=model)
    d.update(kw)
    FUNS.append(d)


G, R_, C, A, AO, P, SV, EX = 'KV.Geom.', 'KV.Rect.', 'KV.Curves.', 'KV.Affine.', 'KV.AffineOps.', 'KV.Path.', 'KV.Solvers.', 'KV.Extrema.'

# ---------------------------------------------------------------- point.rs
F('point.rs', 'Point', 'new', 'point_new')
F('point.rs', 'Point', 'ZERO', 'point_ZERO', const=True)
F('point.rs', 'Point', 'ORIGIN', 'point_ORIGIN', const=True)
F('point.rs', 'Point', 'to_vec2', 'to_vec2', G + 'to_vec2')
F('point.rs', 'Point', 'lerp', 'pt_lerp', G + 'pt_lerp')
F('point.rs', 'Point', 'midpoint', 'pt_midpoint', G + 'pt_midpoint')
F('point.rs', 'Point', 'distance', 'pt_distance', G + 'pt_distance')
F('point.rs', 'Point', 'distance_squared', 'pt_distance_squared', G + 'pt_distance_squared')
F('point.rs', 'Point', 'round', 'pt_round', G + 'map_pt', model_app='KV.Geom.map_pt fround $0')
F('point.rs', 'Point', 'ceil', 'pt_ceil', G + 'map_pt', model_app='KV.Geom.map_pt fceil $0')
F('point.rs', 'Point', 'floor', 'pt_floor', G + 'map_pt', model_app='KV.Geom.map_pt ffloor $0')
F('point.rs', 'Point', 'expand', 'pt_expand', G + 'map_pt', model_app='KV.Geom.map_pt KV.Geom.fexpand $0')
F('point.rs', 'Point', 'trunc', 'pt_trunc', G + 'map_pt', model_app='KV.Geom.map_pt ftrunc $0')
F('point.rs', 'Point', 'is_finite', 'pt_is_finite', G + 'pt_is_finite')
F('point.rs', 'Point', 'add', 'pt_add_v', G + 'pt_add_v', trait='Add<Vec2>')
F('point.rs', 'Point', 'sub', 'pt_sub_v', G + 'pt_sub_v', trait='Sub<Vec2>')
F('point.rs', 'Point', 'sub', 'pt_sub', G + 'pt_sub', trait='Sub<Point>')
# ---------------------------------------------------------------- common.rs
F('common.rs', 'f64', 'expand', 'fexpand', G + 'fexpand', trait='FloatExt<f64>')
# ---------------------------------------------------------------- vec2.rs
F('vec2.rs', 'Vec2', 'new', 'vec2_new')
F('vec2.rs', 'Vec2', 'ZERO', 'vec2_ZERO', const=True)
F('vec2.rs', 'Vec2', 'splat', 'vec2_splat')
F('vec2.rs', 'Vec2', 'to_point', 'to_point', G + 'to_point')
F('vec2.rs', 'Vec2', 'to_size', 'vec2_to_size', G + 'vec2_to_size')
F('vec2.rs', 'Vec2', 'dot', 'v_dot', G + 'v_dot')
F('vec2.rs', 'Vec2', 'cross', 'v_cross', G + 'v_cross')
F('vec2.rs', 'Vec2', 'hypot', 'v_hypot', G + 'v_hypot')
F('vec2.rs', 'Vec2', 'atan2', 'v_atan2')
F('vec2.rs', 'Vec2', 'length', 'v_length', G + 'v_hypot')
F('vec2.rs', 'Vec2', 'hypot2', 'v_hypot2', G + 'v_hypot2')
F('vec2.rs', 'Vec2', 'length_squared', 'v_length_squared', G + 'v_hypot2')
F('vec2.rs', 'Vec2', 'lerp', 'v_lerp', G + 'v_lerp')
F('vec2.rs', 'Vec2', 'normalize', 'v_normalize', AO + 'v_normalize')
F('vec2.rs', 'Vec2', 'turn_90', 'v_turn_90', G + 'v_turn_90')
F('vec2.rs', 'Vec2', 'round', 'v_round', G + 'map_v', model_app='KV.Geom.map_v fround $0')
F('vec2.rs', 'Vec2', 'ceil', 'v_ceil', G + 'map_v', model_app='KV.Geom.map_v fceil $0')
F('vec2.rs', 'Vec2', 'floor', 'v_floor', G + 'map_v', model_app='KV.Geom.map_v ffloor $0')
F('vec2.rs', 'Vec2', 'expand', 'v_expand', G + 'map_v', model_app='KV.Geom.map_v KV.Geom.fexpand $0')
F('vec2.rs', 'Vec2', 'trunc', 'v_trunc', G + 'map_v', model_app='KV.Geom.map_v ftrunc $0')
F('vec2.rs', 'Vec2', 'add', 'v_add', G + 'v_add', trait='Add')
F('vec2.rs', 'Vec2', 'sub', 'v_sub', G + 'v_sub', trait='Sub')
F('vec2.rs', 'Vec2', 'mul', 'v_scale', G + 'v_scale', trait='Mul<f64>')
F('vec2.rs', 'f64', 'mul', 's_scale_v', G + 's_scale_v', trait='Mul<Vec2>')
F('vec2.rs', 'Vec2', 'div', 'v_div', G + 'v_div', trait='Div<f64>')
F('vec2.rs', 'Vec2', 'neg', 'v_neg', G + 'v_neg', trait='Neg')
# ---------------------------------------------------------------- size.rs
F('size.rs', 'Size', 'new', 'size_new')
F('size.rs', 'Size', 'to_vec2', 'size_to_vec2', G + 'size_to_vec2')
F('size.rs', 'Size', 'round', 'sz_round', G + 'map_sz', model_app='KV.Geom.map_sz fround $0')
F('size.rs', 'Size', 'ceil', 'sz_ceil', G + 'map_sz', model_app='KV.Geom.map_sz fceil $0')
F('size.rs', 'Size', 'floor', 'sz_floor', G + 'map_sz', model_app='KV.Geom.map_sz ffloor $0')
F('size.rs', 'Size', 'expand', 'sz_expand', G + 'map_sz', model_app='KV.Geom.map_sz KV.Geom.fexpand $0')
F('size.rs', 'Size', 'trunc', 'sz_trunc', G + 'map_sz', model_app='KV.Geom.map_sz ftrunc $0')
F('size.rs', 'Size', 'mul', 'size_mul_f64', trait='Mul<f64>')
F('size.rs', 'f64', 'mul', 'f64_mul_size', trait='Mul<Size>')
# ---------------------------------------------------------------- rect.rs
F('rect.rs', 'Rect', 'new', 'rect_new')
F('rect.rs', 'Rect', 'from_points', 'rect_from_points', R_ + 'rect_from_points')
F('rect.rs', 'Rect', 'from_origin_size', 'rect_from_origin_size', R_ + 'rect_from_origin_size')
F('rect.rs', 'Rect', 'from_center_size', 'rect_from_center_size', R_ + 'rect_from_center_size')
F('rect.rs', 'Rect', 'with_origin', 'rect_with_origin', R_ + 'rect_with_origin')
F('rect.rs', 'Rect', 'with_size', 'rect_with_size', R_ + 'rect_with_size')
F('rect.rs', 'Rect', 'inset', 'rect_inset', R_ + 'rect_inset')
F('rect.rs', 'Rect', 'width', 'rect_width', R_ + 'rect_width')
F('rect.rs', 'Rect', 'height', 'rect_height', R_ + 'rect_height')
F('rect.rs', 'Rect', 'min_x', 'rect_min_x', R_ + 'rect_min_x')
F('rect.rs', 'Rect', 'max_x', 'rect_max_x', R_ + 'rect_max_x')
F('rect.rs', 'Rect', 'min_y', 'rect_min_y', R_ + 'rect_min_y')
F('rect.rs', 'Rect', 'max_y', 'rect_max_y', R_ + 'rect_max_y')
F('rect.rs', 'Rect', 'origin', 'rect_origin', R_ + 'rect_origin')
F('rect.rs', 'Rect', 'size', 'rect_size', R_ + 'rect_size')
F('rect.rs', 'Rect', 'area', 'rect_area', R_ + 'rect_area')
F('rect.rs', 'Rect', 'is_zero_area', 'rect_is_zero_area', R_ + 'rect_is_zero_area')
F('rect.rs', 'Rect', 'center', 'rect_center', R_ + 'rect_center')
F('rect.rs', 'Rect', 'contains', 'rect_contains', R_ + 'rect_contains')
F('rect.rs', 'Rect', 'abs', 'rect_abs', R_ + 'rect_abs')
F('rect.rs', 'Rect', 'union', 'rect_union', R_ + 'rect_union')
F('rect.rs', 'Rect', 'union_pt', 'rect_union_pt', R_ + 'rect_union_pt')
F('rect.rs', 'Rect', 'intersect', 'rect_intersect', R_ + 'rect_intersect')
F('rect.rs', 'Rect', 'overlaps', 'rect_overlaps', R_ + 'rect_overlaps')
F('rect.rs', 'Rect', 'contains_rect', 'rect_contains_rect', R_ + 'rect_contains_rect')
F('rect.rs', 'Rect', 'inflate', 'rect_inflate', R_ + 'rect_inflate')
F('rect.rs', 'Rect', 'round', 'rect_round', R_ + 'rect_round')
F('rect.rs', 'Rect', 'ceil', 'rect_ceil', R_ + 'rect_ceil')
F('rect.rs', 'Rect', 'floor', 'rect_floor', R_ + 'rect_floor')
F('rect.rs', 'Rect', 'expand', 'rect_expand', R_ + 'rect_expand')
F('rect.rs', 'Rect', 'trunc', 'rect_trunc', R_ + 'rect_trunc')
F('rect.rs', 'Rect', 'scale_from_origin', 'rect_scale_from_origin', R_ + 'rect_scale_from_origin')
F('rect.rs', 'Rect', 'is_finite', 'rect_is_finite', R_ + 'rect_is_finite')
F('rect.rs', 'Rect', 'add', 'rect_add_v', R_ + 'rect_add_v', trait='Add<Vec2>')
F('rect.rs', 'Rect', 'sub', 'rect_sub_v', R_ + 'rect_sub_v', trait='Sub<Vec2>')
F('rect.rs', 'Rect', 'sub', 'rect_sub', R_ + 'rect_sub', trait='Sub')
F('rect.rs', 'Rect', 'perimeter', 'rect_perimeter', R_ + 'rect_perimeter', trait='Shape', model_app='KV.Rect.rect_perimeter $0')
F('rect.rs', 'Rect', 'winding', 'rect_winding', R_ + 'rect_winding', trait='Shape')
F('rect.rs', 'Rect', 'bounding_box', 'rect_bounding_box', R_ + 'rect_bounding_box', trait='Shape')
F('rect.rs', 'Rect', 'area', 'rect_shape_area', R_ + 'rect_area', trait='Shape')
F('rect.rs', 'Rect', 'contains', 'rect_shape_contains', R_ + 'rect_contains', trait='Shape')
# ---------------------------------------------------------------- insets.rs
F('insets.rs', 'Insets', 'new', 'insets_new')
F('insets.rs', 'Insets', 'neg', 'insets_neg', R_ + 'insets_neg', trait='Neg')
F('insets.rs', 'Insets', 'add', 'insets_add_rect', R_ + 'insets_add_rect', trait='Add<Rect>')
F('insets.rs', 'Rect', 'add', 'rect_add_insets', R_ + 'rect_add_insets', trait='Add<Insets>')
F('insets.rs', 'Insets', 'sub', 'insets_sub_rect', R_ + 'insets_sub_rect', trait='Sub<Rect>')
F('insets.rs', 'Rect', 'sub', 'rect_sub_insets', R_ + 'rect_sub_insets', trait='Sub<Insets>')
# ---------------------------------------------------------------- affine.rs
F('affine.rs', 'Affine', 'new', 'affine_new', identity_ctor=True)
F('affine.rs', 'Affine', 'IDENTITY', 'aff_IDENTITY', AO + 'aff_IDENTITY', const=True)
F('affine.rs', 'Affine', 'FLIP_Y', 'aff_FLIP_Y', AO + 'aff_FLIP_Y', const=True)
F('affine.rs', 'Affine', 'FLIP_X', 'aff_FLIP_X', AO + 'aff_FLIP_X', const=True)
F('affine.rs', 'Affine', 'scale', 'aff_scale', A + 'aff_scale')
F('affine.rs', 'Affine', 'scale_non_uniform', 'aff_scale_non_uniform', A + 'aff_scale_non_uniform')
F('affine.rs', 'Affine', 'scale_about', 'aff_scale_about', AO + 'aff_scale_about')
F('affine.rs', 'Affine', 'rotate', 'aff_rotate', A + 'aff_rotate')
F('affine.rs', 'Affine', 'rotate_about', 'aff_rotate_about', AO + 'aff_rotate_about')
F('affine.rs', 'Affine', 'translate', 'aff_translate', A + 'aff_translate')
F('affine.rs', 'Affine', 'skew', 'aff_skew', A + 'aff_skew')
F('affine.rs', 'Affine', 'reflect', 'aff_reflect', AO + 'aff_reflect')
F('affine.rs', 'Affine', 'pre_rotate', 'aff_pre_rotate', AO + 'aff_pre_rotate')
F('affine.rs', 'Affine', 'pre_rotate_about', 'aff_pre_rotate_about', AO + 'aff_pre_rotate_about')
F('affine.rs', 'Affine', 'pre_scale', 'aff_pre_scale', AO + 'aff_pre_scale')
F('affine.rs', 'Affine', 'pre_scale_non_uniform', 'aff_pre_scale_non_uniform', AO + 'aff_pre_scale_non_uniform')
F('affine.rs', 'Affine', 'pre_translate', 'aff_pre_translate', AO + 'aff_pre_translate')
F('affine.rs', 'Affine', 'then_rotate', 'aff_then_rotate', AO + 'aff_then_rotate')
F('affine.rs', 'Affine', 'then_rotate_about', 'aff_then_rotate_about', AO + 'aff_then_rotate_about')
F('affine.rs', 'Affine', 'then_scale', 'aff_then_scale', AO + 'aff_then_scale')
F('affine.rs', 'Affine', 'then_scale_non_uniform', 'aff_then_scale_non_uniform', AO + 'aff_then_scale_non_uniform')
F('affine.rs', 'Affine', 'then_scale_about', 'aff_then_scale_about', AO + 'aff_then_scale_about')
F('affine.rs', 'Affine', 'then_translate', 'aff_then_translate', AO + 'aff_then_translate')
F('affine.rs', 'Affine', 'map_unit_square', 'aff_map_unit_square', AO + 'aff_map_unit_square')
F('affine.rs', 'Affine', 'determinant', 'aff_determinant', A + 'aff_determinant')
F('affine.rs', 'Affine', 'inverse', 'aff_inverse', A + 'aff_inverse')
F('affine.rs', 'Affine', 'transform_rect_bbox', 'aff_transform_rect_bbox', AO + 'aff_transform_rect_bbox')
F('affine.rs', 'Affine', 'svd', 'aff_svd_det', AO + 'aff_svd_det')
F('affine.rs', 'Affine', 'translation', 'aff_translation', A + 'aff_translation')
F('affine.rs', 'Affine', 'with_translation', 'aff_with_translation', A + 'aff_with_translation')
F('affine.rs', 'Affine', 'mul', 'aff_apply', A + 'aff_apply', trait='Mul<Point>')
F('affine.rs', 'Affine', 'mul', 'aff_mul', A + 'aff_mul', trait='Mul')
F('affine.rs', 'f64', 'mul', 'aff_scalar_mul', AO + 'aff_scalar_mul', trait='Mul<Affine>')
F('line.rs', 'Affine', 'mul', 'aff_mul_line', AO + 'aff_mul_line', trait='Mul<Line>')
F('quadbez.rs', 'Affine', 'mul', 'aff_mul_quad', AO + 'aff_mul_quad', trait='Mul<QuadBez>')
F('cubicbez.rs', 'Affine', 'mul', 'aff_mul_cubic', AO + 'aff_mul_cubic', trait='Mul<CubicBez>')
F('bezpath.rs', 'Affine', 'mul', 'aff_mul_seg', AO + 'aff_mul_seg', trait='Mul<PathSeg>')
F('bezpath.rs', 'Affine', 'mul', 'aff_mul_el', AO + 'aff_mul_el', trait='Mul<PathEl>')
# ---------------------------------------------------------------- translate_scale.rs
F('translate_scale.rs', 'TranslateScale', 'new', 'ts_new')
F('translate_scale.rs', 'TranslateScale', 'scale', 'ts_new_scale', AO + 'ts_new_scale')
F('translate_scale.rs', 'TranslateScale', 'translate', 'ts_new_translate', AO + 'ts_new_translate')
F('translate_scale.rs', 'TranslateScale', 'from_scale_about', 'ts_from_scale_about', AO + 'ts_from_scale_about')
F('translate_scale.rs', 'TranslateScale', 'inverse', 'ts_inverse', AO + 'ts_inverse')
F('translate_scale.rs', 'TranslateScale', 'mul', 'ts_apply', AO + 'ts_apply', trait='Mul<Point>')
F('translate_scale.rs', 'TranslateScale', 'mul', 'ts_mul', AO + 'ts_mul', trait='Mul')
F('translate_scale.rs', 'TranslateScale', 'add', 'ts_add_v', AO + 'ts_add_v', trait='Add<Vec2>')
F('translate_scale.rs', 'TranslateScale', 'sub', 'ts_sub_v', AO + 'ts_sub_v', trait='Sub<Vec2>')
F('translate_scale.rs', 'TranslateScale', 'mul', 'ts_mul_line', AO + 'ts_mul_line', trait='Mul<Line>')
F('translate_scale.rs', 'TranslateScale', 'mul', 'ts_mul_quad', AO + 'ts_mul_quad', trait='Mul<QuadBez>')
F('translate_scale.rs', 'TranslateScale', 'mul', 'ts_mul_cubic', AO + 'ts_mul_cubic', trait='Mul<CubicBez>')
F('translate_scale.rs', 'TranslateScale', 'mul', 'ts_mul_rect', AO + 'ts_mul_rect', trait='Mul<Rect>')
F('bezpath.rs', 'TranslateScale', 'mul', 'ts_mul_seg', AO + 'ts_mul_seg', trait='Mul<PathSeg>')
F('bezpath.rs', 'TranslateScale', 'mul', 'ts_mul_el', AO + 'ts_mul_el', trait='Mul<PathEl>')
F('rect.rs', 'Rect', 'from', 'rect_from_pp', trait='From<(Point,Point)>')
# ---------------------------------------------------------------- line.rs
F('line.rs', 'Line', 'new', 'line_new')
F('line.rs', 'Line', 'reversed', 'line_reversed', C + 'line_reversed')
F('line.rs', 'Line', 'midpoint', 'line_midpoint', C + 'line_midpoint')
F('line.rs', 'Line', 'eval', 'line_eval', C + 'line_eval', trait='ParamCurve')
F('line.rs', 'Line', 'subsegment', 'line_subsegment', C + 'line_subsegment', trait='ParamCurve')
F('line.rs', 'Line', 'start', 'line_start', C + 'line_start', trait='ParamCurve')
F('line.rs', 'Line', 'end', 'line_end', C + 'line_end', trait='ParamCurve')
F('param_curve.rs', 'Line', 'subdivide', 'line_subdivide', C + 'line_subdivide', trait_default='ParamCurve')
F('line.rs', 'Line', 'deriv', 'line_deriv', C + 'line_deriv', trait='ParamCurveDeriv')
F('line.rs', 'Line', 'signed_area', 'line_signed_area', C + 'line_signed_area', trait='ParamCurveArea')
F('line.rs', 'Line', 'extrema', 'line_extrema', EX + 'line_extrema', trait='ParamCurveExtrema')
# ---------------------------------------------------------------- quadbez.rs
F('quadbez.rs', 'QuadBez', 'new', 'quad_new')
F('quadbez.rs', 'QuadBez', 'raise', 'quad_raise', C + 'quad_raise')
F('quadbez.rs', 'QuadBez', 'eval', 'quad_eval', C + 'quad_eval', trait='ParamCurve')
F('quadbez.rs', 'QuadBez', 'subsegment', 'quad_subsegment', C + 'quad_subsegment', trait='ParamCurve')
F('quadbez.rs', 'QuadBez', 'subdivide', 'quad_subdivide', C + 'quad_subdivide', trait='ParamCurve')
F('quadbez.rs', 'QuadBez', 'start', 'quad_start', C + 'quad_start', trait='ParamCurve')
F('quadbez.rs', 'QuadBez', 'end', 'quad_end', C + 'quad_end', trait='ParamCurve')
F('quadbez.rs', 'QuadBez', 'deriv', 'quad_deriv', C + 'quad_deriv', trait='ParamCurveDeriv')
F('quadbez.rs', 'QuadBez', 'signed_area', 'quad_signed_area', C + 'quad_signed_area', trait='ParamCurveArea')
F('quadbez.rs', 'QuadBez', 'extrema', 'quad_extrema', EX + 'quad_extrema', trait='ParamCurveExtrema', bridge='Extrema_bridge')
# ---------------------------------------------------------------- cubicbez.rs
F('cubicbez.rs', 'CubicBez', 'new', 'cubic_new')
F('cubicbez.rs', 'CubicBez', 'eval', 'cubic_eval', C + 'cubic_eval', trait='ParamCurve')
F('cubicbez.rs', 'CubicBez', 'subsegment', 'cubic_subsegment', C + 'cubic_subsegment', trait='ParamCurve')
F('cubicbez.rs', 'CubicBez', 'subdivide', 'cubic_subdivide', C + 'cubic_subdivide', trait='ParamCurve')
F('cubicbez.rs', 'CubicBez', 'start', 'cubic_start', C + 'cubic_start', trait='ParamCurve')
F('cubicbez.rs', 'CubicBez', 'end', 'cubic_end', C + 'cubic_end', trait='ParamCurve')
F('cubicbez.rs', 'CubicBez', 'deriv', 'cubic_deriv', C + 'cubic_deriv', trait='ParamCurveDeriv')
F('cubicbez.rs', 'CubicBez', 'signed_area', 'cubic_signed_area', C + 'cubic_signed_area', trait='ParamCurveArea')
F('cubicbez.rs', None, 'one_coord', 'cubic_one_coord', EX + 'cubic_one_coord', nested_in='extrema', bridge='Extrema_bridge', model_app='$0 ++ KV.Extrema.cubic_one_coord $1 $2 $3')
F('cubicbez.rs', 'CubicBez', 'extrema', 'cubic_extrema', EX + 'cubic_extrema', trait='ParamCurveExtrema', bridge='Extrema_bridge')
# ---------------------------------------------------------------- bezpath.rs: PathSeg dispatch
F('bezpath.rs', 'PathSeg', 'eval', 'seg_eval', C + 'seg_eval', trait='ParamCurve')
F('bezpath.rs', 'PathSeg', 'subsegment', 'seg_subsegment', C + 'seg_subsegment', trait='ParamCurve')
F('param_curve.rs', 'PathSeg', 'subdivide', 'seg_subdivide', C + 'seg_subdivide', trait_default='ParamCurve')
F('bezpath.rs', 'PathSeg', 'start', 'seg_start', C + 'seg_start', trait='ParamCurve')
F('bezpath.rs', 'PathSeg', 'end', 'seg_end', C + 'seg_end', trait='ParamCurve')
F('bezpath.rs', 'PathSeg', 'signed_area', 'seg_signed_area', C + 'seg_signed_area', trait='ParamCurveArea')
F('bezpath.rs', 'PathSeg', 'extrema', 'seg_extrema', EX + 'seg_extrema', trait='ParamCurveExtrema')
F('bezpath.rs', 'PathSeg', 'reverse', 'seg_reverse', C + 'seg_reverse')
F('bezpath.rs', 'PathSeg', 'to_cubic', 'seg_to_cubic', C + 'seg_to_cubic')
F('bezpath.rs', 'PathEl', 'end_point', 'el_end', P + 'el_end')
# ---------------------------------------------------------------- common.rs: solvers
F('common.rs', None, 'solve_quadratic', 'solve_quadratic', SV + 'solve_quadratic')
F('common.rs', None, 'eps_rel', 'eps_rel', SV + 'eps_rel')


F('common.rs', None, 'solve_cubic', 'solve_cubic', SV + 'solve_cubic')
# ---------------------------------------------------------------- flatten / to_quads / nearest / winding pieces
FL, TQ, NR, WD = 'KV.Flatten.', 'KV.ToQuads.', 'KV.Nearest.', 'KV.Winding.'
F('quadbez.rs', None, 'approx_parabola_integral', 'approx_parabola_integral', FL + 'approx_parabola_integral', extern=True)
F('quadbez.rs', None, 'approx_parabola_inv_integral', 'approx_parabola_inv_integral', FL + 'approx_parabola_inv_integral')
F('quadbez.rs', 'QuadBez', 'estimate_subdiv', 'estimate_subdiv', FL + 'estimate_subdiv')
F('quadbez.rs', 'QuadBez', 'determine_subdiv_t', 'determine_subdiv_t', FL + 'determine_subdiv_t', model_app='KV.Flatten.determine_subdiv_t $1 $2')
# the body of flatten's `for el in path` loop as a step function over (start_pt, last_pt, quad_buf, what was handed to the
# callback) against the model's fl_step (keep = true: /repo carries the C05 repair), all five arms.  CurveTo: the consumed
# ToQuads iterator (tr_drain), quad_buf, the `while target < ..` with `break` under the model's own bound n + 1 - i; the
# statement excludes the model's None (that bound reached: "runaway")
F('bezpath.rs', None, 'TO_QUAD_TOL', 'TO_QUAD_TOL', FL + 'to_quad_tol', const=True)
F('bezpath.rs', None, 'flatten', 'flatten_step', FL + 'fl_step', bridge='Flatten_bridge', via='simulation',
  callback_as_push='callback', fuel_local='n + 1 - i',
  for_body_state=[['start_pt', 'Option<Point>'], ['last_pt', 'Option<Point>'], ['quad_buf', 'Vec<(QuadBez, FlattenParams)>'], ['callback', 'Vec<PathEl>']],
  for_body_vars=[['el', 'PathEl'], ['tolerance', 'f64'], ['sqrt_tol', 'f64']],
  stmt='KVBridge.Flatten_bridge.sim_fl_step $0 $1 $2 $3 $4 $5 $6 $G')
# the whole function: `sqrt_tol`, the two `None`s, the empty quad_buf, the `for el in path` as a fold over the path that calls
# the generated step above (`for_step`; the body is not translated a second time), what was handed to the callback as the
# result; against the model's flatten (= flatten_gen true) wherever that is defined
F('bezpath.rs', None, 'flatten', 'flatten', FL + 'flatten', bridge='Flatten_bridge', via='simulation',
  callback_as_push='callback', for_step='flatten_step',
  stmt='KVBridge.Flatten_bridge.sim_flatten $0 $1 $2 $G')
F('vec2.rs', 'Vec2', 'div_exact', 'v_div_exact', TQ + 'v_div_exact')
F('cubicbez.rs', 'CubicBez', 'approx_quad_control', 'approx_quad_control', TQ + 'approx_quad_control')
F('line.rs', 'Line', 'crossing_point', 'crossing_point', TQ + 'crossing_point',
  model_app='KV.ToQuads.crossing_point (l0 $0) (l1 $0) (l0 $1) (l1 $1)')
F('line.rs', 'Line', 'nearest', 'line_nearest', NR + 'line_nearest', trait='ParamCurveNearest', model_app='KV.Nearest.line_nearest $0 $1')
F('bezpath.rs', 'PathSeg', 'winding_at_nearer_end', 'w_nearer_end', WD + 'w_nearer_end')


# ---------------------------------------------------------------- shapes (C10, C11, C12)
SQ, SP, AL = 'KV.ShapeQueries.', 'KV.ShapePaths.', 'KV.Arclen.'


def also(*ms):
    return [dict(model=m) if isinstance(m, str) else dict(model=m[0], model_app=m[1]) for m in ms]


F('point.rs', '(f64,f64)', 'from', 'point_to_pair', trait='From<Point>')
F('size.rs', 'Size', 'div', 'size_div_f64', trait='Div<f64>')
F('affine.rs', 'Affine', 'as_coeffs', 'affine_as_coeffs', identity_coeffs=True)
F('circle.rs', 'Circle', 'new', 'circle_new')
F('circle.rs', 'Circle', 'area', 'circle_area', SQ + 'circle_area', trait='Shape')
F('circle.rs', 'Circle', 'perimeter', 'circle_perimeter', SQ + 'circle_perimeter', trait='Shape', model_app='KV.ShapeQueries.circle_perimeter $0')
F('circle.rs', 'Circle', 'winding', 'circle_winding', SQ + 'circle_winding', trait='Shape')
F('circle.rs', 'Circle', 'bounding_box', 'circle_bounding_box', SQ + 'circle_bounding_box', trait='Shape')
F('circle.rs', 'Affine', 'mul', 'aff_mul_circle', AO + 'aff_mul_circle', trait='Mul<Circle>')
F('circle.rs', None, 'point_on_circle', 'point_on_circle', SP + 'point_on_circle')
F('circle.rs', 'CircleSegment', 'area', 'cseg_area', SQ + 'cseg_area', trait='Shape')
F('circle.rs', 'CircleSegment', 'perimeter', 'cseg_perimeter', SQ + 'cseg_perimeter', trait='Shape', model_app='KV.ShapeQueries.cseg_perimeter $0')
F('circle.rs', 'CircleSegment', 'bounding_box', 'cseg_bounding_box', SQ + 'cseg_bounding_box', trait='Shape')
F('ellipse.rs', 'Ellipse', 'private_new', 'ellipse_private_new')
F('ellipse.rs', 'Ellipse', 'new', 'ellipse_new', AO + 'ellipse_new', also=also(SQ + 'ellipse_new', SP + 'ellipse_new'))
F('ellipse.rs', 'Ellipse', 'from_affine', 'ellipse_from_affine', AO + 'ellipse_from_affine', also=also(SQ + 'ellipse_from_affine'))
F('ellipse.rs', 'Ellipse', 'with_center', 'ellipse_with_center', AO + 'ellipse_with_center')
F('ellipse.rs', 'Ellipse', 'center', 'ellipse_center', AO + 'ellipse_center', also=also(SQ + 'ellipse_center', SP + 'ellipse_center'))
F('ellipse.rs', 'Ellipse', 'radii', 'ellipse_radii', SQ + 'ellipse_radii')
F('ellipse.rs', 'Ellipse', 'radii_and_rotation', 'ellipse_radii_and_rotation', SQ + 'ellipse_radii_and_rotation', also=also(AO + 'ellipse_radii_and_rotation'))
F('ellipse.rs', 'Ellipse', 'add', 'ellipse_add_v', AO + 'ellipse_add_v', trait='Add<Vec2>')
F('ellipse.rs', 'Ellipse', 'sub', 'ellipse_sub_v', AO + 'ellipse_sub_v', trait='Sub<Vec2>')
F('ellipse.rs', 'Affine', 'mul', 'aff_mul_ellipse', AO + 'aff_mul_ellipse', trait='Mul<Ellipse>')
F('ellipse.rs', 'Ellipse', 'from', 'ellipse_from_circle', AO + 'ellipse_from_circle', trait='From<Circle>')
F('ellipse.rs', 'Ellipse', 'area', 'ellipse_area', SQ + 'ellipse_area', trait='Shape')
F('ellipse.rs', 'Ellipse', 'winding', 'ellipse_winding', SQ + 'ellipse_winding', trait='Shape')
F('ellipse.rs', 'Ellipse', 'bounding_box', 'ellipse_bounding_box', SQ + 'ellipse_bounding_box', trait='Shape')
F('arc.rs', None, 'rotate_pt', 'rotate_pt', AO + 'arc_rotate_pt', also=also(SP + 'rotate_pt'))
F('arc.rs', None, 'sample_ellipse', 'sample_ellipse', AO + 'arc_sample_ellipse', also=also(SP + 'sample_ellipse'))
F('rounded_rect_radii.rs', 'RoundedRectRadii', 'new', 'radii_new')
F('rounded_rect_radii.rs', 'RoundedRectRadii', 'abs', 'radii_abs', AO + 'radii_abs', also=also(SQ + 'radii_abs', SP + 'radii_abs'))
F('rounded_rect_radii.rs', 'RoundedRectRadii', 'clamp', 'radii_clamp', AO + 'radii_clamp', also=also(SQ + 'radii_clamp', SP + 'radii_clamp'))
F('rounded_rect.rs', 'RoundedRect', 'from_rect', 'rrect_from_rect', AO + 'rrect_from_rect', also=also(SQ + 'rr_from_rect', SP + 'rounded_rect_from_rect'))
F('rounded_rect.rs', 'RoundedRect', 'width', 'rr_width', SQ + 'rr_width')
F('rounded_rect.rs', 'RoundedRect', 'height', 'rr_height', SQ + 'rr_height')
F('rounded_rect.rs', 'RoundedRect', 'radii', 'rr_radii_get')
F('rounded_rect.rs', 'RoundedRect', 'rect', 'rr_rect_get')
F('rounded_rect.rs', 'RoundedRect', 'center', 'rr_center', SQ + 'rr_center')
F('rounded_rect.rs', 'RoundedRect', 'winding', 'rr_winding', SQ + 'rr_winding', trait='Shape')
F('rounded_rect.rs', 'RoundedRect', 'bounding_box', 'rr_bounding_box', SQ + 'rr_bounding_box', trait='Shape')
F('translate_scale.rs', 'TranslateScale', 'mul', 'ts_mul_circle', AO + 'ts_mul_circle', trait='Mul<Circle>')
F('triangle.rs', 'Triangle', 'new', 'triangle_new')
F('triangle.rs', 'Triangle', 'area', 'tri_area', SQ + 'tri_area')
F('triangle.rs', 'Triangle', 'is_zero_area', 'tri_is_zero_area')
F('triangle.rs', 'Triangle', 'perimeter', 'tri_perimeter', SQ + 'tri_perimeter', trait='Shape', model_app='KV.ShapeQueries.tri_perimeter $0')
F('triangle.rs', 'Triangle', 'bounding_box', 'tri_bounding_box', SQ + 'tri_bounding_box', trait='Shape')
F('line.rs', 'Line', 'area', 'line_shape_area', SQ + 'line_shape_area', trait='Shape')
F('line.rs', 'Line', 'perimeter', 'line_shape_perimeter', SQ + 'line_shape_perimeter', trait='Shape', model_app='KV.ShapeQueries.line_shape_perimeter $0')
F('line.rs', 'Line', 'winding', 'line_shape_winding', SQ + 'line_shape_winding', trait='Shape')
F('line.rs', 'Line', 'bounding_box', 'line_shape_bounding_box', SQ + 'line_shape_bounding_box', trait='Shape')
F('line.rs', 'Line', 'arclen', 'line_arclen', AL + 'line_arclen', trait='ParamCurveArclen', model_app='KV.Arclen.line_arclen $0')
F('line.rs', 'Line', 'inv_arclen', 'line_inv_arclen', AL + 'line_inv_arclen', trait='ParamCurveArclen', model_app='KV.Arclen.line_inv_arclen $0 $1')


F('translate_scale.rs', 'f64', 'mul', 'ts_scalar_mul', AO + 'ts_scalar_mul', trait='Mul<TranslateScale>')
F('translate_scale.rs', 'Affine', 'from', 'ts_to_affine', AO + 'ts_to_affine', trait='From<TranslateScale>')
F('translate_scale.rs', 'TranslateScale', 'mul', 'ts_mul_radii', AO + 'ts_mul_radii', trait='Mul<RoundedRectRadii>')
F('translate_scale.rs', 'TranslateScale', 'default', 'ts_default', AO + 'ts_default', trait='Default')
F('translate_scale.rs', 'TranslateScale', 'mul', 'ts_mul_rrect', AO + 'ts_mul_rrect', trait='Mul<RoundedRect>')
F('arc.rs', 'Affine', 'mul', 'aff_mul_arc', AO + 'aff_mul_arc', trait='Mul<Arc>')
F('cubicbez.rs', 'CubicBez', 'parameters', 'cubic_parameters', TQ + 'cubic_parameters')
F('cubicbez.rs', 'CubicBez', 'from_parameters', 'cubic_from_parameters', TQ + 'cubic_from_parameters')
F('cubicbez.rs', 'CubicBez', 'subdivide_3', 'cubic_subdivide_3', TQ + 'cubic_subdivide_3')


# ---------------------------------------------------------------- &mut self: BezPath builders, the stroker (C04, C07)
PO, SK = 'KV.PathOps.', 'KV.Stroke.'
STYLE = '(KV.Stroke.mkStyle (KV.Stroke.sk_width $S) (KV.Stroke.sk_join $S) (KV.Stroke.sk_miter_limit $S) (KV.Stroke.sk_start_cap $S) (KV.Stroke.sk_end_cap $S) true)'
F('bezpath.rs', 'BezPath', 'push', 'bp_push', PO + 'bp_push')
F('bezpath.rs', 'BezPath', 'move_to', 'bp_move_to', PO + 'bp_move_to')
F('bezpath.rs', 'BezPath', 'line_to', 'bp_line_to', PO + 'bp_line_to')
F('bezpath.rs', 'BezPath', 'quad_to', 'bp_quad_to', PO + 'bp_quad_to')
F('bezpath.rs', 'BezPath', 'curve_to', 'bp_curve_to', PO + 'bp_curve_to')
F('bezpath.rs', 'BezPath', 'close_path', 'bp_close_path', PO + 'bp_close_path')
F('stroke.rs', None, 'round_cap', 'sk_round_cap', SK + 'round_cap_els', extern=True, call='$0 ++ KV.Stroke.round_cap_els $1 $2 $3')
F('stroke.rs', None, 'round_join', 'sk_round_join', SK + 'round_join_els', extern=True, call='$0 ++ KV.Stroke.round_join_els $1 $2 $3 $4')
F('stroke.rs', None, 'round_join_rev', 'sk_round_join_rev', SK + 'round_join_rev_els', extern=True, call='$0 ++ KV.Stroke.round_join_rev_els $1 $2 $3 $4')
# `for i in (1..elements.len()).rev()` with elements[i - 1], elements[i] against the model's structural recursion (bridge: induction)
F('stroke.rs', None, 'extend_reversed', 'sk_extend_reversed', SK + 'extend_reversed', usize_as_nat=True, bridge='Stroke_bridge',
  call='$0 ++ KV.Stroke.extend_reversed $1', model_app='$0 ++ KV.Stroke.extend_reversed $1')
# model shape differs: the model writes [- f1] where the source has the literal -1.0 (= fofZ (-1)); not provable for an abstract scalar
F('stroke.rs', None, 'square_cap', 'sk_square_cap', SK + 'square_cap_els', extern=True, call='$0 ++ KV.Stroke.square_cap_els $1 $2 $3')
F('stroke.rs', 'StrokeCtx', 'do_line', 'sk_do_line', SK + 'do_line', model_app='KV.Stroke.do_line ' + STYLE.replace('$S', '$1') + ' $2 $3 $0')
F('stroke.rs', 'StrokeCtx', 'do_join', 'sk_do_join', SK + 'do_join', bridge='Stroke_bridge', model_app='KV.Stroke.do_join ' + STYLE.replace('$S', '$1') + ' $2 $0')
F('stroke.rs', 'StrokeCtx', 'finish', 'sk_finish', SK + 'finish', bridge='Stroke_bridge', model_app='KV.Stroke.finish ' + STYLE.replace('$S', '$1') + ' $0')
F('stroke.rs', 'StrokeCtx', 'finish_closed', 'sk_finish_closed', SK + 'finish_closed', bridge='Stroke_bridge', model_app='KV.Stroke.finish_closed ' + STYLE.replace('$S', '$1') + ' $0')


# ---------------------------------------------------------------- the dash iterator (C13)
DI2 = "DashIterator<'_,T>"
DS = 'KV.Dash.'
DI = "DashIterator<'a,T>"
F('stroke.rs', None, 'DASH_ACCURACY', 'DASH_ACCURACY', const=True)
F('stroke.rs', None, 'seg_to_el', 'dash_seg_to_el', DS + 'seg_to_el')
# the model is parametric in the two arc-length functions; the accuracy argument (a constant) is dropped
F('bezpath.rs', 'PathSeg', 'inv_arclen', 'seg_inv_arclen', trait='ParamCurveArclen', extern=True, call='inv_arclen_ $0 $1')
# the body of the `while` of dash_impl (the initial phase) as a step over (dash_ix, dash_remaining, is_active): one unfolding
# of the model's fuelled init_loop.  The loop condition (it carries the fx_init repair) is outside the step.
F('stroke.rs', None, 'dash_impl', 'dash_init_step', DS + 'init_loop', usize_as_nat=True, ret='()', bridge='Dash_bridge', via='simulation',
  while_body_state=[['dash_ix', 'usize'], ['dash_remaining', 'f64'], ['is_active', 'bool']], while_body_vars=[['dashes', 'Vec<f64>']],
  stmt='forall tr_fuel tr_fx, KV.Dash.init_continue tr_fx $1 $2 = true -> KV.Dash.init_loop tr_fx $3 (Datatypes.S tr_fuel) $0 $1 $2 = (let \'(_, tr_i, tr_r, tr_a) := $G in KV.Dash.init_loop tr_fx $3 tr_fuel tr_i tr_r tr_a)')
# the whole function: dash_ix = 0, dashes[0] - dash_offset, the `while` with the model's fuel (one iteration = the generated step
# above, `while_step`), and the DashIterator literal: the pair (the constant fields dashes/init_*, the model record); against
# dash_init (at fixes_all: the loop condition carries the fx_init repair) and init_state, wherever dash_init is InitOk
# (InitPanic = `dashes[0]` on an empty pattern, InitFuel = the model's fuel ran out)
F('stroke.rs', None, 'dash_impl', 'dash_impl', DS + 'dash_init', usize_as_nat=True, bridge='Dash_bridge', via='simulation',
  extra_binders=[['fuel_', 'nat']], fuel='fuel_', while_step='dash_init_step', ambient_out=True, ret='DashIterator',
  stmt='KVBridge.Dash_bridge.sim_dash_impl fuel_ $0 $1 $2 $G')
F('stroke.rs', DI, 'get_input', 'dash_get_input', DS + 'get_input', extern=True, call='KV.Dash.get_input arclen_ KV.Dash.fixes_all init_ $0')
F('stroke.rs', DI, 'reset_phase', 'dash_reset_phase', DS + 'reset_phase', model_app='KV.Dash.reset_phase init_ $0')
F('stroke.rs', DI, 'handle_closepath', 'dash_handle_closepath', DS + 'handle_closepath', model_app='KV.Dash.handle_closepath KV.Dash.fixes_all init_ $0')
# one iteration of the `loop` in `next` = the model's [tick] (the fuel of [run] is the model's business)
F('stroke.rs', DI2, 'next', 'dash_next_body', DS + 'tick', trait='Iterator', loop_body=True, bridge='Dash_bridge', via='simulation',
  stmt='match KV.Dash.tick arclen_ inv_arclen_ KV.Dash.fixes_all dashes_ init_ $0 with KV.Dash.TDone => fst $G = Some None | KV.Dash.TCont tr_s => $G = (None, tr_s) | KV.Dash.TEmit tr_e tr_s => $G = (Some (Some tr_e), tr_s) end')
F('stroke.rs', DI, 'step', 'dash_step', DS + 'step', bridge='Dash_bridge', call='KV.Dash.step arclen_ inv_arclen_ KV.Dash.fixes_all dashes_ init_ $0', model_app='KV.Dash.step arclen_ inv_arclen_ KV.Dash.fixes_all dashes_ init_ $0')


# ---------------------------------------------------------------- loops: extrema ranges, bounding boxes (C08)
F('param_curve.rs', 'PathSeg', 'extrema_ranges', 'seg_extrema_ranges', EX + 'extrema_ranges', trait_default='ParamCurveExtrema', bridge='Extrema_bridge',
  model_app='KV.Extrema.extrema_ranges (KV.Extrema.seg_extrema $0)')
F('param_curve.rs', 'QuadBez', 'bounding_box', 'quad_bounding_box', EX + 'quad_bounding_box', trait_default='ParamCurveExtrema', bridge='Extrema_bridge')
F('param_curve.rs', 'CubicBez', 'bounding_box', 'cubic_bounding_box', EX + 'cubic_bounding_box', trait_default='ParamCurveExtrema', bridge='Extrema_bridge')
F('param_curve.rs', 'PathSeg', 'bounding_box', 'seg_bounding_box', EX + 'seg_bounding_box', trait_default='ParamCurveExtrema', bridge='Extrema_bridge')


# ---------------------------------------------------------------- quartic solver, outer layers (C15)
F('common.rs', None, 'factor_quartic_inner', 'factor_quartic_inner', SV + 'factor_quartic_inner', extern=True,
  call='match KV.Solvers.factor_quartic_inner $0 $1 $2 $3 $4 with Some (tr_q1, tr_q2) => Some [tr_q1; tr_q2] | None => None end')
F('common.rs', None, 'solve_quartic_inner', 'solve_quartic_inner', SV + 'solve_quartic_inner', bridge='Solvers_bridge')
F('common.rs', None, 'solve_quartic', 'solve_quartic', SV + 'solve_quartic')
# ---------------------------------------------------------------- QuadBez::nearest, the two local helpers (C09)
F('quadbez.rs', None, 'eval_t', 'nr_eval_t', NR + 'nr_eval_t', nested_in='nearest', model_app='KV.Nearest.nr_eval_t $0 ($1, $2) $3 $4')
F('quadbez.rs', None, 'try_t', 'nr_try_t', NR + 'nr_try_t', nested_in='nearest',
  model_app="let '(tr_b, tr_st) := KV.Nearest.nr_try_t $0 $1 ($2, $3) $4 in (tr_b, fst tr_st, snd tr_st)")
# the model returns [None] where the code would panic ([r_best.unwrap()], unreachable): agreement wherever the model is defined
F('quadbez.rs', 'QuadBez', 'nearest', 'quad_nearest', NR + 'quad_nearest', trait='ParamCurveNearest', bridge='Nearest_bridge',
  stmt='match KV.Nearest.quad_nearest $0 $1 with Some tr_r => $G = tr_r | None => True end',
  call='match KV.Nearest.quad_nearest $0 $1 with Some tr_r => tr_r | None => (f0, f0) end')
# ---------------------------------------------------------------- CubicBez::to_quads / ToQuads::next (C17, C09)
F('cubicbez.rs', 'CubicBez', 'to_quads', 'cubic_to_quads', TQ + 'to_quads_count', ret='ToQuads',
  stmt='$G = ($0, 0%Z, KV.ToQuads.to_quads_count $0 $1)', call='($0, 0%Z, KV.ToQuads.to_quads_count $0 $1)')
F('cubicbez.rs', 'ToQuads', 'next', 'to_quads_next', TQ + 'to_quads_piece', trait='Iterator',
  stmt='$G = (if Z.eqb (snd (fst $0)) (snd $0) then (None, $0) else (Some (KV.ToQuads.to_quads_piece (fst (fst $0)) (snd $0) (snd (fst $0))), (fst (fst $0), Z.add (snd (fst $0)) 1, snd $0)))')
# CubicBez::nearest: `for (t0, t1, q) in self.to_quads(accuracy)` consumes the ToQuads iterator (tr_drain of the generated
# `next`), `q.nearest` is the model's quad_nearest; against the model's cubic_nearest wherever that is defined (None = the
# panic of `best_r.unwrap()` / of `r_best.unwrap()` inside QuadBez::nearest)
F('cubicbez.rs', 'CubicBez', 'nearest', 'cubic_nearest', NR + 'cubic_nearest', trait='ParamCurveNearest', bridge='Nearest_bridge', via='simulation',
  stmt='match KV.Nearest.cubic_nearest $0 $1 $2 with Some tr_r => $G = tr_r | None => True end',
  call='match KV.Nearest.cubic_nearest $0 $1 $2 with Some tr_r => tr_r | None => (f0, f0) end')
# PathSeg::nearest: the dispatch, against the model's seg_nearest wherever that is defined
F('bezpath.rs', 'PathSeg', 'nearest', 'seg_nearest', NR + 'seg_nearest', trait='ParamCurveNearest', bridge='Nearest_bridge', via='simulation',
  stmt='match KV.Nearest.seg_nearest $0 $1 $2 with Some tr_r => $G = tr_r | None => True end')
# ---------------------------------------------------------------- Segments::next by simulation (C07 and every path property)
F('bezpath.rs', 'Segments<I>', 'next', 'segments_next', P + 'seg_step', trait='Iterator', bridge='Path_bridge', via='simulation',
  stmt='match KVBridge.Path_bridge.next_spec (snd $0) (fst $0) with Some tr_r => $G = tr_r | None => True end')
# the folds over a consumed Segments: `self.map(f).sum()` / `for seg in self` = over `tr_drain next (S (length elements)) self`,
# which is the model's segment list wherever `segments` is defined (Path_bridge.drain_segs)
SEGS = 'match KV.Path.segs_from (snd $0) (fst $0) with Some tr_l => $G = %s | None => True end'
F('bezpath.rs', 'PathSeg', 'arclen', 'seg_arclen', AL + 'seg_arclen', trait='ParamCurveArclen', extern=True, call='KV.Arclen.seg_arclen $0 $1')
F('bezpath.rs', 'Segments<I>', 'area', 'segments_area', P + 'segs_area', call_gen=True, bridge='Path_bridge', via='simulation', stmt=SEGS % 'KV.Path.segs_area tr_l')
F('bezpath.rs', 'Segments<I>', 'perimeter', 'segments_perimeter', AL + 'segs_perimeter', call_gen=True, bridge='Path_bridge', via='simulation', stmt=SEGS % 'KV.Arclen.segs_perimeter tr_l $1')
F('bezpath.rs', 'Segments<I>', 'winding', 'segments_winding', WD + 'segs_winding_gen', call_gen=True, bridge='Path_bridge', via='simulation', stmt=SEGS % 'KV.Winding.segs_winding tr_l $1')
F('bezpath.rs', 'Segments<I>', 'bounding_box', 'segments_bounding_box', EX + 'segs_bounding_box', call_gen=True, bridge='Path_bridge', via='simulation', stmt=SEGS % 'KV.Extrema.segs_bounding_box tr_l')
# Shape for &[PathEl]: segments(self.iter().copied()).<fold>; against the models' path_* (None = the panic of `segments`)
SL = "&'a[PathEl]"
PATHS = 'match %s with Some tr_r => $G = tr_r | None => True end'
F('bezpath.rs', None, 'segments', 'segments_fn', ret='Segments')
F('bezpath.rs', SL, 'area', 'slice_area', 'KV.Area.path_area', trait='Shape', call_gen=True, bridge='Path_bridge', via='simulation', stmt=PATHS % 'KV.Area.path_area $0')
F('bezpath.rs', SL, 'perimeter', 'slice_perimeter', AL + 'path_perimeter', trait='Shape', call_gen=True, bridge='Path_bridge', via='simulation', stmt=PATHS % 'KV.Arclen.path_perimeter $0 $1')
F('bezpath.rs', SL, 'winding', 'slice_winding', WD + 'path_winding', trait='Shape', call_gen=True, bridge='Path_bridge', via='simulation', stmt=PATHS % 'KV.Winding.path_winding $0 $1')
F('bezpath.rs', SL, 'bounding_box', 'slice_bounding_box', EX + 'path_bounding_box', trait='Shape', call_gen=True, bridge='Path_bridge', via='simulation', stmt=PATHS % 'KV.Extrema.path_bounding_box $0')
F('bezpath.rs', 'BezPath', 'area', 'bezpath_area', 'KV.Area.path_area', trait='Shape', bridge='Path_bridge', via='simulation', stmt=PATHS % 'KV.Area.path_area $0')
F('bezpath.rs', 'BezPath', 'perimeter', 'bezpath_perimeter', AL + 'path_perimeter', trait='Shape', bridge='Path_bridge', via='simulation', stmt=PATHS % 'KV.Arclen.path_perimeter $0 $1')
F('bezpath.rs', 'BezPath', 'winding', 'bezpath_winding', WD + 'path_winding', trait='Shape', bridge='Path_bridge', via='simulation', stmt=PATHS % 'KV.Winding.path_winding $0 $1')
F('bezpath.rs', 'BezPath', 'bounding_box', 'bezpath_bounding_box', EX + 'path_bounding_box', trait='Shape', bridge='Path_bridge', via='simulation', stmt=PATHS % 'KV.Extrema.path_bounding_box $0')
F('bezpath.rs', 'BezPath', 'get_seg', 'get_seg', PO + 'get_seg_req', usize_as_nat=True, bridge='PathOps_bridge')
F('bezpath.rs', None, 'reverse_subpath', 'reverse_subpath', PO + 'reverse_subpath', usize_as_nat=True, bridge='PathOps_bridge', via='simulation',
  stmt='match KV.PathOps.reverse_subpath $0 $1 $2 with Some tr_r => $G = tr_r | None => True end',
  call='match KV.PathOps.reverse_subpath $0 $1 $2 with Some tr_r => tr_r | None => $2 end')
F('bezpath.rs', 'BezPath', 'reverse_subpaths', 'reverse_subpaths', PO + 'reverse_subpaths', usize_as_nat=True, bridge='PathOps_bridge', via='simulation',
  stmt='match KV.PathOps.reverse_subpaths $0 with Some tr_r => $G = tr_r | None => True end')
F('bezpath.rs', 'BezPath', 'from_vec', 'bezpath_from_vec')
F('bezpath.rs', 'BezPath', 'new', 'bezpath_new')
F('svg.rs', 'BezPath', 'from_path_segments', 'from_path_segments', PO + 'from_path_segments', bridge='PathOps_bridge')
# ---------------------------------------------------------------- the SVG lexer by simulation (C16)
SVG = 'KV.Svg.'
LX = "SvgLexer<'_>"
FUEL = '(S (length (fst (fst $0))))'
SB = 'KVBridge.Svg_bridge.'
F('svg.rs', LX, 'get_byte', 'lex_get_byte')
F('svg.rs', LX, 'unget', 'lex_unget')
F('svg.rs', LX, 'skip_ws', 'lex_skip_ws', SVG + 'skip_ws', fuel=FUEL, call_gen=True, bridge='Svg_bridge', via='simulation',
  stmt=SB + 'sim_unit (KV.Svg.skip_ws (' + SB + 'abs $0)) $0 $G')
F('svg.rs', LX, 'opt_comma', 'lex_opt_comma', SVG + 'opt_comma', call_gen=True, bridge='Svg_bridge', via='simulation',
  stmt=SB + 'sim_unit (KV.Svg.opt_comma (' + SB + 'abs $0)) $0 $G')
F('svg.rs', LX, 'get_cmd', 'lex_get_cmd', SVG + 'get_cmd', call_gen=True, bridge='Svg_bridge', via='simulation',
  stmt=SB + 'sim_opt (KV.Svg.get_cmd true $1 (' + SB + 'abs $0)) $0 $G')
F('svg.rs', LX, 'get_flag', 'lex_get_flag', SVG + 'get_flag', call_gen=True, bridge='Svg_bridge', via='simulation',
  stmt=SB + 'sim_res (KV.Svg.get_flag (' + SB + 'abs $0)) $0 $G')
F('svg.rs', LX, 'get_number', 'lex_get_number', SVG + 'get_number', fuel=FUEL, call_gen=True, bridge='Svg_bridge', via='simulation',
  stmt=SB + 'sim_res (KV.Svg.get_number num_of_ (' + SB + 'abs $0)) $0 $G')
F('svg.rs', LX, 'get_number_pair', 'lex_get_number_pair', SVG + 'get_number_pair', call_gen=True, bridge='Svg_bridge', via='simulation',
  stmt=SB + 'sim_res (KV.Svg.get_number_pair num_of_ (' + SB + 'abs $0)) $0 $G')
F('svg.rs', LX, 'get_maybe_relative', 'lex_get_maybe_relative', SVG + 'get_maybe_relative', call_gen=True, bridge='Svg_bridge', via='simulation',
  stmt=SB + 'sim_res (KV.Svg.get_maybe_relative num_of_ (snd $0) $1 (' + SB + 'abs $0)) $0 $G')
# the body of the command loop of BezPath::from_svg as a step function over
# (lexer, path, last_cmd, last_ctrl, first_pt, implicit_moveto) for command byte c, against the model's step_cmd (fixed variant)
FREM = [['frem_', 'T -> T -> T']]
# Arc::from_svg_arc itself: f64 `%` is the parameter frem_; the model writes `- f1` for the literal `-1.0`
F('svg.rs', 'SvgArc', 'is_straight_line', 'svg_arc_is_straight_line', SVG + 'is_straight_line')
F('svg.rs', 'Arc', 'from_svg_arc', 'arc_from_svg_arc', SVG + 'from_svg_arc', extra_binders=FREM, neg_literal_op=True, bridge='Svg_bridge',
  model_app='KV.Svg.from_svg_arc frem_ true $0', call='KV.Svg.from_svg_arc frem_ true $0')
F('arc.rs', 'Arc', 'to_cubic_beziers', 'arc_to_cubic_beziers', SVG + 'arc_cubics', extern=True, callback_append='KV.Svg.arc_cubics $0 $1')
F('svg.rs', 'BezPath', 'from_svg', 'from_svg_step', SVG + 'step_cmd', bridge='Svg_bridge', via='simulation', extra_binders=FREM,
  while_body_state=[['lexer', 'SvgLexer'], ['path', 'BezPath'], ['last_cmd', 'u8'], ['last_ctrl', 'Option<Point>'], ['first_pt', 'Point'], ['implicit_moveto', 'Option<Point>']],
  while_body_vars=[['c', 'u8']],
  stmt=SB + 'sim_step num_of_ frem_ $0 $1 $2 $3 $4 $5 $6 $G')
# the whole function: initialisation, the `while let` loop with the model's fuel (one iteration = get_cmd + the step function
# above, not translated a second time), `Ok(path)`; against the model's from_svg wherever that does not run out of fuel
F('svg.rs', LX, 'new', 'lex_new')
F('svg.rs', 'BezPath', 'from_svg', 'from_svg', SVG + 'from_svg', bridge='Svg_bridge', via='simulation',
  extra_binders=[['num_of_', 'list Z -> option T']] + FREM, fuel='(S (length $0))', while_step='from_svg_step',
  stmt=SB + 'sim_from_svg num_of_ frem_ $0 $G')
# ---------------------------------------------------------------- winding (C01)
F('bezpath.rs', 'PathSeg', 'winding_inner', 'winding_inner', WD + 'winding_inner', bridge='Winding_bridge')
F('bezpath.rs', 'PathSeg', 'winding', 'seg_winding', WD + 'seg_winding', bridge='Winding_bridge')


# ---------------------------------------------------------------- props by reachability
KW = r'(?:Definition|Fixpoint|Lemma|Theorem|Example|Corollary|Remark|Fact|Instance|Let|Function|Program Definition|Program Fixpoint)'


def strip_comments(s):
    out, depth, i = [], 0, 0
    while i < len(s):
        if s.startswith('(*', i):
            depth += 1
            i += 2
        elif s.startswith('*)', i) and depth:
            depth -= 1
            i += 2
        else:
            if not depth:
                out.append(s[i])
            i += 1
    return ''.join(out)


def items_of(path):
    """(imports, {item name: set of identifier tokens, dotted ones kept whole})"""
    s = strip_comments(open(path).read())
    imports = set()
    for m in re.finditer(r'Require\s+(?:Import|Export)?\s*([^.]*)\.', s):
        imports.update(x.split('.')[-1] for x in m.group(1).split())
    pos = [(m.start(), m.group(1)) for m in re.finditer(r'^\s*(?:Local |Global |#\[[^\]]*\]\s*)?' + KW + r'\s+([A-Za-z_][A-Za-z0-9_\']*)', s, re.M)]
    res = {}
    for k, (st, name) in enumerate(pos):
        en = pos[k + 1][0] if k + 1 < len(pos) else len(s)
        res.setdefault(name, set()).update(re.findall(r"[A-Za-z_][A-Za-z0-9_']*(?:\.[A-Za-z_][A-Za-z0-9_']*)*", s[st:en]))
    return imports, res


def compute_props():
    """{Cxx: set of (module, constant)} reachable from the statements of Properties/Cxx*.v and corr/Cxx_corr.v.
    A token resolves to the item of that name in the same file, else in a directly imported KV file;
    `Mod.name` resolves in file Mod."""
    mods = {}
    for d in ('base', 'model', 'spec', 'proofs', 'Properties', 'corr'):
        for p in glob.glob(os.path.join(VERIF, 'coq', d, '*.v')):
            mods[os.path.basename(p)[:-2]] = items_of(p)

    def resolve(mod, tok):
        parts = tok.split('.')
        if len(parts) >= 2:
            m = parts[-2]
            if m in mods and parts[-1] in mods[m][1]:
                return [(m, parts[-1])]
            return []
        imports, items = mods[mod]
        if tok in items:
            return [(mod, tok)]
        return [(m, tok) for m in imports if m in mods and tok in mods[m][1]]

    reach_of = {}
    for pj in sorted(glob.glob(os.path.join(VERIF, 'props', 'C[0-9][0-9].json'))):
        cid = os.path.basename(pj)[:-5]
        meta = json.load(open(pj))
        rootmods = [os.path.basename(f)[:-2] for f in meta.get('prop_files', [])] + [cid + '_corr']
        todo = [(m, n) for m in rootmods if m in mods for n in mods[m][1]]
        seen = set()
        while todo:
            key = todo.pop()
            if key in seen:
                continue
            seen.add(key)
            for tok in mods[key[0]][1][key[1]]:
                for r in resolve(key[0], tok):
                    if r not in seen:
                        todo.append(r)
        reach_of[cid] = seen
    return reach_of


def main():
    reach = compute_props()
    for f in FUNS:
        m = f.get('model')
        if m:
            key = tuple(m.split('.')[-2:])
            f['props'] = sorted(c for c, s in reach.items() if key in s)
        else:
            f['props'] = []
        for a in f.get('also', []):
            key = tuple(a['model'].split('.')[-2:])
            a['props'] = sorted(c for c, s in reach.items() if key in s)
    spec = dict(
        comment='kurbo2coq spec; regenerate with tools/kurbo2coq/mkspec.py. model = hand-model constant the generated definition must be definitionally equal to (null: helper without a model counterpart, inlined by reflexivity into its users).',
        imports=IMPORTS,
        derived_eq={'Point': 'KV.Geom.pt_eqb'},
        consts={'PI': 'fpi', 'sort_by_partial_cmp': 'KV.Extrema.sort_asc', 'str::parse::<f64>': 'num_of_',
                'u8::is_ascii_digit': 'KV.Svg.is_digit', 'u8::is_ascii_lowercase': 'KV.Svg.is_lower', 'u8::is_ascii_uppercase': 'KV.Svg.is_upper'},
        results={'SvgParseError': ['KV.Svg.res', 'KV.Svg.Ok', 'KV.Svg.Err']},
        defaults={'Point': '(mkPoint f0 f0)', 'Rect': '(mkRect f0 f0 f0 f0)', 'BezPath': '(@nil (PathEl T))'},
        panic_defaults={'f64': 'f0', 'Point': '(mkPoint f0 f0)', 'PathEl': '(MoveTo (mkPoint f0 f0))'},
        types=TYPES,
        functions=FUNS,
    )
    out = os.path.join(VERIF, 'props', 'translation.json')
    for a in sys.argv[1:]:
        if a.startswith('--out='):
            out = a[6:]
    text = json.dumps(spec, indent=1)
    # one function per line keeps the file reviewable
    head = dict(spec)
    head.pop('functions')
    head.pop('types')
    lines = ['{']
    for k, v in head.items():
        lines.append(' %s: %s,' % (json.dumps(k), json.dumps(v)))
    lines.append(' "types": [')
    lines.append(',\n'.join('  ' + json.dumps(t) for t in TYPES))
    lines.append(' ],')
    lines.append(' "functions": [')
    lines.append(',\n'.join('  ' + json.dumps(f) for f in FUNS))
    lines.append(' ]')
    lines.append('}')
    text = '\n'.join(lines) + '\n'
    json.loads(text)
    if '--check' in sys.argv:
        cur = open(out).read() if os.path.exists(out) else ''
        print('up to date' if cur == text else 'STALE')
        return
    open(out, 'w').write(text)
    print('wrote', out, len(FUNS), 'functions')


if __name__ == '__main__':
    main()
