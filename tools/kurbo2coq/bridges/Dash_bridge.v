(** Bridge for [DashIterator::step] (C13): the generated function updates the iterator field by field
    and carries [result] through the branches; the model builds the result and the new state per
    branch with its [set_*] helpers.  Equal by case analysis on the state, the stash and the tests. *)
From Coq Require Import ZArith QArith List Bool Floats.
From KV Require Import Scalar Geom Curves Path Dash.
From KVGen Require Gen.
From KVBridge Require Import BridgeLib.
Import ListNotations.

Tactic Notation "ds_unfold" reference(g) :=
  cbv beta iota zeta delta [g KV.Dash.fx_needinput KV.Dash.next_ix KV.Dash.push_stash
    KV.Dash.is_ToStash KV.Dash.is_Working KV.Dash.is_NeedInput KV.Dash.is_nil KV.Dash.fx_order KV.Dash.fixes_all
    KV.Dash.set_inner KV.Dash.set_input_done KV.Dash.set_closepath_pending KV.Dash.set_dash_ix KV.Dash.set_is_active
    KV.Dash.set_state KV.Dash.set_current_seg KV.Dash.set_cur_t KV.Dash.set_dash_remaining KV.Dash.set_seg_remaining
    KV.Dash.set_start_pt KV.Dash.set_last_pt KV.Dash.set_stash KV.Dash.set_stash_ix
    KV.Dash.inner KV.Dash.input_done KV.Dash.closepath_pending KV.Dash.dash_ix KV.Dash.is_active KV.Dash.state
    KV.Dash.current_seg KV.Dash.cur_t KV.Dash.dash_remaining KV.Dash.seg_remaining KV.Dash.start_pt KV.Dash.last_pt
    KV.Dash.stash KV.Dash.stash_ix andb negb f0 f1].

Lemma br_dash_step : forall (T : Type) (S : Scalar T) (arclen_ : (PathSeg T) -> T) (inv_arclen_ : (PathSeg T) -> T -> T) (dashes_ : list T) (init_ : KV.Dash.Phase T) (self_ : (KV.Dash.DS T)), Gen.dash_step arclen_ inv_arclen_ dashes_ init_ self_ = KV.Dash.step arclen_ inv_arclen_ KV.Dash.fixes_all dashes_ init_ self_.
Proof.
  intros T S al ial ds init [inn idn cpp dix act st seg t dr sr sp lp sh six].
  unfold KV.Dash.step. destruct st; destruct sh; destruct act; ds_unfold Gen.dash_step; br_ifs; ds_unfold f0; reflexivity.
Qed.

(** One iteration of the [loop] of [DashIterator::next] is the model's [tick] (simulation: the model's
    [TDone] drops the state, so only the result is compared there). *)
Lemma br_dash_next_body : forall (T : Type) (S : Scalar T) (arclen_ : (PathSeg T) -> T) (inv_arclen_ : (PathSeg T) -> T -> T) (dashes_ : list T) (init_ : KV.Dash.Phase T) (self_ : (KV.Dash.DS T)), match KV.Dash.tick arclen_ inv_arclen_ KV.Dash.fixes_all dashes_ init_ self_ with KV.Dash.TDone => fst (Gen.dash_next_body arclen_ inv_arclen_ dashes_ init_ self_) = Some None | KV.Dash.TCont tr_s => (Gen.dash_next_body arclen_ inv_arclen_ dashes_ init_ self_) = (None, tr_s) | KV.Dash.TEmit tr_e tr_s => (Gen.dash_next_body arclen_ inv_arclen_ dashes_ init_ self_) = (Some (Some tr_e), tr_s) end.
Proof.
  intros T S al ial ds init [inn idn cpp dix act st seg t dr sr sp lp sh six].
  unfold KV.Dash.tick. destruct st; ds_unfold Gen.dash_next_body.
  - destruct idn; [reflexivity|].
    match goal with |- context [get_input ?a ?b ?c ?d] => set (gi := get_input a b c d) end.
    destruct gi as [inn' idn' cpp' dix' act' st' seg' t' dr' sr' sp' lp' sh' six'].
    ds_unfold f0. destruct idn'; [reflexivity|]. destruct st'; reflexivity.
  - match goal with |- context [step ?a ?b ?c ?d ?e ?f] => set (sr0 := step a b c d e f) end.
    destruct sr0 as [[el|] [inn' idn' cpp' dix' act' st' seg' t' dr' sr' sp' lp' sh' six']]; ds_unfold f0; reflexivity.
  - match goal with |- context [step ?a ?b ?c ?d ?e ?f] => set (sr0 := step a b c d e f) end.
    destruct sr0 as [[el|] [inn' idn' cpp' dix' act' st' seg' t' dr' sr' sp' lp' sh' six']]; ds_unfold f0; reflexivity.
  - destruct (nth_error sh six) as [el|]; ds_unfold f0; [reflexivity|].
    destruct idn; [reflexivity|]. destruct cpp; reflexivity.
Qed.

(** the body of [dash_impl]'s initial-phase loop: one unfolding of the model's [init_loop] where its condition holds *)
(* owner: dash_init_step *)
Lemma sim_dash_init_step : forall (T : Type) (S : Scalar T) (dash_ix_ : nat) (dash_remaining_ : T) (is_active_ : bool) (dashes_ : (list T)), forall tr_fuel tr_fx, KV.Dash.init_continue tr_fx dash_remaining_ is_active_ = true -> KV.Dash.init_loop tr_fx dashes_ (Datatypes.S tr_fuel) dash_ix_ dash_remaining_ is_active_ = (let '(_, tr_i, tr_r, tr_a) := (Gen.dash_init_step dash_ix_ dash_remaining_ is_active_ dashes_) in KV.Dash.init_loop tr_fx dashes_ tr_fuel tr_i tr_r tr_a).
Proof.
  intros T S ix rem act dashes fuel fx Hc. cbn [KV.Dash.init_loop]. rewrite Hc.
  cbv beta iota zeta delta [Gen.dash_init_step]. rewrite PeanoNat.Nat.add_1_r. reflexivity.
Qed.
(* the step never leaves the function: there is no [return] in the loop body *)
(* owner: dash_init_step *)
Lemma dash_init_step_goes_on : forall (T : Type) (S : Scalar T) (ix : nat) (rem : T) (act : bool) (dashes : list T),
  fst (fst (fst (Gen.dash_init_step ix rem act dashes))) = None.
Proof. reflexivity. Qed.

Lemma br_dash_init_step : forall (T : Type) (S : Scalar T) (dash_ix_ : nat) (dash_remaining_ : T) (is_active_ : bool) (dashes_ : (list T)), forall tr_fuel tr_fx, KV.Dash.init_continue tr_fx dash_remaining_ is_active_ = true -> KV.Dash.init_loop tr_fx dashes_ (Datatypes.S tr_fuel) dash_ix_ dash_remaining_ is_active_ = (let '(_, tr_i, tr_r, tr_a) := (Gen.dash_init_step dash_ix_ dash_remaining_ is_active_ dashes_) in KV.Dash.init_loop tr_fx dashes_ tr_fuel tr_i tr_r tr_a).
Proof. exact sim_dash_init_step. Qed.

(** ** [dash_impl] as a whole: [dash_ix = 0], [dashes[0] - dash_offset], the initial-phase [while] (with the model's fuel; one
    iteration is the generated step above, not translated a second time; its condition carries the [fx_init] repair, so the
    model is taken at [fixes_all]) and the [DashIterator { .. }] literal, which the translator renders as the pair
    (the constant fields [dashes], [init_dash_ix], [init_dash_remaining], [init_is_active]; the model record).  Against the
    model's [dash_init] and [init_state], wherever [dash_init] is [InitOk]: [InitPanic] is the panic of [dashes[0]] on an
    empty pattern, [InitFuel] the model's fuel running out (the generated loop just stops there). *)
Section DashImpl.
Context {T : Type} `{Scalar T}.

Definition sim_dash_impl (fuel : nat) (inner : list (PathEl T)) (offset : T) (dashes : list T)
    (g : (list T * nat * T * bool) * KV.Dash.DS T) : Prop :=
  match KV.Dash.dash_init KV.Dash.fixes_all dashes fuel offset with
  | KV.Dash.InitOk ph => g = ((dashes, KV.Dash.p_ix ph, KV.Dash.p_rem ph, KV.Dash.p_act ph), KV.Dash.init_state ph inner)
  | _ => True
  end.

(* owner: dash_impl *)
Lemma sim_dash_impl_all fuel inner offset dashes : sim_dash_impl fuel inner offset dashes (Gen.dash_impl fuel inner offset dashes).
Proof.
  unfold sim_dash_impl, dash_init. destruct dashes as [|d0 ds]; [exact I|].
  set (dashes := d0 :: ds).
  cbv beta zeta delta [Gen.dash_impl].
  change (nth 0 dashes f0) with d0.
  match goal with |- context [?F fuel 0%nat (d0 - offset)%S true] =>
    assert (E : forall fuel ix rem act,
               match init_loop fixes_all dashes fuel ix rem act with
               | Some ph => F fuel ix rem act = (p_ix ph, p_rem ph, p_act ph)
               | None => True
               end)
  end.
  { clear fuel. induction fuel as [|k IH]; intros ix rem act.
    - cbn [init_loop]. destruct (init_continue fixes_all rem act); [exact I | reflexivity].
    - assert (C : init_continue fixes_all rem act = ((rem <? fofZ 0) || ((rem =? fofZ 0) && negb act))%S) by reflexivity.
      destruct (init_continue fixes_all rem act) eqn:Hc.
      + rewrite (sim_dash_init_step T _ ix rem act dashes k fixes_all Hc).
        pose proof (dash_init_step_goes_on T _ ix rem act dashes) as G.
        cbv beta iota. rewrite <- C. cbv beta iota.
        destruct (Gen.dash_init_step ix rem act dashes) as [[[o i'] r'] a']. cbn [fst] in G. subst o. apply IH.
      + cbn [init_loop]. rewrite Hc. cbv beta iota. rewrite <- C. reflexivity. }
  specialize (E fuel 0%nat (d0 - offset)%S true).
  destruct (init_loop fixes_all dashes fuel 0 (d0 - offset)%S true) as [ph|]; [|exact I].
  rewrite E. reflexivity.
Qed.
End DashImpl.

Lemma br_dash_impl : forall (T : Type) (S : Scalar T) (fuel_ : nat) (inner_ : (list (PathEl T))) (dash_offset_ : T) (dashes_ : (list T)), KVBridge.Dash_bridge.sim_dash_impl fuel_ inner_ dash_offset_ dashes_ (Gen.dash_impl fuel_ inner_ dash_offset_ dashes_).
Proof. intros. apply sim_dash_impl_all. Qed.
