(** Bridge for [DashIterator::step] (C13): the generated function updates the iterator field by field
    and carries [result] through the branches; the model builds the result and the new state per
    branch with its [set_*] helpers.  Equal by case analysis on the state, the stash and the tests. *)
From Coq Require Import ZArith QArith List Bool Floats.
From KV Require Import Scalar Geom Curves Path Dash.
From KVGen Require Gen.
From KVBridge Require Import BridgeLib.
Import ListNotations.

Tactic Notation "ds_unfold" reference(g) :=
  cbv beta iota zeta delta [g KV.Dash.fx_needinput KV.Dash.next_ix KV.Dash.push_stash
    KV.Dash.is_ToStash KV.Dash.is_Working KV.Dash.is_NeedInput KV.Dash.is_nil KV.Dash.fx_order KV.Dash.fixes_all
    KV.Dash.set_inner KV.Dash.set_input_done KV.Dash.set_closepath_pending KV.Dash.set_dash_ix KV.Dash.set_is_active
    KV.Dash.set_state KV.Dash.set_current_seg KV.Dash.set_cur_t KV.Dash.set_dash_remaining KV.Dash.set_seg_remaining
    KV.Dash.set_start_pt KV.Dash.set_last_pt KV.Dash.set_stash KV.Dash.set_stash_ix
    KV.Dash.inner KV.Dash.input_done KV.Dash.closepath_pending KV.Dash.dash_ix KV.Dash.is_active KV.Dash.state
    KV.Dash.current_seg KV.Dash.cur_t KV.Dash.dash_remaining KV.Dash.seg_remaining KV.Dash.start_pt KV.Dash.last_pt
    KV.Dash.stash KV.Dash.stash_ix andb negb f0 f1].

Lemma br_dash_step : forall (T : Type) (S : Scalar T) (arclen_ : (PathSeg T) -> T) (inv_arclen_ : (PathSeg T) -> T -> T) (dashes_ : list T) (init_ : KV.Dash.Phase T) (self_ : (KV.Dash.DS T)), Gen.dash_step arclen_ inv_arclen_ dashes_ init_ self_ = KV.Dash.step arclen_ inv_arclen_ KV.Dash.fixes_all dashes_ init_ self_.
Proof.
  intros T S al ial ds init [inn idn cpp dix act st seg t dr sr sp lp sh six].
  unfold KV.Dash.step. destruct st; destruct sh; destruct act; ds_unfold Gen.dash_step; br_ifs; ds_unfold f0; reflexivity.
Qed.

(** One iteration of the [loop] of [DashIterator::next] is the model's [tick] (simulation: the model's
    [TDone] drops the state, so only the result is compared there). *)
Lemma br_dash_next_body : forall (T : Type) (S : Scalar T) (arclen_ : (PathSeg T) -> T) (inv_arclen_ : (PathSeg T) -> T -> T) (dashes_ : list T) (init_ : KV.Dash.Phase T) (self_ : (KV.Dash.DS T)), match KV.Dash.tick arclen_ inv_arclen_ KV.Dash.fixes_all dashes_ init_ self_ with KV.Dash.TDone => fst (Gen.dash_next_body arclen_ inv_arclen_ dashes_ init_ self_) = Some None | KV.Dash.TCont tr_s => (Gen.dash_next_body arclen_ inv_arclen_ dashes_ init_ self_) = (None, tr_s) | KV.Dash.TEmit tr_e tr_s => (Gen.dash_next_body arclen_ inv_arclen_ dashes_ init_ self_) = (Some (Some tr_e), tr_s) end.
Proof.
  intros T S al ial ds init [inn idn cpp dix act st seg t dr sr sp lp sh six].
  unfold KV.Dash.tick. destruct st; ds_unfold Gen.dash_next_body.
  - destruct idn; [reflexivity|].
    match goal with |- context [get_input ?a ?b ?c ?d] => set (gi := get_input a b c d) end.
    destruct gi as [inn' idn' cpp' dix' act' st' seg' t' dr' sr' sp' lp' sh' six'].
    ds_unfold f0. destruct idn'; [reflexivity|]. destruct st'; reflexivity.
  - match goal with |- context [step ?a ?b ?c ?d ?e ?f] => set (sr0 := step a b c d e f) end.
    destruct sr0 as [[el|] [inn' idn' cpp' dix' act' st' seg' t' dr' sr' sp' lp' sh' six']]; ds_unfold f0; reflexivity.
  - match goal with |- context [step ?a ?b ?c ?d ?e ?f] => set (sr0 := step a b c d e f) end.
    destruct sr0 as [[el|] [inn' idn' cpp' dix' act' st' seg' t' dr' sr' sp' lp' sh' six']]; ds_unfold f0; reflexivity.
  - destruct (nth_error sh six) as [el|]; ds_unfold f0; [reflexivity|].
    destruct idn; [reflexivity|]. destruct cpp; reflexivity.
Qed.

(** the body of [dash_impl]'s initial-phase loop: one unfolding of the model's [init_loop] where its condition holds *)
Lemma br_dash_init_step : forall (T : Type) (S : Scalar T) (dash_ix_ : nat) (dash_remaining_ : T) (is_active_ : bool) (dashes_ : (list T)), forall tr_fuel tr_fx, KV.Dash.init_continue tr_fx dash_remaining_ is_active_ = true -> KV.Dash.init_loop tr_fx dashes_ (Datatypes.S tr_fuel) dash_ix_ dash_remaining_ is_active_ = (let '(_, tr_i, tr_r, tr_a) := (Gen.dash_init_step dash_ix_ dash_remaining_ is_active_ dashes_) in KV.Dash.init_loop tr_fx dashes_ tr_fuel tr_i tr_r tr_a).
Proof.
  intros T S ix rem act dashes fuel fx Hc. cbn [KV.Dash.init_loop]. rewrite Hc.
  cbv beta iota zeta delta [Gen.dash_init_step]. rewrite PeanoNat.Nat.add_1_r. reflexivity.
Qed.
