(** Bridges for [PathSeg::winding_inner] and [PathSeg::winding] (C01).
    - the root loops of [winding_inner] are local fixpoints; the model uses its [w_first_root];
    - Winding.v has its own copies of the extrema functions ([w_seg_extrema], [w_extrema_ranges], ...);
      the generated [winding] calls the Extrema.v ones, so the two families of hand models are shown
      equal here as well (structural: same definitions up to the names of the helpers). *)
From Coq Require Import ZArith QArith List Bool Floats.
From KV Require Import Scalar Geom Curves Rect Path Solvers Extrema Winding.
From KVGen Require Gen.
From KVBridge Require Import BridgeLib.
Import ListNotations.

Section W.
Context {T : Type} `{Scalar T}.

Lemma first_root_eq (xat : T -> T) (pxv : T) (sign dflt : Z) (l : list T) :
  (fix go (l : list T) {struct l} : Z :=
     match l with
     | [] => dflt
     | t :: r => if fleb (fofZ 0) t && fleb t (fofZ 1)
                 then (if fleb (xat t) pxv then sign else 0%Z) else go r
     end) l = w_first_root l xat pxv sign dflt.
Proof.
  induction l as [|t l IH]; [reflexivity|].
  cbn [w_first_root]. unfold f0, f1. rewrite IH. reflexivity.
Qed.

(** Winding.v's copies of the extrema code are the Extrema.v ones *)
Lemma insert_eq (x : T) (l : list T) : insert_sorted x l = w_insert x l.
Proof. induction l as [|y r IH]; [reflexivity|]. cbn [insert_sorted w_insert]. rewrite IH. reflexivity. Qed.

Lemma sort_eq_from (l : list T) : forall acc,
  fold_left (fun a x => insert_sorted x a) l acc = fold_left (fun a x => w_insert x a) l acc.
Proof. induction l as [|x l IH]; intro acc; [reflexivity|]. cbn [fold_left]. rewrite insert_eq. apply IH. Qed.

Lemma seg_extrema_eq (s : PathSeg T) : seg_extrema s = w_seg_extrema s.
Proof.
  destruct s as [l|q|c]; [reflexivity|reflexivity|].
  cbv beta iota zeta delta [seg_extrema w_seg_extrema cubic_extrema w_cubic_extrema sort_asc w_sort].
  rewrite sort_eq_from. reflexivity.
Qed.

Lemma ranges_from_eq (l : list T) : forall t0, ranges_from t0 l = w_ranges_from t0 l.
Proof. induction l as [|t l IH]; intro t0; [reflexivity|]. cbn [ranges_from w_ranges_from]. rewrite IH. reflexivity. Qed.

Lemma extrema_ranges_eq (s : PathSeg T) : extrema_ranges (seg_extrema s) = w_extrema_ranges s.
Proof. unfold extrema_ranges, w_extrema_ranges. rewrite seg_extrema_eq. apply ranges_from_eq. Qed.

End W.

Lemma br_winding_inner : forall (T : Type) (S : Scalar T) (self_ : (PathSeg T)) (p_ : (Point T)), Gen.winding_inner self_ p_ = KV.Winding.winding_inner self_ p_.
Proof.
  intros T S s p.
  destruct s as [l|q|c];
    cbv beta iota zeta delta [Gen.winding_inner KV.Winding.winding_inner KV.Winding.winding_inner_gen KV.Winding.w_side f0 f1 f2 f3];
    repeat match goal with |- (if ?c then _ else _) = _ => destruct c end;
    try reflexivity; apply first_root_eq.
Qed.

Lemma br_seg_winding : forall (T : Type) (S : Scalar T) (self_ : (PathSeg T)) (p_ : (Point T)), Gen.seg_winding self_ p_ = KV.Winding.seg_winding self_ p_.
Proof.
  intros T S s p.
  cbv beta iota zeta delta [Gen.seg_winding KV.Winding.seg_winding KV.Winding.seg_winding_gen KV.Winding.w_pieces_gen
    KV.Winding.w_subpieces KV.Winding.sum_Z KV.Winding.winding_inner].
  rewrite extrema_ranges_eq. generalize (w_extrema_ranges s). intros [|r [|r2 rs]].
  - reflexivity.
  - reflexivity.
  - rewrite map_map. reflexivity.
Qed.
