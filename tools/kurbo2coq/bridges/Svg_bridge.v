(** Simulation of the SVG lexer (svg.rs, [SvgLexer]) by the lexer of KV.Svg (C16).

    Rust state: (data as bytes, ix, last_pt); the model works on the remaining input.  The abstraction is
    [abs (data, ix, _) = skipn ix data].  Every lexer method is shown to (i) keep [data] and [last_pt],
    (ii) move [ix] forward over exactly the bytes the model consumes, (iii) return the model's result.
    The generated [while] loops run on a fuel bound ([S (length data)]); these lemmas, which hold for every
    input, show that bound sufficient.  Number text is turned into a value by the same parameter
    ([num_of]) on both sides.  Only list/nat/Z reasoning is used. *)
From Coq Require Import ZArith QArith List Bool Floats Arith Lia.
From KV Require Import Scalar Geom Curves Path ShapeTypes Svg.
From KVGen Require Gen.
From KVBridge Require Import BridgeLib.
Import ListNotations.
Local Open Scope nat_scope.

Section Lex.
Context {T : Type} `{Scalar T}.

Definition LS : Type := (list Z * nat * Point T)%type.
Definition abs (s : LS) : list Z := skipn (snd (fst s)) (fst (fst s)).
Definition same_frame (s s' : LS) : Prop := fst (fst s') = fst (fst s) /\ snd s' = snd s.

Definition sim_unit (m : list Z) (s : LS) (g : LS) : Prop := same_frame s g /\ abs g = m.
Definition sim_opt {A} (m : option (A * list Z)) (s : LS) (g : option A * LS) : Prop :=
  match m with
  | Some (a, r) => fst g = Some a /\ same_frame s (snd g) /\ abs (snd g) = r
  | None => fst g = None
  end.
Definition sim_res {A} (m : res (A * list Z)) (s : LS) (g : res A * LS) : Prop :=
  match m with
  | Ok (a, r) => fst g = Ok a /\ same_frame s (snd g) /\ abs (snd g) = r
  | Err e => fst g = Err e
  end.

(** ** lists *)
Lemma nth_error_skipn {A} (i : nat) : forall (d : list A), nth_error d i = hd_error (skipn i d).
Proof. induction i as [|i IH]; intros [|x d]; try reflexivity. apply IH. Qed.

Lemma skipn_S_tl {A} (i : nat) : forall (d : list A), skipn (S i) d = tl (skipn i d).
Proof. induction i as [|i IH]; intros [|x d]; try reflexivity. apply (IH d). Qed.

Lemma skipn_cons {A} (i : nat) (d : list A) c r : skipn i d = c :: r -> skipn (S i) d = r.
Proof. intro E. rewrite skipn_S_tl, E. reflexivity. Qed.

Variable num_of : list Z -> option T.

(** ** get_byte / unget *)
Lemma get_byte_eq (d : list Z) (i : nat) (p : Point T) :
  Gen.lex_get_byte num_of (d, i, p) =
  match skipn i d with [] => (None, (d, i, p)) | c :: _ => (Some c, (d, S i, p)) end.
Proof.
  unfold Gen.lex_get_byte. cbn [fst snd]. rewrite nth_error_skipn.
  destruct (skipn i d); reflexivity.
Qed.

Lemma unget_eq (d : list Z) (i : nat) (p : Point T) : Gen.lex_unget num_of (d, S i, p) = (d, i, p).
Proof. unfold Gen.lex_unget. cbn [fst snd Nat.sub]. rewrite Nat.sub_0_r. reflexivity. Qed.

(** ** skip_ws *)
(* owner: lex_skip_ws *)
Lemma skip_ws_adv (s : LS) :
  exists k, Gen.lex_skip_ws num_of s = (fst (fst s), snd (fst s) + k, snd s)
            /\ skipn (snd (fst s) + k) (fst (fst s)) = skip_ws (abs s).
Proof.
  destruct s as [[d i0] p]. unfold abs. cbn [fst snd].
  cbv beta zeta delta [Gen.lex_skip_ws].
  match goal with |- context [?F (S (length (fst (fst (d, i0, p))))) (d, i0, p)] =>
    assert (E : forall fuel i, length (skipn i d) < fuel ->
                exists k, F fuel (d, i, p) = (d, i + k, p) /\ skipn (i + k) d = skip_ws (skipn i d))
  end.
  { induction fuel as [|g IH]; intros i Hf; [lia|].
    cbn [fst snd]. rewrite nth_error_skipn.
    destruct (skipn i d) as [|c r] eqn:E.
    - exists 0. rewrite Nat.add_0_r, E. split; reflexivity.
    - cbn [hd_error skip_ws]. fold (is_ws c). destruct (is_ws c); cbn [negb].
      + pose proof (skipn_cons _ _ _ _ E) as Hs.
        assert (Hl : length (skipn (S i) d) < g) by (rewrite Hs; cbn [length] in Hf; lia).
        destruct (IH (S i) Hl) as [k [E1 E2]].
        cbn [Nat.add] in E1, E2.
        exists (S k). rewrite Nat.add_succ_r. split; [exact E1|].
        rewrite E2, Hs. reflexivity.
      + exists 0. rewrite Nat.add_0_r, E. split; reflexivity. }
  assert (Hl : length (skipn i0 d) < S (length d)) by (rewrite skipn_length; lia).
  exact (E (S (length d)) i0 Hl).
Qed.

Ltac lx_frame := unfold same_frame, abs; cbn [fst snd]; repeat split; try reflexivity;
  try (eapply skipn_cons; eassumption); try assumption.

(* owner: lex_skip_ws *)
Lemma sim_skip_ws (s : LS) : sim_unit (skip_ws (abs s)) s (Gen.lex_skip_ws num_of s).
Proof.
  destruct (skip_ws_adv s) as [k [E1 E2]]. rewrite E1. destruct s as [[d i] p]. lx_frame.
Qed.

(* owner: lex_opt_comma *)
Lemma sim_opt_comma (s : LS) : sim_unit (opt_comma (abs s)) s (Gen.lex_opt_comma num_of s).
Proof.
  destruct (skip_ws_adv s) as [k [E1 E2]]. destruct s as [[d i] p]. cbn [fst snd] in E1, E2.
  cbv beta zeta delta [Gen.lex_opt_comma]. rewrite E1, get_byte_eq.
  unfold opt_comma. rewrite <- E2. unfold is_comma.
  destruct (skipn (i + k) d) as [|c r] eqn:E.
  - lx_frame.
  - cbn [fst snd]. destruct (Z.eqb c 44); cbn [negb]; [|rewrite unget_eq]; lx_frame.
Qed.

(* owner: lex_get_flag *)
Lemma sim_get_flag (s : LS) : sim_res (get_flag (abs s)) s (Gen.lex_get_flag num_of s).
Proof.
  destruct (skip_ws_adv s) as [k [E1 E2]]. destruct s as [[d i] p]. cbn [fst snd] in E1, E2.
  cbv beta zeta delta [Gen.lex_get_flag]. rewrite E1, get_byte_eq.
  unfold get_flag. rewrite <- E2.
  destruct (skipn (i + k) d) as [|c r] eqn:E.
  - reflexivity.
  - cbn [fst snd]. destruct (Z.eqb c 48); [lx_frame|]. destruct (Z.eqb c 49); [lx_frame|]. reflexivity.
Qed.

(* owner: lex_get_cmd *)
Lemma sim_get_cmd (s : LS) (last_cmd : Z) : sim_opt (get_cmd true last_cmd (abs s)) s (Gen.lex_get_cmd num_of s last_cmd).
Proof.
  destruct (skip_ws_adv s) as [k [E1 E2]]. destruct s as [[d i] p]. cbn [fst snd] in E1, E2.
  cbv beta zeta delta [Gen.lex_get_cmd]. rewrite E1, get_byte_eq.
  unfold get_cmd. rewrite <- E2. unfold number_start.
  destruct (skipn (i + k) d) as [|c r] eqn:E.
  - reflexivity.
  - cbn [fst snd andb]. destruct (is_lower c || is_upper c); [lx_frame|].
    destruct (negb (Z.eqb last_cmd 0) && (Z.eqb c 45 || Z.eqb c 43 || Z.eqb c 46 || is_digit c)); rewrite unget_eq; [lx_frame|reflexivity].
Qed.

Lemma skipn_add {A} (a : nat) : forall (b : nat) (l : list A), skipn (a + b) l = skipn b (skipn a l).
Proof. induction a as [|a IH]; intros b [|x l]; cbn [Nat.add skipn]; try reflexivity; [destruct b; reflexivity | apply IH]. Qed.

Lemma skipn_consumed {A} (d : list A) (a : nat) (t r : list A) :
  skipn a d = t ++ r -> skipn (a + length t) d = r.
Proof.
  intro E. rewrite skipn_add, E. clear E. induction t as [|x t IH]; [reflexivity|]. exact IH.
Qed.

Lemma firstn_consumed {A} (d : list A) (a : nat) (t r : list A) :
  skipn a d = t ++ r -> firstn (a + length t - a) (skipn a d) = t.
Proof.
  intro E. rewrite E. replace (a + length t - a) with (length t) by lia.
  clear E. induction t as [|x t IH]; [reflexivity|]. cbn [length firstn app]. rewrite IH. reflexivity.
Qed.

(* owner: lex_get_number *)
Lemma sim_get_number (s : LS) : sim_res (get_number num_of (abs s)) s (Gen.lex_get_number num_of s).
Proof.
  destruct (skip_ws_adv s) as [k [E1 E2]]. destruct s as [[d i] p]. unfold abs in E2. cbn [fst snd] in E1, E2.
  cbv beta zeta delta [Gen.lex_get_number].
  match goal with |- context [?F (S (length (fst (fst (d, i, p)))))] =>
    lazymatch type of F with (_ -> _ -> _ -> _ -> _) => set (L1 := F) | _ => fail end end.
  match goal with |- context [?F (S (length (fst (fst (d, i, p)))))] =>
    lazymatch F with L1 => fail | _ => set (L2 := F) end end.
  cbn [fst snd]. rewrite E1, get_byte_eq.
  unfold get_number, lex_number, abs. cbn [fst snd]. rewrite <- E2.
  destruct (skipn (i + k) d) as [|c r] eqn:E; [reflexivity|].
  cbn [fst snd].
  assert (A1 : forall fuel i0 dc seen, length (skipn i0 d) < fuel ->
            fst (L1 fuel (d, i0, p) dc seen)
            = ((d, i0 + length (fst (fst (scan_mant seen (skipn i0 d)))), p), dc + snd (fst (scan_mant seen (skipn i0 d))))
            /\ skipn i0 d = fst (fst (scan_mant seen (skipn i0 d))) ++ snd (scan_mant seen (skipn i0 d))).
  { induction fuel as [|g IH]; intros i0 dc seen Hf; [lia|].
    cbn [L1]. fold L1. rewrite get_byte_eq.
    destruct (skipn i0 d) as [|c0 r0] eqn:E0.
    - cbn. rewrite !Nat.add_0_r. split; reflexivity.
    - pose proof (skipn_cons _ _ _ _ E0) as Hs.
      assert (Hl : length (skipn (S i0) d) < g) by (rewrite Hs; cbn [length] in Hf; lia).
      cbn [scan_mant]. unfold is_period.
      destruct (is_digit c0).
      + destruct (IH (S i0) (S dc) seen Hl) as [P1 P2]. rewrite Hs in P1, P2.
        destruct (scan_mant seen r0) as [[t n] r'] eqn:Em. cbn [fst snd] in *.
        rewrite P1. cbn [length app]. rewrite !Nat.add_succ_r. cbn [Nat.add]. split; [reflexivity|]. rewrite P2 at 1. reflexivity.
      + destruct (Z.eqb c0 46 && negb seen).
        * destruct (IH (S i0) dc true Hl) as [P1 P2]. rewrite Hs in P1, P2.
          destruct (scan_mant true r0) as [[t n] r'] eqn:Em. cbn [fst snd] in *.
          rewrite P1. cbn [length app]. rewrite !Nat.add_succ_r. cbn [Nat.add]. split; [reflexivity|]. rewrite P2 at 1. reflexivity.
        * rewrite unget_eq. cbn. rewrite !Nat.add_0_r. split; reflexivity. }
  assert (A2 : forall fuel i0, length (skipn i0 d) < fuel ->
            L2 fuel (d, i0, p) = (d, i0 + length (fst (scan_digits (skipn i0 d))), p)
            /\ skipn i0 d = fst (scan_digits (skipn i0 d)) ++ snd (scan_digits (skipn i0 d))).
  { induction fuel as [|g IH]; intros i0 Hf; [lia|].
    cbn [L2]. fold L2. rewrite get_byte_eq.
    destruct (skipn i0 d) as [|c0 r0] eqn:E0.
    - cbn. rewrite Nat.add_0_r. split; reflexivity.
    - pose proof (skipn_cons _ _ _ _ E0) as Hs.
      assert (Hl : length (skipn (S i0) d) < g) by (rewrite Hs; cbn [length] in Hf; lia).
      cbn [scan_digits].
      destruct (is_digit c0); cbn [negb].
      + destruct (IH (S i0) Hl) as [P1 P2]. rewrite Hs in P1, P2.
        destruct (scan_digits r0) as [t r'] eqn:Em. cbn [fst snd] in *.
        rewrite P1. cbn [length app]. rewrite !Nat.add_succ_r. cbn [Nat.add]. split; [reflexivity|]. rewrite P2 at 1. reflexivity.
      + rewrite unget_eq. cbn. rewrite Nat.add_0_r. split; reflexivity. }
  assert (TAIL : forall jf tok n s3, skipn (i + k) d = tok ++ s3 -> skipn jf d = s3 -> jf = i + k + length tok ->
            sim_res (bind (if (0 <? Z.of_nat n)%Z then Ok (tok, s3) else Err Wrong)
                          (fun '(tok, r0) => match num_of tok with Some x => Ok (x, r0) | None => Err Wrong end))
                    (d, i, p)
                    ((if Nat.ltb 0 n then match num_of (firstn (jf - (i + k)) (skipn (i + k) d)) with Some x => Ok x | None => Err Wrong end else Err Wrong), (d, jf, p))).
  { intros jf tok n s3 Hsk Hs3 Hj. subst jf. rewrite (firstn_consumed d (i + k) tok _ Hsk).
    destruct n as [|n']; [reflexivity|]. cbn [Nat.ltb Nat.leb].
    change ((0 <? Z.of_nat (S n'))%Z) with true. cbn [bind].
    destruct (num_of tok); [lx_frame | reflexivity]. }
  (* sign *)
  assert (SG : exists sg j,
             (if negb ((c =? 45)%Z || (c =? 43)%Z) then Gen.lex_unget num_of (d, S (i + k), p) else (d, S (i + k), p)) = (d, j, p)
             /\ (if is_sign c then ([c], r) else ([], c :: r)) = (sg, skipn j d)
             /\ j = i + k + length sg /\ skipn (i + k) d = sg ++ skipn j d).
  { unfold is_sign. destruct ((c =? 45)%Z || (c =? 43)%Z); cbn [negb].
    - exists [c], (S (i + k)). rewrite (skipn_cons _ _ _ _ E). repeat split; [cbn [length]; lia | rewrite E; reflexivity].
    - exists [], (i + k). rewrite unget_eq, E. repeat split; cbn [length]; lia. }
  destruct SG as [sg [j [S1 [S2 [S3 S4]]]]]. rewrite S1, S2. clear S1 S2.
  (* mantissa *)
  assert (Hlj : length (skipn j d) < S (length d)) by (rewrite skipn_length; lia).
  destruct (A1 (S (length d)) j 0 false Hlj) as [M1 M2].
  destruct (scan_mant false (skipn j d)) as [[m n] s2] eqn:Em. cbn [fst snd] in M1, M2. cbn [Nat.add] in M1.
  destruct (L1 (S (length d)) (d, j, p) 0 false) as [[st dc] sn]. cbn [fst] in M1. injection M1 as -> ->.
  pose proof (skipn_consumed d j m s2 M2) as Hs2.
  assert (Tm : skipn (i + k) d = (sg ++ m) ++ skipn (j + length m) d /\ j + length m = i + k + length (sg ++ m)).
  { rewrite Hs2, <- app_assoc, <- M2. split; [exact S4 | rewrite app_length; lia]. }
  destruct Tm as [Tm1 Tm2]. set (j2 := j + length m) in *.
  rewrite get_byte_eq, Hs2. unfold scan_exp, is_e.
  destruct s2 as [|c1 r1].
  { (* end of input after the mantissa *)
    cbn [fst snd]. apply TAIL; [rewrite Tm1, Hs2, !app_nil_r; reflexivity | exact Hs2 | rewrite !app_nil_r; exact Tm2]. }
  cbn [fst snd].
  destruct ((c1 =? 101)%Z || (c1 =? 69)%Z).
  2:{ (* no exponent *)
    rewrite unget_eq. cbn [fst snd].
    apply TAIL; [rewrite Tm1, Hs2, !app_nil_r; reflexivity | exact Hs2 | rewrite !app_nil_r; exact Tm2]. }
  pose proof (skipn_cons _ _ _ _ Hs2) as Hr1.
  rewrite get_byte_eq, Hr1.
  destruct r1 as [|c2 r2]; [reflexivity|]. cbn [fst snd].
  pose proof (skipn_cons _ _ _ _ Hr1) as Hr2.
  unfold is_sign.
  destruct ((c2 =? 45)%Z || (c2 =? 43)%Z).
  - rewrite get_byte_eq, Hr2.
    destruct r2 as [|c3 r3]; [reflexivity|]. cbn [fst snd].
    pose proof (skipn_cons _ _ _ _ Hr2) as Hr3.
    destruct (is_digit c3); cbn [negb]; [|reflexivity].
    assert (Hl3 : length (skipn (S (S (S j2))) d) < S (length d)) by (rewrite skipn_length; lia).
    destruct (A2 (S (length d)) (S (S (S j2))) Hl3) as [D1 D2]. rewrite Hr3 in D1, D2.
    destruct (scan_digits r3) as [ds r4] eqn:Ed. cbn [fst snd] in D1, D2.
    rewrite D1. cbn [fst snd].
    apply TAIL.
    + rewrite Tm1, Hs2, D2. rewrite <- !app_assoc. reflexivity.
    + apply (skipn_consumed d (S (S (S j2))) ds r4). rewrite Hr3. exact D2.
    + rewrite !app_length in *. cbn [length] in *. rewrite !app_length in *. cbn [length]. lia.
  - destruct (is_digit c2); cbn [negb]; [|reflexivity].
    assert (Hl2 : length (skipn (S (S j2)) d) < S (length d)) by (rewrite skipn_length; lia).
    destruct (A2 (S (length d)) (S (S j2)) Hl2) as [D1 D2]. rewrite Hr2 in D1, D2.
    destruct (scan_digits r2) as [ds r4] eqn:Ed. cbn [fst snd] in D1, D2.
    rewrite D1. cbn [fst snd].
    apply TAIL.
    + rewrite Tm1, Hs2, D2. rewrite <- !app_assoc. reflexivity.
    + apply (skipn_consumed d (S (S j2)) ds r4). rewrite Hr2. exact D2.
    + rewrite !app_length in *. cbn [length] in *. rewrite !app_length in *. cbn [length]. lia.
Qed.

Lemma frame_trans (a b c : LS) : same_frame a b -> same_frame b c -> same_frame a c.
Proof. unfold same_frame. intros [A1 A2] [B1 B2]. split; congruence. Qed.

(* owner: lex_get_number_pair *)
Lemma sim_get_number_pair (s : LS) : sim_res (get_number_pair num_of (abs s)) s (Gen.lex_get_number_pair num_of s).
Proof.
  cbv beta zeta delta [Gen.lex_get_number_pair get_number_pair Gen.point_new].
  pose proof (sim_get_number s) as N1. unfold sim_res in N1.
  destruct (Gen.lex_get_number num_of s) as [r1 s1].
  destruct (get_number num_of (abs s)) as [[x t1]|e]; cbn [bind fst snd] in *; [|subst r1; reflexivity].
  destruct N1 as [-> [F1 A1]].
  destruct (sim_opt_comma s1) as [F2 A2]. rewrite A1 in A2.
  set (s2 := Gen.lex_opt_comma num_of s1) in *.
  pose proof (sim_get_number s2) as N2. unfold sim_res in N2. rewrite A2 in N2.
  destruct (Gen.lex_get_number num_of s2) as [r2 s3].
  destruct (get_number num_of (opt_comma t1)) as [[y t2]|e]; cbn [bind fst snd] in *; [|subst r2; reflexivity].
  destruct N2 as [-> [F3 A3]].
  destruct (sim_opt_comma s3) as [F4 A4]. rewrite A3 in A4.
  split; [reflexivity|]. split; [|exact A4].
  eapply frame_trans; [exact F1|]. eapply frame_trans; [exact F2|]. eapply frame_trans; [exact F3|exact F4].
Qed.

(* owner: lex_get_maybe_relative *)
Lemma sim_get_maybe_relative (s : LS) (cmd : Z) :
  sim_res (get_maybe_relative num_of (snd s) cmd (abs s)) s (Gen.lex_get_maybe_relative num_of s cmd).
Proof.
  cbv beta zeta delta [Gen.lex_get_maybe_relative get_maybe_relative].
  pose proof (sim_get_number_pair s) as N1. unfold sim_res in N1.
  destruct (Gen.lex_get_number_pair num_of s) as [r1 s1].
  destruct (get_number_pair num_of (abs s)) as [[pt t1]|e]; cbn [bind fst snd] in *; [|subst r1; reflexivity].
  destruct N1 as [-> [F1 A1]]. destruct F1 as [F1a F1b].
  destruct (is_lower cmd); cbn [fst snd]; rewrite ?F1b; repeat split; assumption.
Qed.

End Lex.

(** ** the body of [from_svg]'s command loop against [step_cmd] *)
Section Step.
Context {T : Type} `{Scalar T}.
Variable num_of : list Z -> option T.
Variable frem : T -> T -> T.

Definition GState : Type :=
  (option (res (list (PathEl T))) * @LS T * list (PathEl T) * Z * option (Point T) * Point T * option (Point T))%type.

Definition sim_step (lexer : @LS T) (path : list (PathEl T)) (last_cmd : Z) (last_ctrl : option (Point T))
    (first_pt : Point T) (implicit : option (Point T)) (c : Z) (g : GState) : Prop :=
  let st := mkPState (negb (match path with [] => true | _ => false end)) last_cmd last_ctrl first_pt implicit (snd lexer) in
  let '(r, lx', path', lc', lctrl', fp', imp') := g in
  match step_cmd num_of frem fixed st c (abs lexer) with
  | SDone => False                        (* [step_cmd] never ends the loop: that is [get_cmd]'s [None] *)
  | SErr e => r = Some (Err e)
  | SNext st' em rest =>
      r = None /\ fst (fst lx') = fst (fst lexer) /\ abs lx' = rest /\ path' = path ++ em
      /\ mkPState (negb (match path' with [] => true | _ => false end)) lc' lctrl' fp' imp' (snd lx') = st'
  end.

(* [c] is a literal: decide the comparisons on it (one [cbv], integer comparison included) while the body is
   still small -- lets intact --, then normalise.  The other order makes [Qed] several times slower.  The
   comparisons on [last_cmd] unfold to the same stuck matches on both sides. *)
Ltac st_pre := unfold sim_step; cbv beta iota delta [Gen.from_svg_step step_cmd decode_cmd kind_of_upper is_lower andb orb negb
  is_cs is_qt smooth_ctrl reflect_ctrl fixed cfg_smooth cfg_arc cfg_plus
  Z.eqb Z.leb Z.sub Z.compare Z.add Z.opp Z.pos_sub Pos.compare Pos.compare_cont Pos.eqb Pos.pred_double
  Z.double Z.succ_double Z.pred_double CompOpp Pos.add Pos.succ].
Ltac st_unfold := cbv beta iota zeta delta [fixed cfg_smooth cfg_arc cfg_plus
     ps_started ps_last_cmd ps_last_ctrl ps_first_pt ps_implicit ps_last_pt step_bind smooth_ctrl reflect_ctrl is_cs is_qt andb orb negb].

Local Opaque Gen.lex_get_maybe_relative Gen.lex_get_number Gen.lex_get_number_pair Gen.lex_get_flag Gen.lex_opt_comma.

(* one lexer call: replace the generated call by a fresh result and state, the model call by its result, and
   keep the frame / remaining-input facts *)
Ltac lx_res R g m :=
  unfold sim_res in R; destruct g as [? ?]; destruct m as [[? ?]|?]; cbn [fst snd bind] in R |- *;
  [ destruct R as [-> [[? ?] ?]] | subst; try reflexivity ].
Ltac lx_fix R :=
  repeat match type of R with
  | context [snd ?s] => match goal with Hs : snd s = _ |- _ => rewrite Hs in R end
  | context [abs ?s] => match goal with Ha : abs s = _ |- _ => rewrite Ha in R end
  end; cbn [fst snd] in R.
Ltac lx1 :=
  match goal with
  | |- context [Gen.lex_opt_comma num_of ?s] =>
      let R := fresh "R" in pose proof (sim_opt_comma num_of s) as R; lx_fix R;
      let s' := fresh "s" in set (s' := Gen.lex_opt_comma num_of s) in *; clearbody s';
      destruct R as [[? ?] ?]
  | |- context [Gen.lex_get_maybe_relative num_of ?s ?c] =>
      let R := fresh "R" in pose proof (sim_get_maybe_relative num_of s c) as R; lx_fix R;
      match type of R with sim_res ?m _ ?g => lx_res R g m end
  | |- context [Gen.lex_get_number_pair num_of ?s] =>
      let R := fresh "R" in pose proof (sim_get_number_pair num_of s) as R; lx_fix R;
      match type of R with sim_res ?m _ ?g => lx_res R g m end
  | |- context [Gen.lex_get_number num_of ?s] =>
      let R := fresh "R" in pose proof (sim_get_number num_of s) as R; lx_fix R;
      match type of R with sim_res ?m _ ?g => lx_res R g m end
  | |- context [Gen.lex_get_flag num_of ?s] =>
      let R := fresh "R" in pose proof (sim_get_flag num_of s) as R; lx_fix R;
      match type of R with sim_res ?m _ ?g => lx_res R g m end
  end.

Lemma length_app_eqb {A} (l m : list A) : Nat.eqb (length (l ++ m)) (length l) = match m with [] => true | _ => false end.
Proof.
  rewrite app_length. destruct m as [|x m]; cbn [length].
  - rewrite Nat.add_0_r. apply Nat.eqb_refl.
  - apply Nat.eqb_neq. lia.
Qed.

Ltac st_fin :=
  unfold PathOps.bp_line_to, PathOps.bp_move_to, PathOps.bp_quad_to, PathOps.bp_curve_to, PathOps.bp_close_path, PathOps.bp_push, abs,
         Gen.point_new in *;
  cbn [fst snd app] in *; subst; rewrite <- ?app_assoc; cbn [fst snd app negb];
  repeat match goal with |- context [if ?c then _ else _] => destruct c end;
  cbn [fst snd app negb];
  repeat split; try reflexivity; try congruence.

Ltac arc_fin :=
  unfold arc_els, to_radians, lit_tenth, abs in *; cbn [fst snd] in *; subst;
  repeat match goal with Hs : snd _ = _ |- _ => rewrite Hs end;
  match goal with |- context [from_svg_arc ?f ?b ?a] => destruct (from_svg_arc f b a) end;
  rewrite ?length_app_eqb;
  try match goal with |- context [arc_cubics ?a ?t] => destruct (arc_cubics a t) end;
  unfold PathOps.bp_line_to, PathOps.bp_move_to, PathOps.bp_push;
  cbn [fst snd app negb]; rewrite <- ?app_assoc; cbn [fst snd app negb];
  repeat split; try reflexivity; try congruence.

(* one command letter: [c] is a literal here *)
Ltac st_arm lctrl :=
  st_unfold; cbn [fst snd]; repeat lx1; first [solve [st_fin] | destruct lctrl; solve [st_fin]].

Ltac st_arc lctrl :=
  st_unfold; cbn [fst snd]; repeat lx1; try reflexivity; solve [arc_fin].
Ltac st_cases lexer path imp :=
  destruct lexer as [[? ?] ?]; destruct path as [|? ?]; destruct imp as [?|].

(* owner: from_svg_step *)
Lemma sim_step_109 (lexer : @LS T) (path : list (PathEl T)) (lc : Z) (lctrl : option (Point T)) (fp : Point T) (imp : option (Point T)) :
  sim_step lexer path lc lctrl fp imp 109 (Gen.from_svg_step num_of frem lexer path lc lctrl fp imp 109).   (* 'm' *)
Proof. st_pre; st_cases lexer path imp; st_arm lctrl. Qed.
(* owner: from_svg_step *)
Lemma sim_step_77 (lexer : @LS T) (path : list (PathEl T)) (lc : Z) (lctrl : option (Point T)) (fp : Point T) (imp : option (Point T)) :
  sim_step lexer path lc lctrl fp imp 77 (Gen.from_svg_step num_of frem lexer path lc lctrl fp imp 77).   (* 'M' *)
Proof. st_pre; st_cases lexer path imp; st_arm lctrl. Qed.
(* owner: from_svg_step *)
Lemma sim_step_108 (lexer : @LS T) (path : list (PathEl T)) (lc : Z) (lctrl : option (Point T)) (fp : Point T) (imp : option (Point T)) :
  sim_step lexer path lc lctrl fp imp 108 (Gen.from_svg_step num_of frem lexer path lc lctrl fp imp 108).   (* 'l' *)
Proof. st_pre; st_cases lexer path imp; st_arm lctrl. Qed.
(* owner: from_svg_step *)
Lemma sim_step_76 (lexer : @LS T) (path : list (PathEl T)) (lc : Z) (lctrl : option (Point T)) (fp : Point T) (imp : option (Point T)) :
  sim_step lexer path lc lctrl fp imp 76 (Gen.from_svg_step num_of frem lexer path lc lctrl fp imp 76).   (* 'L' *)
Proof. st_pre; st_cases lexer path imp; st_arm lctrl. Qed.
(* owner: from_svg_step *)
Lemma sim_step_104 (lexer : @LS T) (path : list (PathEl T)) (lc : Z) (lctrl : option (Point T)) (fp : Point T) (imp : option (Point T)) :
  sim_step lexer path lc lctrl fp imp 104 (Gen.from_svg_step num_of frem lexer path lc lctrl fp imp 104).   (* 'h' *)
Proof. st_pre; st_cases lexer path imp; st_arm lctrl. Qed.
(* owner: from_svg_step *)
Lemma sim_step_72 (lexer : @LS T) (path : list (PathEl T)) (lc : Z) (lctrl : option (Point T)) (fp : Point T) (imp : option (Point T)) :
  sim_step lexer path lc lctrl fp imp 72 (Gen.from_svg_step num_of frem lexer path lc lctrl fp imp 72).   (* 'H' *)
Proof. st_pre; st_cases lexer path imp; st_arm lctrl. Qed.
(* owner: from_svg_step *)
Lemma sim_step_118 (lexer : @LS T) (path : list (PathEl T)) (lc : Z) (lctrl : option (Point T)) (fp : Point T) (imp : option (Point T)) :
  sim_step lexer path lc lctrl fp imp 118 (Gen.from_svg_step num_of frem lexer path lc lctrl fp imp 118).   (* 'v' *)
Proof. st_pre; st_cases lexer path imp; st_arm lctrl. Qed.
(* owner: from_svg_step *)
Lemma sim_step_86 (lexer : @LS T) (path : list (PathEl T)) (lc : Z) (lctrl : option (Point T)) (fp : Point T) (imp : option (Point T)) :
  sim_step lexer path lc lctrl fp imp 86 (Gen.from_svg_step num_of frem lexer path lc lctrl fp imp 86).   (* 'V' *)
Proof. st_pre; st_cases lexer path imp; st_arm lctrl. Qed.
(* owner: from_svg_step *)
Lemma sim_step_113 (lexer : @LS T) (path : list (PathEl T)) (lc : Z) (lctrl : option (Point T)) (fp : Point T) (imp : option (Point T)) :
  sim_step lexer path lc lctrl fp imp 113 (Gen.from_svg_step num_of frem lexer path lc lctrl fp imp 113).   (* 'q' *)
Proof. st_pre; st_cases lexer path imp; st_arm lctrl. Qed.
(* owner: from_svg_step *)
Lemma sim_step_81 (lexer : @LS T) (path : list (PathEl T)) (lc : Z) (lctrl : option (Point T)) (fp : Point T) (imp : option (Point T)) :
  sim_step lexer path lc lctrl fp imp 81 (Gen.from_svg_step num_of frem lexer path lc lctrl fp imp 81).   (* 'Q' *)
Proof. st_pre; st_cases lexer path imp; st_arm lctrl. Qed.
(* owner: from_svg_step *)
Lemma sim_step_116 (lexer : @LS T) (path : list (PathEl T)) (lc : Z) (lctrl : option (Point T)) (fp : Point T) (imp : option (Point T)) :
  sim_step lexer path lc lctrl fp imp 116 (Gen.from_svg_step num_of frem lexer path lc lctrl fp imp 116).   (* 't' *)
Proof. st_pre; st_cases lexer path imp; st_arm lctrl. Qed.
(* owner: from_svg_step *)
Lemma sim_step_84 (lexer : @LS T) (path : list (PathEl T)) (lc : Z) (lctrl : option (Point T)) (fp : Point T) (imp : option (Point T)) :
  sim_step lexer path lc lctrl fp imp 84 (Gen.from_svg_step num_of frem lexer path lc lctrl fp imp 84).   (* 'T' *)
Proof. st_pre; st_cases lexer path imp; st_arm lctrl. Qed.
(* owner: from_svg_step *)
Lemma sim_step_99 (lexer : @LS T) (path : list (PathEl T)) (lc : Z) (lctrl : option (Point T)) (fp : Point T) (imp : option (Point T)) :
  sim_step lexer path lc lctrl fp imp 99 (Gen.from_svg_step num_of frem lexer path lc lctrl fp imp 99).   (* 'c' *)
Proof. st_pre; st_cases lexer path imp; st_arm lctrl. Qed.
(* owner: from_svg_step *)
Lemma sim_step_67 (lexer : @LS T) (path : list (PathEl T)) (lc : Z) (lctrl : option (Point T)) (fp : Point T) (imp : option (Point T)) :
  sim_step lexer path lc lctrl fp imp 67 (Gen.from_svg_step num_of frem lexer path lc lctrl fp imp 67).   (* 'C' *)
Proof. st_pre; st_cases lexer path imp; st_arm lctrl. Qed.
(* owner: from_svg_step *)
Lemma sim_step_115 (lexer : @LS T) (path : list (PathEl T)) (lc : Z) (lctrl : option (Point T)) (fp : Point T) (imp : option (Point T)) :
  sim_step lexer path lc lctrl fp imp 115 (Gen.from_svg_step num_of frem lexer path lc lctrl fp imp 115).   (* 's' *)
Proof. st_pre; st_cases lexer path imp; st_arm lctrl. Qed.
(* owner: from_svg_step *)
Lemma sim_step_83 (lexer : @LS T) (path : list (PathEl T)) (lc : Z) (lctrl : option (Point T)) (fp : Point T) (imp : option (Point T)) :
  sim_step lexer path lc lctrl fp imp 83 (Gen.from_svg_step num_of frem lexer path lc lctrl fp imp 83).   (* 'S' *)
Proof. st_pre; st_cases lexer path imp; st_arm lctrl. Qed.
(* owner: from_svg_step *)
Lemma sim_step_122 (lexer : @LS T) (path : list (PathEl T)) (lc : Z) (lctrl : option (Point T)) (fp : Point T) (imp : option (Point T)) :
  sim_step lexer path lc lctrl fp imp 122 (Gen.from_svg_step num_of frem lexer path lc lctrl fp imp 122).   (* 'z' *)
Proof. st_pre; st_cases lexer path imp; st_arm lctrl. Qed.
(* owner: from_svg_step *)
Lemma sim_step_90 (lexer : @LS T) (path : list (PathEl T)) (lc : Z) (lctrl : option (Point T)) (fp : Point T) (imp : option (Point T)) :
  sim_step lexer path lc lctrl fp imp 90 (Gen.from_svg_step num_of frem lexer path lc lctrl fp imp 90).   (* 'Z' *)
Proof. st_pre; st_cases lexer path imp; st_arm lctrl. Qed.
(* owner: from_svg_step *)
Lemma sim_step_97 (lexer : @LS T) (path : list (PathEl T)) (lc : Z) (lctrl : option (Point T)) (fp : Point T) (imp : option (Point T)) :
  sim_step lexer path lc lctrl fp imp 97 (Gen.from_svg_step num_of frem lexer path lc lctrl fp imp 97).   (* 'a' *)
Proof. st_pre; st_cases lexer path imp; st_arc lctrl. Qed.
(* owner: from_svg_step *)
Lemma sim_step_65 (lexer : @LS T) (path : list (PathEl T)) (lc : Z) (lctrl : option (Point T)) (fp : Point T) (imp : option (Point T)) :
  sim_step lexer path lc lctrl fp imp 65 (Gen.from_svg_step num_of frem lexer path lc lctrl fp imp 65).   (* 'A' *)
Proof. st_pre; st_cases lexer path imp; st_arc lctrl. Qed.

(* owner: from_svg_step *)
Lemma sim_step_all (lexer : @LS T) (path : list (PathEl T)) (lc : Z) (lctrl : option (Point T)) (fp : Point T)
    (imp : option (Point T)) (c : Z) :
  sim_step lexer path lc lctrl fp imp c (Gen.from_svg_step num_of frem lexer path lc lctrl fp imp c).
Proof.
  destruct (Z.eq_dec c 109) as [->|N109]; [apply sim_step_109|].
  destruct (Z.eq_dec c 77) as [->|N77]; [apply sim_step_77|].
  destruct (Z.eq_dec c 108) as [->|N108]; [apply sim_step_108|].
  destruct (Z.eq_dec c 76) as [->|N76]; [apply sim_step_76|].
  destruct (Z.eq_dec c 104) as [->|N104]; [apply sim_step_104|].
  destruct (Z.eq_dec c 72) as [->|N72]; [apply sim_step_72|].
  destruct (Z.eq_dec c 118) as [->|N118]; [apply sim_step_118|].
  destruct (Z.eq_dec c 86) as [->|N86]; [apply sim_step_86|].
  destruct (Z.eq_dec c 113) as [->|N113]; [apply sim_step_113|].
  destruct (Z.eq_dec c 81) as [->|N81]; [apply sim_step_81|].
  destruct (Z.eq_dec c 116) as [->|N116]; [apply sim_step_116|].
  destruct (Z.eq_dec c 84) as [->|N84]; [apply sim_step_84|].
  destruct (Z.eq_dec c 99) as [->|N99]; [apply sim_step_99|].
  destruct (Z.eq_dec c 67) as [->|N67]; [apply sim_step_67|].
  destruct (Z.eq_dec c 115) as [->|N115]; [apply sim_step_115|].
  destruct (Z.eq_dec c 83) as [->|N83]; [apply sim_step_83|].
  destruct (Z.eq_dec c 122) as [->|N122]; [apply sim_step_122|].
  destruct (Z.eq_dec c 90) as [->|N90]; [apply sim_step_90|].
  destruct (Z.eq_dec c 97) as [->|N97]; [apply sim_step_97|].
  destruct (Z.eq_dec c 65) as [->|N65]; [apply sim_step_65|].
  (* any other byte: [UnknownCommand] (or [UninitializedPath] on an empty path) on both sides.  The
     comparisons are rewritten before the body is normalised; afterwards the term is too large *)
  unfold sim_step. cbv beta delta [Gen.from_svg_step].
  repeat match goal with N : c <> ?n |- _ => apply Z.eqb_neq in N; rewrite ?N end.
  cbv beta iota zeta delta [step_cmd decode_cmd kind_of_upper is_lower ps_started ps_last_cmd ps_last_ctrl ps_first_pt
    ps_implicit ps_last_pt orb andb negb].
  destruct (97 <=? c)%Z eqn:E1; destruct (c <=? 122)%Z eqn:E2; cbn [andb];
    try (apply Z.leb_le in E1); try (apply Z.leb_le in E2);
    repeat match goal with |- context [Z.eqb ?a ?b] => replace (Z.eqb a b) with false by (symmetry; apply Z.eqb_neq; lia) end;
    cbn [andb orb negb]; destruct path; destruct imp; reflexivity.
Qed.
End Step.

(** ** the whole of [BezPath::from_svg]: initialisation, the loop (one iteration = [get_cmd] + the step above), [Ok(path)] *)
Section Whole.
Context {T : Type} `{Scalar T}.
Variable num_of : list Z -> option T.
Variable frem : T -> T -> T.

(** [BezPath::from_svg] against the model's [from_svg], wherever that does not run out of fuel (it never does:
    [svg_total] in the proofs) *)
Definition sim_from_svg (data : list Z) (g : res (list (PathEl T))) : Prop :=
  match from_svg num_of frem fixed data with
  | Err OutOfFuel => True
  | r => g = r
  end.

Definition is_nil {A} (l : list A) : bool := match l with [] => true | _ => false end.

(* owner: from_svg *)
Lemma sim_from_svg_all (data : list Z) : sim_from_svg data (Gen.from_svg num_of frem data).
Proof.
  unfold sim_from_svg, from_svg. cbv beta zeta delta [Gen.from_svg].
  match goal with |- context [?F (S (length data))] =>
    match type of F with nat -> _ -> list (PathEl T) -> _ => set (L := F) end end.
  assert (A : forall fuel (lexer : @LS T) path lc lctrl fp imp,
    match parse_loop num_of frem fixed fuel (mkPState (negb (is_nil path)) lc lctrl fp imp (snd lexer)) (abs lexer) with
    | Err OutOfFuel => True
    | Ok els => L fuel lexer path lc lctrl fp imp = Ok (path ++ els)
    | Err e => L fuel lexer path lc lctrl fp imp = Err e
    end).
  { induction fuel as [|k IH]; intros; [exact I|].
    cbn [parse_loop]. unfold step. cbn [ps_last_cmd cfg_plus fixed].
    remember (L (S k) lexer path lc lctrl fp imp) as g eqn:Eg.
    unfold L in Eg. cbv beta iota in Eg. fold L in Eg.
    pose proof (sim_get_cmd num_of lexer lc) as R. unfold sim_opt in R.
    destruct (Gen.lex_get_cmd num_of lexer lc) as [oc lx1]. cbn [fst snd] in R.
    destruct (get_cmd true lc (abs lexer)) as [[c s1]|].
    - destruct R as [-> [[F1 F2] A1]].
      pose proof (sim_step_all num_of frem lx1 path lc lctrl fp imp c) as S1. unfold sim_step in S1.
      rewrite F2, A1 in S1. fold (is_nil path) in S1.
      destruct (Gen.from_svg_step num_of frem lx1 path lc lctrl fp imp c) as [[[[[[r lx2] path2] lc2] lctrl2] fp2] imp2].
      destruct (step_cmd num_of frem fixed _ c s1) as [|e|st' em rest].
      + destruct S1.
      + subst r. destruct e; try exact I; rewrite Eg; reflexivity.
      + destruct S1 as [-> [_ [A2 [-> S2]]]]. fold (is_nil (path ++ em)) in S2. subst st'.
        specialize (IH lx2 (path ++ em) lc2 lctrl2 fp2 imp2). rewrite A2 in IH.
        destruct (parse_loop num_of frem fixed k _ rest) as [els|e].
        * rewrite Eg, IH, app_assoc. reflexivity.
        * destruct e; try exact I; rewrite Eg; exact IH.
    - subst oc. rewrite Eg, app_nil_r. reflexivity. }
  specialize (A (S (length data)) (Gen.lex_new data) Gen.bezpath_new 0%Z None Gen.point_ORIGIN None).
  change (parse_loop num_of frem fixed (S (length data)) _ _) with (parse_loop num_of frem fixed (S (length data)) ps_init data) in A.
  destruct (parse_loop num_of frem fixed (S (length data)) ps_init data) as [els|e].
  - exact A.
  - destruct e; try exact I; exact A.
Qed.
End Whole.

(** ** the statements translate_check asks for *)
Lemma br_lex_skip_ws : forall (T : Type) (S : Scalar T) (num_of_ : list Z -> option T) (self_ : ((list Z * nat * Point T)%type)), KVBridge.Svg_bridge.sim_unit (KV.Svg.skip_ws (KVBridge.Svg_bridge.abs self_)) self_ (Gen.lex_skip_ws num_of_ self_).
Proof. intros. apply sim_skip_ws. Qed.

Lemma br_lex_opt_comma : forall (T : Type) (S : Scalar T) (num_of_ : list Z -> option T) (self_ : ((list Z * nat * Point T)%type)), KVBridge.Svg_bridge.sim_unit (KV.Svg.opt_comma (KVBridge.Svg_bridge.abs self_)) self_ (Gen.lex_opt_comma num_of_ self_).
Proof. intros. apply sim_opt_comma. Qed.

Lemma br_lex_get_cmd : forall (T : Type) (S : Scalar T) (num_of_ : list Z -> option T) (self_ : ((list Z * nat * Point T)%type)) (last_cmd_ : Z), KVBridge.Svg_bridge.sim_opt (KV.Svg.get_cmd true last_cmd_ (KVBridge.Svg_bridge.abs self_)) self_ (Gen.lex_get_cmd num_of_ self_ last_cmd_).
Proof. intros. apply sim_get_cmd. Qed.

Lemma br_lex_get_flag : forall (T : Type) (S : Scalar T) (num_of_ : list Z -> option T) (self_ : ((list Z * nat * Point T)%type)), KVBridge.Svg_bridge.sim_res (KV.Svg.get_flag (KVBridge.Svg_bridge.abs self_)) self_ (Gen.lex_get_flag num_of_ self_).
Proof. intros. apply sim_get_flag. Qed.

Lemma br_lex_get_number : forall (T : Type) (S : Scalar T) (num_of_ : list Z -> option T) (self_ : ((list Z * nat * Point T)%type)), KVBridge.Svg_bridge.sim_res (KV.Svg.get_number num_of_ (KVBridge.Svg_bridge.abs self_)) self_ (Gen.lex_get_number num_of_ self_).
Proof. intros. apply sim_get_number. Qed.

Lemma br_lex_get_number_pair : forall (T : Type) (S : Scalar T) (num_of_ : list Z -> option T) (self_ : ((list Z * nat * Point T)%type)), KVBridge.Svg_bridge.sim_res (KV.Svg.get_number_pair num_of_ (KVBridge.Svg_bridge.abs self_)) self_ (Gen.lex_get_number_pair num_of_ self_).
Proof. intros. apply sim_get_number_pair. Qed.

Lemma br_lex_get_maybe_relative : forall (T : Type) (S : Scalar T) (num_of_ : list Z -> option T) (self_ : ((list Z * nat * Point T)%type)) (cmd_ : Z), KVBridge.Svg_bridge.sim_res (KV.Svg.get_maybe_relative num_of_ (snd self_) cmd_ (KVBridge.Svg_bridge.abs self_)) self_ (Gen.lex_get_maybe_relative num_of_ self_ cmd_).
Proof. intros. apply sim_get_maybe_relative. Qed.

(* owner: from_svg_step *)
Lemma br_from_svg_step : forall (T : Type) (S : Scalar T) (num_of_ : list Z -> option T) (frem_ : T -> T -> T) (lexer_ : ((list Z * nat * Point T)%type)) (path_ : (list (PathEl T))) (last_cmd_ : Z) (last_ctrl_ : (option (Point T))) (first_pt_ : (Point T)) (implicit_moveto_ : (option (Point T))) (c_ : Z), KVBridge.Svg_bridge.sim_step num_of_ frem_ lexer_ path_ last_cmd_ last_ctrl_ first_pt_ implicit_moveto_ c_ (Gen.from_svg_step num_of_ frem_ lexer_ path_ last_cmd_ last_ctrl_ first_pt_ implicit_moveto_ c_).
Proof. intros. apply sim_step_all. Qed.

(** [Arc::from_svg_arc]: the model computes the arithmetic in a record ([svg_arc_core]) and tests afterwards, the
    Rust code tests in between; the two agree once the radius-scaling test [rf > 1] is decided *)
Lemma br_arc_from_svg_arc : forall (T : Type) (S : Scalar T) (frem_ : T -> T -> T) (arc_ : (@KV.Svg.SvgArc T)), Gen.arc_from_svg_arc frem_ arc_ = KV.Svg.from_svg_arc frem_ true arc_.
Proof.
  intros.
  cbv beta delta [Gen.arc_from_svg_arc from_svg_arc].
  destruct (is_straight_line arc_); [reflexivity|].
  cbv beta iota zeta delta [svg_arc_core scale_radii Gen.vec2_new vx vy f1 f2 fhalf two_pi].
  match goal with |- context [if (?a <? ?r)%S then (_, _) else _] => destruct (a <? r)%S end; timeout 30 reflexivity.
Qed.

(* owner: from_svg *)
Lemma br_from_svg : forall (T : Type) (S : Scalar T) (num_of_ : list Z -> option T) (frem_ : T -> T -> T) (data_ : (list Z)), KVBridge.Svg_bridge.sim_from_svg num_of_ frem_ data_ (Gen.from_svg num_of_ frem_ data_).
Proof. intros. apply sim_from_svg_all. Qed.
