(** Simulation of [Segments::next] (bezpath.rs) by [KV.Path.seg_step] / [segs_from].

    Rust state: (the elements not yet consumed, start_last).  One call of [next] skips the elements that
    emit nothing and returns at the first that emits a segment.  [next_spec] says exactly that in terms of
    the model's step function; [None] is the model's panic (a leading [ClosePath]), about which nothing is
    claimed.  [segs_from_unroll] ties [next_spec] to [segs_from]: collecting [next] until it returns
    [None] yields the model's segment list. *)
From Coq Require Import ZArith QArith List Bool Floats.
From KV Require Import Scalar Geom Curves Path.
From KVGen Require Gen.
From KVBridge Require Import BridgeLib.
Import ListNotations.

Section P.
Context {T : Type} `{Scalar T}.

(** result of one [next()] on state [(els, st)]: the item and the new state; outer [None] = panic *)
Fixpoint next_spec (st : option (Point T * Point T)) (els : list (PathEl T))
  : option (option (PathSeg T) * (list (PathEl T) * option (Point T * Point T))) :=
  match els with
  | [] => Some (None, ([], st))
  | e :: r =>
      match seg_step st e with
      | None => None
      | Some (st', Some s) => Some (Some s, (r, Some st'))
      | Some (st', None) => next_spec (Some st') r
      end
  end.

(** iterating [next] gives [segs_from] *)
Lemma segs_from_unroll (els : list (PathEl T)) : forall st,
  segs_from st els =
  match next_spec st els with
  | None => None
  | Some (None, _) => Some []
  | Some (Some s, (r, st')) => match segs_from st' r with Some l => Some (s :: l) | None => None end
  end.
Proof.
  induction els as [|e r IH]; intro st; [reflexivity|].
  cbn [segs_from next_spec]. destruct (seg_step st e) as [[st' [s|]]|]; [reflexivity| |reflexivity].
  rewrite IH. destruct (next_spec (Some st') r) as [[[s|] [r' st'']]|]; try reflexivity.
  destruct (segs_from st'' r'); reflexivity.
Qed.

End P.

Lemma br_segments_next : forall (T : Type) (S : Scalar T) (self_ : ((list (PathEl T) * option (Point T * Point T))%type)), match KVBridge.Path_bridge.next_spec (snd self_) (fst self_) with Some tr_r => (Gen.segments_next self_) = tr_r | None => True end.
Proof.
  intros T S [els st]. cbn [fst snd].
  cbv beta iota zeta delta [Gen.segments_next Gen.line_new Gen.quad_new Gen.cubic_new fst snd].
  (* the loop ignores the stale first component of its accumulator *)
  match goal with |- context [?F els (els, st)] =>
    assert (E : forall (l junk : list (PathEl T)) st,
               match next_spec st l with Some r => F l (junk, st) = r | None => True end)
  end.
  { clear els st. induction l as [|e r IH]; intros junk st; [reflexivity|].
    cbn [next_spec]. unfold seg_step, el_end, pt_neb.
    destruct e as [p|p|p1 p2|p1 p2 p3|]; destruct st as [[s0 l0]|];
      cbv beta iota; try reflexivity; try exact I;
      try (apply (IH r)); try (destruct (pt_eqb l0 s0); cbv beta iota; [apply (IH r) | reflexivity]). }
  apply E.
Qed.
