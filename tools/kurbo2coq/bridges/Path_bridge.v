(** Simulation of [Segments::next] (bezpath.rs) by [KV.Path.seg_step] / [segs_from].

    Rust state: (the elements not yet consumed, start_last).  One call of [next] skips the elements that
    emit nothing and returns at the first that emits a segment.  [next_spec] says exactly that in terms of
    the model's step function; [None] is the model's panic (a leading [ClosePath]), about which nothing is
    claimed.  [segs_from_unroll] ties [next_spec] to [segs_from]: collecting [next] until it returns
    [None] yields the model's segment list. *)
From Coq Require Import ZArith QArith List Bool Floats.
From KV Require Import Scalar Geom Rect Curves Path Area Arclen Winding Extrema.
From KVGen Require Gen.
From KVBridge Require Import BridgeLib.
Import ListNotations.

Section P.
Context {T : Type} `{Scalar T}.

(** result of one [next()] on state [(els, st)]: the item and the new state; outer [None] = panic *)
Fixpoint next_spec (st : option (Point T * Point T)) (els : list (PathEl T))
  : option (option (PathSeg T) * (list (PathEl T) * option (Point T * Point T))) :=
  match els with
  | [] => Some (None, ([], st))
  | e :: r =>
      match seg_step st e with
      | None => None
      | Some (st', Some s) => Some (Some s, (r, Some st'))
      | Some (st', None) => next_spec (Some st') r
      end
  end.

(** iterating [next] gives [segs_from] *)
Lemma segs_from_unroll (els : list (PathEl T)) : forall st,
  segs_from st els =
  match next_spec st els with
  | None => None
  | Some (None, _) => Some []
  | Some (Some s, (r, st')) => match segs_from st' r with Some l => Some (s :: l) | None => None end
  end.
Proof.
  induction els as [|e r IH]; intro st; [reflexivity|].
  cbn [segs_from next_spec]. destruct (seg_step st e) as [[st' [s|]]|]; [reflexivity| |reflexivity].
  rewrite IH. destruct (next_spec (Some st') r) as [[[s|] [r' st'']]|]; try reflexivity.
  destruct (segs_from st'' r'); reflexivity.
Qed.

End P.

(* owner: segments_next *)
Lemma sim_segments_next : forall (T : Type) (S : Scalar T) (self_ : ((list (PathEl T) * option (Point T * Point T))%type)), match KVBridge.Path_bridge.next_spec (snd self_) (fst self_) with Some tr_r => (Gen.segments_next self_) = tr_r | None => True end.
Proof.
  intros T S [els st]. cbn [fst snd].
  cbv beta iota zeta delta [Gen.segments_next Gen.line_new Gen.quad_new Gen.cubic_new fst snd].
  (* the loop ignores the stale first component of its accumulator *)
  match goal with |- context [?F els (els, st)] =>
    assert (E : forall (l junk : list (PathEl T)) st,
               match next_spec st l with Some r => F l (junk, st) = r | None => True end)
  end.
  { clear els st. induction l as [|e r IH]; intros junk st; [reflexivity|].
    cbn [next_spec]. unfold seg_step, el_end, pt_neb.
    destruct e as [p|p|p1 p2|p1 p2 p3|]; destruct st as [[s0 l0]|];
      cbv beta iota; try reflexivity; try exact I;
      try (apply (IH r)); try (destruct (pt_eqb l0 s0); cbv beta iota; [apply (IH r) | reflexivity]). }
  apply E.
Qed.

Lemma br_segments_next : forall (T : Type) (S : Scalar T) (self_ : ((list (PathEl T) * option (Point T * Point T))%type)), match KVBridge.Path_bridge.next_spec (snd self_) (fst self_) with Some tr_r => (Gen.segments_next self_) = tr_r | None => True end.
Proof. exact sim_segments_next. Qed.

(** ** consuming a [Segments]: [tr_drain next (S (length elements)) self] is the model's segment list, so the
    adaptors and loops over a consumed [Segments] are the model's folds over [segs_from] *)
Section Drain.
Context {T : Type} `{Scalar T}.

Lemma next_spec_shorter (els : list (PathEl T)) : forall st o r st',
  next_spec st els = Some (o, (r, st')) ->
  match o with Some _ => (length r < length els)%nat | None => True end.
Proof.
  induction els as [|e l IH]; intros st o r st' E; cbn [next_spec] in E.
  - injection E as <- <- <-. exact I.
  - destruct (seg_step st e) as [[st1 [s|]]|]; [| |discriminate].
    + injection E as <- <- <-. cbn [length]. apply le_n.
    + specialize (IH _ _ _ _ E). destruct o; [cbn [length]; apply le_S, IH | exact I].
Qed.

Lemma drain_segs : forall fuel (els : list (PathEl T)) st, (length els < fuel)%nat ->
  match segs_from st els with
  | Some l => Gen.tr_drain Gen.segments_next fuel (els, st) = l
  | None => True
  end.
Proof.
  induction fuel as [|k IH]; intros els st L; [inversion L|].
  rewrite segs_from_unroll. pose proof (sim_segments_next T _ (els, st)) as N. cbn [fst snd] in N.
  pose proof (next_spec_shorter els st) as SH.
  destruct (next_spec st els) as [[[s|] [r st']]|]; [| |exact I].
  - specialize (SH _ _ _ eq_refl). cbn [Gen.tr_drain]. rewrite N.
    assert (L' : (length r < k)%nat) by (apply PeanoNat.Nat.lt_le_trans with (length els); [exact SH | apply le_S_n, L]).
    specialize (IH r st' L'). destruct (segs_from st' r); [rewrite IH; reflexivity | exact I].
  - cbn [Gen.tr_drain]. rewrite N. reflexivity.
Qed.

Lemma drain_self (self : list (PathEl T) * option (Point T * Point T)) :
  match segs_from (snd self) (fst self) with
  | Some l => Gen.tr_drain Gen.segments_next (S (length (fst self))) self = l
  | None => True
  end.
Proof. destruct self as [els st]. apply drain_segs. apply le_n. Qed.
End Drain.

Tactic Notation "drain_tac" reference(g) := intros T S self_; intros; pose proof (@drain_self T S self_) as D;
  destruct (segs_from (snd self_) (fst self_)) as [l|]; [|exact I]; cbv beta delta [g]; rewrite D.

(* owner: segments_area *)
Lemma sim_segments_area : forall (T : Type) (S : Scalar T) (self_ : ((list (PathEl T) * option (Point T * Point T))%type)), match KV.Path.segs_from (snd self_) (fst self_) with Some tr_l => (Gen.segments_area self_) = KV.Path.segs_area tr_l | None => True end.
Proof. drain_tac Gen.segments_area. reflexivity. Qed.
Lemma br_segments_area : forall (T : Type) (S : Scalar T) (self_ : ((list (PathEl T) * option (Point T * Point T))%type)), match KV.Path.segs_from (snd self_) (fst self_) with Some tr_l => (Gen.segments_area self_) = KV.Path.segs_area tr_l | None => True end.
Proof. exact sim_segments_area. Qed.

(* owner: segments_perimeter *)
Lemma sim_segments_perimeter : forall (T : Type) (S : Scalar T) (self_ : ((list (PathEl T) * option (Point T * Point T))%type)) (accuracy_ : T), match KV.Path.segs_from (snd self_) (fst self_) with Some tr_l => (Gen.segments_perimeter self_ accuracy_) = KV.Arclen.segs_perimeter tr_l accuracy_ | None => True end.
Proof. drain_tac Gen.segments_perimeter. reflexivity. Qed.
Lemma br_segments_perimeter : forall (T : Type) (S : Scalar T) (self_ : ((list (PathEl T) * option (Point T * Point T))%type)) (accuracy_ : T), match KV.Path.segs_from (snd self_) (fst self_) with Some tr_l => (Gen.segments_perimeter self_ accuracy_) = KV.Arclen.segs_perimeter tr_l accuracy_ | None => True end.
Proof. exact sim_segments_perimeter. Qed.

(* owner: segments_winding *)
Lemma sim_segments_winding : forall (T : Type) (S : Scalar T) (self_ : ((list (PathEl T) * option (Point T * Point T))%type)) (p_ : (Point T)), match KV.Path.segs_from (snd self_) (fst self_) with Some tr_l => (Gen.segments_winding self_ p_) = KV.Winding.segs_winding tr_l p_ | None => True end.
Proof. drain_tac Gen.segments_winding. reflexivity. Qed.
Lemma br_segments_winding : forall (T : Type) (S : Scalar T) (self_ : ((list (PathEl T) * option (Point T * Point T))%type)) (p_ : (Point T)), match KV.Path.segs_from (snd self_) (fst self_) with Some tr_l => (Gen.segments_winding self_ p_) = KV.Winding.segs_winding tr_l p_ | None => True end.
Proof. exact sim_segments_winding. Qed.

(* owner: segments_bounding_box *)
Lemma sim_segments_bounding_box : forall (T : Type) (S : Scalar T) (self_ : ((list (PathEl T) * option (Point T * Point T))%type)), match KV.Path.segs_from (snd self_) (fst self_) with Some tr_l => (Gen.segments_bounding_box self_) = KV.Extrema.segs_bounding_box tr_l | None => True end.
Proof.
  drain_tac Gen.segments_bounding_box. unfold segs_bounding_box. cbv zeta.
  clear D. generalize (@None (Rect T)). induction l as [|s l IH]; intro bb; [reflexivity|].
  cbn [fold_left]. rewrite <- IH. reflexivity.
Qed.
Lemma br_segments_bounding_box : forall (T : Type) (S : Scalar T) (self_ : ((list (PathEl T) * option (Point T * Point T))%type)), match KV.Path.segs_from (snd self_) (fst self_) with Some tr_l => (Gen.segments_bounding_box self_) = KV.Extrema.segs_bounding_box tr_l | None => True end.
Proof. exact sim_segments_bounding_box. Qed.

(** ** [Shape for &[PathEl]]: [segments(self.iter().copied())] starts the machine on [(self, None)] *)
(* owner: slice_area *)
Lemma sim_slice_area : forall (T : Type) (S : Scalar T) (self_ : (list (PathEl T))), match KV.Area.path_area self_ with Some tr_r => (Gen.slice_area self_) = tr_r | None => True end.
Proof. intros. pose proof (sim_segments_area T S (self_, None)) as E. unfold path_area, segments. cbn [fst snd] in E. destruct (segs_from None self_); [exact E | exact I]. Qed.
Lemma br_slice_area : forall (T : Type) (S : Scalar T) (self_ : (list (PathEl T))), match KV.Area.path_area self_ with Some tr_r => (Gen.slice_area self_) = tr_r | None => True end.
Proof. exact sim_slice_area. Qed.
Lemma br_bezpath_area : forall (T : Type) (S : Scalar T) (self_ : (list (PathEl T))), match KV.Area.path_area self_ with Some tr_r => (Gen.bezpath_area self_) = tr_r | None => True end.
Proof. intros. exact (sim_slice_area T S self_). Qed.

(* owner: slice_perimeter *)
Lemma sim_slice_perimeter : forall (T : Type) (S : Scalar T) (self_ : (list (PathEl T))) (accuracy_ : T), match KV.Arclen.path_perimeter self_ accuracy_ with Some tr_r => (Gen.slice_perimeter self_ accuracy_) = tr_r | None => True end.
Proof. intros. pose proof (sim_segments_perimeter T S (self_, None) accuracy_) as E. unfold path_perimeter, segments. cbn [fst snd] in E. destruct (segs_from None self_); [exact E | exact I]. Qed.
Lemma br_slice_perimeter : forall (T : Type) (S : Scalar T) (self_ : (list (PathEl T))) (accuracy_ : T), match KV.Arclen.path_perimeter self_ accuracy_ with Some tr_r => (Gen.slice_perimeter self_ accuracy_) = tr_r | None => True end.
Proof. exact sim_slice_perimeter. Qed.
Lemma br_bezpath_perimeter : forall (T : Type) (S : Scalar T) (self_ : (list (PathEl T))) (accuracy_ : T), match KV.Arclen.path_perimeter self_ accuracy_ with Some tr_r => (Gen.bezpath_perimeter self_ accuracy_) = tr_r | None => True end.
Proof. intros. exact (sim_slice_perimeter T S self_ accuracy_). Qed.

(* owner: slice_winding *)
Lemma sim_slice_winding : forall (T : Type) (S : Scalar T) (self_ : (list (PathEl T))) (pt_ : (Point T)), match KV.Winding.path_winding self_ pt_ with Some tr_r => (Gen.slice_winding self_ pt_) = tr_r | None => True end.
Proof. intros. pose proof (sim_segments_winding T S (self_, None) pt_) as E. unfold path_winding, path_winding_gen, segments. cbn [fst snd] in E. destruct (segs_from None self_); [exact E | exact I]. Qed.
Lemma br_slice_winding : forall (T : Type) (S : Scalar T) (self_ : (list (PathEl T))) (pt_ : (Point T)), match KV.Winding.path_winding self_ pt_ with Some tr_r => (Gen.slice_winding self_ pt_) = tr_r | None => True end.
Proof. exact sim_slice_winding. Qed.
Lemma br_bezpath_winding : forall (T : Type) (S : Scalar T) (self_ : (list (PathEl T))) (pt_ : (Point T)), match KV.Winding.path_winding self_ pt_ with Some tr_r => (Gen.bezpath_winding self_ pt_) = tr_r | None => True end.
Proof. intros. exact (sim_slice_winding T S self_ pt_). Qed.

(* owner: slice_bounding_box *)
Lemma sim_slice_bounding_box : forall (T : Type) (S : Scalar T) (self_ : (list (PathEl T))), match KV.Extrema.path_bounding_box self_ with Some tr_r => (Gen.slice_bounding_box self_) = tr_r | None => True end.
Proof. intros. pose proof (sim_segments_bounding_box T S (self_, None)) as E. unfold path_bounding_box, segments. cbn [fst snd] in E. destruct (segs_from None self_); [exact E | exact I]. Qed.
Lemma br_slice_bounding_box : forall (T : Type) (S : Scalar T) (self_ : (list (PathEl T))), match KV.Extrema.path_bounding_box self_ with Some tr_r => (Gen.slice_bounding_box self_) = tr_r | None => True end.
Proof. exact sim_slice_bounding_box. Qed.
Lemma br_bezpath_bounding_box : forall (T : Type) (S : Scalar T) (self_ : (list (PathEl T))), match KV.Extrema.path_bounding_box self_ with Some tr_r => (Gen.bezpath_bounding_box self_) = tr_r | None => True end.
Proof. intros. exact (sim_slice_bounding_box T S self_). Qed.
