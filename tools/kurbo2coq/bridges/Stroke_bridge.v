(** Bridges for stroke.rs (C04): the generated functions push onto the paths of the context one call at
    a time; the model computes the pushed elements as one list and appends once.  Equal up to
    associativity of [++] and [nth (length l - 1) l d = last l d]. *)
From Coq Require Import ZArith QArith List Bool Floats.
From KV Require Import Scalar Geom Curves Path Affine PathOps Stroke.
From KVGen Require Gen.
From KVBridge Require Import BridgeLib.
Import ListNotations.

Tactic Notation "sk_unfold" reference(g) :=
  cbv beta iota zeta delta [g Gen.vec2_new
    KV.Stroke.finish KV.Stroke.finish_closed KV.Stroke.do_join KV.Stroke.join_els KV.Stroke.left_norm
    KV.Stroke.last_end KV.Stroke.el_end_or KV.Stroke.pt_origin KV.Stroke.tol_1e_3
    bp_line_to bp_move_to bp_close_path bp_push
    cx_forward cx_output cx_backward cx_start_pt cx_start_norm cx_start_tan cx_last_pt cx_last_tan cx_join_thresh
    sk_width sk_join sk_miter_limit sk_end_cap sk_start_cap sk_inner_pivot f0 f1 f2 f3 fhalf].

Lemma br_sk_finish : forall (T : Type) (S : Scalar T) (self_ : (KV.Stroke.StrokeCtx T)) (style_ : (KV.Stroke.StrokeStyle T)), Gen.sk_finish self_ style_ = KV.Stroke.finish (KV.Stroke.mkStyle (KV.Stroke.sk_width style_) (KV.Stroke.sk_join style_) (KV.Stroke.sk_miter_limit style_) (KV.Stroke.sk_start_cap style_) (KV.Stroke.sk_end_cap style_) true) self_.
Proof.
  intros T S [out fw bw sp sn st lp lt jt] [w j ml sc ec ip].
  sk_unfold Gen.sk_finish. destruct fw; [reflexivity|].
  rewrite ?nth_last. destruct ec; destruct sc; sk_unfold f0; br_done.
Qed.

Lemma br_sk_do_join : forall (T : Type) (S : Scalar T) (self_ : (KV.Stroke.StrokeCtx T)) (style_ : (KV.Stroke.StrokeStyle T)) (tan0_ : (Vec2 T)), Gen.sk_do_join self_ style_ tan0_ = KV.Stroke.do_join (KV.Stroke.mkStyle (KV.Stroke.sk_width style_) (KV.Stroke.sk_join style_) (KV.Stroke.sk_miter_limit style_) (KV.Stroke.sk_start_cap style_) (KV.Stroke.sk_end_cap style_) true) tan0_ self_.
Proof.
  intros T S [out fw bw sp sn st lp lt jt] [w j ml sc ec ip] tan0.
  sk_unfold Gen.sk_do_join. destruct fw; [reflexivity|].
  destruct j; br_ifs; sk_unfold f0; br_done.
Qed.

Lemma br_sk_finish_closed : forall (T : Type) (S : Scalar T) (self_ : (KV.Stroke.StrokeCtx T)) (style_ : (KV.Stroke.StrokeStyle T)), Gen.sk_finish_closed self_ style_ = KV.Stroke.finish_closed (KV.Stroke.mkStyle (KV.Stroke.sk_width style_) (KV.Stroke.sk_join style_) (KV.Stroke.sk_miter_limit style_) (KV.Stroke.sk_start_cap style_) (KV.Stroke.sk_end_cap style_) true) self_.
Proof.
  intros T S [out fw bw sp sn st lp lt jt] [w j ml sc ec ip].
  sk_unfold Gen.sk_finish_closed. destruct fw; [reflexivity|].
  rewrite ?nth_last. destruct j; br_ifs; sk_unfold f0; rewrite ?nth_last; br_done.
Qed.
