(** Bridges for stroke.rs (C04): the generated functions push onto the paths of the context one call at
    a time; the model computes the pushed elements as one list and appends once.  Equal up to
    associativity of [++] and [nth (length l - 1) l d = last l d]. *)
From Coq Require Import ZArith QArith List Bool Floats Arith Lia.
From KV Require Import Scalar Geom Curves Path Affine PathOps Stroke.
From KVGen Require Gen.
From KVBridge Require Import BridgeLib.
Import ListNotations.

Tactic Notation "sk_unfold" reference(g) :=
  cbv beta iota zeta delta [g Gen.vec2_new
    KV.Stroke.finish KV.Stroke.finish_closed KV.Stroke.do_join KV.Stroke.join_els KV.Stroke.left_norm
    KV.Stroke.last_end KV.Stroke.el_end_or KV.Stroke.pt_origin KV.Stroke.tol_1e_3
    bp_line_to bp_move_to bp_close_path bp_push
    cx_forward cx_output cx_backward cx_start_pt cx_start_norm cx_start_tan cx_last_pt cx_last_tan cx_join_thresh
    sk_width sk_join sk_miter_limit sk_end_cap sk_start_cap sk_inner_pivot f0 f1 f2 f3 fhalf].

Lemma br_sk_finish : forall (T : Type) (S : Scalar T) (self_ : (KV.Stroke.StrokeCtx T)) (style_ : (KV.Stroke.StrokeStyle T)), Gen.sk_finish self_ style_ = KV.Stroke.finish (KV.Stroke.mkStyle (KV.Stroke.sk_width style_) (KV.Stroke.sk_join style_) (KV.Stroke.sk_miter_limit style_) (KV.Stroke.sk_start_cap style_) (KV.Stroke.sk_end_cap style_) true) self_.
Proof.
  intros T S [out fw bw sp sn st lp lt jt] [w j ml sc ec ip].
  sk_unfold Gen.sk_finish. destruct fw; [reflexivity|].
  rewrite ?nth_last. destruct ec; destruct sc; sk_unfold f0; br_done.
Qed.

Lemma br_sk_do_join : forall (T : Type) (S : Scalar T) (self_ : (KV.Stroke.StrokeCtx T)) (style_ : (KV.Stroke.StrokeStyle T)) (tan0_ : (Vec2 T)), Gen.sk_do_join self_ style_ tan0_ = KV.Stroke.do_join (KV.Stroke.mkStyle (KV.Stroke.sk_width style_) (KV.Stroke.sk_join style_) (KV.Stroke.sk_miter_limit style_) (KV.Stroke.sk_start_cap style_) (KV.Stroke.sk_end_cap style_) true) tan0_ self_.
Proof.
  intros T S [out fw bw sp sn st lp lt jt] [w j ml sc ec ip] tan0.
  sk_unfold Gen.sk_do_join. destruct fw; [reflexivity|].
  destruct j; br_ifs; sk_unfold f0; br_done.
Qed.

Lemma br_sk_finish_closed : forall (T : Type) (S : Scalar T) (self_ : (KV.Stroke.StrokeCtx T)) (style_ : (KV.Stroke.StrokeStyle T)), Gen.sk_finish_closed self_ style_ = KV.Stroke.finish_closed (KV.Stroke.mkStyle (KV.Stroke.sk_width style_) (KV.Stroke.sk_join style_) (KV.Stroke.sk_miter_limit style_) (KV.Stroke.sk_start_cap style_) (KV.Stroke.sk_end_cap style_) true) self_.
Proof.
  intros T S [out fw bw sp sn st lp lt jt] [w j ml sc ec ip].
  sk_unfold Gen.sk_finish_closed. destruct fw; [reflexivity|].
  rewrite ?nth_last. destruct j; br_ifs; sk_unfold f0; rewrite ?nth_last; br_done.
Qed.

(** ** [extend_reversed]: [for i in (1..elements.len()).rev()] reading [elements[i - 1]] and [elements[i]] against the model's
    structural recursion ([extend_reversed (e0 :: e1 :: r) = extend_reversed (e1 :: r) ++ rev_el e0 e1]).  The generated loop
    over the index list appends [rev_el elements[i-1] elements[i]] per index ([ext_loop]); over [len-1, .., 1] that is the
    model's list ([ext_indices], induction on the elements: the indices of the tail are those of the list shifted by one). *)
Section ExtendReversed.
Context {T : Type} `{Scalar T}.
Let d : PathEl T := MoveTo (mkPoint f0 f0).

Definition ext_at (els : list (PathEl T)) (i : nat) : list (PathEl T) := rev_el (nth (i - 1) els d) (nth i els d).

Lemma ext_indices (els : list (PathEl T)) :
  concat (map (ext_at els) (rev (seq 1 (length els - 1)))) = KV.Stroke.extend_reversed els.
Proof.
  induction els as [|e0 r IH]; [reflexivity|].
  destruct r as [|e1 r']; [reflexivity|].
  change (length (e0 :: e1 :: r') - 1)%nat with (Datatypes.S (length r')).
  change (length (e1 :: r') - 1)%nat with (length r' - 0)%nat in IH. rewrite Nat.sub_0_r in IH.
  cbn [seq rev]. rewrite map_app, concat_app. cbn [map concat]. rewrite app_nil_r.
  change (KV.Stroke.extend_reversed (e0 :: e1 :: r')) with (KV.Stroke.extend_reversed (e1 :: r') ++ rev_el e0 e1).
  f_equal. rewrite <- IH, <- seq_shift, <- map_rev, map_map. f_equal.
  apply map_ext_in. intros i Hi. apply in_rev, in_seq in Hi.
  unfold ext_at. destruct i as [|i]; [lia|]. cbn [nth Nat.sub]. rewrite Nat.sub_0_r. reflexivity.
Qed.
End ExtendReversed.

Lemma br_sk_extend_reversed : forall (T : Type) (S : Scalar T) (out_ : (list (PathEl T))) (elements_ : (list (PathEl T))), Gen.sk_extend_reversed out_ elements_ = out_ ++ KV.Stroke.extend_reversed elements_.
Proof.
  intros T S out els. rewrite <- ext_indices.
  cbv beta zeta delta [Gen.sk_extend_reversed].
  generalize (rev (seq 1 (length els - 1))). intro l. revert out.
  induction l as [|i l IH]; intro out; [symmetry; apply app_nil_r|].
  cbn [map concat]. rewrite app_assoc, <- IH. cbv beta iota zeta. f_equal.
  unfold ext_at, rev_el, el_end_or, pt_origin, bp_line_to, bp_quad_to, bp_curve_to, bp_push.
  destruct (nth i els (MoveTo (mkPoint f0 f0))); try reflexivity; symmetry; apply app_nil_r.
Qed.
