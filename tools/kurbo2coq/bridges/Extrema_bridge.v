(** NOTE for maintainers: a shared tactic must only name model constants; each lemma unfolds its own [Gen.f], so
    that a function leaving the subset takes down only its own lemma.

    Bridges for the extrema / bounding-box code (C08): the generated loops are local fixpoints over
    the list of roots with the accumulators as arguments; the models use [filter], [fold_left] and
    their own structural recursions.  Proved by induction on the list (accumulators generalised). *)
From Coq Require Import ZArith QArith List Bool Floats.
From KV Require Import Scalar Geom Curves Rect Path Solvers Extrema.
From KVGen Require Gen.
From KVBridge Require Import BridgeLib.
Import ListNotations.

Tactic Notation "ex_unfold" reference(g) :=
  cbv beta iota zeta delta [g KV.Extrema.cubic_one_coord KV.Extrema.cubic_extrema KV.Extrema.quad_extrema KV.Extrema.extrema_filter
    KV.Extrema.oc_a KV.Extrema.oc_b KV.Extrema.in_open01 KV.Extrema.extrema_ranges
    KV.Extrema.quad_bounding_box KV.Extrema.cubic_bounding_box KV.Extrema.seg_bounding_box KV.Extrema.bbox_of
    f0 f1 f2 f3].

Section Loops.
Context {T : Type} `{Scalar T}.

(** the push-if loop of [one_coord] is [filter] *)
Lemma loop_filter (p : T -> bool) (l : list T) : forall acc,
  (fix go (l : list T) (acc : list T) {struct l} : list T :=
     match l with
     | [] => acc
     | x :: r => go r (if p x then acc ++ [x] else acc)
     end) l acc = acc ++ filter p l.
Proof.
  induction l as [|x l IH]; intro acc; cbn [filter].
  - rewrite app_nil_r; reflexivity.
  - rewrite IH. destruct (p x); [rewrite <- app_assoc|]; reflexivity.
Qed.

(** the loop of [extrema_ranges] *)
Lemma loop_ranges (one : T) (l : list T) : forall acc t0,
  (let '(r, t) :=
     (fix go (l : list T) (acc : list (T * T)) (t0 : T) {struct l} : list (T * T) * T :=
        match l with
        | [] => (acc, t0)
        | x :: r => go r (acc ++ [(t0, x)]) x
        end) l acc t0 in r ++ [(t, one)])
  = acc ++ (fix rf (t0 : T) (ts : list T) {struct ts} : list (T * T) :=
              match ts with [] => [(t0, one)] | t :: r => (t0, t) :: rf t r end) t0 l.
Proof.
  induction l as [|x l IH]; intros acc t0.
  - reflexivity.
  - rewrite IH, <- app_assoc. reflexivity.
Qed.

(** an accumulating loop is [fold_left] *)
Lemma loop_fold {A} (f : A -> T -> A) (l : list T) : forall acc,
  (fix go (l : list T) (acc : A) {struct l} : A :=
     match l with [] => acc | x :: r => go r (f acc x) end) l acc = fold_left f l acc.
Proof. induction l as [|x l IH]; intro acc; [reflexivity | apply IH]. Qed.

End Loops.

Lemma br_cubic_one_coord : forall (T : Type) (S : Scalar T) (result_ : (list T)) (d0_ : T) (d1_ : T) (d2_ : T), Gen.cubic_one_coord result_ d0_ d1_ d2_ = result_ ++ KV.Extrema.cubic_one_coord d0_ d1_ d2_.
Proof.
  intros. ex_unfold Gen.cubic_one_coord.
  match goal with |- context [solve_quadratic ?a ?b ?c] => generalize (solve_quadratic a b c) end.
  intro l. exact (loop_filter (fun t => fltb (fofZ 0) t && fltb t (fofZ 1)) l result_).
Qed.

Lemma br_cubic_extrema : forall (T : Type) (S : Scalar T) (self_ : (CubicBez T)), Gen.cubic_extrema self_ = KV.Extrema.cubic_extrema self_.
Proof.
  intros T S [p0 p1 p2 p3]. ex_unfold Gen.cubic_extrema. reflexivity.
Qed.

Lemma br_quad_extrema : forall (T : Type) (S : Scalar T) (self_ : (QuadBez T)), Gen.quad_extrema self_ = KV.Extrema.quad_extrema self_.
Proof.
  intros T S [p0 p1 p2]. ex_unfold Gen.quad_extrema. cbn [q0 q1 q2].
  br_cmps; cbn [Gen.tr_swap Gen.tr_set nth]; reflexivity.
Qed.

Lemma br_seg_extrema_ranges : forall (T : Type) (S : Scalar T) (self_ : (PathSeg T)), Gen.seg_extrema_ranges self_ = KV.Extrema.extrema_ranges (KV.Extrema.seg_extrema self_).
Proof.
  intros. ex_unfold Gen.seg_extrema_ranges. generalize (seg_extrema self_); intro l.
  exact (loop_ranges (fofZ 1) l [] (fofZ 0)).
Qed.

Lemma br_quad_bounding_box : forall (T : Type) (S : Scalar T) (self_ : (QuadBez T)), Gen.quad_bounding_box self_ = KV.Extrema.quad_bounding_box self_.
Proof. intros. ex_unfold Gen.quad_bounding_box. apply loop_fold. Qed.

Lemma br_cubic_bounding_box : forall (T : Type) (S : Scalar T) (self_ : (CubicBez T)), Gen.cubic_bounding_box self_ = KV.Extrema.cubic_bounding_box self_.
Proof. intros. ex_unfold Gen.cubic_bounding_box. apply loop_fold. Qed.

Lemma br_seg_bounding_box : forall (T : Type) (S : Scalar T) (self_ : (PathSeg T)), Gen.seg_bounding_box self_ = KV.Extrema.seg_bounding_box self_.
Proof. intros. ex_unfold Gen.seg_bounding_box. apply loop_fold. Qed.
