(** Bridge for [solve_quartic_inner] (C15): the code collects the roots of the two quadratic factors
    with [flat_map] over a two-element vector; the model appends the two root lists. *)
From Coq Require Import ZArith QArith List Bool Floats.
From KV Require Import Scalar Solvers.
From KVGen Require Gen.
From KVBridge Require Import BridgeLib.
Import ListNotations.

Lemma br_solve_quartic_inner : forall (T : Type) (S : Scalar T) (a_ : T) (b_ : T) (c_ : T) (d_ : T) (rescale_ : bool), Gen.solve_quartic_inner a_ b_ c_ d_ rescale_ = KV.Solvers.solve_quartic_inner a_ b_ c_ d_ rescale_.
Proof.
  intros. unfold Gen.solve_quartic_inner, KV.Solvers.solve_quartic_inner, KV.Solvers.quartic_roots_of_factors.
  destruct (factor_quartic_inner a_ b_ c_ d_ rescale_) as [[[a1 b1] [a2 b2]]|]; [|reflexivity].
  cbn [flat_map]. rewrite app_nil_r. reflexivity.
Qed.
