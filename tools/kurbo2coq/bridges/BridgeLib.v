(** Shared lemmas and tactics for the hand-written bridges ([Gen.f = model f] where the two are
    equal but not convertible).  Only structural facts about lists / nat are used: the scalar and its
    operations stay abstract, so no law of arithmetic is available here either. *)
From Coq Require Import ZArith List Bool Arith Lia.
From KV Require Import Scalar.
Import ListNotations.

Lemma nth_last {A} (l : list A) d : nth (length l - 1) l d = last l d.
Proof.
  induction l as [|a [|b l] IH]; try reflexivity.
  cbn [length Nat.sub] in *. rewrite Nat.sub_0_r in IH. cbn [nth last]. exact IH.
Qed.

(** destruct the condition of every remaining [if] (all occurrences of a condition at once) *)
Ltac br_ifs := repeat match goal with |- context [if ?c then _ else _] => destruct c end.
(** right-associate appends and compute the appends of literal lists *)
Ltac br_lists := repeat rewrite <- app_assoc; rewrite ?app_nil_r; cbn [app].
Ltac br_done := try reflexivity; br_lists; reflexivity.

(** case analysis on the scalar comparisons, innermost first: a comparison is only destructed once its
    operands contain no conditional any more (so that the same test is the same term on both sides) *)
Ltac br_atomic a := lazymatch a with context [if _ then _ else _] => fail | context [match _ with _ => _ end] => fail | _ => idtac end.
Ltac br_cmp1 :=
  match goal with
  | |- context [fltb ?a ?b] => br_atomic a; br_atomic b; destruct (fltb a b)
  | |- context [fleb ?a ?b] => br_atomic a; br_atomic b; destruct (fleb a b)
  | |- context [feqb ?a ?b] => br_atomic a; br_atomic b; destruct (feqb a b)
  | |- context [fis_finite ?a] => br_atomic a; destruct (fis_finite a)
  end.
Ltac br_cmps := repeat (br_cmp1; cbn [app length Nat.eqb nth andb orb negb]).
