(** Bridge for [BezPath::get_seg] (C07) against [KV.PathOps.get_seg_req] (the repaired behaviour, which
    is what the source implements).  The code indexes the element vector directly (after the range
    test); the model uses [nth_error].  Equal by [nth_error_nth'] under the range test, case analysis on
    the two elements, and [tr_find_map = find_map] (two copies of the same recursion). *)
From Coq Require Import ZArith QArith List Bool Floats Arith Lia.
From KV Require Import Scalar Geom Curves Path PathOps.
From KVGen Require Gen.
From KVBridge Require Import BridgeLib.
Import ListNotations.

Lemma find_map_eq {A B : Type} (f : A -> option B) (l : list A) : Gen.tr_find_map f l = find_map f l.
Proof. induction l as [|x l IH]; [reflexivity|]. cbn [Gen.tr_find_map find_map]. rewrite IH. reflexivity. Qed.

Lemma br_get_seg : forall (T : Type) (S : Scalar T) (self_ : (list (PathEl T))) (ix_ : nat), Gen.get_seg self_ ix_ = KV.PathOps.get_seg_req self_ ix_.
Proof.
  intros T S els ix.
  cbv beta iota zeta delta [Gen.get_seg KV.PathOps.get_seg_req KV.PathOps.subpath_start Gen.line_new Gen.quad_new Gen.cubic_new pt_neb].
  destruct (Nat.eqb ix 0) eqn:E0; [reflexivity|].
  destruct (Nat.leb (length els) ix) eqn:E1; [reflexivity|].
  cbn [orb].
  apply Nat.eqb_neq in E0. apply Nat.leb_gt in E1.
  rewrite (nth_error_nth' els (MoveTo (mkPoint f0 f0)) (n := ix - 1)) by lia.
  rewrite (nth_error_nth' els (MoveTo (mkPoint f0 f0)) (n := ix)) by lia.
  rewrite !find_map_eq.
  destruct (nth (ix - 1) els (MoveTo (mkPoint f0 f0))) as [p|p|p1 p2|p1 p2 p3|]; cbn [el_end];
    destruct (nth ix els (MoveTo (mkPoint f0 f0))) as [q|q|q1 q2|q1 q2 q3|]; try reflexivity;
    repeat match goal with |- context [find_map ?f ?l] => destruct (find_map f l) end; try reflexivity;
    repeat match goal with |- context [pt_eqb ?a ?b] => destruct (pt_eqb a b) end; reflexivity.
Qed.

(** ** [reverse_subpath] / [BezPath::reverse_subpaths]: simulation.  The model returns [None] where the
    code panics ([unwrap] of a [ClosePath]'s end point, a [MoveTo]/[ClosePath] inside a sub-path); the
    statements are agreement wherever the model is defined.  The code indexes ([nth]) where the model
    uses [nth_error]; the code's four loop variables are the model's [RevState]. *)

Lemma br_reverse_subpath : forall (T : Type) (S : Scalar T) (start_pt_ : (Point T)) (els_ : (list (PathEl T))) (reversed_ : (list (PathEl T))), match KV.PathOps.reverse_subpath start_pt_ els_ reversed_ with Some tr_r => (Gen.reverse_subpath start_pt_ els_ reversed_) = tr_r | None => True end.
Proof.
  intros T S sp els rv.
  cbv beta iota zeta delta [Gen.reverse_subpath KV.PathOps.reverse_subpath KV.PathOps.enumerate].
  match goal with |- context [?F (rev (combine (seq 0%nat (length els)) els)) ?a0] =>
    assert (E : forall (it : list (nat * PathEl T)) acc,
               match reverse_subpath_loop sp els it acc with Some r => F it acc = r | None => True end)
  end.
  { induction it as [|[ix el] r IH]; intro acc; [reflexivity|].
    cbn [reverse_subpath_loop].
    destruct (Nat.ltb 0%nat ix).
    - destruct (nth_error els (ix - 1)) as [e|] eqn:He; [|exact I].
      rewrite (nth_error_nth els (ix - 1) (MoveTo (mkPoint f0 f0)) He).
      destruct (el_end e); [|exact I].
      destruct el; try exact I; apply IH.
    - destruct el; try exact I; apply IH. }
  match goal with |- context [reverse_subpath_loop sp els ?it ?a0] => specialize (E it a0) end.
  destruct (last (map Some els) None) as [e|]; [destruct (el_end e)|]; exact E.
Qed.

Lemma fold_none {A B} (f : option A -> B -> option A) (Hf : forall b, f None b = None) (l : list B) :
  fold_left f l None = None.
Proof. induction l as [|b l IH]; [reflexivity|]. cbn [fold_left]. rewrite Hf. exact IH. Qed.

Lemma slice_to_end {A} (l : list A) (a : nat) : firstn (length l - a) (skipn a l) = skipn a l.
Proof. apply firstn_all2. rewrite skipn_length. apply Nat.le_refl. Qed.

Lemma br_reverse_subpaths : forall (T : Type) (S : Scalar T) (self_ : (list (PathEl T))), match KV.PathOps.reverse_subpaths self_ with Some tr_r => (Gen.reverse_subpaths self_) = tr_r | None => True end.
Proof.
  intros T S els.
  cbv beta iota zeta delta [Gen.reverse_subpaths KV.PathOps.reverse_subpaths KV.PathOps.enumerate KV.PathOps.pt_default KV.PathOps.slice].
  match goal with |- context [?F (combine (seq 0%nat (length els)) els) 1%nat ?p0 [] false] =>
    assert (E : forall (l : list (nat * PathEl T)) six spt rv pend,
               match fold_left (reverse_step els) l (Some (mkRev six spt rv pend)) with
               | Some st => F l six spt rv pend = (rv_start_ix st, rv_start_pt st, rv_reversed st, rv_pending st)
               | None => True
               end)
  end.
  { induction l as [|[ix el] r IH]; intros six spt rv pend; [reflexivity|].
    cbn [fold_left]. unfold reverse_step at 2. unfold KV.PathOps.slice.
    destruct el as [pt|pt|p1 p2|p1 p2 p3|]; cbn [rv_pending rv_reversed rv_start_pt rv_start_ix].
    - destruct pend; destruct (Nat.ltb six ix);
        try (match goal with |- context [reverse_subpath ?a ?b ?c] => destruct (reverse_subpath a b c) end);
        rewrite ?Nat.add_1_r; try apply IH; rewrite fold_none by reflexivity; exact I.
    - apply IH.
    - apply IH.
    - apply IH.
    - destruct (Nat.leb six ix);
        try (match goal with |- context [reverse_subpath ?a ?b ?c] => destruct (reverse_subpath a b c) end);
        rewrite ?Nat.add_1_r; try apply IH; rewrite fold_none by reflexivity; exact I. }
  match goal with |- context [fold_left (reverse_step els) ?l ?s0] => specialize (E l 1%nat (mkPoint f0 f0) [] false) end.
  destruct (fold_left (reverse_step els) (combine (seq 0%nat (length els)) els) (Some (mkRev 1%nat (mkPoint f0 f0) [] false))) as [[six spt rv pend]|]; [|exact I].
  rewrite E. cbn [rv_pending rv_reversed rv_start_pt rv_start_ix].
  rewrite slice_to_end.
  destruct (Nat.ltb six (length els)).
  - destruct (reverse_subpath spt (skipn six els) rv); [reflexivity | exact I].
  - destruct pend; reflexivity.
Qed.

(** ** [BezPath::from_path_segments] (svg.rs): the code's loop variables are the arguments of [fps_loop] *)
Lemma br_from_path_segments : forall (T : Type) (S : Scalar T) (segments_ : (list (PathSeg T))), Gen.from_path_segments segments_ = KV.PathOps.from_path_segments segments_.
Proof.
  intros T S segs.
  cbv beta iota zeta delta [Gen.from_path_segments KV.PathOps.from_path_segments Gen.bezpath_from_vec].
  match goal with |- context [?F segs [] None] =>
    assert (E : forall (l : list (PathSeg T)) pe cp, fst (F l pe cp) = fps_loop l cp pe)
  end.
  { induction l as [|s r IH]; intros pe cp; [reflexivity|].
    cbn [fps_loop]. unfold seg_to_el, pt_neb.
    destruct cp as [c|]; [destruct (pt_eqb (seg_start s) c)|]; cbn [negb]; apply IH. }
  specialize (E segs [] None).
  match goal with |- context [?F segs [] None] => destruct (F segs [] None) as [pe cp] end.
  exact E.
Qed.
