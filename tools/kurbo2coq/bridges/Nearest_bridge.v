(** Bridge for [QuadBez::nearest] (C09).  The code threads [t_best], [r_best] and [need_ends] through
    the root loop; the model threads the pair [(t_best, r_best)] with [nr_try_roots].  The model returns
    [None] where the code would panic on [r_best.unwrap()]; the statement is agreement wherever the
    model is defined. *)
From Coq Require Import ZArith QArith List Bool Floats Lia.
From KV Require Import Scalar Geom Curves Solvers ToQuads Nearest.
From KVGen Require Gen.
From KVBridge Require Import BridgeLib.
Import ListNotations.

Lemma br_quad_nearest : forall (T : Type) (S : Scalar T) (self_ : (QuadBez T)) (p_ : (Point T)) (_accuracy_ : T), match KV.Nearest.quad_nearest self_ p_ with Some tr_r => (Gen.quad_nearest self_ p_ _accuracy_) = tr_r | None => True end.
Proof.
  intros T S q p acc.
  cbv beta iota zeta delta [Gen.quad_nearest KV.Nearest.quad_nearest KV.Nearest.quad_nearest_with
    KV.Nearest.quad_nearest_coeffs KV.Nearest.quad_nearest_from_roots KV.Nearest.nr_init f0 f1 f2 f3].
  match goal with |- context [solve_cubic ?a ?b ?c ?d] => generalize (solve_cubic a b c d) end.
  intro l.
  (* the generated loop is [nr_try_roots] up to the order of the components *)
  match goal with |- context [?F l None ?t0 ?ne0] =>
    assert (E : forall (l : list T) rb tb ne,
               F l rb tb ne = (let '(ne', st) := nr_try_roots q p l ne (tb, rb) in (snd st, fst st, ne')))
  end.
  { clear l. induction l as [|t r IH]; intros rb tb ne; [reflexivity|].
    cbn [nr_try_roots]. destruct (nr_try_t q p (tb, rb) t) as [b [t' r']]. cbn [fst snd]. apply IH. }
  rewrite E. clear E.
  destruct (nr_try_roots q p l match l with [] => true | _ :: _ => false end (fofZ 0, None)) as [ne [tb rb]] eqn:Hr.
  replace (if match l with [] => true | _ => false end then true else false)
     with (match l with [] => true | _ :: _ => false end) by (destruct l; reflexivity).
  rewrite Hr. cbn [fst snd].
  destruct ne.
  - destruct (nr_eval_t p (tb, rb) (fofZ 0) (q0 q)) as [t1 r1].
    destruct (nr_eval_t p (t1, r1) (fofZ 1) (q2 q)) as [t2 r2]. cbn [fst snd].
    destruct r2; [reflexivity | exact I].
  - cbn [fst snd]. destruct rb; [reflexivity | exact I].
Qed.

(** ** [CubicBez::nearest] (C09): [for (t0, t1, q) in self.to_quads(accuracy)] consumes the [ToQuads] iterator, i.e. the
    generated [next] is called until it returns [None] ([tr_drain], at most [S (n - i)] times).  That list is the model's
    [nr_quads_piece c n i] for [i = 0 .. n-1] ([drain_to_quads]); the generated loop over it, which threads
    [(best_r, best_t)], is the model's [cubic_nearest_loop_with quad_nearest] over the indices, which threads the pair
    [(best_t, best_r)] ([cubic_loop]).  The model is [None] where the code would panic ([best_r.unwrap()], or
    [r_best.unwrap()] inside [QuadBez::nearest]): agreement wherever the model is defined. *)
Section CubicNearest.
Context {T : Type} `{Scalar T}.

(* owner: to_quads_next *)
Lemma sim_to_quads_next (c : CubicBez T) (i n : Z) :
  Gen.to_quads_next (c, i, n) = (if Z.eqb i n then (None, (c, i, n)) else (Some (nr_quads_piece c n i), (c, Z.add i 1, n))).
Proof. reflexivity. Qed.

Lemma drain_S {St A : Type} (next : St -> option A * St) (k : nat) (s : St) :
  Gen.tr_drain next (S k) s = match next s with (Some a, s') => a :: Gen.tr_drain next k s' | (None, _) => [] end.
Proof. reflexivity. Qed.

Lemma drain_to_quads (c : CubicBez T) (n : Z) : forall (k : nat) (i : Z), n = Z.add i (Z.of_nat k) ->
  Gen.tr_drain Gen.to_quads_next (S k) (c, i, n) = map (fun j => nr_quads_piece c n (Z.add i (Z.of_nat j))) (seq 0 k).
Proof.
  induction k as [|k IH]; intros i E; rewrite drain_S, sim_to_quads_next.
  - replace (Z.eqb i n) with true by (symmetry; apply Z.eqb_eq; lia). reflexivity.
  - replace (Z.eqb i n) with false by (symmetry; apply Z.eqb_neq; lia).
    cbn [seq map]. rewrite Z.add_0_r. f_equal.
    rewrite (IH (Z.add i 1)) by lia. rewrite <- seq_shift, map_map.
    apply map_ext. intro j. f_equal. lia.
Qed.

End CubicNearest.

(* owner: cubic_nearest *)
Lemma sim_cubic_nearest : forall (T : Type) (S : Scalar T) (self_ : (CubicBez T)) (p_ : (Point T)) (accuracy_ : T), match KV.Nearest.cubic_nearest self_ p_ accuracy_ with Some tr_r => (Gen.cubic_nearest self_ p_ accuracy_) = tr_r | None => True end.
Proof.
  intros T S c p acc.
  cbv beta zeta delta [Gen.cubic_nearest KV.Nearest.cubic_nearest KV.Nearest.cubic_nearest_with KV.Nearest.cubic_nearest_n_with].
  change (KV.ToQuads.to_quads_count c acc) with (nr_quads_count c acc).
  assert (N : (1 <= nr_quads_count c acc)%Z) by (unfold nr_quads_count; cbv zeta; apply Z.le_max_r).
  set (n := nr_quads_count c acc) in *. cbn [fst snd].
  rewrite Z.sub_0_r.
  rewrite (drain_to_quads c n (Z.to_nat n) 0%Z) by lia.
  rewrite Z2Nat.id by lia.
  replace (map (fun j => nr_quads_piece c n (0 + Z.of_nat j)) (seq 0 (Z.to_nat n)))
     with (map (nr_quads_piece c n) (map Z.of_nat (seq 0 (Z.to_nat n)))) by (rewrite map_map; reflexivity).
  generalize (map Z.of_nat (seq 0 (Z.to_nat n))). intro l.
  (* the generated loop is the model's, up to the order of the two components *)
  match goal with |- context [?F (map (nr_quads_piece c n) l) None (fofZ 0)] =>
    assert (E : forall (l : list Z) rb tb,
               match cubic_nearest_loop_with quad_nearest c p n l (tb, rb) with
               | Some (t, r) => F (map (nr_quads_piece c n) l) rb tb = (r, t)
               | None => True
               end)
  end.
  { clear l. induction l as [|i l IH]; intros rb tb; [reflexivity|].
    cbn [map cubic_nearest_loop_with].
    destruct (nr_quads_piece c n i) as [[t0 t1] q].
    destruct (quad_nearest q p) as [[nt nd]|]; [|exact I].
    unfold nr_cubic_step. cbn [fst snd].
    destruct rb as [b|]; [destruct (nd <? b)%S|]; apply IH. }
  specialize (E l None (fofZ 0)). unfold nr_init. unfold f0 in *.
  destruct (cubic_nearest_loop_with quad_nearest c p n l (fofZ 0, None)) as [[t [r|]]|]; try exact I.
  rewrite E. reflexivity.
Qed.

Lemma br_cubic_nearest : forall (T : Type) (S : Scalar T) (self_ : (CubicBez T)) (p_ : (Point T)) (accuracy_ : T), match KV.Nearest.cubic_nearest self_ p_ accuracy_ with Some tr_r => (Gen.cubic_nearest self_ p_ accuracy_) = tr_r | None => True end.
Proof. exact sim_cubic_nearest. Qed.

(** [PathSeg::nearest]: the dispatch over the three curve types *)
Lemma br_seg_nearest : forall (T : Type) (S : Scalar T) (self_ : (PathSeg T)) (p_ : (Point T)) (accuracy_ : T), match KV.Nearest.seg_nearest self_ p_ accuracy_ with Some tr_r => (Gen.seg_nearest self_ p_ accuracy_) = tr_r | None => True end.
Proof.
  intros T S [l|q|c] p acc; cbv beta iota delta [Gen.seg_nearest KV.Nearest.seg_nearest].
  - reflexivity.
  - destruct (quad_nearest q p); [reflexivity | exact I].
  - destruct (cubic_nearest c p acc); [reflexivity | exact I].
Qed.
