(** Bridge for [QuadBez::nearest] (C09).  The code threads [t_best], [r_best] and [need_ends] through
    the root loop; the model threads the pair [(t_best, r_best)] with [nr_try_roots].  The model returns
    [None] where the code would panic on [r_best.unwrap()]; the statement is agreement wherever the
    model is defined. *)
From Coq Require Import ZArith QArith List Bool Floats.
From KV Require Import Scalar Geom Curves Solvers Nearest.
From KVGen Require Gen.
From KVBridge Require Import BridgeLib.
Import ListNotations.

Lemma br_quad_nearest : forall (T : Type) (S : Scalar T) (self_ : (QuadBez T)) (p_ : (Point T)) (_accuracy_ : T), match KV.Nearest.quad_nearest self_ p_ with Some tr_r => (Gen.quad_nearest self_ p_ _accuracy_) = tr_r | None => True end.
Proof.
  intros T S q p acc.
  cbv beta iota zeta delta [Gen.quad_nearest KV.Nearest.quad_nearest KV.Nearest.quad_nearest_with
    KV.Nearest.quad_nearest_coeffs KV.Nearest.quad_nearest_from_roots KV.Nearest.nr_init f0 f1 f2 f3].
  match goal with |- context [solve_cubic ?a ?b ?c ?d] => generalize (solve_cubic a b c d) end.
  intro l.
  (* the generated loop is [nr_try_roots] up to the order of the components *)
  match goal with |- context [?F l None ?t0 ?ne0] =>
    assert (E : forall (l : list T) rb tb ne,
               F l rb tb ne = (let '(ne', st) := nr_try_roots q p l ne (tb, rb) in (snd st, fst st, ne')))
  end.
  { clear l. induction l as [|t r IH]; intros rb tb ne; [reflexivity|].
    cbn [nr_try_roots]. destruct (nr_try_t q p (tb, rb) t) as [b [t' r']]. cbn [fst snd]. apply IH. }
  rewrite E. clear E.
  destruct (nr_try_roots q p l match l with [] => true | _ :: _ => false end (fofZ 0, None)) as [ne [tb rb]] eqn:Hr.
  replace (if match l with [] => true | _ => false end then true else false)
     with (match l with [] => true | _ :: _ => false end) by (destruct l; reflexivity).
  rewrite Hr. cbn [fst snd].
  destruct ne.
  - destruct (nr_eval_t p (tb, rb) (fofZ 0) (q0 q)) as [t1 r1].
    destruct (nr_eval_t p (t1, r1) (fofZ 1) (q2 q)) as [t2 r2]. cbn [fst snd].
    destruct r2; [reflexivity | exact I].
  - cbn [fst snd]. destruct rb; [reflexivity | exact I].
Qed.
