(** [flatten]: the body of the [for el in path] loop, as the generated step function over
    (start_pt, last_pt, what was handed to the callback), against the model's [fl_step] at [keep = true].
    The [CurveTo] arm is not translated (spec [skip_arms]); the statement says nothing about it. *)
From Coq Require Import ZArith List Bool.
From KV Require Import Scalar Geom Curves Path Flatten.
From KVGen Require Gen.
From KVBridge Require Import BridgeLib.
Import ListNotations.

Section F.
Context {T : Type} `{Scalar T}.

Definition sim_fl_step (start last : option (Point T)) (out : list (PathEl T)) (el : PathEl T) (tolerance sqrt_tol : T)
    (g : option unit * option (Point T) * option (Point T) * list (PathEl T)) : Prop :=
  match el with
  | CurveTo _ _ _ => True
  | _ =>
      match fl_step true tolerance sqrt_tol (start, last) el with
      | Some ((start', last'), em) => g = (None, start', last', out ++ em)
      | None => True
      end
  end.

(* a loop that pushes one element per item is an append of a map *)
Lemma push_loop {A} (f : A -> PathEl T) (l : list A) : forall out,
  (fix lp (l : list A) (out : list (PathEl T)) {struct l} := match l with [] => out | x :: r => lp r (out ++ [f x]) end) l out
  = out ++ map f l.
Proof.
  induction l as [|x r IH]; intro out; [symmetry; apply app_nil_r|].
  rewrite IH. cbn [map]. rewrite <- app_assoc. reflexivity.
Qed.

(* owner: flatten_step *)
Lemma sim_fl_step_all start last out el tolerance sqrt_tol :
  sim_fl_step start last out el tolerance sqrt_tol (Gen.flatten_step start last out el tolerance sqrt_tol).
Proof.
  unfold sim_fl_step, fl_step. cbv beta delta [Gen.flatten_step].
  destruct el as [p|p|p1 p2|p1 p2 p3|]; try exact I; try reflexivity.
  destruct last as [p0|]; [|cbn [app map]; rewrite app_nil_r; reflexivity].
  cbv beta iota zeta.
  rewrite push_loop.
  unfold flatten_quad_pts, flatten_quad_ts, subdiv_count, zrange.
  rewrite map_app, !map_map, <- app_assoc. reflexivity.
Qed.
End F.

Lemma br_flatten_step : forall (T : Type) (S : Scalar T) (start_pt_ : (option (Point T))) (last_pt_ : (option (Point T))) (callback_ : (list (PathEl T))) (el_ : (PathEl T)) (tolerance_ : T) (sqrt_tol_ : T), KVBridge.Flatten_bridge.sim_fl_step start_pt_ last_pt_ callback_ el_ tolerance_ sqrt_tol_ (Gen.flatten_step start_pt_ last_pt_ callback_ el_ tolerance_ sqrt_tol_).
Proof. intros. apply sim_fl_step_all. Qed.
