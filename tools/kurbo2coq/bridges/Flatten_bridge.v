(** [flatten]: the body of the [for el in path] loop, as the generated step function over
    (start_pt, last_pt, quad_buf, what was handed to the callback), against the model's [fl_step] at [keep = true],
    all five arms; then the whole function (the fold over the path around that step) against the model's [flatten].
    The model is [None] when the [while target < ..] loop of the [CurveTo] arm would run past its own bound
    [n + 1 - i] ("runaway", shown empty in exact arithmetic by the C05 proofs): the statements are agreement wherever
    the model is defined.  [quad_buf] is scratch space (cleared before use): the statements ignore its final value. *)
From Coq Require Import ZArith QArith List Bool Floats Lia.
From KV Require Import Scalar Geom Curves Path Flatten ToQuads.
From KVGen Require Gen.
From KVBridge Require Import BridgeLib.
Import ListNotations.

Section F.
Context {T : Type} `{Scalar T}.

Definition sim_fl_step (start last : option (Point T)) (qb : list (QuadBez T * FlattenParams T)) (out : list (PathEl T))
    (el : PathEl T) (tolerance sqrt_tol : T)
    (g : option unit * option (Point T) * option (Point T) * list (QuadBez T * FlattenParams T) * list (PathEl T)) : Prop :=
  match fl_step true tolerance sqrt_tol (start, last) el with
  | Some ((start', last'), em) => (let '(o, s, l, _, c) := g in (o, s, l, c)) = (None, start', last', out ++ em)
  | None => True
  end.

(* a loop that pushes one element per item is an append of a map *)
Lemma push_loop {A} (f : A -> PathEl T) (l : list A) : forall out,
  (fix lp (l : list A) (out : list (PathEl T)) {struct l} := match l with [] => out | x :: r => lp r (out ++ [f x]) end) l out
  = out ++ map f l.
Proof.
  induction l as [|x r IH]; intro out; [symmetry; apply app_nil_r|].
  rewrite IH. cbn [map]. rewrite <- app_assoc. reflexivity.
Qed.

(** *** the [CurveTo] arm.  Consuming [c.to_quads(..)] (calling the generated [next] until [None]) yields the model's
    [fl_to_quads] list *)
(* owner: to_quads_next *)
Lemma fl_to_quads_next (c : CubicBez T) (i n : Z) :
  Gen.to_quads_next (c, i, n) = (if Z.eqb i n then (None, (c, i, n)) else (Some (fl_to_quad c n i), (c, Z.add i 1, n))).
Proof. reflexivity. Qed.

Lemma fl_drain_S {St A : Type} (next : St -> option A * St) (k : nat) (s : St) :
  Gen.tr_drain next (S k) s = match next s with (Some a, s') => a :: Gen.tr_drain next k s' | (None, _) => [] end.
Proof. reflexivity. Qed.

Lemma fl_drain (c : CubicBez T) (n : Z) : forall (k : nat) (i : Z), n = Z.add i (Z.of_nat k) ->
  Gen.tr_drain Gen.to_quads_next (S k) (c, i, n) = map (fun j => fl_to_quad c n (Z.add i (Z.of_nat j))) (seq 0 k).
Proof.
  induction k as [|k IH]; intros i E; rewrite fl_drain_S, fl_to_quads_next.
  - replace (Z.eqb i n) with true by (symmetry; apply Z.eqb_eq; lia). reflexivity.
  - replace (Z.eqb i n) with false by (symmetry; apply Z.eqb_neq; lia).
    cbn [seq map]. rewrite Z.add_0_r. f_equal.
    rewrite (IH (Z.add i 1)) by lia. rewrite <- seq_shift, map_map.
    apply map_ext. intro j. f_equal. lia.
Qed.

Lemma fl_drain_all (c : CubicBez T) (acc : T) :
  Gen.tr_drain Gen.to_quads_next (S (Z.to_nat (Z.sub (fl_to_quads_n c acc) 0))) (c, 0%Z, fl_to_quads_n c acc) = fl_to_quads c acc.
Proof.
  assert (N : (1 <= fl_to_quads_n c acc)%Z) by (unfold fl_to_quads_n; cbv zeta; apply Z.le_max_r).
  unfold fl_to_quads, zrange. cbv zeta. rewrite map_map.
  apply fl_drain. lia.
Qed.

(* owner: flatten_step *)
Lemma sim_fl_step_all start last qb out el tolerance sqrt_tol :
  sim_fl_step start last qb out el tolerance sqrt_tol (Gen.flatten_step start last qb out el tolerance sqrt_tol).
Proof.
  unfold sim_fl_step, fl_step. cbv beta delta [Gen.flatten_step].
  destruct el as [p|p|p1 p2|p1 p2 p3|]; try reflexivity.
  - (* QuadTo *)
    destruct last as [p0|]; [|cbn [app map]; rewrite app_nil_r; reflexivity].
    cbv beta iota zeta.
    rewrite push_loop.
    unfold flatten_quad_pts, flatten_quad_ts, subdiv_count, zrange.
    rewrite map_app, !map_map, <- app_assoc. reflexivity.
  - (* CurveTo *)
    destruct last as [p0|]; [|cbn [app map]; rewrite app_nil_r; reflexivity].
    unfold flatten_cubic_pts, cubic_stage2, cubic_stage2_us, cubic_quad_buf.
    cbv beta iota zeta delta [Gen.cubic_new Gen.TO_QUAD_TOL]. cbn [fst snd].
    change ((sqrt_tol * fsqrt (fofZ 1 - to_quad_tol))%S) with (sqrt_remain sqrt_tol).
    set (sr := sqrt_remain sqrt_tol).
    set (c := mkCubic p0 p1 p2 p3).
    change (KV.ToQuads.to_quads_count c (tolerance * to_quad_tol)%S) with (fl_to_quads_n c (tolerance * to_quad_tol)%S).
    rewrite fl_drain_all.
    generalize (fl_to_quads c (tolerance * to_quad_tol)%S). intro tqs.
    (* first loop: quad_buf and the sum of the [val]s *)
    set (mk := fun tq : T * T * QuadBez T => (snd tq, estimate_subdiv (snd tq) sr)).
    match goal with |- context [?F tqs [] (fofZ 0)] =>
      assert (E1 : forall (l : list (T * T * QuadBez T)) b s,
                 F l b s = (b ++ map mk l, fold_left (fun s qp => (s + fp_val (snd qp))%S) (map mk l) s))
    end.
    { induction l as [|[[a b0] q] l IH]; intros b s; [cbn [map fold_left]; rewrite app_nil_r; reflexivity|].
      cbn [map fold_left]. rewrite IH. unfold mk at 1 3. cbn [snd]. rewrite <- app_assoc. reflexivity. }
    rewrite E1. clear E1. cbn [app].
    change (fold_left (fun s qp => (s + fp_val (snd qp))%S) (map mk tqs) (fofZ 0)) with (fp_sum (map mk tqs)).
    set (qbm := map mk tqs).
    set (sum := fp_sum qbm).
    cbv beta iota.
    change (Z.max (fto_usize (fceil (flit 0x1p-1%float (1 # 2) * sum / sr)%S)) 1) with (subdiv_count sum sr).
    set (n := subdiv_count sum sr).
    set (step := (sum / fofZ n)%S).
    (* second loop: per quadratic the [while] (the model's [cubic_inner]), around it the model's [cubic_outer] *)
    match goal with |- context [?G qbm out 1%Z (fofZ 0)] =>
      assert (E2 : forall (l : list (QuadBez T * FlattenParams T)) cb i vs,
                 match cubic_outer l step n i vs with
                 | Some uss => G l cb i vs = (qbm, cb ++ map (@LineTo T) (pieces_pts l uss ++ [p3]))
                 | None => True
                 end)
    end.
    { induction l as [|[q pr] l IH]; intros cb i vs; [reflexivity|].
      cbn [cubic_outer]. cbv beta iota zeta.
      match goal with |- context [?W (Z.to_nat (Z.sub (Z.add n 1) i)) cb i (fofZ i * step)%S] =>
        assert (EW : forall fuel cb i tg,
                   match cubic_inner fuel vs (fp_val pr) (f1 / fp_val pr)%S step n i tg with
                   | Some (us, i') => fst (W fuel cb i tg) = (cb ++ map (fun u => LineTo (quad_eval q (determine_subdiv_t pr u))) us, i')
                   | None => True
                   end)
      end.
      { clear cb i. induction fuel as [|k IHk]; intros cb i tg.
        - cbn [cubic_inner]. destruct (tg <? vs + fp_val pr)%S; [exact I|]. cbn [map fst]. rewrite app_nil_r. reflexivity.
        - cbn [cubic_inner]. cbv beta iota zeta.
          destruct (tg <? vs + fp_val pr)%S; [|cbn [map fst]; rewrite app_nil_r; reflexivity].
          destruct (Z.eqb (i + 1) (n + 1)); [reflexivity|].
          specialize (IHk (cb ++ [LineTo (quad_eval q (determine_subdiv_t pr ((tg - vs) * (f1 / fp_val pr))%S))]) (i + 1)%Z (fofZ (i + 1) * step)%S).
          destruct (cubic_inner k vs (fp_val pr) (f1 / fp_val pr)%S step n (i + 1) (fofZ (i + 1) * step)%S) as [[us j]|]; [|exact I].
          rewrite IHk. cbn [map]. rewrite <- app_assoc. reflexivity. }
      specialize (EW (Z.to_nat (n + 1 - i)) cb i (fofZ i * step)%S).
      destruct (cubic_inner (Z.to_nat (n + 1 - i)) vs (fp_val pr) (f1 / fp_val pr)%S step n i (fofZ i * step)%S) as [[us i']|]; [|exact I].
      match type of EW with fst ?w = _ => destruct w as [[cb' i''] tg'] end.
      cbn [fst] in EW. injection EW as -> ->.
      specialize (IH (cb ++ map (fun u => LineTo (quad_eval q (determine_subdiv_t pr u))) us) i' (vs + fp_val pr)%S).
      destruct (cubic_outer l step n i' (vs + fp_val pr)%S) as [uss|]; [|exact I].
      rewrite IH. cbn [pieces_pts]. unfold piece_pts. cbn [fst snd].
      rewrite !map_app, map_map. repeat rewrite <- app_assoc. reflexivity. }
    specialize (E2 qbm out 1%Z (fofZ 0)).
    change (@f0 T _) with (fofZ 0 : T).
    destruct (cubic_outer qbm step n 1 (fofZ 0)) as [uss|]; [|exact I].
    rewrite E2. reflexivity.
Qed.

(** ** the whole function: [sqrt_tol], the two [None]s, the empty [quad_buf] and the [for el in path] loop, which the
    translator renders as a fold over the path calling the generated step ([for_step]; the body is not translated a second
    time), against the model's [flatten] (= [flatten_gen true]).  [out] is what the callback had been handed before the call. *)
Definition sim_flatten (path : list (PathEl T)) (tolerance : T) (out : list (PathEl T)) (g : list (PathEl T)) : Prop :=
  match KV.Flatten.flatten tolerance path with
  | Some r => g = out ++ r
  | None => True
  end.

(* owner: flatten *)
Lemma sim_flatten_all path tolerance out : sim_flatten path tolerance out (Gen.flatten path tolerance out).
Proof.
  unfold sim_flatten, KV.Flatten.flatten, flatten_gen. cbv beta zeta delta [Gen.flatten].
  set (sq := fsqrt tolerance).
  match goal with |- context [?F path None None [] out] =>
    assert (E : forall els start last qb out,
               match flatten_from true tolerance sq (start, last) els with
               | Some r => F els start last qb out = out ++ r
               | None => True
               end)
  end.
  { clear path out. induction els as [|e els IH]; intros start last qb out.
    - cbn [flatten_from]. symmetry; apply app_nil_r.
    - cbn [flatten_from]. pose proof (sim_fl_step_all start last qb out e tolerance sq) as Hs. unfold sim_fl_step in Hs.
      destruct (fl_step true tolerance sq (start, last) e) as [[[s' l'] em]|]; [|exact I].
      destruct (Gen.flatten_step start last qb out e tolerance sq) as [[[[o s] l] qb'] c] eqn:Eg.
      injection Hs as -> -> -> ->.
      specialize (IH s' l' qb' (out ++ em)).
      destruct (flatten_from true tolerance sq (s', l') els) as [r|]; [|exact I].
      cbv beta iota zeta. rewrite ?Eg. cbv beta iota. rewrite IH. symmetry; apply app_assoc. }
  apply (E path None None [] out).
Qed.
End F.

Lemma br_flatten : forall (T : Type) (S : Scalar T) (path_ : (list (PathEl T))) (tolerance_ : T) (callback_ : (list (PathEl T))), KVBridge.Flatten_bridge.sim_flatten path_ tolerance_ callback_ (Gen.flatten path_ tolerance_ callback_).
Proof. intros. apply sim_flatten_all. Qed.

Lemma br_flatten_step : forall (T : Type) (S : Scalar T) (start_pt_ : (option (Point T))) (last_pt_ : (option (Point T))) (quad_buf_ : (list ((QuadBez T) * (KV.Flatten.FlattenParams T))%type)) (callback_ : (list (PathEl T))) (el_ : (PathEl T)) (tolerance_ : T) (sqrt_tol_ : T), KVBridge.Flatten_bridge.sim_fl_step start_pt_ last_pt_ quad_buf_ callback_ el_ tolerance_ sqrt_tol_ (Gen.flatten_step start_pt_ last_pt_ quad_buf_ callback_ el_ tolerance_ sqrt_tol_).
Proof. intros. apply sim_fl_step_all. Qed.
