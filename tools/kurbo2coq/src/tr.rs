//! Expression / statement translation.

use crate::ctx::*;
use crate::lit;
use std::cell::RefCell;
use std::collections::BTreeSet;
use syn::{BinOp, Expr, Pat, Stmt, UnOp};

#[derive(Clone, Debug)]
pub struct Val {
    pub t: String,
    pub ty: Ty,
    /// second component of a flattened `Range<f64>`
    pub t2: Option<String>,
}

fn val(t: String, ty: Ty) -> Val {
    Val { t, ty, t2: None }
}

pub type R<T> = Result<T, String>;

#[derive(Clone)]
pub struct Env {
    vars: Vec<(String, String, Ty)>, // rust name, coq name, type
}

impl Env {
    pub fn new() -> Env {
        Env { vars: vec![] }
    }
    fn get(&self, n: &str) -> Option<&(String, String, Ty)> {
        self.vars.iter().rev().find(|v| v.0 == n)
    }
    fn coq_bound(&self, c: &str) -> bool {
        self.vars.iter().any(|v| v.1 == c)
    }
}

pub struct Tr<'a> {
    pub ctx: &'a Ctx,
    pub f: &'a FnInfo,
    pub file: String,
    pub deps: RefCell<BTreeSet<usize>>,
    pub counter: RefCell<usize>,
    /// permission token: the call being translated may have `&mut` arguments (statement level only)
    pub allow_mut: std::cell::Cell<bool>,
    /// the places behind the `&mut` arguments of the call just translated
    pub mut_places: RefCell<Option<Vec<Expr>>>,
    /// set by `call`/`method_call` right before `emit_call`: (permitted, argument expressions)
    pub cur_call: RefCell<Option<(bool, Vec<Expr>)>>,
    /// names of methods of the spec that take `&mut self`
    pub mut_methods: &'a std::collections::HashSet<String>,
    /// bodies of the parameterless closures bound by `let`
    pub thunks: RefCell<Vec<Expr>>,
    /// active write-backs of aliases created by `get_or_insert_with`: (place, value to store, e.g. "(Some (a_, b_))")
    pub writebacks: RefCell<Vec<(Expr, String)>>,
    /// buffer for effects hoisted out of the expression being translated (`mem::replace`)
    pub hoist: RefCell<Option<Vec<String>>>,
    /// innermost translated loop: (term for `continue`, term for `break`)
    pub loops: RefCell<Vec<(String, String)>>,
    /// ambient binders in scope (see TypeInfo::ambient_binders)
    pub ambient: RefCell<Vec<(String, String)>>,
}

type K<'k> = dyn Fn(Val) -> R<String> + 'k;

const COQ_KEYWORDS: &[&str] = &[
    "as", "at", "cofix", "else", "end", "exists", "exists2", "fix", "for", "forall", "fun", "if", "IF", "in", "let", "match", "mod", "Prop", "return", "Set", "then", "Type", "using", "where", "with",
];

impl<'a> Tr<'a> {
    fn err<T: syn::spanned::Spanned, X>(&self, at: &T, msg: impl AsRef<str>) -> R<X> {
        Err(format!("{} at {}:{}", msg.as_ref(), self.file, line_of(at)))
    }

    fn coq_name(&self, rust: &str) -> String {
        let _ = COQ_KEYWORDS;
        // every Rust local gets a trailing underscore: cannot clash with a keyword, a model constant or a projection
        format!("{}_", rust)
    }

    fn fresh(&self, env: &Env, rust: &str) -> String {
        let base = self.coq_name(rust);
        if !env.coq_bound(&base) {
            return base;
        }
        loop {
            let mut c = self.counter.borrow_mut();
            *c += 1;
            let cand = format!("{}{}", base, *c);
            if !env.coq_bound(&cand) {
                return cand;
            }
        }
    }

    fn bind(&self, env: &Env, rust: &str, ty: Ty) -> (Env, String) {
        let c = self.fresh(env, rust);
        let mut e = env.clone();
        e.vars.push((rust.to_string(), c.clone(), ty));
        (e, c)
    }

    // ------------------------------------------------------------------ function level

    fn generics(&self) -> Generics {
        let mut g = Generics::none();
        g.usize_nat = self.f.usize_nat;
        g
    }

    fn tmp(&self, env: &Env) -> String {
        loop {
            let mut c = self.counter.borrow_mut();
            *c += 1;
            let cand = format!("tmp{}_", *c);
            if !env.coq_bound(&cand) {
                return cand;
            }
        }
    }

    /// Returns (binders, return type, body)
    pub fn function(&self) -> R<(Vec<(String, String)>, String, String)> {
        let f = self.f;
        if let Some(e) = &f.load_error {
            return Err(e.clone());
        }
        let mut env = Env::new();
        let mut binders: Vec<(String, String)> = Vec::new();
        // ambient binders of the state types among the parameters come first
        for p in &f.params {
            if let Ty::Named(n) = p.ty.strip_into() {
                for b in &self.ctx.types[n].ambient_binders {
                    if !binders.contains(b) {
                        binders.push(b.clone());
                    }
                }
            }
        }
        for b in &f.extra_binders {
            if !binders.contains(b) {
                binders.push(b.clone());
            }
        }
        *self.ambient.borrow_mut() = binders.clone();
        let mut destructure: Vec<(Pat, String, Ty)> = Vec::new();
        for p in &f.params {
            match &p.ty {
                Ty::Range => {
                    let c = self.coq_name(&p.name);
                    let a = format!("{}start_", c);
                    let b = format!("{}end_", c);
                    binders.push((a.clone(), "T".into()));
                    binders.push((b.clone(), "T".into()));
                    env.vars.push((p.name.clone(), format!("{} {}", a, b), Ty::Range));
                }
                t => {
                    let (e2, c) = self.bind(&env, &p.name, t.clone());
                    env = e2;
                    let ct = self.ctx.coq_ty(t).map_err(|m| format!("parameter `{}`: {} at {}:{}", p.name, m, self.file, f.line))?;
                    binders.push((c.clone(), ct));
                    if let Some(pat) = &p.pat {
                        destructure.push((pat.clone(), c, t.clone()));
                    }
                }
            }
        }
        let ret = self.ctx.coq_ty(&f.ret_full()).map_err(|m| format!("return type: {} at {}:{}", m, self.file, f.line))?;
        // a function that builds a value with ambient fields returns them next to the record: Coq infers the type
        let ret = if f.ambient_out { "_".to_string() } else { ret };
        let mut prefix = String::new();
        for (pat, c, t) in destructure {
            let (e2, s) = self.bind_pat(&pat, val(c, t), &env)?;
            env = e2;
            prefix.push_str(&s);
        }
        if let Some(fu) = &f.fuel {
            let mut t = fu.clone();
            for (j, p) in f.params.iter().enumerate().rev() {
                t = t.replace(&format!("${}", j), &self.coq_name(&p.name));
            }
            prefix.push_str(&format!("let tr_fuel_ := {} in\n  ", t));
        }
        let body = match &f.body {
            Body::Block(b) => {
                if f.identity_ctor {
                    return Err("identity_ctor entries are not translated".into());
                }
                if f.loop_body {
                    let body_stmts: Vec<Stmt> = if f.for_body {
                        match b.stmts.iter().find_map(|s| if let Stmt::Expr(Expr::ForLoop(w), _) = s { Some(w) } else { None }) {
                            Some(w) if w.label.is_none() => w.body.stmts.clone(),
                            _ => return Err(format!("for_body: no top-level `for` in {}", f.label)),
                        }
                    } else if f.while_body {
                        match b.stmts.iter().find_map(|s| if let Stmt::Expr(Expr::While(w), _) = s { Some(w) } else { None }) {
                            Some(w) if w.label.is_none() => w.body.stmts.clone(),
                            _ => return Err(format!("while_body: no top-level `while` in {}", f.label)),
                        }
                    } else {
                        match b.stmts.as_slice() {
                            [Stmt::Expr(Expr::Loop(l), _)] if l.label.is_none() => l.body.stmts.clone(),
                            _ => return Err(format!("loop_body: the body of {} is not a single `loop`", f.label)),
                        }
                    };
                    if f.mut_params.is_empty() {
                        return Err("loop_body: no `&mut` state".into());
                    }
                    let mut parts = vec!["None".to_string()];
                    for &i in &f.mut_params {
                        parts.push(self.coq_name(&f.params[i].name));
                    }
                    let cont = format!("({})", parts.join(", "));
                    self.loops.borrow_mut().push((cont.clone(), "tr_break_outside_the_step".to_string()));
                    let r = self.block(&body_stmts, &env, None, &|_v: Val| Ok(cont.clone()));
                    self.loops.borrow_mut().pop();
                    r?
                } else {
                    self.block(&b.stmts, &env, Some(&f.ret), &|v: Val| self.finish(v))?
                }
            }
            Body::Expr(e) => {
                let v = self.expr(e, &env, Some(&f.ret))?;
                self.finish(v)?
            }
            Body::None => return Err("no body".into()),
        };
        Ok((binders, ret, format!("{}{}", prefix, body)))
    }

    /// `let root := <place updated with the alias values> in ...` for every live alias
    fn flush(&self, env: &Env) -> R<String> {
        let wbs = self.writebacks.borrow().clone();
        let mut out = String::new();
        for (place, value) in wbs.iter() {
            let (name, whole) = self.update_place(place, value.clone(), env)?;
            out.push_str(&format!("let {} := {} in\n  ", name, whole));
        }
        Ok(out)
    }

    fn finish(&self, v: Val) -> R<String> {
        self.finish_raw(v)
    }

    fn finish_env(&self, v: Val, env: &Env) -> R<String> {
        let pre = self.flush(env)?;
        // the result is computed before the write-back only textually: it may not mention the aliased place
        Ok(format!("{}{}", pre, self.finish_raw(v)?))
    }

    fn finish_raw(&self, v: Val) -> R<String> {
        self.check_ty(&v.ty, &self.f.ret, "returned value")?;
        if self.f.mut_params.is_empty() {
            return Ok(v.t);
        }
        // `&mut` parameters are returned next to the result: their Coq names are those of the binders
        // (later assignments shadow them, so the name denotes the current value here)
        let mut parts = Vec::new();
        if self.f.loop_body {
            parts.push(format!("(Some {})", v.t));
        } else if self.f.ret != Ty::Unit {
            parts.push(v.t);
        }
        for &i in &self.f.mut_params {
            parts.push(self.coq_name(&self.f.params[i].name));
        }
        Ok(if parts.len() == 1 { parts[0].clone() } else { format!("({})", parts.join(", ")) })
    }

    fn check_ty(&self, got: &Ty, want: &Ty, what: &str) -> R<()> {
        if self.compatible(got, want) {
            Ok(())
        } else {
            Err(format!("{}: type {} where {} is expected, in {} ({}:{})", what, got.show(), want.show(), self.f.label, self.file, self.f.line))
        }
    }

    fn compatible(&self, got: &Ty, want: &Ty) -> bool {
        let g = got.strip_into();
        let w = want.strip_into();
        match (g, w) {
            (Ty::Unknown, _) | (_, Ty::Unknown) => true,
            (Ty::Tuple(a), Ty::Tuple(b)) => a.len() == b.len() && a.iter().zip(b).all(|(x, y)| self.compatible(x, y)),
            (Ty::Opt(a), Ty::Opt(b)) => self.compatible(a, b),
            (Ty::Res(a, e), Ty::Res(b, f)) => self.compatible(a, b) && self.compatible(e, f),
            (Ty::List(a), Ty::List(b)) => self.compatible(a, b),
            (a, b) => a == b,
        }
    }

    // ------------------------------------------------------------------ blocks (CPS)

    /// Translate `stmts`; the value of the block is handed to `k`. `return e` leaves through
    /// the function result directly.
    fn block(&self, stmts: &[Stmt], env: &Env, exp: Option<&Ty>, k: &K) -> R<String> {
        if stmts.is_empty() {
            return k(val("tt".into(), Ty::Unit));
        }
        let s = &stmts[0];
        let rest = &stmts[1..];
        match s {
            Stmt::Local(l) => {
                let (pat, ann) = match &l.pat {
                    Pat::Type(pt) => (&*pt.pat, Some(self.ctx.ty_of(&pt.ty, self.f.self_ty.as_ref(), None, &self.generics()))),
                    p => (p, None),
                };
                let init = match &l.init {
                    Some(i) => {
                        if let Some((_, div)) = &i.diverge {
                            // let PAT = e else { diverging }  ==  match e { PAT => rest, _ => diverging }
                            let pat2 = pat.clone();
                            let div2 = (**div).clone();
                            let cont = |v: Val| -> R<String> {
                                let arms: Vec<(Pat, Box<dyn Fn(&Env) -> R<String> + '_>)> = vec![
                                    (pat2.clone(), Box::new(|env2: &Env| self.block(rest, env2, exp, k))),
                                    (syn::parse_quote!(_), Box::new(|env2: &Env| self.expr_k(&div2, env2, exp, k))),
                                ];
                                self.match_on(s, v, env, arms)
                            };
                            return self.eval_k(&i.expr, env, ann.as_ref(), &cont);
                        }
                        &*i.expr
                    }
                    None => return self.err(s, "untranslatable: `let` without initialiser"),
                };
                let pat = pat.clone();
                if let (Expr::Call(c), Pat::Ident(pi)) = (strip_parens(init), &pat) {
                    // `let mut buf = Vec::new();` that nothing of what is translated mentions (its users sit in a skipped
                    // arm): dropped (the element type of the empty list could not be inferred)
                    if c.args.is_empty() && matches!(norm_tokens(&c.func).as_str(), "Vec::new" | "ArrayVec::new") && ann.is_none() {
                        fn mentions(ts: proc_macro2::TokenStream, id: &str) -> bool {
                            ts.into_iter().any(|t| match t {
                                proc_macro2::TokenTree::Ident(i) => i == id,
                                proc_macro2::TokenTree::Group(g) => mentions(g.stream(), id),
                                _ => false,
                            })
                        }
                        let id = pi.ident.to_string();
                        if !rest.iter().any(|st| mentions(quote::quote!(#st), &id)) {
                            return self.block(rest, env, exp, k);
                        }
                    }
                }
                if let (Expr::Closure(cl), Pat::Ident(pi)) = (strip_parens(init), &pat) {
                    if cl.inputs.is_empty() {
                        // a parameterless closure: its body is translated at each call `name()`
                        let id = self.thunks.borrow().len();
                        self.thunks.borrow_mut().push((*cl.body).clone());
                        let mut env2 = env.clone();
                        env2.vars.push((pi.ident.to_string(), String::new(), Ty::Thunk(id)));
                        return self.block(rest, &env2, exp, k);
                    }
                }
                if let Expr::MethodCall(mc) = strip_parens(init) {
                    if mc.method == "get_or_insert_with" && mc.args.len() == 1 {
                        return self.alias_let(s, &pat, mc, rest, env, exp, k);
                    }
                }
                let cont = |v: Val| -> R<String> {
                    let (env2, pre) = self.bind_pat(&pat, v, env)?;
                    let r = self.block(rest, &env2, exp, k)?;
                    Ok(format!("{}{}", pre, r))
                };
                self.eval_k(init, env, ann.as_ref(), &cont)
            }
            Stmt::Item(syn::Item::Const(c)) => {
                let ty = self.ctx.ty_of(&c.ty, self.f.self_ty.as_ref(), None, &self.generics());
                let v = self.expr(&c.expr, env, Some(&ty))?;
                let (env2, cn) = self.bind(env, &c.ident.to_string(), ty);
                let r = self.block(rest, &env2, exp, k)?;
                Ok(format!("let {} := {} in\n  {}", cn, v.t, r))
            }
            Stmt::Item(syn::Item::Fn(_)) => {
                // nested helper functions are translated as separate spec entries
                self.block(rest, env, exp, k)
            }
            Stmt::Item(_) => self.err(s, "untranslatable: nested item"),
            Stmt::Macro(m) => {
                let name = norm_tokens(&m.mac.path);
                if name == "debug_assert" || name == "debug_assert_eq" || name == "debug_assert_ne" {
                    // release semantics: no effect (documented as not modelled)
                    return self.block(rest, env, exp, k);
                }
                self.err(s, format!("untranslatable: macro {}!", name))
            }
            Stmt::Expr(e, semi) => {
                if let Expr::Macro(m) = e {
                    let name = norm_tokens(&m.mac.path);
                    if name.starts_with("debug_assert") {
                        return self.block(rest, env, exp, k);
                    }
                    if (name == "panic" || name == "unreachable") && exp.is_none() {
                        // a panic in statement position leaves the state as it is (the hand models do the
                        // same, or return their error value, which the lemma statements exclude)
                        return self.block(rest, env, exp, k);
                    }
                }
                if rest.is_empty() && semi.is_none() && !self.statement_like(e, env) {
                    // tail expression: its value is the block's value
                    return self.eval_k(e, env, exp, k);
                }
                self.stmt_expr(e, rest, env, exp, k)
            }
        }
    }

    /// A unit-valued tail expression that acts on the state (assignment, push, an `if` that assigns).
    fn statement_like(&self, e: &Expr, env: &Env) -> bool {
        match e {
            Expr::Assign(_) | Expr::Break(_) | Expr::Continue(_) | Expr::ForLoop(_) | Expr::While(_) => true,
            Expr::Binary(b) => compound_op(&b.op).is_some(),
            Expr::MethodCall(mc) => is_list_mutator(&mc.method.to_string()),
            Expr::If(_) | Expr::Block(_) | Expr::Match(_) => {
                if contains_return(e) {
                    return false;
                }
                if self.f.ret == Ty::Unit && !self.f.mut_params.is_empty() {
                    // in a procedure every trailing if/match is a statement
                    return true;
                }
                if yields_value(e) {
                    return false;
                }
                match self.mutated_outer(e, env) {
                    Ok(m) => !m.is_empty(),
                    Err(_) => true,
                }
            }
            _ => false,
        }
    }

    /// Statement-position expression followed by `rest`.
    fn stmt_expr(&self, e: &Expr, rest: &[Stmt], env: &Env, exp: Option<&Ty>, k: &K) -> R<String> {
        match e {
            Expr::Return(r) => {
                let _ = rest;
                match &r.expr {
                    Some(x) => self.eval_k(x, env, Some(&self.f.ret), &|v: Val| self.finish_env(v, env)),
                    None => self.finish_env(val("tt".into(), Ty::Unit), env),
                }
            }
            Expr::Continue(c) => {
                if c.label.is_some() {
                    return self.err(e, "untranslatable: labelled `continue`");
                }
                let pre = self.flush(env)?;
                match self.loops.borrow().last() {
                    Some((cont, _)) => Ok(format!("{}{}", pre, cont)),
                    None => self.err(e, "untranslatable: `continue` outside a translated loop"),
                }
            }
            Expr::Break(b) => {
                if b.label.is_some() || b.expr.is_some() {
                    return self.err(e, "untranslatable: labelled or valued `break`");
                }
                let pre = self.flush(env)?;
                match self.loops.borrow().last() {
                    Some((_, brk)) => Ok(format!("{}{}", pre, brk)),
                    None => self.err(e, "untranslatable: `break` outside a translated loop"),
                }
            }
            Expr::ForLoop(fl) => self.for_loop(fl, rest, env, exp, k),
            Expr::Assign(a) => {
                let rhs_ty = self.place_ty(&a.left, env)?;
                let left = (*a.left).clone();
                let cont = |v: Val| -> R<String> {
                    self.check_ty(&v.ty, &rhs_ty, "assigned value")?;
                    let (name, newv) = self.update_place(&left, v.t, env)?;
                    let r = self.block(rest, env, exp, k)?;
                    Ok(format!("let {} := {} in\n  {}", name, newv, r))
                };
                self.eval_k(&a.right, env, Some(&rhs_ty), &cont)
            }
            Expr::Binary(b) if compound_op(&b.op).is_some() => {
                let op = compound_op(&b.op).unwrap();
                let cur0 = self.expr(&b.left, env, None)?;
                let hint = if matches!(cur0.ty, Ty::F64 | Ty::Int | Ty::Nat | Ty::Bool) { Some(cur0.ty.clone()) } else { None };
                let left = (*b.left).clone();
                let cont = |rhs: Val| -> R<String> {
                    // the right operand is evaluated first (it may be a call that updates other places)
                    let cur = self.expr(&left, env, None)?;
                    let nv = self.binary(e, op, cur, rhs)?;
                    let (name, newv) = self.update_place(&left, nv.t, env)?;
                    let r = self.block(rest, env, exp, k)?;
                    Ok(format!("let {} := {} in\n  {}", name, newv, r))
                };
                self.eval_k(&b.right, env, hint.as_ref(), &cont)
            }
            Expr::MethodCall(mc) if is_list_mutator(&mc.method.to_string()) && self.is_builtin_list(&mc.receiver, env) => {
                // result.push(x), self.stash.clear(), out.extend(&xs), path.truncate(0)
                let cur = self.expr(&mc.receiver, env, None)?;
                let elt = match &cur.ty {
                    Ty::List(t) => (**t).clone(),
                    t => return self.err(e, format!("untranslatable: `{}` on a value of type {}", mc.method, t.show())),
                };
                let m = mc.method.to_string();
                let mut refine: Option<Ty> = None;
                let newv = match (m.as_str(), mc.args.len()) {
                    ("push", 1) => {
                        let mut x = self.expr(&mc.args[0], env, Some(&elt))?;
                        if x.ty == Ty::Range {
                            // a stored range is a pair
                            x = val(format!("({}, {})", x.t, x.t2.clone().unwrap_or_default()), Ty::Tuple(vec![Ty::F64, Ty::F64]));
                        }
                        self.check_ty(&x.ty, &elt, "pushed value")?;
                        if elt == Ty::Unknown {
                            refine = Some(Ty::List(Box::new(x.ty.clone())));
                        }
                        format!("({} ++ [{}])", cur.t, x.t)
                    }
                    ("extend", 1) => {
                        let x = self.expr(&mc.args[0], env, Some(&cur.ty))?;
                        self.check_ty(&x.ty, &cur.ty, "extension")?;
                        format!("({} ++ {})", cur.t, x.t)
                    }
                    ("clear", 0) => "[]".to_string(),
                    // capacity only (the argument is not evaluated: it has no effect on the list)
                    ("reserve", 1) => cur.t.clone(),
                    ("truncate", 1) if norm_tokens(&mc.args[0]) == "0" => "[]".to_string(),
                    ("sort_by", 1) => {
                        // the only comparator understood: |a, b| a.partial_cmp(b).unwrap() on f64 (ascending; the
                        // spec names the Coq function standing for the standard library's stable sort)
                        let c = norm_tokens(&mc.args[0]);
                        match (c.as_str(), self.ctx.consts.get("sort_by_partial_cmp")) {
                            ("|a,b|a.partial_cmp(b).unwrap()", Some(f)) if elt == Ty::F64 || elt == Ty::Unknown => format!("({} {})", f, cur.t),
                            _ => return self.err(e, "untranslatable: `sort_by` with this comparator"),
                        }
                    }
                    ("swap", 2) => {
                        let i = self.expr(&mc.args[0], env, Some(&Ty::Nat))?;
                        let j = self.expr(&mc.args[1], env, Some(&Ty::Nat))?;
                        if elt != Ty::F64 {
                            return self.err(e, "untranslatable: `swap` on a list of non-scalars");
                        }
                        format!("(tr_swap {} {} {})", cur.t, i.t, j.t)
                    }
                    _ => return self.err(e, format!("untranslatable: list operation `{}`", mc.method)),
                };
                let (name, whole) = self.update_place(&mc.receiver, newv, env)?;
                let mut env2 = env.clone();
                if let Some(t) = refine {
                    for v in env2.vars.iter_mut() {
                        if v.1 == name {
                            if let Ty::List(_) = v.2 {
                                v.2 = t.clone();
                            }
                        }
                    }
                }
                let r = self.block(rest, &env2, exp, k)?;
                Ok(format!("let {} := {} in\n  {}", name, whole, r))
            }
            Expr::MethodCall(mc) if matches!(mc.args.last(), Some(Expr::Closure(_))) && self.callback_target(mc, env).is_some() => {
                // recv.f(args.., |a, b, c| { X.curve_to(a, b, c); }) for an extern `f` that only feeds its callback:
                // X grows by the list the spec names (the model's list of the CurveTo elements)
                let (i, place) = self.callback_target(mc, env).unwrap();
                let f = &self.ctx.fns[i];
                let recv = self.expr(&mc.receiver, env, None)?;
                let mut ts = vec![recv.t];
                for a in mc.args.iter().take(mc.args.len() - 1) {
                    ts.push(self.expr(a, env, None)?.t);
                }
                let mut t = f.callback_append.clone().unwrap();
                for (j, a) in ts.iter().enumerate().rev() {
                    t = t.replace(&format!("${}", j), a);
                }
                self.check_ambient_use(e, &t, f)?;
                let cur = self.expr(&place, env, None)?;
                let (name, whole) = self.update_place(&place, format!("({} ++ {})", cur.t, t), env)?;
                let r = self.block(rest, env, exp, k)?;
                Ok(format!("let {} := {} in\n  {}", name, whole, r))
            }
            Expr::Call(_) | Expr::MethodCall(_) => {
                // a procedure call: its `&mut` arguments are rebound, its value (if any) is dropped
                let cont = |_v: Val| -> R<String> { self.block(rest, env, exp, k) };
                self.eval_k(e, env, None, &cont)
            }
            Expr::If(_) | Expr::Block(_) | Expr::Match(_) => {
                if contains_return(e) {
                    // duplicate the continuation into the branches that fall through
                    let cont = |_v: Val| -> R<String> { self.block(rest, env, exp, k) };
                    self.check_no_leak(e, rest, env)?;
                    self.expr_k_stmt(e, env, &cont)
                } else {
                    // pure state update: the outer variables assigned inside are rebound
                    let muts = self.mutated_outer(e, env)?;
                    if muts.is_empty() {
                        return self.err(e, "untranslatable: statement without effect on the translated state");
                    }
                    let names: Vec<String> = muts.iter().map(|m| env.get(m).unwrap().1.clone()).collect();
                    let tuple = if names.len() == 1 { names[0].clone() } else { format!("({})", names.join(", ")) };
                    let tuple2 = tuple.clone();
                    let yield_k = move |_v: Val| -> R<String> { Ok(tuple2.clone()) };
                    let upd = self.expr_k_stmt(e, env, &yield_k)?;
                    let r = self.block(rest, env, exp, k)?;
                    if names.len() == 1 {
                        Ok(format!("let {} := {} in\n  {}", tuple, upd, r))
                    } else {
                        Ok(format!("let '{} := {} in\n  {}", tuple, upd, r))
                    }
                }
            }
            Expr::While(w) => self.while_loop(w, rest, env, exp, k),
            Expr::Loop(_) => self.err(e, "untranslatable: `loop` (no structural bound)"),
            Expr::Macro(m) => self.err(e, format!("untranslatable: macro {}!", norm_tokens(&m.mac.path))),
            _ => self.err(e, "untranslatable: expression statement"),
        }
    }

    /// A block-local `let` of a branch must not capture a variable the duplicated continuation uses.
    /// Fresh naming makes this safe; nothing to check beyond what `fresh` guarantees.
    fn check_no_leak(&self, _e: &Expr, _rest: &[Stmt], _env: &Env) -> R<()> {
        Ok(())
    }

    /// `for PAT in LIST { BODY }` as a local structural fixpoint over the list.  The outer variables the
    /// body assigns are its accumulator arguments; when the body can `return`/`break`, what follows the
    /// loop is placed in the `[]` branch (the loop is then in tail position), otherwise the loop yields
    /// the final accumulators.
    fn for_loop(&self, fl: &syn::ExprForLoop, rest: &[Stmt], env: &Env, exp: Option<&Ty>, k: &K) -> R<String> {
        if fl.label.is_some() {
            return self.err(fl, "untranslatable: labelled loop");
        }
        // `(lo..hi).rev()`: the same list, reversed
        let (range_e, reversed) = match strip_parens(&fl.expr) {
            Expr::MethodCall(mc) if mc.method == "rev" && mc.args.is_empty() && matches!(strip_parens(&mc.receiver), Expr::Range(_)) => (strip_parens(&mc.receiver), true),
            e0 => (e0, false),
        };
        let it = match range_e {
            // `lo..hi` over integers: the list lo, lo+1, .., hi-1 (empty when hi <= lo)
            Expr::Range(r) if matches!(r.limits, syn::RangeLimits::HalfOpen(_)) && r.start.is_some() && r.end.is_some() => {
                let hi = self.expr(r.end.as_ref().unwrap(), env, None)?;
                let l = if hi.ty == Ty::Nat {
                    // usize as nat (spec `usize_as_nat`): `seq lo (hi - lo)`
                    let lo = self.expr(r.start.as_ref().unwrap(), env, Some(&Ty::Nat))?;
                    if lo.ty != Ty::Nat {
                        return self.err(fl, "untranslatable: `for` over this range");
                    }
                    val(format!("(seq {} (Nat.sub {} {}))", lo.t, hi.t, lo.t), Ty::List(Box::new(Ty::Nat)))
                } else {
                    let lo = self.expr(r.start.as_ref().unwrap(), env, Some(&Ty::Int))?;
                    let hi = self.expr(r.end.as_ref().unwrap(), env, Some(&Ty::Int))?;
                    if lo.ty != Ty::Int || hi.ty != Ty::Int {
                        return self.err(fl, "untranslatable: `for` over this range");
                    }
                    val(format!("(map (fun tr_k => (Z.add {} (Z.of_nat tr_k))) (seq 0 (Z.to_nat (Z.sub {} {}))))", lo.t, hi.t, lo.t), Ty::List(Box::new(Ty::Int)))
                };
                if reversed {
                    val(format!("(rev {})", l.t), l.ty)
                } else {
                    l
                }
            }
            _ => self.expr(&fl.expr, env, None)?,
        };
        let it = self.drained(&it).unwrap_or(it);
        let elt = match it.ty.strip_into() {
            Ty::List(t) => (**t).clone(),
            t => return self.err(fl, format!("untranslatable: `for` over a value of type {} (only lists)", t.show())),
        };
        if let (Some(g), true) = (&self.f.for_step, self.loops.borrow().is_empty()) {
            return self.for_step_loop(fl, g, it, elt, rest, env, exp, k);
        }
        let body_e = Expr::Block(syn::ExprBlock { attrs: vec![], label: None, block: fl.body.clone() });
        let mut muts = self.mutated_outer(&body_e, env)?;
        // `for x in &mut self.elements`: the loop consumes the iterator stored in that place; inside the
        // body (and after a `return` from it) the place holds the elements not yet taken
        let consumed: Option<Expr> = match strip_parens(&fl.expr) {
            Expr::Reference(r) if r.mutability.is_some() => Some((*r.expr).clone()),
            _ => None,
        };
        if let Some(pl) = &consumed {
            match root_var(pl) {
                Some(rv) if env.get(&rv).is_some() => {
                    if !muts.contains(&rv) {
                        muts.push(rv);
                        let order: Vec<String> = env.vars.iter().map(|v| v.0.clone()).collect();
                        muts.sort_by_key(|n| order.iter().rposition(|x| x == n).unwrap_or(0));
                    }
                }
                _ => return self.err(fl, "untranslatable: `for` over `&mut` of a non-place"),
            }
        }
        let escapes = {
            // return anywhere, or break at this loop's level
            use syn::visit::Visit;
            struct V(bool, usize);
            impl<'ast> Visit<'ast> for V {
                fn visit_expr_return(&mut self, _: &'ast syn::ExprReturn) {
                    self.0 = true;
                }
                fn visit_expr_break(&mut self, _: &'ast syn::ExprBreak) {
                    if self.1 == 0 {
                        self.0 = true;
                    }
                }
                fn visit_expr_for_loop(&mut self, x: &'ast syn::ExprForLoop) {
                    self.1 += 1;
                    syn::visit::visit_expr_for_loop(self, x);
                    self.1 -= 1;
                }
                fn visit_expr_closure(&mut self, _: &'ast syn::ExprClosure) {}
                fn visit_item(&mut self, _: &'ast syn::Item) {}
            }
            let mut v = V(false, 0);
            v.visit_block(&fl.body);
            v.0
        };
        let n = {
            let mut c = self.counter.borrow_mut();
            *c += 1;
            *c
        };
        let (lp, lv, rv, xv) = (format!("tr_loop{}", n), format!("tr_l{}", n), format!("tr_r{}", n), format!("tr_x{}", n));
        let names: Vec<String> = muts.iter().map(|m| env.get(m).unwrap().1.clone()).collect();
        let mut binders = String::new();
        for m in &muts {
            let (_, c, ty) = env.get(m).unwrap();
            let ct = self.ctx.coq_ty(ty).unwrap_or_else(|_| "_".to_string());
            binders.push_str(&format!(" ({} : {})", c, ct));
        }
        let tuple = if names.len() == 1 { names[0].clone() } else { format!("({})", names.join(", ")) };
        if !escapes && names.is_empty() {
            return self.err(fl, "untranslatable: loop without effect on the translated state");
        }
        let (consume_nil, consume_cons) = match &consumed {
            Some(pl) => {
                let (n1, w1) = self.update_place(pl, "[]".into(), env)?;
                let (n2, w2) = self.update_place(pl, rv.clone(), env)?;
                (format!("let {} := {} in\n  ", n1, w1), format!("let {} := {} in\n  ", n2, w2))
            }
            None => (String::new(), String::new()),
        };
        let end_term = format!("{}{}", consume_nil, if escapes { self.block(rest, env, exp, k)? } else { tuple.clone() });
        let cont_term = format!("({} {}{})", lp, rv, names.iter().map(|x| format!(" {}", x)).collect::<String>());
        let (env2, pre) = self.bind_pat(&fl.pat, val(xv.clone(), elt.clone()), env)?;
        self.loops.borrow_mut().push((cont_term.clone(), end_term.clone()));
        let ct2 = cont_term.clone();
        let body = self.block(&fl.body.stmts, &env2, None, &|_v: Val| -> R<String> { Ok(format!("{}{}", self.flush(&env2)?, ct2)) });
        self.loops.borrow_mut().pop();
        let body = body?;
        let elt_ct = self.ctx.coq_ty(&elt).unwrap_or_else(|_| "_".to_string());
        let fix = format!(
            "((fix {lp} ({lv} : list {et}){bs} {{struct {lv}}} := match {lv} with\n  | [] => {end}\n  | {xv} :: {rv} => {cc}{pre}{body}\n  end) {it}{args})",
            cc = consume_cons,
            lp = lp,
            lv = lv,
            et = elt_ct,
            bs = binders,
            end = end_term,
            xv = xv,
            rv = rv,
            pre = pre,
            body = body,
            it = it.t,
            args = names.iter().map(|x| format!(" {}", x)).collect::<String>()
        );
        if escapes {
            Ok(fix)
        } else {
            let r = self.block(rest, env, exp, k)?;
            if names.len() == 1 {
                Ok(format!("let {} := {} in\n  {}", tuple, fix, r))
            } else {
                Ok(format!("let '{} := {} in\n  {}", tuple, fix, r))
            }
        }
    }

    /// `for_step`: the function's top-level `for PAT in LIST` as a fold over the list whose body is one call of the
    /// generated step function `g` (translated from the same loop body under its own `for_body_state` entry):
    /// `Some r` returns `r` from the function, `None` goes on with the new state and the rest of the list
    fn for_step_loop(&self, fl: &syn::ExprForLoop, g: &str, it: Val, elt: Ty, rest: &[Stmt], env: &Env, exp: Option<&Ty>, k: &K) -> R<String> {
        let i = match self.ctx.fns.iter().position(|x| x.gen == g && x.for_body) {
            Some(i) => i,
            None => return self.err(fl, format!("for_step: no `for_body_state` entry with gen `{}` in the spec", g)),
        };
        let sf = &self.ctx.fns[i];
        if sf.file != self.f.file || sf.name != self.f.name || sf.impl_ty != self.f.impl_ty {
            return self.err(fl, format!("for_step: `{}` is not the loop body of this function", g));
        }
        self.deps.borrow_mut().insert(i);
        let n = {
            let mut c = self.counter.borrow_mut();
            *c += 1;
            *c
        };
        let (lp, lv, rv, xv) = (format!("tr_loop{}", n), format!("tr_l{}", n), format!("tr_r{}", n), format!("tr_x{}", n));
        let (env2, pre) = self.bind_pat(&fl.pat, val(xv.clone(), elt.clone()), env)?;
        // the arguments of the step: its state variables (the accumulators of the fold) and the other variables it reads
        let mut args: Vec<String> = Vec::new();
        let mut names: Vec<String> = Vec::new();
        let mut binders = String::new();
        for b in &sf.extra_binders {
            if !self.ambient.borrow().iter().any(|x| x.0 == b.0) {
                return self.err(fl, format!("untranslatable: the step function needs the ambient `{}` which is not in scope", b.0));
            }
            args.push(b.0.clone());
        }
        for (j, p) in sf.params.iter().enumerate() {
            let is_state = sf.mut_params.contains(&j);
            let (_, c, ty) = match (if is_state { env.get(&p.name) } else { env2.get(&p.name) }) {
                Some(x) => x,
                None => return self.err(fl, format!("for_step: the variable `{}` of the step function is not in scope at the loop", p.name)),
            };
            if !self.compatible(ty, &p.ty) {
                return self.err(fl, format!("for_step: `{}` has type {} here, {} in the step function", p.name, ty.show(), p.ty.show()));
            }
            args.push(c.clone());
            if is_state {
                names.push(c.clone());
                let ct = self.ctx.coq_ty(&p.ty).map_err(|m| format!("for_step: {}", m))?;
                binders.push_str(&format!(" ({} : {})", c, ct));
            }
        }
        // every variable the body assigns must be state of the step (anything else would be lost)
        let body_e = Expr::Block(syn::ExprBlock { attrs: vec![], label: None, block: fl.body.clone() });
        for m in self.mutated_outer(&body_e, env)? {
            let c = &env.get(&m).unwrap().1;
            if !self.f.skip_arms.is_empty() && self.f.params.first().map_or(false, |p| p.name == m) {
                continue; // the placeholder `x = x` that stands for the body of a skipped arm
            }
            if !names.contains(c) {
                return self.err(fl, format!("for_step: the loop body assigns `{}`, which is not a state variable of `{}`", m, g));
            }
        }
        let argl = names.iter().map(|x| format!(" {}", x)).collect::<String>();
        let end_term = self.block(rest, env, exp, k)?;
        let ret_term = self.finish(val(format!("tr_v{}", n), self.f.ret.clone()))?;
        Ok(format!(
            "((fix {lp} ({lv} : list {et}){bs} {{struct {lv}}} := match {lv} with\n  | [] => {end}\n  | {xv} :: {rv} => {pre}let '(tr_o{n}, {outs}) := ({g} {args}) in\n  (match tr_o{n} with\n  | Some tr_v{n} => {ret}\n  | None => ({lp} {rv}{argl})\n  end)\n  end) {it}{argl})",
            lp = lp,
            lv = lv,
            et = self.ctx.coq_ty(&elt).unwrap_or_else(|_| "_".to_string()),
            bs = binders,
            end = end_term,
            xv = xv,
            rv = rv,
            pre = pre,
            n = n,
            outs = names.join(", "),
            g = sf.gen,
            args = args.join(" "),
            ret = ret_term,
            argl = argl,
            it = it.t
        ))
    }

    /// A one-parameter closure used as an argument of an iterator combinator: `(fun x => body)` and the
    /// type of the body.  The body must be pure.
    fn closure1(&self, c: &Expr, arg: &Ty, env: &Env) -> R<(String, Ty)> {
        let cl = match c {
            Expr::Closure(cl) => cl,
            _ => return self.err(c, "untranslatable: a function value that is not a closure literal"),
        };
        if cl.inputs.len() != 1 {
            return self.err(c, "untranslatable: closure with several parameters");
        }
        let x = self.tmp(env);
        let (env2, pre) = self.bind_pat(&cl.inputs[0], val(x.clone(), arg.clone()), env)?;
        if contains_return(&cl.body) {
            return self.err(c, "untranslatable: `return` inside a closure");
        }
        let muts = self.mutated_outer(&cl.body, &env2)?;
        if !muts.is_empty() {
            return self.err(c, format!("untranslatable: closure assigning to `{}`", muts[0]));
        }
        let b = self.expr(&cl.body, &env2, None)?;
        Ok((format!("(fun {} => {}{})", x, pre, b.t), b.ty))
    }

    /// `let (a, b) = PLACE.get_or_insert_with(|| INIT);` -- `a`, `b` are references into the option stored in
    /// PLACE: they become local variables initialised from it, and PLACE is written back (`Some (a, b)`)
    /// at every exit of their scope (`return`, `continue`, `break`, end of the block).
    fn alias_let(&self, at: &Stmt, pat: &Pat, mc: &syn::ExprMethodCall, rest: &[Stmt], env: &Env, exp: Option<&Ty>, k: &K) -> R<String> {
        let cur = self.expr(&mc.receiver, env, None)?;
        let inner = match &cur.ty {
            Ty::Opt(t) => (**t).clone(),
            t => return self.err(at, format!("untranslatable: `get_or_insert_with` on type {}", t.show())),
        };
        let cl = match &mc.args[0] {
            Expr::Closure(c) if c.inputs.is_empty() => c,
            _ => return self.err(at, "untranslatable: `get_or_insert_with` without a closure literal"),
        };
        if contains_return(&cl.body) {
            return self.err(at, "untranslatable: `return` inside a closure");
        }
        let init = self.expr(&cl.body, env, Some(&inner))?;
        self.check_ty(&init.ty, &inner, "initial value")?;
        let t = self.tmp(env);
        let head = format!("let {} := (match {} with Some tr_x => tr_x | None => {} end) in\n  ", t, cur.t, init.t);
        let (env2, pre) = self.bind_pat(pat, val(t.clone(), inner.clone()), env)?;
        // the value written back, rebuilt from the pattern
        fn rebuild(tr: &Tr, p: &Pat, env: &Env) -> R<String> {
            match p {
                Pat::Ident(pi) => match env.get(&pi.ident.to_string()) {
                    Some((_, c, _)) => Ok(c.clone()),
                    None => Err("internal: alias not bound".into()),
                },
                Pat::Tuple(tp) => {
                    let mut parts = Vec::new();
                    for x in &tp.elems {
                        parts.push(rebuild(tr, x, env)?);
                    }
                    Ok(format!("({})", parts.join(", ")))
                }
                Pat::Paren(q) => rebuild(tr, &q.pat, env),
                _ => tr.err(p, "untranslatable: alias pattern"),
            }
        }
        let value = format!("(Some {})", rebuild(self, pat, &env2)?);
        self.writebacks.borrow_mut().push(((*mc.receiver).clone(), value));
        let env3 = env2.clone();
        let r = self.block(rest, &env2, exp, &|v: Val| -> R<String> {
            // end of the aliases' scope by falling through
            let pre = self.flush_last(&env3)?;
            Ok(format!("{}{}", pre, k(v)?))
        });
        self.writebacks.borrow_mut().pop();
        Ok(format!("{}{}{}", head, pre, r?))
    }

    fn flush_last(&self, env: &Env) -> R<String> {
        let last = self.writebacks.borrow().last().cloned();
        match last {
            Some((place, value)) => {
                let (name, whole) = self.update_place(&place, value, env)?;
                Ok(format!("let {} := {} in\n  ", name, whole))
            }
            None => Ok(String::new()),
        }
    }

    /// `while COND { BODY }` / `while let PAT = E { BODY }` as a recursion on a fuel bound given in the spec
    /// (`tr_fuel_`); when the fuel runs out the loop is left as if its test had failed -- the simulation
    /// lemma, proved for every input, is what shows the bound sufficient.
    fn while_loop(&self, w: &syn::ExprWhile, rest: &[Stmt], env: &Env, exp: Option<&Ty>, k: &K) -> R<String> {
        if w.label.is_some() {
            return self.err(w, "untranslatable: labelled loop");
        }
        if self.f.fuel.is_none() && self.f.fuel_local.is_none() {
            return self.err(w, "untranslatable: `while` (the spec gives no iteration bound for this function)");
        }
        let fuel_term = match &self.f.fuel_local {
            Some(fl) => {
                let fe = match syn::parse_str::<Expr>(fl) {
                    Ok(x) => x,
                    Err(_) => return self.err(w, "spec: `fuel_local` is not a Rust expression"),
                };
                let fv = self.expr(&fe, env, Some(&Ty::Int))?;
                match fv.ty {
                    Ty::Int => format!("(Z.to_nat {})", fv.t),
                    Ty::Nat => fv.t,
                    t => return self.err(w, format!("spec: `fuel_local` has type {}", t.show())),
                }
            }
            None => "tr_fuel_".to_string(),
        };
        let whole = Expr::While(w.clone());
        let body_e = Expr::Block(syn::ExprBlock { attrs: vec![], label: None, block: w.body.clone() });
        let mut assigned = Vec::new();
        let mut declared = Vec::new();
        collect_mut(&w.cond, &mut assigned, &mut declared, self.mut_methods);
        let mut muts = self.mutated_outer(&body_e, env)?;
        for a in assigned {
            if env.get(&a).is_some() && !muts.contains(&a) {
                muts.push(a);
            }
        }
        let order: Vec<String> = env.vars.iter().map(|v| v.0.clone()).collect();
        muts.sort_by_key(|n| order.iter().rposition(|x| x == n).unwrap_or(0));
        let has_return = {
            use syn::visit::Visit;
            struct V(bool);
            impl<'ast> Visit<'ast> for V {
                fn visit_expr_return(&mut self, _: &'ast syn::ExprReturn) {
                    self.0 = true;
                }
                fn visit_expr_try(&mut self, _: &'ast syn::ExprTry) {
                    self.0 = true;
                }
                fn visit_expr_closure(&mut self, _: &'ast syn::ExprClosure) {}
                fn visit_item(&mut self, _: &'ast syn::Item) {}
            }
            let mut v = V(false);
            v.visit_expr(&whole);
            v.0
        };
        if muts.is_empty() {
            return self.err(w, "untranslatable: loop without effect on the translated state");
        }
        let n = {
            let mut c = self.counter.borrow_mut();
            *c += 1;
            *c
        };
        let (lp, fv, gv) = (format!("tr_while{}", n), format!("tr_f{}", n), format!("tr_g{}", n));
        let names: Vec<String> = muts.iter().map(|m| env.get(m).unwrap().1.clone()).collect();
        let mut binders = String::new();
        for m in &muts {
            let (_, c, ty) = env.get(m).unwrap();
            let ct = self.ctx.coq_ty(ty).unwrap_or_else(|_| "_".to_string());
            binders.push_str(&format!(" ({} : {})", c, ct));
        }
        let tuple = if names.len() == 1 { names[0].clone() } else { format!("({})", names.join(", ")) };
        let end_term = if has_return { self.block(rest, env, exp, k)? } else { tuple.clone() };
        let cont_term = format!("({} {}{})", lp, gv, names.iter().map(|x| format!(" {}", x)).collect::<String>());
        self.loops.borrow_mut().push((cont_term.clone(), end_term.clone()));
        let ct2 = cont_term.clone();
        let et2 = end_term.clone();
        let body_k = |_v: Val| -> R<String> { Ok(format!("{}{}", self.flush(env)?, ct2)) };
        let test = match &*w.cond {
            Expr::Let(l) => {
                let pat = (*l.pat).clone();
                let cont = |v: Val| -> R<String> {
                    let arms: Vec<(Pat, Box<dyn Fn(&Env) -> R<String> + '_>)> = vec![
                        (pat.clone(), Box::new(|e2: &Env| match &self.f.while_step {
                            Some(g) => self.step_call(w, g, e2, &ct2, n),
                            None => self.block(&w.body.stmts, e2, None, &body_k),
                        })),
                        (syn::parse_quote!(_), Box::new(|_e2: &Env| Ok(et2.clone()))),
                    ];
                    self.match_on(w, v, env, arms)
                };
                self.eval_k(&l.expr, env, None, &cont)
            }
            c => {
                let cv = self.expr(c, env, Some(&Ty::Bool));
                match cv {
                    Ok(cv) => {
                        self.check_ty(&cv.ty, &Ty::Bool, "loop condition")?;
                        let b = match &self.f.while_step {
                            Some(g) => self.step_call(w, g, env, &ct2, n),
                            None => self.block(&w.body.stmts, env, None, &body_k),
                        };
                        b.map(|b| format!("(if {} then\n  {}\n  else\n  {})", cv.t, b, et2))
                    }
                    Err(e) => Err(e),
                }
            }
        };
        self.loops.borrow_mut().pop();
        let test = test?;
        let fix = format!(
            "((fix {lp} ({fv} : nat){bs} {{struct {fv}}} := match {fv} with\n  | O => {end}\n  | S {gv} => {test}\n  end) {fuel}{args})",
            fuel = fuel_term,
            lp = lp,
            fv = fv,
            bs = binders,
            end = end_term,
            gv = gv,
            test = test,
            args = names.iter().map(|x| format!(" {}", x)).collect::<String>()
        );
        if has_return {
            Ok(fix)
        } else {
            let r = self.block(rest, env, exp, k)?;
            if names.len() == 1 {
                Ok(format!("let {} := {} in\n  {}", tuple, fix, r))
            } else {
                Ok(format!("let '{} := {} in\n  {}", tuple, fix, r))
            }
        }
    }

    /// a value of an iterator-struct type, consumed: the list of the items its generated `next` yields
    fn drained(&self, v: &Val) -> Option<Val> {
        if let Ty::Named(n) = v.ty.strip_into() {
            if let Some((next, item, fuel)) = self.ctx.types.get(n).and_then(|t| t.iter.clone()) {
                let i = self.ctx.fns.iter().position(|x| x.gen == next)?;
                self.deps.borrow_mut().insert(i);
                let fu = fuel.replace("$0", &v.t);
                let ity = if self.ctx.types.contains_key(&item) {
                    Ty::Named(item)
                } else {
                    // a Rust type written out in the spec, e.g. "(f64, f64, QuadBez)" for `ToQuads`
                    match syn::parse_str::<syn::Type>(&item) {
                        Ok(t) => self.ctx.ty_of(&t, None, None, &self.generics()),
                        Err(_) => Ty::Unknown,
                    }
                };
                return Some(val(format!("(tr_drain {} {} {})", next, fu, v.t), Ty::List(Box::new(ity))));
            }
        }
        None
    }

    /// `while_step`: one iteration of the loop is the generated step function `g` (translated from the same loop body
    /// under its own spec entry): `Some r` returns `r` from the function, `None` goes round again with the new state
    fn step_call(&self, w: &syn::ExprWhile, g: &str, env: &Env, cont: &str, n: usize) -> R<String> {
        let i = match self.ctx.fns.iter().position(|x| x.gen == g && x.while_body) {
            Some(i) => i,
            None => return self.err(w, format!("while_step: no `while_body_state` entry with gen `{}` in the spec", g)),
        };
        let sf = &self.ctx.fns[i];
        if sf.file != self.f.file || sf.name != self.f.name || sf.impl_ty != self.f.impl_ty {
            return self.err(w, format!("while_step: `{}` is not the loop body of this function", g));
        }
        if !self.f.mut_params.is_empty() {
            return self.err(w, "untranslatable: while_step in a function with `&mut` parameters");
        }
        self.deps.borrow_mut().insert(i);
        let mut args: Vec<String> = Vec::new();
        let mut amb: Vec<String> = Vec::new();
        for p in &sf.params {
            if let Ty::Named(tn) = p.ty.strip_into() {
                for b in &self.ctx.types[tn].ambient_binders {
                    if !amb.contains(&b.0) {
                        amb.push(b.0.clone());
                    }
                }
            }
        }
        for b in &sf.extra_binders {
            if !amb.contains(&b.0) {
                amb.push(b.0.clone());
            }
        }
        for a in &amb {
            if !self.ambient.borrow().iter().any(|x| &x.0 == a) {
                return self.err(w, format!("untranslatable: the step function needs the ambient `{}` which is not in scope", a));
            }
        }
        args.extend(amb);
        let mut outs = vec![format!("tr_r{}", n)];
        for (j, p) in sf.params.iter().enumerate() {
            let (_, c, ty) = match env.get(&p.name) {
                Some(x) => x,
                None => return self.err(w, format!("while_step: the state variable `{}` is not in scope at the loop", p.name)),
            };
            if !self.compatible(ty, &p.ty) {
                return self.err(w, format!("while_step: `{}` has type {} here, {} in the step function", p.name, ty.show(), p.ty.show()));
            }
            args.push(c.clone());
            if sf.mut_params.contains(&j) {
                outs.push(c.clone());
            }
        }
        Ok(format!(
            "let '({}) := ({} {}) in\n  (match tr_r{} with\n  | Some tr_v{} => {}\n  | None => {}\n  end)",
            outs.join(", "),
            sf.gen,
            args.join(" "),
            n,
            n,
            // a step whose body has no `return` never yields `Some`: that branch is the loop exit (the current state)
            if sf.ret == Ty::Unit && self.f.ret != Ty::Unit { self.loops.borrow().last().map(|l| l.1.clone()).unwrap_or_default() } else { format!("tr_v{}", n) },
            cont
        ))
    }

    /// the spec function behind `recv.f(.., |a,b,c| { X.curve_to(a,b,c); })` and the place X, if the call has that shape
    fn callback_target(&self, mc: &syn::ExprMethodCall, env: &Env) -> Option<(usize, Expr)> {
        let cl = match mc.args.last() {
            Some(Expr::Closure(c)) => c,
            _ => return None,
        };
        let recv = self.expr(&mc.receiver, env, None).ok()?;
        let tn = match recv.ty.strip_into() {
            Ty::Named(n) => n.clone(),
            _ => return None,
        };
        let i = self.ctx.lookup(&tn, &mc.method.to_string()).into_iter().find(|&i| self.ctx.fns[i].callback_append.is_some())?;
        // |a, b, c| { X.curve_to(a, b, c); }
        let names: Vec<String> = cl.inputs.iter().filter_map(|p| if let Pat::Ident(pi) = p { Some(pi.ident.to_string()) } else { None }).collect();
        if names.len() != 3 || cl.inputs.len() != 3 {
            return None;
        }
        let inner = match &*cl.body {
            Expr::Block(b) if b.block.stmts.len() == 1 => match &b.block.stmts[0] {
                Stmt::Expr(Expr::MethodCall(m2), _) => m2.clone(),
                _ => return None,
            },
            Expr::MethodCall(m2) => m2.clone(),
            _ => return None,
        };
        if inner.method != "curve_to" || inner.args.len() != 3 {
            return None;
        }
        for (a, n) in inner.args.iter().zip(names.iter()) {
            if norm_tokens(a) != *n {
                return None;
            }
        }
        Some((i, (*inner.receiver).clone()))
    }

    fn panic_default(&self, t: &Ty) -> Option<String> {
        let key = match t {
            Ty::F64 => "f64".to_string(),
            Ty::Named(n) => n.clone(),
            _ => return None,
        };
        self.ctx.panic_defaults.get(&key).cloned()
    }

    fn is_builtin_list(&self, recv: &Expr, env: &Env) -> bool {
        matches!(self.expr(recv, env, None).map(|v| v.ty), Ok(Ty::List(_)))
    }

    /// Evaluate `e` where side effects are allowed (statement level): a call with `&mut` arguments is
    /// bound first, the places behind those arguments are rebound, and the value goes to `k`.
    fn eval_k(&self, e: &Expr, env: &Env, exp: Option<&Ty>, k: &K) -> R<String> {
        let e0 = strip_parens(e);
        if contains_return(e0) {
            return self.expr_k(e, env, exp, k);
        }
        if matches!(e0, Expr::Block(_) | Expr::If(_) | Expr::Match(_)) {
            let effectful = contains_replace(e0) || self.mutated_outer(e0, env).map(|m| !m.is_empty()).unwrap_or(true);
            if effectful {
                return self.expr_k_compound(e0, env, exp, k);
            }
        }
        if contains_replace(e0) {
            // evaluate with a hoisting buffer: each `mem::replace(place, v)` becomes a temporary + an assignment
            // in front of the expression (sound when the place is not otherwise used in the expression: checked)
            let saved = self.hoist.replace(Some(vec![]));
            let v = self.expr(e0, env, exp);
            let hoisted = self.hoist.replace(saved).unwrap_or_default();
            let v = v?;
            let r = k(v)?;
            return Ok(format!("{}{}", hoisted.concat(), r));
        }
        match e0 {
            Expr::MethodCall(mc) if mc.method == "take" && mc.args.is_empty() => {
                let cur = self.expr(&mc.receiver, env, None)?;
                if let Ty::Opt(_) = &cur.ty {
                    let t = self.tmp(env);
                    let (name, whole) = self.update_place(&mc.receiver, "None".into(), env)?;
                    let r = k(val(t.clone(), cur.ty.clone()))?;
                    return Ok(format!("let {} := {} in\n  let {} := {} in\n  {}", t, cur.t, name, whole, r));
                }
                self.err(e, "untranslatable: `take` on a non-option")
            }
            Expr::MethodCall(mc) if mc.method == "map" && mc.args.len() == 1 && matches!(&mc.args[0], Expr::Closure(_)) && {
                let body = match &mc.args[0] { Expr::Closure(c) => (*c.body).clone(), _ => unreachable!() };
                self.mutated_outer(&body, env).map(|m| !m.is_empty()).unwrap_or(true)
            } => {
                // `opt.map(|x| { effects; value })`: the closure runs at most once, right here
                let cl = match &mc.args[0] { Expr::Closure(c) => c, _ => unreachable!() };
                if cl.inputs.len() != 1 || contains_return(&cl.body) {
                    return self.err(e, "untranslatable: this closure");
                }
                let recv = self.expr(&mc.receiver, env, None)?;
                if !matches!(recv.ty, Ty::Opt(_)) {
                    return self.err(e, "untranslatable: effectful closure in a `map` that is not on an option");
                }
                let body = (*cl.body).clone();
                let some_k = |v: Val| -> R<String> { k(val(format!("(Some {})", v.t), Ty::Opt(Box::new(v.ty.strip_into().clone())))) };
                let arms: Vec<(Pat, Box<dyn Fn(&Env) -> R<String> + '_>)> = vec![
                    (syn::parse_quote!(Some(__tr_it)), Box::new(|e2: &Env| {
                        let it = e2.get("__tr_it").unwrap().clone();
                        let (e3, pre) = self.bind_pat(&cl.inputs[0], val(it.1, it.2), e2)?;
                        Ok(format!("{}{}", pre, self.block(&[Stmt::Expr(body.clone(), None)], &e3, None, &some_k)?))
                    })),
                    (syn::parse_quote!(_), Box::new(|_e2: &Env| k(val("None".into(), Ty::Opt(Box::new(Ty::Unknown)))))),
                ];
                self.match_on(e, recv, env, arms)
            }
            Expr::MethodCall(mc) if matches!(strip_parens(&mc.receiver), Expr::MethodCall(r) if self.mut_methods.contains(&r.method.to_string())) && !self.mut_methods.contains(&mc.method.to_string()) => {
                // `self.get_byte().ok_or(E)`: the mutating call first, then the pure method on its value
                let mc2 = mc.clone();
                let cont = |v: Val| -> R<String> {
                    let mut env2 = env.clone();
                    env2.vars.push(("__tr_hole".to_string(), v.t.clone(), v.ty.clone()));
                    let mut call = mc2.clone();
                    call.receiver = Box::new(syn::parse_quote!(__tr_hole));
                    let r = self.expr(&Expr::MethodCall(call), &env2, exp)?;
                    k(r)
                };
                self.eval_k(&mc.receiver, env, None, &cont)
            }
            Expr::Call(c) if norm_tokens(&*c.func).ends_with("verif::tick") => k(val("tt".into(), Ty::Unit)),
            Expr::Call(_) | Expr::MethodCall(_) => {
                self.allow_mut.set(true);
                *self.mut_places.borrow_mut() = None;
                let v = self.expr(e0, env, exp);
                self.allow_mut.set(false);
                let v = v?;
                let places = self.mut_places.borrow_mut().take();
                let places = match places {
                    Some(p) => p,
                    None => return k(v),
                };
                // v.ty = (result?, state_1, ..., state_n)
                let comps: Vec<Ty> = match &v.ty {
                    Ty::Tuple(ts) if ts.len() == places.len() + 1 || (ts.len() == places.len() && places.len() > 1) => ts.clone(),
                    t => vec![t.clone()],
                };
                let has_res = comps.len() == places.len() + 1;
                let names: Vec<String> = comps.iter().map(|_| self.tmp(env)).collect();
                let mut out = if names.len() == 1 { format!("let {} := {} in\n  ", names[0], v.t) } else { format!("let '({}) := {} in\n  ", names.join(", "), v.t) };
                for (j, pl) in places.iter().enumerate() {
                    let idx = if has_res { j + 1 } else { j };
                    let (name, whole) = self.update_place(pl, names[idx].clone(), env)?;
                    out.push_str(&format!("let {} := {} in\n  ", name, whole));
                }
                let r = if has_res { k(val(names[0].clone(), comps[0].clone()))? } else { k(val("tt".into(), Ty::Unit))? };
                Ok(format!("{}{}", out, r))
            }
            _ => self.expr_k(e, env, exp, k),
        }
    }

    /// `match v with | pat_i => arm_i(env_i)`
    fn match_on<S: syn::spanned::Spanned>(&self, at: &S, v: Val, env: &Env, arms: Vec<(Pat, Box<dyn Fn(&Env) -> R<String> + '_>)>) -> R<String> {
        let variants = match v.ty.strip_into().clone() {
            Ty::Named(tn) => match &self.ctx.types[&tn].kind {
                TypeKind::Enum { variants } => (tn.clone(), variants.clone()),
                _ => return self.err(at, format!("untranslatable: refutable pattern on non-enum {}", tn)),
            },
            Ty::Opt(inner) => ("Option".to_string(), vec![("Some".to_string(), "Some".to_string(), vec![(*inner).clone()]), ("None".to_string(), "None".to_string(), vec![])]),
            t => return self.err(at, format!("untranslatable: refutable pattern on type {}", t.show())),
        };
        let mut out = Vec::new();
        for (pat, body) in &arms {
            let (ps, env2, pre) = self.variant_pat(pat, &variants.1, &variants.0, env)?;
            let b = body(&env2)?;
            out.push(format!("| {} => {}{}", ps, pre, b));
        }
        Ok(format!("(match {} with\n  {}\n  end)", v.t, out.join("\n  ")))
    }

    /// `if` whose condition may be a `let` pattern test
    fn if_k(&self, i: &syn::ExprIf, env: &Env, then_k: &dyn Fn(&Env) -> R<String>, else_k: &dyn Fn(&Env) -> R<String>, stmt_level: bool) -> R<String> {
        if let Expr::Let(l) = &*i.cond {
            let pat = (*l.pat).clone();
            let cont = |v: Val| -> R<String> {
                let arms: Vec<(Pat, Box<dyn Fn(&Env) -> R<String> + '_>)> = vec![(pat.clone(), Box::new(|e2: &Env| then_k(e2))), (syn::parse_quote!(_), Box::new(|e2: &Env| else_k(e2)))];
                self.match_on(i, v, env, arms)
            };
            return if stmt_level { self.eval_k(&l.expr, env, None, &cont) } else { cont(self.expr(&l.expr, env, None)?) };
        }
        let c = self.expr(&i.cond, env, Some(&Ty::Bool))?;
        self.check_ty(&c.ty, &Ty::Bool, "condition")?;
        let a = then_k(env)?;
        let b = else_k(env)?;
        Ok(format!("(if {} then\n  {}\n  else\n  {})", c.t, a, b))
    }

    /// Like `expr_k`, for statement-position `if`/`match`/block: a missing `else` falls through.
    fn expr_k_stmt(&self, e: &Expr, env: &Env, k: &K) -> R<String> {
        match e {
            Expr::If(i) => self.if_k(
                i,
                env,
                &|e2: &Env| self.block(&i.then_branch.stmts, e2, None, k),
                &|e2: &Env| match &i.else_branch {
                    Some((_, eb)) => self.expr_k_stmt(eb, e2, k),
                    None => k(val("tt".into(), Ty::Unit)),
                },
                true,
            ),
            Expr::Block(b) => self.block(&b.block.stmts, env, None, k),
            Expr::Match(m) => self.match_k(m, env, None, k),
            _ => self.err(e, "untranslatable: statement form"),
        }
    }

    /// Translate `e` and pass its value to `k`. When `e` contains a `return`, `k` is pushed into
    /// the branches (the continuation is duplicated); otherwise `e` is translated as a pure expression.
    fn expr_k(&self, e: &Expr, env: &Env, exp: Option<&Ty>, k: &K) -> R<String> {
        if !contains_return(e) {
            let e0 = strip_parens(e);
            if matches!(e0, Expr::Block(_) | Expr::If(_) | Expr::Match(_)) {
                let effectful = contains_replace(e0) || self.mutated_outer(e0, env).map(|m| !m.is_empty()).unwrap_or(true);
                if effectful {
                    return self.expr_k_compound(e0, env, exp, k);
                }
            }
            let v = self.expr(e, env, exp)?;
            return k(v);
        }
        self.expr_k_compound(e, env, exp, k)
    }

    /// the value of an `if`/`match`/block whose branches are translated as statements (they may return,
    /// assign, replace); `k` is applied in every branch that yields a value
    fn expr_k_compound(&self, e: &Expr, env: &Env, exp: Option<&Ty>, k: &K) -> R<String> {
        match e {
            Expr::Return(r) => match &r.expr {
                Some(x) => self.eval_k(x, env, Some(&self.f.ret), &|v: Val| self.finish_env(v, env)),
                None => self.finish_env(val("tt".into(), Ty::Unit), env),
            },
            Expr::Paren(p) => self.expr_k(&p.expr, env, exp, k),
            Expr::If(i) => {
                if contains_return(&i.cond) {
                    return self.err(e, "untranslatable: `return` inside a condition");
                }
                self.if_k(
                    i,
                    env,
                    &|e2: &Env| self.block(&i.then_branch.stmts, e2, exp, k),
                    &|e2: &Env| match &i.else_branch {
                        Some((_, eb)) => self.expr_k(eb, e2, exp, k),
                        None => k(val("tt".into(), Ty::Unit)),
                    },
                    true,
                )
            }
            Expr::Block(b) => self.block(&b.block.stmts, env, exp, k),
            Expr::Match(m) => self.match_k(m, env, exp, k),
            Expr::Try(t) => {
                // `e?` on an option in a function returning an option: `None` leaves the function
                if !matches!(self.f.ret, Ty::Opt(_) | Ty::Res(..)) {
                    return self.err(e, "untranslatable: `?` outside a function returning Option/Result");
                }
                let cont = |v: Val| -> R<String> {
                    if let Ty::Res(a, en) = &v.ty {
                        // `e?` on a Result: the error leaves the function (same error type: no conversion)
                        let (ra, re) = match &self.f.ret {
                            Ty::Res(ra, re) => ((**ra).clone(), (**re).clone()),
                            _ => return self.err(e, "untranslatable: `?` on a Result in a function not returning a Result"),
                        };
                        if !self.compatible(en, &re) {
                            return self.err(e, "untranslatable: `?` with an error conversion");
                        }
                        let ctors = match &re {
                            Ty::Named(x) => self.ctx.results.get(x).cloned(),
                            _ => None,
                        };
                        let ctors = match ctors {
                            Some(c) => c,
                            None => return self.err(e, "untranslatable: Result error type not in the spec"),
                        };
                        let x = self.tmp(env);
                        let y = self.tmp(env);
                        let ok = k(val(x.clone(), (**a).clone()))?;
                        let er = self.finish_env(val(format!("({} {})", ctors.2, y), Ty::Res(Box::new(ra), Box::new(re))), env)?;
                        return Ok(format!("(match {} with\n  | {} {} => {}\n  | {} {} => {}\n  end)", v.t, ctors.1, x, ok, ctors.2, y, er));
                    }
                    let inner = match &v.ty {
                        Ty::Opt(t) => (**t).clone(),
                        t => return self.err(e, format!("untranslatable: `?` on type {}", t.show())),
                    };
                    let x = self.tmp(env);
                    let some = k(val(x.clone(), inner))?;
                    let none = self.finish_env(val("None".into(), self.f.ret.clone()), env)?;
                    Ok(format!("(match {} with\n  | Some {} => {}\n  | None => {}\n  end)", v.t, x, some, none))
                };
                self.eval_k(&t.expr, env, None, &cont)
            }
            Expr::MethodCall(mc) if contains_return(&mc.receiver) && !mc.args.iter().any(|a| contains_return(a)) => {
                // <expression with control flow>.method(args): the method is applied where a value is produced
                let mc2 = mc.clone();
                let cont = |v: Val| -> R<String> {
                    let mut env2 = env.clone();
                    env2.vars.push(("__tr_hole".to_string(), v.t.clone(), v.ty.clone()));
                    let mut call = mc2.clone();
                    call.receiver = Box::new(syn::parse_quote!(__tr_hole));
                    let r = self.expr(&Expr::MethodCall(call), &env2, exp)?;
                    k(r)
                };
                self.expr_k(&mc.receiver, env, None, &cont)
            }
            Expr::Call(c) if c.args.len() == 1 && !contains_return(&c.func) => {
                // f(<expression with control flow>): the call is applied in each branch that yields a value
                let c2 = c.clone();
                let cont = |v: Val| -> R<String> {
                    let mut env2 = env.clone();
                    env2.vars.push(("__tr_hole".to_string(), v.t.clone(), v.ty.clone()));
                    let mut call = c2.clone();
                    call.args = syn::punctuated::Punctuated::new();
                    call.args.push(syn::parse_quote!(__tr_hole));
                    let r = self.expr(&Expr::Call(call), &env2, exp)?;
                    k(r)
                };
                self.expr_k(&c.args[0], env, None, &cont)
            }
            _ => self.err(e, "untranslatable: `return` nested inside an expression"),
        }
    }

    // ------------------------------------------------------------------ patterns

    /// Bind pattern `p` to value `v`; returns the extended environment and the `let ... in` prefix.
    fn bind_pat(&self, p: &Pat, v: Val, env: &Env) -> R<(Env, String)> {
        match p {
            Pat::Ident(pi) => {
                if pi.subpat.is_some() {
                    return self.err(p, "untranslatable: `@` pattern");
                }
                let ty = v.ty.strip_into().clone();
                if v.ty == Ty::Range {
                    let mut e2 = env.clone();
                    e2.vars.push((pi.ident.to_string(), format!("{} {}", v.t, v.t2.clone().unwrap_or_default()), Ty::Range));
                    return Ok((e2, String::new()));
                }
                let (e2, c) = self.bind(env, &pi.ident.to_string(), if let Ty::Into(_) = v.ty { v.ty.clone() } else { ty });
                Ok((e2, format!("let {} := {} in\n  ", c, v.t)))
            }
            Pat::Wild(_) => Ok((env.clone(), String::new())),
            Pat::Type(pt) => {
                let ann = self.ctx.ty_of(&pt.ty, self.f.self_ty.as_ref(), None, &self.generics());
                self.check_ty(&v.ty, &ann, "annotated binding")?;
                let ty = if v.ty == Ty::Unknown || matches!(v.ty, Ty::List(ref t) if **t == Ty::Unknown) { ann } else { v.ty.clone() };
                self.bind_pat(&pt.pat, Val { t: v.t, ty, t2: v.t2 }, env)
            }
            Pat::Reference(r) => self.bind_pat(&r.pat, v, env),
            Pat::Paren(r) => self.bind_pat(&r.pat, v, env),
            Pat::Tuple(tp) => {
                let tys = match v.ty.strip_into() {
                    Ty::Tuple(t) if t.len() == tp.elems.len() => t.clone(),
                    other => return self.err(p, format!("untranslatable: tuple pattern against type {}", other.show())),
                };
                // all components must be plain identifiers or `_` to use Coq's let '(a, b) := ...
                let mut env2 = env.clone();
                let mut names = Vec::new();
                let mut nested: Vec<(Pat, String, Ty)> = Vec::new();
                for (sub, ty) in tp.elems.iter().zip(tys.iter()) {
                    match sub {
                        Pat::Ident(pi) if pi.subpat.is_none() => {
                            let (e3, c) = self.bind(&env2, &pi.ident.to_string(), ty.clone());
                            env2 = e3;
                            names.push(c);
                        }
                        Pat::Wild(_) => names.push("_".into()),
                        other => {
                            let (e3, c) = self.bind(&env2, "tmp", ty.clone());
                            env2 = e3;
                            names.push(c.clone());
                            nested.push((other.clone(), c, ty.clone()));
                        }
                    }
                }
                let mut s = format!("let '({}) := {} in\n  ", names.join(", "), v.t);
                for (sub, c, ty) in nested {
                    let (e3, s2) = self.bind_pat(&sub, val(c, ty), &env2)?;
                    env2 = e3;
                    s.push_str(&s2);
                }
                Ok((env2, s))
            }
            Pat::Struct(ps) => {
                let tn = self.resolve_type_path(&ps.path)?;
                self.check_ty(&v.ty, &Ty::Named(tn.clone()), "struct pattern")?;
                let fields = match &self.ctx.types[&tn].kind {
                    TypeKind::Record { fields, .. } => fields.clone(),
                    _ => return self.err(p, "untranslatable: struct pattern on a non-record"),
                };
                // bind the scrutinee to a variable unless it already is one
                let (mut env2, mut s, base) = if is_simple_term(&v.t) {
                    (env.clone(), String::new(), v.t.clone())
                } else {
                    let (e2, c) = self.bind(env, "tmp", v.ty.clone());
                    (e2, format!("let {} := {} in\n  ", c, v.t), c)
                };
                for fp in &ps.fields {
                    let fname = match &fp.member {
                        syn::Member::Named(i) => i.to_string(),
                        syn::Member::Unnamed(_) => return self.err(p, "untranslatable: positional field pattern"),
                    };
                    let (_, proj, fty) = match fields.iter().find(|f| f.0 == fname) {
                        Some(x) => x.clone(),
                        None => return self.err(p, format!("field {} not in the spec for {}", fname, tn)),
                    };
                    let (e3, s2) = self.bind_pat(&fp.pat, val(format!("({} {})", proj, base), fty), &env2)?;
                    env2 = e3;
                    s.push_str(&s2);
                }
                Ok((env2, s))
            }
            _ => self.err(p, "untranslatable: pattern form"),
        }
    }

    fn resolve_type_path(&self, p: &syn::Path) -> R<String> {
        let last = p.segments.last().unwrap().ident.to_string();
        if last == "Self" {
            if let Some(Ty::Named(n)) = &self.f.self_ty {
                return Ok(n.clone());
            }
        }
        if self.ctx.types.contains_key(&last) {
            return Ok(last);
        }
        Err(format!("type `{}` is not in the spec ({}:{})", norm_tokens(p), self.file, line_of(p)))
    }

    // ------------------------------------------------------------------ places

    fn place_var(&self, e: &Expr, env: &Env) -> Option<(String, String, Ty)> {
        match e {
            Expr::Path(p) if p.path.segments.len() == 1 => {
                let n = p.path.segments[0].ident.to_string();
                env.get(&n).cloned()
            }
            Expr::Paren(p) => self.place_var(&p.expr, env),
            Expr::Reference(r) => self.place_var(&r.expr, env),
            Expr::Unary(u) if matches!(u.op, UnOp::Deref(_)) => self.place_var(&u.expr, env),
            _ => None,
        }
    }

    fn place_ty(&self, e: &Expr, env: &Env) -> R<Ty> {
        Ok(self.expr(e, env, None)?.ty)
    }

    /// `place := newval`: returns (coq variable to rebind, its new value).
    fn update_place(&self, place: &Expr, newval: String, env: &Env) -> R<(String, String)> {
        match place {
            Expr::Reference(r) => self.update_place(&r.expr, newval, env),
            Expr::Path(_) | Expr::Paren(_) | Expr::Unary(_) => match self.place_var(place, env) {
                Some((_, c, ty)) => {
                    if ty == Ty::Range {
                        return self.err(place, "untranslatable: assignment to a range");
                    }
                    Ok((c, newval))
                }
                None => self.err(place, "untranslatable: assignment target"),
            },
            Expr::Field(f) => {
                let base = self.expr(&f.base, env, None)?;
                let tn = match &base.ty {
                    Ty::Named(n) => n.clone(),
                    // `.0` of a transparent newtype over a list
                    Ty::List(_) if matches!(&f.member, syn::Member::Unnamed(u) if u.index == 0) => return self.update_place(&f.base, newval, env),
                    t => return self.err(place, format!("untranslatable: field assignment on type {}", t.show())),
                };
                let fname = match &f.member {
                    syn::Member::Named(i) => i.to_string(),
                    _ => return self.err(place, "untranslatable: positional field assignment"),
                };
                match &self.ctx.types[&tn].kind {
                    TypeKind::Record { ctor, fields } => {
                        if !fields.iter().any(|x| x.0 == fname) {
                            return self.err(place, format!("field {} not in the spec for {}", fname, tn));
                        }
                        let args: Vec<String> = fields.iter().map(|(rf, proj, _)| if *rf == fname { newval.clone() } else { format!("({} {})", proj, base.t) }).collect();
                        let whole = format!("({} {})", ctor, args.join(" "));
                        self.update_place(&f.base, whole, env)
                    }
                    _ => self.err(place, "untranslatable: field assignment on a non-record"),
                }
            }
            Expr::Index(ix) => {
                // self.0[i] = v  on a newtype-array struct
                if let Expr::Field(f) = &*ix.expr {
                    if let syn::Member::Unnamed(u) = &f.member {
                        if u.index == 0 {
                            let base = self.expr(&f.base, env, None)?;
                            if let Ty::Named(tn) = &base.ty {
                                if let TypeKind::ArrayNewtype { ctor, projs } = &self.ctx.types[tn].kind {
                                    let i = self.const_index(&ix.index)?;
                                    if i >= projs.len() {
                                        return self.err(place, "index out of range");
                                    }
                                    let args: Vec<String> = projs.iter().enumerate().map(|(j, p)| if j == i { newval.clone() } else { format!("({} {})", p, base.t) }).collect();
                                    let whole = format!("({} {})", ctor, args.join(" "));
                                    return self.update_place(&f.base, whole, env);
                                }
                            }
                        }
                    }
                }
                self.err(place, "untranslatable: indexed assignment")
            }
            _ => self.err(place, "untranslatable: assignment target"),
        }
    }

    fn const_index(&self, e: &Expr) -> R<usize> {
        if let Expr::Lit(l) = e {
            if let syn::Lit::Int(i) = &l.lit {
                return i.base10_parse::<usize>().map_err(|x| x.to_string());
            }
        }
        self.err(e, "untranslatable: non-literal index")
    }

    /// Outer variables (visible in `env`) assigned somewhere inside `e`.
    fn mutated_outer(&self, e: &Expr, env: &Env) -> R<Vec<String>> {
        let mut assigned = Vec::new();
        let mut declared = Vec::new();
        collect_mut(e, &mut assigned, &mut declared, self.mut_methods);
        let mut out: Vec<String> = Vec::new();
        for a in assigned {
            if env.get(&a).is_some() {
                if declared.contains(&a) {
                    return self.err(e, format!("untranslatable: `{}` is both assigned and re-declared inside this statement", a));
                }
                if !out.contains(&a) {
                    out.push(a);
                }
            } else if !declared.contains(&a) {
                return self.err(e, format!("assignment to unknown variable `{}`", a));
            }
        }
        // keep declaration order of the environment for determinism
        let order: Vec<String> = env.vars.iter().map(|v| v.0.clone()).collect();
        out.sort_by_key(|n| order.iter().rposition(|x| x == n).unwrap_or(0));
        Ok(out)
    }

    // ------------------------------------------------------------------ pure expressions

    pub fn expr(&self, e: &Expr, env: &Env, exp: Option<&Ty>) -> R<Val> {
        match e {
            Expr::Paren(p) => self.expr(&p.expr, env, exp),
            Expr::Group(p) => self.expr(&p.expr, env, exp),
            Expr::Reference(r) => self.expr(&r.expr, env, exp),
            Expr::Lit(l) => self.literal(e, &l.lit, false, exp),
            Expr::Unary(u) => match &u.op {
                UnOp::Deref(_) => self.expr(&u.expr, env, exp),
                UnOp::Not(_) => {
                    let v = self.expr(&u.expr, env, Some(&Ty::Bool))?;
                    if v.ty != Ty::Bool {
                        return self.err(e, format!("untranslatable: `!` on type {}", v.ty.show()));
                    }
                    Ok(val(format!("(negb {})", v.t), Ty::Bool))
                }
                UnOp::Neg(_) => {
                    // a negated literal is a negative literal (the compiler folds it exactly)
                    if let Expr::Lit(l) = strip_paren_lit(&u.expr) {
                        if self.f.neg_literal_op && matches!(l.lit, syn::Lit::Float(_)) {
                            let v = self.literal(e, &l.lit, false, exp)?;
                            return Ok(val(format!("(- {})", v.t), Ty::F64));
                        }
                        return self.literal(e, &l.lit, true, exp);
                    }
                    let v = self.expr(&u.expr, env, exp)?;
                    match v.ty.clone() {
                        Ty::F64 => Ok(val(format!("(- {})", v.t), Ty::F64)),
                        Ty::Int => Ok(val(format!("(Z.opp {})", v.t), Ty::Int)),
                        Ty::Named(n) => {
                            let i = self.find_op("Neg", &n, None).ok_or_else(|| format!("no `impl Neg for {}` in the spec ({}:{})", n, self.file, line_of(e)))?;
                            self.emit_call(e, i, vec![v])
                        }
                        t => self.err(e, format!("untranslatable: unary minus on type {}", t.show())),
                    }
                }
                _ => self.err(e, "untranslatable: unary operator"),
            },
            Expr::Binary(b) => {
                if compound_op(&b.op).is_some() {
                    return self.err(e, "untranslatable: compound assignment in expression position");
                }
                let (l, r) = match &b.op {
                    BinOp::And(_) | BinOp::Or(_) => (self.expr(&b.left, env, Some(&Ty::Bool))?, self.expr(&b.right, env, Some(&Ty::Bool))?),
                    _ => {
                        let l = self.expr(&b.left, env, None)?;
                        let hint = if matches!(l.ty, Ty::F64 | Ty::Int | Ty::Nat | Ty::Bool) { Some(l.ty.clone()) } else { None };
                        // `x == Enum::Variant` on a fieldless variant: a match (the derived PartialEq)
                        if let (BinOp::Eq(_) | BinOp::Ne(_), Ty::Named(tn)) = (&b.op, l.ty.strip_into()) {
                            if let TypeKind::Enum { variants } = &self.ctx.types[tn].kind {
                                if let Expr::Path(pp) = strip_parens(&b.right) {
                                    let last = pp.path.segments.last().unwrap().ident.to_string();
                                    if let Some(v) = variants.iter().find(|v| v.0 == last && v.2.is_empty()) {
                                        let t = format!("(match {} with {} => true | _ => false end)", l.t, v.1);
                                        return Ok(val(if matches!(b.op, BinOp::Ne(_)) { format!("(negb {})", t) } else { t }, Ty::Bool));
                                    }
                                }
                            }
                        }
                        let r = self.expr(&b.right, env, hint.as_ref())?;
                        (l, r)
                    }
                };
                self.binary(e, &b.op, l, r)
            }
            Expr::Path(p) => self.path_expr(e, p, env, exp),
            Expr::Field(f) => {
                let base = self.expr(&f.base, env, None)?;
                match (&base.ty.strip_into().clone(), &f.member) {
                    (Ty::Named(tn), syn::Member::Named(id)) => match &self.ctx.types[tn].kind {
                        TypeKind::Record { fields, .. } => match fields.iter().find(|x| id == x.0.as_str()) {
                            Some((_, proj, fty)) => Ok(val(format!("({} {})", proj, base.t), fty.clone())),
                            None => match self.ctx.types[tn].ambient.iter().find(|x| id == x.0.as_str()) {
                                // a field that never changes: a parameter of the whole development of this type
                                Some((_, term, fty)) => Ok(val(term.clone(), fty.clone())),
                                None => self.err(e, format!("field `{}` of {} is not in the spec", id, tn)),
                            },
                        },
                        _ => self.err(e, format!("untranslatable: field `{}` of non-record {}", id, tn)),
                    },
                    (Ty::Named(tn), syn::Member::Unnamed(ix)) if ix.index == 0 => match &self.ctx.types[tn].kind {
                        TypeKind::ArrayNewtype { .. } => Ok(val(base.t, Ty::ArrayOf(tn.clone()))),
                        _ => self.err(e, format!("untranslatable: `.0` on {}", tn)),
                    },
                    (Ty::List(_), syn::Member::Unnamed(ix)) if ix.index == 0 => Ok(base),
                    (Ty::Range, syn::Member::Named(id)) if id == "start" => Ok(val(base.t, Ty::F64)),
                    (Ty::Range, syn::Member::Named(id)) if id == "end" => Ok(val(base.t2.clone().unwrap_or_default(), Ty::F64)),
                    (Ty::Tuple(ts), syn::Member::Unnamed(ix)) => {
                        let n = ts.len();
                        let i = ix.index as usize;
                        if i >= n {
                            return self.err(e, "tuple index out of range");
                        }
                        // ((a, b), c) nesting of Coq tuples
                        let mut t = base.t.clone();
                        for _ in 0..(n - 1 - i) {
                            t = format!("(fst {})", t);
                        }
                        if i > 0 {
                            t = format!("(snd {})", t);
                        }
                        Ok(val(t, ts[i].clone()))
                    }
                    (t, _) => self.err(e, format!("untranslatable: field access on type {}", t.show())),
                }
            }
            Expr::Index(ix) => {
                let base = self.expr(&ix.expr, env, None)?;
                match &base.ty {
                    Ty::ArrayOf(tn) => {
                        let i = self.const_index(&ix.index)?;
                        if let TypeKind::ArrayNewtype { projs, .. } = &self.ctx.types[tn].kind {
                            if i < projs.len() {
                                return Ok(val(format!("({} {})", projs[i], base.t), Ty::F64));
                            }
                        }
                        self.err(e, "index out of range")
                    }
                    Ty::List(_) if matches!(strip_parens(&ix.index), Expr::Range(_)) => {
                        let r = match strip_parens(&ix.index) {
                            Expr::Range(r) => r,
                            _ => unreachable!(),
                        };
                        if !matches!(r.limits, syn::RangeLimits::HalfOpen(_)) {
                            return self.err(e, "untranslatable: inclusive slice range");
                        }
                        let nat = |x: &Expr| -> R<String> {
                            let v = self.expr(x, env, Some(&Ty::Nat))?;
                            if v.ty != Ty::Nat {
                                return self.err(x, "untranslatable: slice bound that is not a `usize` mapped to nat");
                            }
                            Ok(v.t)
                        };
                        let t = match (&r.start, &r.end) {
                            (None, Some(b)) => format!("(firstn {} {})", nat(b)?, base.t),
                            (Some(a), None) => format!("(skipn {} {})", nat(a)?, base.t),
                            (Some(a), Some(b)) => {
                                let (a, b) = (nat(a)?, nat(b)?);
                                format!("(firstn (Nat.sub {} {}) (skipn {} {}))", b, a, a, base.t)
                            }
                            (None, None) => base.t.clone(),
                        };
                        Ok(val(t, base.ty.clone()))
                    }
                    Ty::List(elt) => {
                        let i = self.expr(&ix.index, env, Some(&Ty::Nat))?;
                        if i.ty != Ty::Nat {
                            return self.err(e, format!("untranslatable: list index of type {} (only `usize` mapped to nat)", i.ty.show()));
                        }
                        // out of range is a panic in Rust; the default stands for it (as in the hand models)
                        match self.panic_default(elt) {
                            Some(d) => Ok(val(format!("(nth {} {} {})", i.t, base.t, d), (**elt).clone())),
                            None => self.err(e, format!("untranslatable: indexing a list of {} (no panic default in the spec)", elt.show())),
                        }
                    }
                    t => self.err(e, format!("untranslatable: indexing a value of type {}", t.show())),
                }
            }
            Expr::Tuple(t) => {
                if t.elems.is_empty() {
                    return Ok(val("tt".into(), Ty::Unit));
                }
                let exps: Vec<Option<Ty>> = match exp.map(|x| x.strip_into()) {
                    Some(Ty::Tuple(ts)) if ts.len() == t.elems.len() => ts.iter().map(|x| Some(x.clone())).collect(),
                    _ => vec![None; t.elems.len()],
                };
                let mut vs = Vec::new();
                for (x, ex) in t.elems.iter().zip(exps.iter()) {
                    vs.push(self.expr(x, env, ex.as_ref())?);
                }
                Ok(val(format!("({})", vs.iter().map(|v| v.t.clone()).collect::<Vec<_>>().join(", ")), Ty::Tuple(vs.iter().map(|v| v.ty.strip_into().clone()).collect())))
            }
            Expr::Struct(s) => {
                if s.rest.is_some() {
                    return self.err(e, "untranslatable: struct update syntax");
                }
                let tn = self.resolve_type_path(&s.path)?;
                let amb = self.ctx.types[&tn].ambient.clone();
                let amb_out = self.f.ambient_out && !amb.is_empty() && !self.ctx.types[&tn].partial;
                if self.ctx.types[&tn].partial || (!amb.is_empty() && !amb_out) {
                    return self.err(e, format!("untranslatable: struct literal of {} (only part of it is in the Coq record)", tn));
                }
                match &self.ctx.types[&tn].kind {
                    TypeKind::Record { ctor, fields } => {
                        let mut args = Vec::new();
                        if s.fields.len() != fields.len() + if amb_out { amb.len() } else { 0 } {
                            return self.err(e, format!("struct literal of {} with {} fields, spec has {}", tn, s.fields.len(), fields.len()));
                        }
                        // Rust evaluates field initialisers in source order; they are pure here
                        for (rf, _, fty) in fields {
                            let fv = s.fields.iter().find(|x| matches!(&x.member, syn::Member::Named(i) if i == rf.as_str()));
                            match fv {
                                Some(fv) => {
                                    let v = self.expr(&fv.expr, env, Some(fty))?;
                                    let v = self.coerce(e, v, fty)?;
                                    args.push(v.t);
                                }
                                None => return self.err(e, format!("struct literal of {} lacks field {}", tn, rf)),
                            }
                        }
                        if amb_out {
                            // the constant fields, which live outside the Coq record, next to it
                            let mut avs = Vec::new();
                            for (rf, _, aty) in &amb {
                                let fv = s.fields.iter().find(|x| matches!(&x.member, syn::Member::Named(i) if i == rf.as_str()));
                                match fv {
                                    Some(fv) => {
                                        let v = self.expr(&fv.expr, env, Some(aty))?;
                                        let v = self.coerce(e, v, aty)?;
                                        avs.push(v.t);
                                    }
                                    None => return self.err(e, format!("struct literal of {} lacks field {}", tn, rf)),
                                }
                            }
                            return Ok(val(format!("(({}), ({} {}))", avs.join(", "), ctor, args.join(" ")), Ty::Named(tn)));
                        }
                        Ok(val(format!("({} {})", ctor, args.join(" ")), Ty::Named(tn)))
                    }
                    _ => self.err(e, format!("untranslatable: struct literal of {}", tn)),
                }
            }
            Expr::Range(r) => {
                if !matches!(r.limits, syn::RangeLimits::HalfOpen(_)) {
                    return self.err(e, "untranslatable: inclusive range");
                }
                match (&r.start, &r.end) {
                    (Some(a), Some(b)) => {
                        let a = self.expr(a, env, Some(&Ty::F64))?;
                        let b = self.expr(b, env, Some(&Ty::F64))?;
                        if a.ty != Ty::F64 || b.ty != Ty::F64 {
                            return self.err(e, "untranslatable: non-f64 range");
                        }
                        Ok(Val { t: a.t, ty: Ty::Range, t2: Some(b.t) })
                    }
                    _ => self.err(e, "untranslatable: open range"),
                }
            }
            Expr::If(_) | Expr::Block(_) | Expr::Match(_) | Expr::Unsafe(_) => {
                if contains_return(e) {
                    return self.err(e, "untranslatable: `return` inside an expression");
                }
                let muts = self.mutated_outer(e, env)?;
                if !muts.is_empty() {
                    return self.err(e, format!("untranslatable: assignment to `{}` inside an expression", muts[0]));
                }
                self.pure_compound(e, env, exp)
            }
            Expr::Call(c) => self.call(e, c, env, exp),
            Expr::MethodCall(mc) => self.method_call(e, mc, env, exp),
            Expr::Cast(c) => {
                let v = self.expr(&c.expr, env, None)?;
                let to = self.ctx.ty_of(&c.ty, self.f.self_ty.as_ref(), None, &self.generics());
                match (&v.ty, &to) {
                    (Ty::F64, Ty::F64) | (Ty::Int, Ty::Int) | (Ty::Nat, Ty::Nat) => Ok(v),
                    // exact for the small integers this is used on (signs, counters)
                    (Ty::Int, Ty::F64) => Ok(val(format!("(fofZ {})", v.t), Ty::F64)),
                    // `x as usize` (saturating, NaN -> 0): the Scalar operation of that name
                    (Ty::F64, Ty::Int) if norm_tokens(&*c.ty) == "usize" => Ok(val(format!("(fto_usize {})", v.t), Ty::Int)),
                    (a, b) => self.err(e, format!("untranslatable: cast from {} to {}", a.show(), b.show())),
                }
            }
            Expr::Return(_) => self.err(e, "untranslatable: `return` inside an expression"),
            Expr::Closure(_) => self.err(e, "untranslatable: closure"),
            Expr::Macro(m) => {
                let name = norm_tokens(&m.mac.path);
                if name == "matches" {
                    use syn::parse::Parser;
                    let parser = |input: syn::parse::ParseStream| -> syn::Result<(Expr, Pat)> {
                        let e: Expr = input.parse()?;
                        input.parse::<syn::Token![,]>()?;
                        let p = Pat::parse_multi_with_leading_vert(input)?;
                        Ok((e, p))
                    };
                    let (se, sp) = match parser.parse2(m.mac.tokens.clone()) {
                        Ok(x) => x,
                        Err(_) => return self.err(e, "untranslatable: this use of matches!"),
                    };
                    let sv = self.expr(&se, env, None)?;
                    if sv.ty != Ty::Int {
                        return self.err(e, "untranslatable: matches! on a non-integer");
                    }
                    fn lits(tr: &Tr, p: &Pat, out: &mut Vec<String>) -> R<()> {
                        match p {
                            Pat::Lit(l) => {
                                let v = tr.expr(&Expr::Lit(l.clone()), &Env::new(), Some(&Ty::Int))?;
                                out.push(v.t);
                                Ok(())
                            }
                            Pat::Or(o) => {
                                for c in &o.cases {
                                    lits(tr, c, out)?;
                                }
                                Ok(())
                            }
                            Pat::Paren(q) => lits(tr, &q.pat, out),
                            _ => tr.err(p, "untranslatable: pattern in matches!"),
                        }
                    }
                    let mut ls = Vec::new();
                    lits(self, &sp, &mut ls)?;
                    let t = ls.iter().map(|l| format!("(Z.eqb {} {})", sv.t, l)).collect::<Vec<_>>().join(" || ");
                    return Ok(val(format!("({})", t), Ty::Bool));
                }
                if name == "panic" || name == "unreachable" {
                    // a panic is represented by the spec's default of the expected type, as in the hand models
                    if let Some(d) = exp.and_then(|t| self.panic_default(t)) {
                        return Ok(val(d, exp.unwrap().clone()));
                    }
                    return self.err(e, format!("untranslatable: {}! where the type (or its panic default) is not known", name));
                }
                self.err(e, format!("untranslatable: macro {}!", name))
            }
            Expr::ForLoop(_) | Expr::While(_) | Expr::Loop(_) => self.err(e, "untranslatable: loop"),
            Expr::Array(a) => {
                // a literal array used as a sequence (e.g. `for x in [false, true]`)
                let hint = match exp {
                    Some(Ty::List(t)) => Some((**t).clone()),
                    _ => None,
                };
                let mut ts = Vec::new();
                let mut ety = hint.clone().unwrap_or(Ty::Unknown);
                for x in &a.elems {
                    let v = self.expr(x, env, hint.as_ref())?;
                    if !self.compatible(&v.ty, &ety) {
                        return self.err(e, "untranslatable: array literal with elements of different types");
                    }
                    if ety == Ty::Unknown {
                        ety = v.ty.strip_into().clone();
                    }
                    ts.push(v.t);
                }
                Ok(val(format!("[{}]", ts.join("; ")), Ty::List(Box::new(ety))))
            }
            Expr::Assign(_) => self.err(e, "untranslatable: assignment in expression position"),
            Expr::Let(_) => self.err(e, "untranslatable: `let` condition"),
            Expr::Try(_) => self.err(e, "untranslatable: `?`"),
            _ => self.err(e, "untranslatable: expression form"),
        }
    }

    /// if / block / match without `return` and without outer assignments
    fn pure_compound(&self, e: &Expr, env: &Env, exp: Option<&Ty>) -> R<Val> {
        let saved = self.hoist.replace(None);
        let r = self.pure_compound0(e, env, exp);
        self.hoist.replace(saved);
        r
    }

    fn pure_compound0(&self, e: &Expr, env: &Env, exp: Option<&Ty>) -> R<Val> {
        let ty_cell: RefCell<Ty> = RefCell::new(exp.cloned().unwrap_or(Ty::Unknown));
        let exp_owned = exp.cloned();
        let k = |v: Val| -> R<String> {
            let mut cur = ty_cell.borrow_mut();
            if !self.compatible(&v.ty, &cur) {
                return Err(format!("branches of different types ({} / {}) at {}:{}", v.ty.show(), cur.show(), self.file, line_of(e)));
            }
            if *cur == Ty::Unknown || matches!(&*cur, Ty::List(t) if **t == Ty::Unknown) || matches!(&*cur, Ty::Opt(t) if **t == Ty::Unknown) {
                *cur = v.ty.strip_into().clone();
            }
            Ok(v.t)
        };
        let s = match e {
            Expr::If(i) => {
                if i.else_branch.is_none() {
                    return self.err(e, "untranslatable: `if` without `else` used as a value");
                }
                self.if_k(
                    i,
                    env,
                    &|e2: &Env| self.block_pure(&i.then_branch.stmts, e2, exp_owned.as_ref(), &k),
                    &|e2: &Env| {
                        let cur = ty_cell.borrow().clone();
                        let v = self.expr(&i.else_branch.as_ref().unwrap().1, e2, Some(&cur))?;
                        k(v)
                    },
                    false,
                )?
            }
            Expr::Block(b) => format!("({})", self.block_pure(&b.block.stmts, env, exp_owned.as_ref(), &k)?),
            Expr::Unsafe(_) => return self.err(e, "untranslatable: unsafe block"),
            Expr::Match(m) => self.match_k(m, env, exp, &k)?,
            _ => unreachable!(),
        };
        let ty = ty_cell.borrow().clone();
        Ok(val(s, ty))
    }

    fn block_pure(&self, stmts: &[Stmt], env: &Env, exp: Option<&Ty>, k: &K) -> R<String> {
        self.block(stmts, env, exp, k)
    }

    fn match_k(&self, m: &syn::ExprMatch, env: &Env, exp: Option<&Ty>, k0: &K) -> R<String> {
        let effectful = contains_return(&m.expr) || matches!(strip_parens(&m.expr), Expr::MethodCall(r) if self.mut_methods.contains(&r.method.to_string()));
        if effectful {
            // the scrutinee has effects (`self.get_byte().ok_or(E)?`): evaluate it first
            let cont = |v: Val| -> R<String> {
                let mut env2 = env.clone();
                env2.vars.push(("__tr_scrut".to_string(), v.t.clone(), v.ty.clone()));
                let mut m2 = m.clone();
                m2.expr = Box::new(syn::parse_quote!(__tr_scrut));
                self.match_k(&m2, &env2, exp, k0)
            };
            return self.eval_k(&m.expr, env, None, &cont);
        }
        let scrut = self.expr(&m.expr, env, None)?;
        let mut arms = Vec::new();
        // the type of the first arms is the expected type of the later ones (`panic!()` arms need it)
        let seen: RefCell<Option<Ty>> = RefCell::new(exp.cloned());
        let kk = |v: Val| -> R<String> {
            if seen.borrow().is_none() && v.ty != Ty::Unknown && v.ty != Ty::Unit {
                *seen.borrow_mut() = Some(v.ty.strip_into().clone());
            }
            k0(v)
        };
        let k: &K = &kk;
        match scrut.ty.strip_into().clone() {
            Ty::Named(tn) => {
                let variants = match &self.ctx.types[&tn].kind {
                    TypeKind::Enum { variants } => variants.clone(),
                    _ => return self.match_guard_chain(m, &scrut, env, exp, k),
                };
                for arm in &m.arms {
                    let (pat_s, env2, pre) = self.variant_pat(&arm.pat, &variants, &tn, env)?;
                    let cur = seen.borrow().clone();
                    let mut body = self.block(&[Stmt::Expr((*arm.body).clone(), None)], &env2, cur.as_ref(), k)?;
                    if let Some((_, g)) = &arm.guard {
                        // `PAT if G => A, ..., _ => B`: when the guard fails the value falls to the final `_` arm
                        let last = m.arms.last().unwrap();
                        if !matches!(last.pat, Pat::Wild(_)) || last.guard.is_some() || m.arms.iter().filter(|a| a.guard.is_some()).count() != 1 {
                            return self.err(arm, "untranslatable: match guard (only `PAT if G => .., _ => ..` is supported)");
                        }
                        let gv = self.expr(g, &env2, Some(&Ty::Bool))?;
                        self.check_ty(&gv.ty, &Ty::Bool, "match guard")?;
                        let cur2 = seen.borrow().clone();
                        let fb = self.block(&[Stmt::Expr((*last.body).clone(), None)], env, cur2.as_ref(), k)?;
                        body = format!("(if {} then {} else {})", gv.t, body, fb);
                    }
                    arms.push(format!("| {} => {}{}", pat_s, pre, body));
                }
            }
            Ty::Opt(inner) => {
                let variants = vec![("Some".to_string(), "Some".to_string(), vec![(*inner).clone()]), ("None".to_string(), "None".to_string(), vec![])];
                for arm in &m.arms {
                    let (pat_s, env2, pre) = self.variant_pat(&arm.pat, &variants, "Option", env)?;
                    let cur = seen.borrow().clone();
                    let mut body = self.block(&[Stmt::Expr((*arm.body).clone(), None)], &env2, cur.as_ref(), k)?;
                    if let Some((_, g)) = &arm.guard {
                        // `PAT if G => A, ..., _ => B`: when the guard fails the value falls to the final `_` arm
                        let last = m.arms.last().unwrap();
                        if !matches!(last.pat, Pat::Wild(_)) || last.guard.is_some() || m.arms.iter().filter(|a| a.guard.is_some()).count() != 1 {
                            return self.err(arm, "untranslatable: match guard (only `PAT if G => .., _ => ..` is supported)");
                        }
                        let gv = self.expr(g, &env2, Some(&Ty::Bool))?;
                        self.check_ty(&gv.ty, &Ty::Bool, "match guard")?;
                        let cur2 = seen.borrow().clone();
                        let fb = self.block(&[Stmt::Expr((*last.body).clone(), None)], env, cur2.as_ref(), k)?;
                        body = format!("(if {} then {} else {})", gv.t, body, fb);
                    }
                    arms.push(format!("| {} => {}{}", pat_s, pre, body));
                }
            }
            _ => return self.match_guard_chain(m, &scrut, env, exp, k),
        }
        Ok(format!("(match {} with\n  {}\n  end)", scrut.t, arms.join("\n  ")))
    }

    /// `match v { x if guard => a, ..., _ => z }`: a chain of conditionals on the bound value
    fn match_guard_chain(&self, m: &syn::ExprMatch, scrut: &Val, env: &Env, exp: Option<&Ty>, k: &K) -> R<String> {
        let t = scrut.ty.strip_into().clone();
        if t == Ty::Int {
            // `match c { b'm' | b'M' => .., b'z' => .., _ => .. }`: tests in source order
            fn lits(tr: &Tr, p: &Pat, out: &mut Vec<String>) -> R<()> {
                match p {
                    Pat::Lit(l) => {
                        let e = Expr::Lit(l.clone());
                        let v = tr.expr(&e, &Env::new(), Some(&Ty::Int))?;
                        out.push(v.t);
                        Ok(())
                    }
                    Pat::Or(o) => {
                        for c in &o.cases {
                            lits(tr, c, out)?;
                        }
                        Ok(())
                    }
                    Pat::Paren(q) => lits(tr, &q.pat, out),
                    _ => tr.err(p, "untranslatable: pattern in a match on an integer"),
                }
            }
            let mut out = String::new();
            let mut closes = 0;
            let n = m.arms.len();
            for (i, arm) in m.arms.iter().enumerate() {
                if arm.guard.is_some() {
                    return self.err(arm, "untranslatable: match guard");
                }
                let body = self.block(&[Stmt::Expr((*arm.body).clone(), None)], env, exp, k)?;
                if matches!(arm.pat, Pat::Wild(_)) {
                    if i + 1 != n {
                        return self.err(arm, "untranslatable: `_` arm that is not the last");
                    }
                    out.push_str(&body);
                } else {
                    if i + 1 == n {
                        return self.err(m, "untranslatable: match on an integer without a final `_` arm");
                    }
                    let mut ls = Vec::new();
                    lits(self, &arm.pat, &mut ls)?;
                    let test = ls.iter().map(|l| format!("(Z.eqb {} {})", scrut.t, l)).collect::<Vec<_>>().join(" || ");
                    out.push_str(&format!("(if ({}) then\n  {}\n  else\n  ", test, body));
                    closes += 1;
                }
            }
            for _ in 0..closes {
                out.push(')');
            }
            return Ok(out);
        }
        let all_guarded = m.arms.iter().enumerate().all(|(i, a)| match (&a.pat, &a.guard) {
            (Pat::Ident(pi), Some(_)) => pi.subpat.is_none() && pi.by_ref.is_none(),
            (Pat::Wild(_), None) => i + 1 == m.arms.len(),
            _ => false,
        });
        if !all_guarded || m.arms.is_empty() || m.arms.last().unwrap().guard.is_some() {
            return self.err(m, format!("untranslatable: match on type {}", t.show()));
        }
        let mut out = String::new();
        let mut closes = 0;
        for arm in &m.arms {
            match (&arm.pat, &arm.guard) {
                (Pat::Ident(pi), Some((_, g))) => {
                    let (env2, c) = self.bind(env, &pi.ident.to_string(), t.clone());
                    let gv = self.expr(g, &env2, Some(&Ty::Bool))?;
                    self.check_ty(&gv.ty, &Ty::Bool, "match guard")?;
                    let body = self.block(&[Stmt::Expr((*arm.body).clone(), None)], &env2, exp, k)?;
                    // the binding scopes over guard and body only
                    out.push_str(&format!("(if (let {} := {} in {}) then (let {} := {} in {}) else ", c, scrut.t, gv.t, c, scrut.t, body));
                    closes += 1;
                }
                (Pat::Wild(_), None) => {
                    let body = self.expr_k(&arm.body, env, exp, k)?;
                    out.push_str(&body);
                }
                _ => unreachable!(),
            }
        }
        for _ in 0..closes {
            out.push(')');
        }
        Ok(out)
    }

    fn variant_pat(&self, p: &Pat, variants: &[(String, String, Vec<Ty>)], tn: &str, env: &Env) -> R<(String, Env, String)> {
        match p {
            Pat::Wild(_) => Ok(("_".into(), env.clone(), String::new())),
            Pat::Reference(r) => self.variant_pat(&r.pat, variants, tn, env),
            Pat::Paren(r) => self.variant_pat(&r.pat, variants, tn, env),
            Pat::Ident(pi) if pi.subpat.is_none() => {
                let n = pi.ident.to_string();
                match variants.iter().find(|v| v.0 == n && v.2.is_empty()) {
                    Some(v) => Ok((v.1.clone(), env.clone(), String::new())),
                    None => self.err(p, "untranslatable: binding pattern as a match arm"),
                }
            }
            Pat::Path(pp) => {
                let n = pp.path.segments.last().unwrap().ident.to_string();
                match variants.iter().find(|v| v.0 == n && v.2.is_empty()) {
                    Some(v) => Ok((v.1.clone(), env.clone(), String::new())),
                    None => self.err(p, format!("variant {} of {} is not in the spec", n, tn)),
                }
            }
            Pat::TupleStruct(ts) => {
                let n = ts.path.segments.last().unwrap().ident.to_string();
                let v = match variants.iter().find(|v| v.0 == n) {
                    Some(v) => v,
                    None => return self.err(p, format!("variant {} of {} is not in the spec", n, tn)),
                };
                if v.2.len() != ts.elems.len() {
                    return self.err(p, format!("variant {} has {} fields", n, v.2.len()));
                }
                let mut env2 = env.clone();
                let mut names = Vec::new();
                let mut pre = String::new();
                let mut later: Vec<(Pat, String, Ty)> = Vec::new();
                for (sub, ty) in ts.elems.iter().zip(v.2.iter()) {
                    let sub = strip_ref_pat(sub);
                    match sub {
                        Pat::Ident(pi) if pi.subpat.is_none() => {
                            let (e3, c) = self.bind(&env2, &pi.ident.to_string(), ty.clone());
                            env2 = e3;
                            names.push(c);
                        }
                        Pat::Wild(_) => names.push("_".into()),
                        other => {
                            let (e3, c) = self.bind(&env2, "tmp", ty.clone());
                            env2 = e3;
                            names.push(c.clone());
                            later.push((other.clone(), c, ty.clone()));
                        }
                    }
                }
                for (sub, c, ty) in later {
                    let (e3, s) = self.bind_pat(&sub, val(c, ty), &env2)?;
                    env2 = e3;
                    pre.push_str(&s);
                }
                Ok((format!("{} {}", v.1, names.join(" ")), env2, pre))
            }
            _ => self.err(p, "untranslatable: match pattern form"),
        }
    }

    fn literal(&self, at: &Expr, l: &syn::Lit, neg: bool, exp: Option<&Ty>) -> R<Val> {
        match l {
            syn::Lit::Float(f) => {
                if !(f.suffix().is_empty() || f.suffix() == "f64") {
                    return self.err(at, format!("untranslatable: literal suffix {}", f.suffix()));
                }
                let s = lit::float_literal(f.base10_digits(), neg).map_err(|m| format!("{} at {}:{}", m, self.file, line_of(at)))?;
                Ok(val(s, Ty::F64))
            }
            syn::Lit::Int(i) => {
                if i.suffix() == "f64" {
                    let s = lit::float_literal(i.base10_digits(), neg).map_err(|m| format!("{} at {}:{}", m, self.file, line_of(at)))?;
                    return Ok(val(s, Ty::F64));
                }
                let d = i.base10_digits();
                if matches!(exp, Some(Ty::Nat)) || (self.f.usize_nat && i.suffix().is_empty() && !matches!(exp, Some(Ty::Int))) {
                    if neg {
                        return self.err(at, "negative literal of type usize");
                    }
                    return Ok(val(format!("({})%nat", d), Ty::Nat));
                }
                Ok(val(if neg { format!("(-{})%Z", d) } else { format!("({})%Z", d) }, Ty::Int))
            }
            syn::Lit::Byte(b) => {
                if neg {
                    return self.err(at, "minus on a byte literal");
                }
                Ok(val(format!("({})%Z", b.value()), Ty::Int))
            }
            syn::Lit::Bool(b) => {
                if neg {
                    return self.err(at, "minus on a boolean");
                }
                Ok(val(if b.value { "true".into() } else { "false".into() }, Ty::Bool))
            }
            _ => self.err(at, "untranslatable: literal kind"),
        }
    }

    fn binary(&self, at: &Expr, op: &BinOp, l: Val, r: Val) -> R<Val> {
        let mut lt = l.ty.strip_into().clone();
        let mut rt = r.ty.strip_into().clone();
        // `f64: PartialOrd<f64>` only: the other operand of an ordering comparison with an f64 is an f64
        // (a closure parameter whose type was not inferred, e.g. `best_r.map(|best_r| d < best_r)` on `let mut best_r = None`;
        // Coq type-checks the generated term)
        if matches!(op, BinOp::Lt(_) | BinOp::Le(_) | BinOp::Gt(_) | BinOp::Ge(_)) {
            if lt == Ty::F64 && rt == Ty::Unknown {
                rt = Ty::F64;
            } else if rt == Ty::F64 && lt == Ty::Unknown {
                lt = Ty::F64;
            }
        }
        let sym =|s: &str, ty: Ty| -> R<Val> { Ok(val(format!("({} {} {})", l.t, s, r.t), ty)) };
        match (&lt, &rt) {
            (Ty::F64, Ty::F64) => match op {
                BinOp::Add(_) | BinOp::AddAssign(_) => sym("+", Ty::F64),
                BinOp::Sub(_) | BinOp::SubAssign(_) => sym("-", Ty::F64),
                BinOp::Mul(_) | BinOp::MulAssign(_) => sym("*", Ty::F64),
                BinOp::Div(_) | BinOp::DivAssign(_) => sym("/", Ty::F64),
                BinOp::Lt(_) => sym("<?", Ty::Bool),
                BinOp::Le(_) => sym("<=?", Ty::Bool),
                BinOp::Gt(_) => sym(">?", Ty::Bool),
                BinOp::Ge(_) => sym(">=?", Ty::Bool),
                BinOp::Eq(_) => sym("=?", Ty::Bool),
                BinOp::Ne(_) => sym("<>?", Ty::Bool),
                // f64 `%` (fmod) is not a Scalar operation: the models take it as a parameter
                BinOp::Rem(_) | BinOp::RemAssign(_) if self.f.extra_binders.iter().any(|b| b.0 == "frem_") => Ok(val(format!("(frem_ {} {})", l.t, r.t), Ty::F64)),
                _ => self.err(at, "untranslatable: operator on f64"),
            },
            (Ty::Bool, Ty::Bool) => match op {
                BinOp::And(_) => sym("&&", Ty::Bool),
                BinOp::Or(_) => sym("||", Ty::Bool),
                BinOp::BitXor(_) => Ok(val(format!("(xorb {} {})", l.t, r.t), Ty::Bool)),
                BinOp::BitAnd(_) => Ok(val(format!("(andb {} {})", l.t, r.t), Ty::Bool)),
                BinOp::BitOr(_) | BinOp::BitOrAssign(_) => Ok(val(format!("(orb {} {})", l.t, r.t), Ty::Bool)),
                BinOp::Eq(_) => Ok(val(format!("(Bool.eqb {} {})", l.t, r.t), Ty::Bool)),
                BinOp::Ne(_) => Ok(val(format!("(negb (Bool.eqb {} {}))", l.t, r.t), Ty::Bool)),
                _ => self.err(at, "untranslatable: operator on bool"),
            },
            (Ty::Nat, Ty::Nat) => {
                let f = |name: &str, ty: Ty| -> R<Val> { Ok(val(format!("({} {} {})", name, l.t, r.t), ty)) };
                match op {
                    // x + 1 is the successor (what the models write); otherwise Nat.add
                    BinOp::Add(_) | BinOp::AddAssign(_) if r.t == "(1)%nat" => Ok(val(format!("(S {})", l.t), Ty::Nat)),
                    BinOp::Add(_) | BinOp::AddAssign(_) => f("Nat.add", Ty::Nat),
                    // usize subtraction panics on underflow in debug builds and wraps in release builds; truncated here
                    BinOp::Sub(_) | BinOp::SubAssign(_) => f("Nat.sub", Ty::Nat),
                    BinOp::Mul(_) | BinOp::MulAssign(_) => f("Nat.mul", Ty::Nat),
                    BinOp::Rem(_) | BinOp::RemAssign(_) => f("Nat.modulo", Ty::Nat),
                    BinOp::Lt(_) => f("Nat.ltb", Ty::Bool),
                    BinOp::Le(_) => f("Nat.leb", Ty::Bool),
                    BinOp::Gt(_) => Ok(val(format!("(Nat.ltb {} {})", r.t, l.t), Ty::Bool)),
                    BinOp::Ge(_) => Ok(val(format!("(Nat.leb {} {})", r.t, l.t), Ty::Bool)),
                    BinOp::Eq(_) => f("Nat.eqb", Ty::Bool),
                    BinOp::Ne(_) => Ok(val(format!("(negb (Nat.eqb {} {}))", l.t, r.t), Ty::Bool)),
                    _ => self.err(at, "untranslatable: operator on usize"),
                }
            }
            (Ty::Int, Ty::Int) => {
                let f = |name: &str, ty: Ty| -> R<Val> { Ok(val(format!("({} {} {})", name, l.t, r.t), ty)) };
                match op {
                    BinOp::Add(_) | BinOp::AddAssign(_) => f("Z.add", Ty::Int),
                    BinOp::Sub(_) | BinOp::SubAssign(_) => f("Z.sub", Ty::Int),
                    BinOp::Mul(_) | BinOp::MulAssign(_) => f("Z.mul", Ty::Int),
                    BinOp::Lt(_) => f("Z.ltb", Ty::Bool),
                    BinOp::Le(_) => f("Z.leb", Ty::Bool),
                    BinOp::Gt(_) => f("Z.gtb", Ty::Bool),
                    BinOp::Ge(_) => f("Z.geb", Ty::Bool),
                    BinOp::Eq(_) => f("Z.eqb", Ty::Bool),
                    BinOp::Ne(_) => Ok(val(format!("(negb (Z.eqb {} {}))", l.t, r.t), Ty::Bool)),
                    _ => self.err(at, "untranslatable: operator on integers"),
                }
            }
            _ => {
                let tr = match op {
                    BinOp::Add(_) | BinOp::AddAssign(_) => "Add",
                    BinOp::Sub(_) | BinOp::SubAssign(_) => "Sub",
                    BinOp::Mul(_) | BinOp::MulAssign(_) => "Mul",
                    BinOp::Div(_) | BinOp::DivAssign(_) => "Div",
                    BinOp::Eq(_) | BinOp::Ne(_) => {
                        // Option<X> with a derived equality on X
                        if let (Ty::Opt(a), Ty::Opt(b)) = (&lt, &rt) {
                            let xn = match (&**a, &**b) {
                                (Ty::Named(x), Ty::Named(y)) if x == y => Some(x.clone()),
                                (Ty::Named(x), Ty::Unknown) | (Ty::Unknown, Ty::Named(x)) => Some(x.clone()),
                                _ => None,
                            };
                            if let Some(eqf) = xn.and_then(|x| self.ctx.derived_eq.get(&x).cloned()) {
                                let t = format!("(match {}, {} with Some tr_a, Some tr_b => {} tr_a tr_b | None, None => true | _, _ => false end)", l.t, r.t, eqf);
                                return Ok(val(if matches!(op, BinOp::Ne(_)) { format!("(negb {})", t) } else { t }, Ty::Bool));
                            }
                        }
                        if let (Ty::Named(a), Ty::Named(b)) = (&lt, &rt) {
                            if a == b {
                                if let Some(eqf) = self.ctx.derived_eq.get(a) {
                                    let t = format!("({} {} {})", eqf, l.t, r.t);
                                    return Ok(val(if matches!(op, BinOp::Ne(_)) { format!("(negb {})", t) } else { t }, Ty::Bool));
                                }
                            }
                        }
                        return self.err(at, format!("untranslatable: `==` on {} and {}", lt.show(), rt.show()));
                    }
                    _ => return self.err(at, format!("untranslatable: operator on {} and {}", lt.show(), rt.show())),
                };
                let ln = match &lt {
                    Ty::Named(n) => n.clone(),
                    Ty::F64 => "f64".to_string(),
                    t => return self.err(at, format!("untranslatable: operator {} on {} and {}", tr, t.show(), rt.show())),
                };
                match self.find_op(tr, &ln, Some(&rt)) {
                    Some(i) => self.emit_call(at, i, vec![l, r]),
                    None => self.err(at, format!("untranslatable: no `impl {}<{}> for {}` in the spec", tr, rt.show(), ln)),
                }
            }
        }
    }

    fn find_op(&self, tr: &str, lhs: &str, rhs: Option<&Ty>) -> Option<usize> {
        for (i, f) in self.ctx.fns.iter().enumerate() {
            if f.trait_base.as_deref() != Some(tr) || f.impl_ty.as_deref() != Some(lhs) {
                continue;
            }
            match rhs {
                None => return Some(i),
                Some(r) => {
                    let arg = f.trait_arg.clone().unwrap_or_else(|| f.self_ty.clone().unwrap_or(Ty::Unknown));
                    if &arg == r {
                        return Some(i);
                    }
                }
            }
        }
        None
    }

    fn coerce(&self, at: &Expr, v: Val, want: &Ty) -> R<Val> {
        if self.compatible(&v.ty, want) {
            Ok(v)
        } else {
            self.err(at, format!("type {} where {} is expected", v.ty.show(), want.show()))
        }
    }

    /// Call spec function `i` with already translated arguments.
    fn emit_call(&self, at: &Expr, i: usize, args: Vec<Val>) -> R<Val> {
        let f = &self.ctx.fns[i];
        if let Some(e) = &f.load_error {
            return Err(format!("callee not found: {}", e));
        }
        if f.is_const {
            let head = self.head_of(i);
            return Ok(val(head, f.ret.clone()));
        }
        if args.len() != f.params.len() {
            return self.err(at, format!("call of {} with {} arguments, expected {}", f.label, args.len(), f.params.len()));
        }
        let mut ts = Vec::new();
        for (a, p) in args.iter().zip(f.params.iter()) {
            if p.ty == Ty::Range {
                if a.ty == Ty::Tuple(vec![Ty::F64, Ty::F64]) {
                    // a stored range (pair)
                    ts.push(format!("(fst {})", a.t));
                    ts.push(format!("(snd {})", a.t));
                    continue;
                }
                if a.ty != Ty::Range {
                    return self.err(at, format!("argument `{}` of {}: expected a range", p.name, f.label));
                }
                ts.push(a.t.clone());
                ts.push(a.t2.clone().unwrap_or_default());
                continue;
            }
            if !self.compatible(&a.ty, &p.ty) {
                return self.err(at, format!("argument `{}` of {}: type {} where {} is expected", p.name, f.label, a.ty.show(), p.ty.show()));
            }
            ts.push(a.t.clone());
        }
        if f.identity_coeffs {
            // shape checked in main: `fn as_coeffs(self) -> [f64; N] { self.0 }`
            if let Some(Ty::Named(tn)) = args.get(0).map(|a| &a.ty) {
                return Ok(val(ts[0].clone(), Ty::ArrayOf(tn.clone())));
            }
            return self.err(at, "untranslatable: coefficient accessor on a non-struct");
        }
        if f.identity_ctor {
            // shape checked in main: `fn new(c: [f64; N]) -> Self { Self(c) }`
            if let Ty::Named(tn) = &f.ret {
                if let TypeKind::ArrayNewtype { ctor, .. } = &self.ctx.types[tn].kind {
                    if let Some(Ty::Array(..)) = args.get(0).map(|a| &a.ty) {
                        return Ok(val(format!("({} {})", ctor, ts[0]), f.ret.clone()));
                    }
                }
            }
            return self.err(at, format!("untranslatable: call of identity constructor {} with a non-literal array", f.label));
        }
        let cur = self.cur_call.borrow_mut().take();
        if !f.mut_params.is_empty() {
            match cur {
                Some((true, exprs)) if exprs.len() == f.params.len() => {
                    let places: Vec<Expr> = f.mut_params.iter().map(|&j| exprs[j].clone()).collect();
                    *self.mut_places.borrow_mut() = Some(places);
                }
                _ => return self.err(at, format!("untranslatable: call of {} (it has `&mut` parameters) inside an expression", f.label)),
            }
        }
        // per-parameter argument text (a range takes two slots)
        let mut per_param: Vec<String> = Vec::new();
        {
            let mut it = ts.iter();
            for p in &f.params {
                if p.ty == Ty::Range {
                    let a = it.next().cloned().unwrap_or_default();
                    let b = it.next().cloned().unwrap_or_default();
                    per_param.push(format!("{} {}", a, b));
                } else {
                    per_param.push(it.next().cloned().unwrap_or_default());
                }
            }
        }
        let template = f.call.clone().or_else(|| if f.model.is_some() && !f.call_gen { f.model_app.clone() } else { None });
        if let Some(tpl) = template {
            let mut t = tpl;
            for (j, a) in per_param.iter().enumerate().rev() {
                t = t.replace(&format!("${}", j), a);
            }
            self.check_ambient_use(at, &t, f)?;
            return Ok(val(format!("({})", t), f.ret_full()));
        }
        let head = self.head_of(i);
        let mut amb: Vec<String> = Vec::new();
        if f.model.is_none() || f.call_gen {
            // a generated callee takes the ambient binders of its state types first
            for p in &f.params {
                if let Ty::Named(n) = p.ty.strip_into() {
                    for b in &self.ctx.types[n].ambient_binders {
                        if !amb.contains(&b.0) {
                            if !self.ambient.borrow().iter().any(|x| x.0 == b.0) {
                                return self.err(at, format!("untranslatable: call of {} needs the ambient `{}` which is not in scope", f.label, b.0));
                            }
                            amb.push(b.0.clone());
                        }
                    }
                }
            }
        }
        amb.extend(ts);
        Ok(val(format!("({} {})", head, amb.join(" ")), f.ret_full()))
    }

    /// a call template may mention ambient binders (`dashes_`, `init_`, ...): they must be in scope
    fn check_ambient_use(&self, at: &Expr, t: &str, f: &FnInfo) -> R<()> {
        for (_, ti) in self.ctx.types.iter() {
            for b in &ti.ambient_binders {
                let used = t.split(|c: char| !(c.is_alphanumeric() || c == '_')).any(|w| w == b.0);
                if used && !self.ambient.borrow().iter().any(|x| x.0 == b.0) {
                    return self.err(at, format!("untranslatable: call of {} needs the ambient `{}` which is not in scope", f.label, b.0));
                }
            }
        }
        Ok(())
    }

    fn head_of(&self, i: usize) -> String {
        let f = &self.ctx.fns[i];
        match &f.model {
            Some(m) if !f.call_gen => m.clone(),
            _ => {
                self.deps.borrow_mut().insert(i);
                f.gen.clone()
            }
        }
    }

    fn args_for(&self, i: usize, first: Option<Val>, args: &syn::punctuated::Punctuated<Expr, syn::token::Comma>, env: &Env, at: &Expr) -> R<Vec<Val>> {
        let f = &self.ctx.fns[i];
        let mut out = Vec::new();
        let mut pi = 0;
        if let Some(v) = first {
            out.push(v);
            pi = 1;
        }
        if args.len() + pi != f.params.len() {
            return self.err(at, format!("call of {} with {} arguments, expected {}", f.label, args.len() + pi, f.params.len()));
        }
        for a in args {
            let want = f.params[pi].ty.clone();
            let v = if let (Ty::Array(_, n), Expr::Array(arr)) = (&want, a) {
                // array literal handed to an identity constructor
                if arr.elems.len() != *n {
                    return self.err(a, "array literal of the wrong length");
                }
                let mut ts = Vec::new();
                for x in &arr.elems {
                    let v = self.expr(x, env, Some(&Ty::F64))?;
                    self.check_ty(&v.ty, &Ty::F64, "array element")?;
                    ts.push(v.t);
                }
                val(ts.join(" "), want.clone())
            } else {
                self.expr(a, env, Some(&want))?
            };
            out.push(v);
            pi += 1;
        }
        Ok(out)
    }

    fn pick(&self, cands: &[usize]) -> Option<usize> {
        // inherent methods win over trait methods, as in Rust
        cands.iter().copied().find(|&i| self.ctx.fns[i].trait_str.is_none()).or_else(|| if cands.len() == 1 { Some(cands[0]) } else { None })
    }

    fn path_expr(&self, e: &Expr, p: &syn::ExprPath, env: &Env, exp: Option<&Ty>) -> R<Val> {
        let segs: Vec<String> = p.path.segments.iter().map(|s| s.ident.to_string()).collect();
        if segs.len() == 1 {
            let n = &segs[0];
            if let Some((_, c, ty)) = env.get(n) {
                if *ty == Ty::Range {
                    let mut it = c.split(' ');
                    let a = it.next().unwrap_or("").to_string();
                    let b = it.next().unwrap_or("").to_string();
                    return Ok(Val { t: a, ty: Ty::Range, t2: Some(b) });
                }
                return Ok(val(c.clone(), ty.clone()));
            }
            if n == "None" {
                let ty = match exp {
                    Some(Ty::Opt(t)) => Ty::Opt(t.clone()),
                    _ => Ty::Opt(Box::new(Ty::Unknown)),
                };
                return Ok(val("None".into(), ty));
            }
            // a constant of the enclosing module (free `const`)
            let c = self.ctx.lookup("", n);
            if let Some(i) = c.into_iter().find(|&i| self.ctx.fns[i].is_const) {
                return self.emit_call(e, i, vec![]);
            }
            if let Some(c) = self.ctx.consts.get(n) {
                return Ok(val(c.clone(), Ty::F64));
            }
            return self.err(e, format!("untranslatable: unknown name `{}`", n));
        }
        // `core::f64::consts::PI`, `f64::EPSILON`
        if segs.len() >= 2 && (segs[segs.len() - 2] == "consts" || segs[segs.len() - 2] == "f64") {
            let key = if segs[segs.len() - 2] == "f64" { format!("f64::{}", segs[segs.len() - 1]) } else { segs[segs.len() - 1].clone() };
            if let Some(c) = self.ctx.consts.get(&key) {
                return Ok(val(c.clone(), Ty::F64));
            }
        }
        if segs.len() == 2 {
            let tn = if segs[0] == "Self" {
                match &self.f.self_ty {
                    Some(Ty::Named(n)) => n.clone(),
                    Some(Ty::F64) => "f64".into(),
                    _ => return self.err(e, "untranslatable: `Self` path"),
                }
            } else {
                segs[0].clone()
            };
            // unit enum variant
            if let Some(ti) = self.ctx.types.get(&tn) {
                if let TypeKind::Enum { variants } = &ti.kind {
                    if let Some(v) = variants.iter().find(|v| v.0 == segs[1] && v.2.is_empty()) {
                        return Ok(val(v.1.clone(), Ty::Named(tn)));
                    }
                }
            }
            // associated constant
            let c = self.ctx.lookup(&tn, &segs[1]);
            if let Some(i) = c.into_iter().find(|&i| self.ctx.fns[i].is_const) {
                return self.emit_call(e, i, vec![]);
            }
            return self.err(e, format!("untranslatable: path `{}::{}` (not in the spec)", tn, segs[1]));
        }
        self.err(e, format!("untranslatable: path `{}`", norm_tokens(p)))
    }

    fn call(&self, e: &Expr, c: &syn::ExprCall, env: &Env, exp: Option<&Ty>) -> R<Val> {
        let p = match &*c.func {
            Expr::Path(p) => p,
            _ => return self.err(e, "untranslatable: call of a computed function"),
        };
        let segs: Vec<String> = p.path.segments.iter().map(|s| s.ident.to_string()).collect();
        if segs.len() >= 2 && segs[segs.len() - 2] == "mem" && segs[segs.len() - 1] == "replace" && c.args.len() == 2 {
            // the old value; the assignment is hoisted in front of the expression being translated
            if self.hoist.borrow().is_none() {
                return self.err(e, "untranslatable: `mem::replace` in this position");
            }
            let old = self.expr(&c.args[0], env, None)?;
            let newv = self.expr(&c.args[1], env, Some(&old.ty))?;
            self.check_ty(&newv.ty, &old.ty, "replacement value")?;
            let t = self.tmp(env);
            let (name, whole) = self.update_place(&c.args[0], newv.t, env)?;
            self.hoist.borrow_mut().as_mut().unwrap().push(format!("let {} := {} in\n  let {} := {} in\n  ", t, old.t, name, whole));
            return Ok(val(t, old.ty));
        }
        if segs.len() == 1 && c.args.is_empty() {
            if let Some((_, _, Ty::Thunk(id))) = env.get(&segs[0]) {
                let body = self.thunks.borrow()[*id].clone();
                if contains_return(&body) {
                    return self.err(e, "untranslatable: control flow inside a stored closure");
                }
                let muts = self.mutated_outer(&body, env)?;
                if !muts.is_empty() {
                    return self.err(e, "untranslatable: stored closure with effects");
                }
                return self.expr(&body, env, exp);
            }
        }
        if segs.len() == 1 {
            let n = &segs[0];
            if (n == "Ok" || n == "Err") && c.args.len() == 1 {
                let want = match exp {
                    Some(Ty::Res(a, e)) => Some(((**a).clone(), (**e).clone())),
                    _ => match &self.f.ret {
                        Ty::Res(a, e) => Some(((**a).clone(), (**e).clone())),
                        _ => None,
                    },
                };
                let (wa, we) = match want {
                    Some(x) => x,
                    None => return self.err(e, "untranslatable: `Ok`/`Err` where the Result type is not known"),
                };
                let en = match &we {
                    Ty::Named(x) => x.clone(),
                    t => return self.err(e, format!("untranslatable: Result with error type {}", t.show())),
                };
                let ctors = match self.ctx.results.get(&en) {
                    Some(r) => r.clone(),
                    None => return self.err(e, format!("untranslatable: Result with error type {} (not in the spec)", en)),
                };
                if n == "Ok" {
                    let v = self.expr(&c.args[0], env, Some(&wa))?;
                    let v = self.coerce(e, v, &wa)?;
                    return Ok(val(format!("({} {})", ctors.1, v.t), Ty::Res(Box::new(v.ty.strip_into().clone()), Box::new(we))));
                } else {
                    let v = self.expr(&c.args[0], env, Some(&we))?;
                    let v = self.coerce(e, v, &we)?;
                    return Ok(val(format!("({} {})", ctors.2, v.t), Ty::Res(Box::new(wa), Box::new(we))));
                }
            }
            if n == "Some" && c.args.len() == 1 {
                let inner = match exp {
                    Some(Ty::Opt(t)) => Some((**t).clone()),
                    _ => None,
                };
                let v = self.expr(&c.args[0], env, inner.as_ref())?;
                return Ok(val(format!("(Some {})", v.t), Ty::Opt(Box::new(v.ty.strip_into().clone()))));
            }
            // tuple-struct constructor of a spec type
            if let Some(ti) = self.ctx.types.get(n) {
                return self.ctor_call(e, n, ti, &c.args, env);
            }
            if n == "Self" {
                if let Some(Ty::Named(tn)) = &self.f.self_ty {
                    if let Some(ti) = self.ctx.types.get(tn) {
                        return self.ctor_call(e, tn, ti, &c.args, env);
                    }
                }
            }
            // transparent newtypes do not appear in ctx.types lookups by Named, handle by name
            let cands = self.ctx.lookup("", n);
            let cands: Vec<usize> = cands.into_iter().filter(|&i| !self.ctx.fns[i].is_const).collect();
            if cands.len() == 1 {
                let permitted = self.allow_mut.replace(false);
                let args = self.args_for(cands[0], None, &c.args, env, e)?;
                *self.cur_call.borrow_mut() = Some((permitted, c.args.iter().cloned().collect()));
                return self.emit_call(e, cands[0], args);
            }
            return self.err(e, format!("untranslatable: call of `{}` (not in the spec)", n));
        }
        if segs.len() == 2 {
            let tn = if segs[0] == "Self" {
                match &self.f.self_ty {
                    Some(Ty::Named(n)) => n.clone(),
                    Some(Ty::F64) => "f64".into(),
                    _ => return self.err(e, "untranslatable: `Self::` call"),
                }
            } else {
                segs[0].clone()
            };
            // enum variant constructor
            if let Some(ti) = self.ctx.types.get(&tn) {
                if let TypeKind::Enum { variants } = &ti.kind {
                    if let Some(v) = variants.iter().find(|v| v.0 == segs[1]) {
                        if v.2.len() != c.args.len() {
                            return self.err(e, format!("variant {} takes {} arguments", v.0, v.2.len()));
                        }
                        let mut ts = Vec::new();
                        for (a, ty) in c.args.iter().zip(v.2.iter()) {
                            let x = self.expr(a, env, Some(ty))?;
                            let x = self.coerce(a, x, ty)?;
                            ts.push(x.t);
                        }
                        return Ok(val(format!("({} {})", v.1, ts.join(" ")), Ty::Named(tn)));
                    }
                }
            }
            if segs[1] == "default" && c.args.is_empty() {
                if let Some(d) = self.ctx.defaults.get(&tn) {
                    if let Some(ti) = self.ctx.types.get(&tn) {
                        let ty = match &ti.kind {
                            TypeKind::Transparent(inner) if *inner != Ty::Unknown => inner.clone(),
                            _ => Ty::Named(tn),
                        };
                        return Ok(val(d.clone(), ty));
                    }
                }
            }
            if (tn == "ArrayVec" || tn == "Vec") && segs[1] == "with_capacity" && c.args.len() == 1 {
                let ty = match exp {
                    Some(Ty::List(t)) => Ty::List(t.clone()),
                    _ => Ty::List(Box::new(Ty::Unknown)),
                };
                return Ok(val("[]".into(), ty));
            }
            if (tn == "ArrayVec" || tn == "Vec") && (segs[1] == "new" || segs[1] == "default") && c.args.is_empty() {
                let ty = match exp {
                    Some(Ty::List(t)) => Ty::List(t.clone()),
                    _ => Ty::List(Box::new(Ty::Unknown)),
                };
                return Ok(val("[]".into(), ty));
            }
            let cands: Vec<usize> = self.ctx.lookup(&tn, &segs[1]).into_iter().filter(|&i| !self.ctx.fns[i].is_const).collect();
            if let Some(i) = self.pick(&cands) {
                let permitted = self.allow_mut.replace(false);
                let args = self.args_for(i, None, &c.args, env, e)?;
                *self.cur_call.borrow_mut() = Some((permitted, c.args.iter().cloned().collect()));
                return self.emit_call(e, i, args);
            }
            // `Trait::method(&x, ..)`: the method of the type of `x` from that trait
            if !self.ctx.types.contains_key(&tn) && !c.args.is_empty() {
                if let Ok(x) = self.expr(&c.args[0], env, None) {
                    if let Ty::Named(xn) = x.ty.strip_into().clone() {
                        let cands: Vec<usize> = self
                            .ctx
                            .lookup(&xn, &segs[1])
                            .into_iter()
                            .filter(|&i| {
                                let f = &self.ctx.fns[i];
                                f.has_self && (f.trait_base.as_deref() == Some(tn.as_str()) || f.label.contains(&format!(" as {}", tn)))
                            })
                            .collect();
                        if let Some(i) = self.pick(&cands) {
                            if c.args.len() != self.ctx.fns[i].params.len() {
                                return self.err(e, "call with the wrong number of arguments");
                            }
                            let mut args = vec![x];
                            for (a, p) in c.args.iter().zip(self.ctx.fns[i].params.iter()).skip(1) {
                                args.push(self.expr(a, env, Some(&p.ty))?);
                            }
                            return self.emit_call(e, i, args);
                        }
                    }
                }
            }
            return self.err(e, format!("untranslatable: call of `{}::{}` (not in the spec)", tn, segs[1]));
        }
        self.err(e, format!("untranslatable: call of `{}`", norm_tokens(p)))
    }

    fn ctor_call(&self, e: &Expr, tn: &str, ti: &TypeInfo, args: &syn::punctuated::Punctuated<Expr, syn::token::Comma>, env: &Env) -> R<Val> {
        match &ti.kind {
            TypeKind::ArrayNewtype { ctor, projs } => {
                if args.len() != 1 {
                    return self.err(e, "constructor arity");
                }
                match &args[0] {
                    Expr::Array(arr) => {
                        if arr.elems.len() != projs.len() {
                            return self.err(e, "array literal of the wrong length");
                        }
                        let mut ts = Vec::new();
                        for x in &arr.elems {
                            let v = self.expr(x, env, Some(&Ty::F64))?;
                            self.check_ty(&v.ty, &Ty::F64, "coefficient")?;
                            ts.push(v.t);
                        }
                        Ok(val(format!("({} {})", ctor, ts.join(" ")), Ty::Named(tn.to_string())))
                    }
                    _ => self.err(e, "untranslatable: coefficient constructor applied to a non-literal array"),
                }
            }
            TypeKind::Transparent(inner) => {
                if args.len() != 1 {
                    return self.err(e, "constructor arity");
                }
                let v = self.expr(&args[0], env, Some(inner))?;
                self.coerce(e, v, inner)
            }
            _ => self.err(e, format!("untranslatable: `{}(..)` constructor", tn)),
        }
    }

    fn method_call(&self, e: &Expr, mc: &syn::ExprMethodCall, env: &Env, exp: Option<&Ty>) -> R<Val> {
        let m = mc.method.to_string();
        let permitted = self.allow_mut.replace(false);
        // `(a..=b).contains(&x)` / `(a..b).contains(&x)` on f64
        if m == "contains" && mc.args.len() == 1 {
            if let Expr::Range(r) = strip_parens(&mc.receiver) {
                if let (Some(a), Some(b)) = (&r.start, &r.end) {
                    let a = self.expr(a, env, Some(&Ty::F64))?;
                    let b = self.expr(b, env, Some(&Ty::F64))?;
                    let x = self.expr(&mc.args[0], env, Some(&Ty::F64))?;
                    if a.ty == Ty::F64 && b.ty == Ty::F64 && x.ty == Ty::F64 {
                        let hi = if matches!(r.limits, syn::RangeLimits::Closed(_)) { "<=?" } else { "<?" };
                        return Ok(val(format!("(({} <=? {}) && ({} {} {}))", a.t, x.t, x.t, hi, b.t), Ty::Bool));
                    }
                }
                return self.err(e, "untranslatable: `contains` on this range");
            }
        }
        // `text.parse().map_err(|_| E)`: the number parser is a parameter (`num_of`), as in the hand model
        if m == "map_err" && mc.args.len() == 1 {
            if let Expr::MethodCall(inner) = strip_parens(&mc.receiver) {
                if inner.method == "parse" && inner.args.is_empty() {
                    let txt = self.expr(&inner.receiver, env, None)?;
                    let cl = match &mc.args[0] {
                        Expr::Closure(c) if c.inputs.len() == 1 && matches!(c.inputs[0], Pat::Wild(_)) => c,
                        _ => return self.err(e, "untranslatable: `map_err` with this closure"),
                    };
                    let ev = self.expr(&cl.body, env, None)?;
                    let (en, parse_fn) = match (&ev.ty, &txt.ty, self.ctx.consts.get("str::parse::<f64>")) {
                        (Ty::Named(x), Ty::List(t), Some(pf)) if **t == Ty::Int => (x.clone(), pf.clone()),
                        _ => return self.err(e, "untranslatable: `parse().map_err(..)` on these types"),
                    };
                    self.check_ambient_use(e, &parse_fn, self.f)?;
                    return match self.ctx.results.get(&en) {
                        Some(r) => Ok(val(format!("(match {} {} with Some tr_x => {} tr_x | None => {} {} end)", parse_fn, txt.t, r.1, r.2, ev.t), Ty::Res(Box::new(Ty::F64), Box::new(ev.ty.clone())))),
                        None => self.err(e, "untranslatable: Result error type not in the spec"),
                    };
                }
            }
        }
        let recv = self.expr(&mc.receiver, env, None)?;
        if recv.ty == Ty::Int && mc.args.is_empty() {
            if let Some(fname) = self.ctx.consts.get(&format!("u8::{}", m)) {
                return Ok(val(format!("({} {})", fname, recv.t), Ty::Bool));
            }
        }
        let spec_call = |i: usize, recv: Val| -> R<Val> {
            let args = self.args_for(i, Some(recv), &mc.args, env, e)?;
            let mut exprs: Vec<Expr> = vec![(*mc.receiver).clone()];
            exprs.extend(mc.args.iter().cloned());
            *self.cur_call.borrow_mut() = Some((permitted, exprs));
            self.emit_call(e, i, args)
        };
        // `.into()`
        if m == "into" && mc.args.is_empty() {
            return match &recv.ty {
                Ty::Into(x) => Ok(val(recv.t, (**x).clone())),
                t => match exp {
                    Some(w) if self.compatible(t, w) && *t != Ty::Unknown => Ok(val(recv.t, t.clone())),
                    Some(w) => {
                        // From<t> for w
                        if let (Ty::Named(wn), src) = (w.strip_into(), t) {
                            for (i, f) in self.ctx.fns.iter().enumerate() {
                                if f.trait_base.as_deref() == Some("From") && f.impl_ty.as_deref() == Some(wn.as_str()) && f.trait_arg.as_ref() == Some(src) {
                                    return self.emit_call(e, i, vec![recv]);
                                }
                            }
                        }
                        self.err(e, format!("untranslatable: `.into()` from {} to {} (no such `From` impl in the spec)", t.show(), w.show()))
                    }
                    None => {
                        // the target is not known here (rustc infers it from the uses): take the `From<t>` impl of
                        // the spec if there is exactly one; a wrong guess shows up as a type error further on
                        let c: Vec<usize> = self.ctx.fns.iter().enumerate().filter(|(_, f)| f.trait_base.as_deref() == Some("From") && f.trait_arg.as_ref() == Some(t)).map(|(i, _)| i).collect();
                        if c.len() == 1 {
                            return self.emit_call(e, c[0], vec![recv]);
                        }
                        self.err(e, format!("untranslatable: `.into()` on {} with unknown target type", t.show()))
                    }
                },
            };
        }
        // a method of `impl Trait for &'a [X]` in the spec
        if let Ty::List(el) = recv.ty.strip_into() {
            if let Ty::Named(en) = &**el {
                let cands: Vec<usize> = self.ctx.lookup(&format!("&'a[{}]", en), &m).into_iter().filter(|&i| self.ctx.fns[i].has_self).collect();
                if let Some(i) = self.pick(&cands) {
                    return spec_call(i, recv);
                }
            }
        }
        let recv = match recv.ty.strip_into() {
            Ty::Named(tn) if matches!(m.as_str(), "map" | "filter" | "sum" | "collect" | "flat_map" | "any" | "all" | "find_map") && self.ctx.lookup(tn, &m).is_empty() => self.drained(&recv).unwrap_or(recv),
            _ => recv,
        };
        let rty = recv.ty.strip_into().clone();
        match &rty {
            Ty::Named(tn) => {
                let cands: Vec<usize> = self.ctx.lookup(tn, &m).into_iter().filter(|&i| !self.ctx.fns[i].is_const && self.ctx.fns[i].has_self).collect();
                match self.pick(&cands) {
                    Some(i) => spec_call(i, recv),
                    None => self.err(e, format!("untranslatable: method `{}::{}` (not in the spec{})", tn, m, if cands.len() > 1 { ", ambiguous" } else { "" })),
                }
            }
            Ty::F64 => {
                // kurbo's own extension methods on f64 come from the spec
                let cands: Vec<usize> = self.ctx.lookup("f64", &m).into_iter().filter(|&i| self.ctx.fns[i].has_self).collect();
                if let Some(i) = self.pick(&cands) {
                    return spec_call(i, recv);
                }
                self.f64_method(e, &m, recv, mc, env)
            }
            Ty::List(elt) => {
                // methods of a transparent newtype over this list type (BezPath over Vec<PathEl>)
                for (tn, ti) in self.ctx.types.iter() {
                    if let TypeKind::Transparent(inner) = &ti.kind {
                        if *inner == rty {
                            let cands: Vec<usize> = self.ctx.lookup(tn, &m).into_iter().filter(|&i| !self.ctx.fns[i].is_const && self.ctx.fns[i].has_self).collect();
                            if let Some(i) = self.pick(&cands) {
                                return spec_call(i, recv);
                            }
                        }
                    }
                }
                let n = mc.args.len();
                match (m.as_str(), n) {
                    // the same elements in the same order (capacities are not modelled)
                    ("clone", 0) | ("iter", 0) | ("into_iter", 0) | ("copied", 0) | ("cloned", 0) | ("collect", 0) | ("elements", 0) | ("as_slice", 0) | ("to_vec", 0) | ("as_bytes", 0) => Ok(recv),
                    ("is_empty", 0) => Ok(val(format!("(match {} with [] => true | _ => false end)", recv.t), Ty::Bool)),
                    ("len", 0) => Ok(val(format!("(length {})", recv.t), Ty::Nat)),
                    ("get", 1) => {
                        let i = self.expr(&mc.args[0], env, Some(&Ty::Nat))?;
                        if i.ty != Ty::Nat {
                            return self.err(e, format!("untranslatable: list index of type {} (only `usize` mapped to nat)", i.ty.show()));
                        }
                        Ok(val(format!("(nth_error {} {})", recv.t, i.t), Ty::Opt(elt.clone())))
                    }
                    ("first", 0) => Ok(val(format!("(hd_error {})", recv.t), Ty::Opt(elt.clone()))),
                    ("rev", 0) => Ok(val(format!("(rev {})", recv.t), rty.clone())),
                    ("enumerate", 0) => Ok(val(format!("(combine (seq 0 (length {})) {})", recv.t, recv.t), Ty::List(Box::new(Ty::Tuple(vec![Ty::Nat, (**elt).clone()]))))),
                    ("last", 0) => Ok(val(format!("(last (map Some {}) None)", recv.t), Ty::Opt(elt.clone()))),
                    ("chain", 1) => {
                        let o = self.expr(&mc.args[0], env, Some(&rty))?;
                        match o.ty.clone() {
                            Ty::List(_) => Ok(val(format!("({} ++ {})", recv.t, o.t), rty.clone())),
                            // `.chain(Some(x))`: one more element
                            Ty::Opt(_) => Ok(val(format!("({} ++ match {} with Some tr_x => [tr_x] | None => [] end)", recv.t, o.t), rty.clone())),
                            t => self.err(e, format!("untranslatable: `chain` with a value of type {}", t.show())),
                        }
                    }
                    ("map", 1) | ("filter", 1) | ("find_map", 1) | ("any", 1) | ("all", 1) | ("flat_map", 1) => {
                        let (f, rt) = self.closure1(&mc.args[0], elt, env)?;
                        match m.as_str() {
                            "map" => Ok(val(format!("(map {} {})", f, recv.t), Ty::List(Box::new(rt)))),
                            "filter" if rt == Ty::Bool => Ok(val(format!("(filter {} {})", f, recv.t), rty.clone())),
                            "any" if rt == Ty::Bool => Ok(val(format!("(existsb {} {})", f, recv.t), Ty::Bool)),
                            "all" if rt == Ty::Bool => Ok(val(format!("(forallb {} {})", f, recv.t), Ty::Bool)),
                            "flat_map" => match rt {
                                Ty::List(_) => Ok(val(format!("(flat_map {} {})", f, recv.t), rt)),
                                t => self.err(e, format!("untranslatable: `flat_map` with a closure returning {}", t.show())),
                            },
                            "find_map" => match rt {
                                Ty::Opt(_) => Ok(val(format!("(tr_find_map {} {})", f, recv.t), rt)),
                                t => self.err(e, format!("untranslatable: `find_map` with a closure returning {}", t.show())),
                            },
                            _ => self.err(e, format!("untranslatable: `{}` with this closure", m)),
                        }
                    }
                    ("sum", 0) => match &**elt {
                        // Iterator::sum for integers starts from 0
                        Ty::Int => Ok(val(format!("(fold_left Z.add {} 0%Z)", recv.t), Ty::Int)),
                        // Iterator::sum for f64: a left fold of `+` from zero (the models start from +0.0; std has started from
                        // -0.0 since Rust 1.83, which differs only for an empty or all-(-0.0) sequence: the sign of the zero)
                        Ty::F64 => Ok(val(format!("(fold_left fadd {} (fofZ 0))", recv.t), Ty::F64)),
                        t => self.err(e, format!("untranslatable: `sum` of {}", t.show())),
                    },
                    _ => self.err(e, format!("untranslatable: method `{}` on {}", m, rty.show())),
                }
            }
            Ty::Opt(inner) => match (m.as_str(), mc.args.len()) {
                ("clone", 0) | ("copied", 0) | ("cloned", 0) => Ok(recv),
                ("is_some", 0) => Ok(val(format!("(match {} with Some _ => true | None => false end)", recv.t), Ty::Bool)),
                ("is_none", 0) => Ok(val(format!("(match {} with Some _ => false | None => true end)", recv.t), Ty::Bool)),
                ("map", 1) | ("filter", 1) | ("and_then", 1) => {
                    let (f, rt) = self.closure1(&mc.args[0], inner, env)?;
                    match m.as_str() {
                        "map" => Ok(val(format!("(match {} with Some tr_x => Some ({} tr_x) | None => None end)", recv.t, f), Ty::Opt(Box::new(rt)))),
                        "filter" if rt == Ty::Bool => Ok(val(format!("(match {} with Some tr_x => if {} tr_x then Some tr_x else None | None => None end)", recv.t, f), rty.clone())),
                        "and_then" if matches!(rt, Ty::Opt(_)) => Ok(val(format!("(match {} with Some tr_x => {} tr_x | None => None end)", recv.t, f), rt)),
                        _ => self.err(e, format!("untranslatable: `{}` with this closure", m)),
                    }
                }
                ("unwrap", 0) if **inner == Ty::Unknown && exp.is_some() && self.panic_default(exp.unwrap()).is_some() => {
                    // the payload type is only known from the context
                    let d = self.panic_default(exp.unwrap()).unwrap();
                    Ok(val(format!("(match {} with Some tr_x => tr_x | None => {} end)", recv.t, d), exp.unwrap().clone()))
                }
                ("unwrap", 0) => match self.panic_default(inner) {
                    // `None` panics; the spec's default for the type stands for the panic, as in the hand models
                    Some(d) => Ok(val(format!("(match {} with Some tr_x => tr_x | None => {} end)", recv.t, d), (**inner).clone())),
                    None => self.err(e, format!("untranslatable: `unwrap` of an option of {} (no panic default in the spec)", inner.show())),
                },
                ("ok_or", 1) => {
                    let ev = self.expr(&mc.args[0], env, None)?;
                    let en = match &ev.ty {
                        Ty::Named(x) => x.clone(),
                        t => return self.err(e, format!("untranslatable: `ok_or` with an error of type {}", t.show())),
                    };
                    match self.ctx.results.get(&en) {
                        Some(r) => Ok(val(format!("(match {} with Some tr_x => {} tr_x | None => {} {} end)", recv.t, r.1, r.2, ev.t), Ty::Res(inner.clone(), Box::new(ev.ty.clone())))),
                        None => self.err(e, format!("untranslatable: Result with error type {} (not in the spec)", en)),
                    }
                }
                ("unwrap_or_default", 0) => {
                    let d = match &**inner {
                        Ty::Named(n) => self.ctx.defaults.get(n).cloned(),
                        _ => None,
                    };
                    match d {
                        Some(d) => Ok(val(format!("(match {} with Some tr_x => tr_x | None => {} end)", recv.t, d), (**inner).clone())),
                        None => self.err(e, format!("untranslatable: `unwrap_or_default` of an option of {}", inner.show())),
                    }
                }
                ("unwrap_or", 1) => {
                    let d = self.expr(&mc.args[0], env, Some(inner))?;
                    self.check_ty(&d.ty, inner, "default value")?;
                    Ok(val(format!("(match {} with Some tr_x => tr_x | None => {} end)", recv.t, d.t), (**inner).clone()))
                }
                _ => self.err(e, format!("untranslatable: method `{}` on {}", m, rty.show())),
            },
            Ty::Bool | Ty::Int | Ty::Nat | Ty::Tuple(_) => {
                if m == "clone" && mc.args.is_empty() {
                    return Ok(recv);
                }
                if rty == Ty::Int && mc.args.len() == 1 && (m == "max" || m == "min") {
                    let o = self.expr(&mc.args[0], env, Some(&Ty::Int))?;
                    if o.ty == Ty::Int {
                        return Ok(val(format!("(Z.{} {} {})", m, recv.t, o.t), Ty::Int));
                    }
                }
                self.err(e, format!("untranslatable: method `{}` on {}", m, rty.show()))
            }
            t => self.err(e, format!("untranslatable: method `{}` on type {}", m, t.show())),
        }
    }

    fn f64_method(&self, e: &Expr, m: &str, recv: Val, mc: &syn::ExprMethodCall, env: &Env) -> R<Val> {
        let x = recv.t;
        let nargs = mc.args.len();
        let farg = |i: usize| -> R<String> {
            let v = self.expr(&mc.args[i], env, Some(&Ty::F64))?;
            if v.ty != Ty::F64 {
                return Err(format!("argument of `{}`: type {} where f64 is expected at {}:{}", m, v.ty.show(), self.file, line_of(e)));
            }
            Ok(v.t)
        };
        let un = |f: &str| -> R<Val> { Ok(val(format!("({} {})", f, x), Ty::F64)) };
        match (m, nargs) {
            ("abs", 0) => un("fabs"),
            ("sqrt", 0) => un("fsqrt"),
            ("floor", 0) => un("ffloor"),
            ("ceil", 0) => un("fceil"),
            ("round", 0) => un("fround"),
            ("trunc", 0) => un("ftrunc"),
            ("signum", 0) => un("fsignum"),
            ("sin", 0) => un("fsin"),
            ("cos", 0) => un("fcos"),
            ("tan", 0) => un("ftan"),
            ("cbrt", 0) => un("fcbrt"),
            ("acos", 0) => un("facos"),
            ("ln", 0) => un("fln"),
            ("recip", 0) => Ok(val(format!("(f1 / {})", x), Ty::F64)),
            // f64::to_radians: multiplication by the constant PI / 180.0
            ("to_radians", 0) => Ok(val(format!("({} * (fpi / (fofZ 180)))", x), Ty::F64)),
            ("is_finite", 0) => Ok(val(format!("(fis_finite {})", x), Ty::Bool)),
            ("is_nan", 0) => Ok(val(format!("(fis_nan {})", x), Ty::Bool)),
            ("sin_cos", 0) => Ok(val(format!("(fsin {}, fcos {})", x, x), Ty::Tuple(vec![Ty::F64, Ty::F64]))),
            ("min", 1) => Ok(val(format!("(fmin {} {})", x, farg(0)?), Ty::F64)),
            ("max", 1) => Ok(val(format!("(fmax {} {})", x, farg(0)?), Ty::F64)),
            ("copysign", 1) => Ok(val(format!("(fcopysign {} {})", x, farg(0)?), Ty::F64)),
            ("hypot", 1) => Ok(val(format!("(fhypot {} {})", x, farg(0)?), Ty::F64)),
            ("atan2", 1) => Ok(val(format!("(fatan2 {} {})", x, farg(0)?), Ty::F64)),
            ("powf", 1) => Ok(val(format!("(fpowf {} {})", x, farg(0)?), Ty::F64)),
            ("mul_add", 2) => Ok(val(format!("(ffma {} {} {})", x, farg(0)?, farg(1)?), Ty::F64)),
            ("powi", 1) => {
                let v = self.expr(&mc.args[0], env, Some(&Ty::Int))?;
                if v.ty != Ty::Int {
                    return self.err(e, "powi exponent is not an integer");
                }
                Ok(val(format!("(fpowi {} {})", x, v.t), Ty::F64))
            }
            _ => self.err(e, format!("untranslatable: f64 method `{}`", m)),
        }
    }
}

/// Syntactic test: does this `if`/`match`/block end in an expression whose value is its value?
fn yields_value(e: &Expr) -> bool {
    fn diverges(e: &Expr) -> bool {
        match e {
            Expr::Return(_) | Expr::Continue(_) | Expr::Break(_) => true,
            Expr::Block(b) => match b.block.stmts.last() {
                Some(Stmt::Expr(x, _)) => diverges(x),
                _ => false,
            },
            _ => false,
        }
    }
    match e {
        Expr::Block(b) => match b.block.stmts.last() {
            Some(Stmt::Expr(x, None)) => match x {
                Expr::Assign(_) | Expr::ForLoop(_) | Expr::While(_) | Expr::Loop(_) => false,
                Expr::Binary(bb) => compound_op(&bb.op).is_none(),
                Expr::MethodCall(mc) => !is_list_mutator(&mc.method.to_string()),
                Expr::If(_) | Expr::Match(_) | Expr::Block(_) => yields_value(x),
                _ => !diverges(x),
            },
            _ => false,
        },
        Expr::If(i) => {
            let then_e = Expr::Block(syn::ExprBlock { attrs: vec![], label: None, block: i.then_branch.clone() });
            match &i.else_branch {
                Some((_, eb)) => (yields_value(&then_e) && !diverges(&then_e)) || (!diverges(eb) && yields_value(eb)),
                None => false,
            }
        }
        Expr::Match(m) => m.arms.iter().any(|a| !diverges(&a.body) && match &*a.body {
            Expr::Block(_) | Expr::If(_) | Expr::Match(_) => yields_value(&a.body),
            Expr::Assign(_) => false,
            Expr::Binary(bb) => compound_op(&bb.op).is_none(),
            Expr::MethodCall(mc) => !is_list_mutator(&mc.method.to_string()),
            Expr::Call(_) => false,
            _ => true,
        }),
        _ => true,
    }
}

fn contains_replace(e: &Expr) -> bool {
    use syn::visit::Visit;
    struct V(bool);
    impl<'ast> Visit<'ast> for V {
        fn visit_expr_call(&mut self, c: &'ast syn::ExprCall) {
            if norm_tokens(&*c.func).ends_with("mem::replace") {
                self.0 = true;
            }
            syn::visit::visit_expr_call(self, c);
        }
        fn visit_expr_closure(&mut self, _: &'ast syn::ExprClosure) {}
        fn visit_item(&mut self, _: &'ast syn::Item) {}
    }
    let mut v = V(false);
    v.visit_expr(e);
    v.0
}

fn strip_parens(e: &Expr) -> &Expr {
    match e {
        Expr::Paren(p) => strip_parens(&p.expr),
        Expr::Group(p) => strip_parens(&p.expr),
        x => x,
    }
}

fn strip_paren_lit(e: &Expr) -> &Expr {
    match e {
        Expr::Paren(p) => strip_paren_lit(&p.expr),
        Expr::Group(p) => strip_paren_lit(&p.expr),
        x => x,
    }
}

fn strip_ref_pat(p: &Pat) -> &Pat {
    match p {
        Pat::Reference(r) => strip_ref_pat(&r.pat),
        Pat::Paren(r) => strip_ref_pat(&r.pat),
        x => x,
    }
}

fn is_simple_term(t: &str) -> bool {
    t.chars().all(|c| c.is_alphanumeric() || c == '_' || c == '\'')
}

fn is_list_mutator(m: &str) -> bool {
    matches!(m, "push" | "swap" | "sort_by" | "clear" | "truncate" | "pop" | "insert" | "extend" | "push_str" | "reserve")
}

fn compound_op(op: &BinOp) -> Option<&BinOp> {
    match op {
        BinOp::AddAssign(_) | BinOp::SubAssign(_) | BinOp::MulAssign(_) | BinOp::DivAssign(_) | BinOp::BitOrAssign(_) => Some(op),
        BinOp::RemAssign(_) | BinOp::BitXorAssign(_) | BinOp::BitAndAssign(_) | BinOp::ShlAssign(_) | BinOp::ShrAssign(_) => Some(op),
        _ => None,
    }
}

/// Does `e` contain a `return`, or a `break`/`continue` that leaves `e` (i.e. not inside a loop nested in `e`)?
pub fn contains_return(e: &Expr) -> bool {
    use syn::visit::Visit;
    struct V {
        found: bool,
        depth: usize,
    }
    impl<'ast> Visit<'ast> for V {
        fn visit_expr_return(&mut self, _: &'ast syn::ExprReturn) {
            self.found = true;
        }
        fn visit_expr_try(&mut self, _: &'ast syn::ExprTry) {
            self.found = true;
        }
        fn visit_expr_break(&mut self, _: &'ast syn::ExprBreak) {
            if self.depth == 0 {
                self.found = true;
            }
        }
        fn visit_expr_continue(&mut self, _: &'ast syn::ExprContinue) {
            if self.depth == 0 {
                self.found = true;
            }
        }
        fn visit_expr_for_loop(&mut self, x: &'ast syn::ExprForLoop) {
            self.depth += 1;
            syn::visit::visit_expr_for_loop(self, x);
            self.depth -= 1;
        }
        fn visit_expr_while(&mut self, x: &'ast syn::ExprWhile) {
            self.depth += 1;
            syn::visit::visit_expr_while(self, x);
            self.depth -= 1;
        }
        fn visit_expr_loop(&mut self, x: &'ast syn::ExprLoop) {
            self.depth += 1;
            syn::visit::visit_expr_loop(self, x);
            self.depth -= 1;
        }
        fn visit_expr_closure(&mut self, _: &'ast syn::ExprClosure) {}
        fn visit_item(&mut self, _: &'ast syn::Item) {}
    }
    let mut v = V { found: false, depth: 0 };
    v.visit_expr(e);
    v.found
}

fn root_var(e: &Expr) -> Option<String> {
    match e {
        Expr::Path(p) if p.path.segments.len() == 1 => Some(p.path.segments[0].ident.to_string()),
        Expr::Field(f) => root_var(&f.base),
        Expr::Index(i) => root_var(&i.expr),
        Expr::Paren(p) => root_var(&p.expr),
        Expr::Reference(r) => root_var(&r.expr),
        Expr::Unary(u) if matches!(u.op, UnOp::Deref(_)) => root_var(&u.expr),
        _ => None,
    }
}

fn collect_mut(e: &Expr, assigned: &mut Vec<String>, declared: &mut Vec<String>, mut_methods: &std::collections::HashSet<String>) {
    use syn::visit::Visit;
    struct V<'a> {
        a: &'a mut Vec<String>,
        d: &'a mut Vec<String>,
        mm: &'a std::collections::HashSet<String>,
    }
    impl<'ast, 'a> Visit<'ast> for V<'a> {
        fn visit_expr_assign(&mut self, x: &'ast syn::ExprAssign) {
            match root_var(&x.left) {
                Some(n) => self.a.push(n),
                None => self.a.push("<complex place>".into()),
            }
            syn::visit::visit_expr_assign(self, x);
        }
        fn visit_expr_binary(&mut self, x: &'ast syn::ExprBinary) {
            if compound_op(&x.op).is_some() {
                match root_var(&x.left) {
                    Some(n) => self.a.push(n),
                    None => self.a.push("<complex place>".into()),
                }
            }
            syn::visit::visit_expr_binary(self, x);
        }
        fn visit_expr_method_call(&mut self, x: &'ast syn::ExprMethodCall) {
            if is_list_mutator(&x.method.to_string()) || x.method == "take" || self.mm.contains(&x.method.to_string()) {
                match root_var(&x.receiver) {
                    Some(n) => self.a.push(n),
                    None => self.a.push("<complex place>".into()),
                }
            }
            syn::visit::visit_expr_method_call(self, x);
        }
        fn visit_expr_call(&mut self, c: &'ast syn::ExprCall) {
            if norm_tokens(&*c.func).ends_with("mem::replace") && !c.args.is_empty() {
                match root_var(&c.args[0]) {
                    Some(n) => self.a.push(n),
                    None => self.a.push("<complex place>".into()),
                }
            }
            syn::visit::visit_expr_call(self, c);
        }
        fn visit_expr_reference(&mut self, x: &'ast syn::ExprReference) {
            if x.mutability.is_some() {
                match root_var(&x.expr) {
                    Some(n) => self.a.push(n),
                    None => self.a.push("<&mut of a complex place>".into()),
                }
            }
            syn::visit::visit_expr_reference(self, x);
        }
        fn visit_pat_ident(&mut self, x: &'ast syn::PatIdent) {
            self.d.push(x.ident.to_string());
        }
        fn visit_expr_closure(&mut self, c: &'ast syn::ExprClosure) {
            // a callback that pushes onto an outer path: `|a, b, c| { X.curve_to(a, b, c); }`
            let t = norm_tokens(&*c.body);
            if let Some(pos) = t.find(".curve_to(") {
                let head = t[..pos].trim_start_matches('{').to_string();
                let root = head.split('.').next().unwrap_or("").to_string();
                if !root.is_empty() && root.chars().all(|ch| ch.is_alphanumeric() || ch == '_') {
                    self.a.push(root);
                }
            }
        }
        fn visit_item(&mut self, _: &'ast syn::Item) {}
    }
    let mut v = V { a: assigned, d: declared, mm: mut_methods };
    v.visit_expr(e);
}
