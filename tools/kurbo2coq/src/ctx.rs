//! Spec loading, source parsing, type tables, function lookup.

use serde_json::Value;
use std::collections::{BTreeMap, HashMap};
use syn::spanned::Spanned;

#[derive(Clone, PartialEq, Debug)]
pub enum Ty {
    F64,
    Bool,
    Int,
    Nat,
    Unit,
    Named(String),
    Tuple(Vec<Ty>),
    Opt(Box<Ty>),
    /// `Result<A, E>`
    Res(Box<Ty>, Box<Ty>),
    List(Box<Ty>),
    /// `Range<f64>`: flattened into two scalar arguments
    Range,
    /// `impl Into<X>` / `P: Into<X>`: a value that `.into()` turns into X (X itself in Coq)
    Into(Box<Ty>),
    /// the `[f64; N]` inside a newtype-array struct such as `Affine`
    ArrayOf(String),
    Array(Box<Ty>, usize),
    /// a parameterless closure bound by `let` (index into Tr::thunks); called with `name()`
    Thunk(usize),
    Other(String),
    Unknown,
}

impl Ty {
    pub fn strip_into(&self) -> &Ty {
        match self {
            Ty::Into(x) => x,
            t => t,
        }
    }
    pub fn show(&self) -> String {
        match self {
            Ty::F64 => "f64".into(),
            Ty::Bool => "bool".into(),
            Ty::Int => "int".into(),
            Ty::Nat => "nat".into(),
            Ty::Unit => "()".into(),
            Ty::Named(n) => n.clone(),
            Ty::Tuple(v) => format!("({})", v.iter().map(|t| t.show()).collect::<Vec<_>>().join(", ")),
            Ty::Opt(t) => format!("Option<{}>", t.show()),
            Ty::Res(a, e) => format!("Result<{}, {}>", a.show(), e.show()),
            Ty::List(t) => format!("List<{}>", t.show()),
            Ty::Range => "Range<f64>".into(),
            Ty::Into(t) => format!("impl Into<{}>", t.show()),
            Ty::ArrayOf(n) => format!("{}.0", n),
            Ty::Array(t, n) => format!("[{}; {}]", t.show(), n),
            Ty::Thunk(_) => "closure".into(),
            Ty::Other(s) => s.clone(),
            Ty::Unknown => "?".into(),
        }
    }
}

#[derive(Clone, Debug)]
pub enum TypeKind {
    Record { ctor: String, fields: Vec<(String, String, Ty)> },
    ArrayNewtype { ctor: String, projs: Vec<String> },
    Transparent(Ty),
    Enum { variants: Vec<(String, String, Vec<Ty>)> },
}

#[derive(Clone, Debug)]
pub struct TypeInfo {
    pub rust: String,
    pub coq: String,
    pub destruct: bool,
    pub partial: bool,
    pub usize_nat: bool,
    /// fields that are constant during the life of the value and live outside the Coq record:
    /// (rust field, coq term, type)
    pub ambient: Vec<(String, String, Ty)>,
    /// the extra binders every function over this type takes: (name, coq type)
    pub ambient_binders: Vec<(String, String)>,
    /// an iterator struct: (gen name of its `next`, item type name, fuel term with $0 = the value).  Consuming it
    /// (`for x in it`, `it.map(f).sum()`) is `tr_drain next fuel it`: calling `next` until it returns `None`
    pub iter: Option<(String, String, String)>,
    pub kind: TypeKind,
}

#[derive(Clone, Debug)]
pub struct Param {
    pub pat: Option<syn::Pat>,
    pub name: String,
    pub ty: Ty,
}

pub enum Body {
    Block(syn::Block),
    Expr(syn::Expr),
    None,
}

pub struct FnInfo {
    pub file: String,
    pub impl_ty: Option<String>,
    pub trait_str: Option<String>,
    pub trait_base: Option<String>,
    pub trait_arg: Option<Ty>,
    pub name: String,
    pub gen: String,
    pub model: Option<String>,
    pub model_app: Option<String>,
    pub props: Vec<String>,
    pub is_extern: bool,
    pub is_const: bool,
    pub identity_ctor: bool,
    pub identity_coeffs: bool,
    pub also: Vec<(String, Option<String>, Vec<String>, Option<String>)>,
    pub label: String,
    pub params: Vec<Param>,
    pub has_self: bool,
    /// indices of the `&mut` parameters (incl. `&mut self`): threaded through as state
    pub mut_params: Vec<usize>,
    pub usize_nat: bool,
    /// call template used instead of `model args` when other functions call this one
    pub call: Option<String>,
    /// file (module name) under bridges/ that proves `br_<id>` for this function
    pub bridge: Option<String>,
    /// the whole statement to prove instead of `Gen.f args = model args` ($G = the generated call, $i = parameters)
    pub stmt: Option<String>,
    /// how the tie is established when not by plain equality ("simulation")
    pub via: Option<String>,
    /// translate the body of the function's top-level `loop { .. }` as one step: the result is
    /// `Some r` for `return r` and `None` for falling off the end / `continue`
    pub loop_body: bool,
    /// Coq expression ($i = parameters) bounding the iterations of the `while` loops of this function
    pub fuel: Option<String>,
    /// callers call the generated definition (not the model constant) although a model is named
    pub call_gen: bool,
    /// `loop_body` on the first top-level `while` of a function: the state variables become parameters
    pub while_body: bool,
    /// additional ambient binders of this function: (name, coq type)
    pub extra_binders: Vec<(String, String)>,
    /// for an extern with a callback argument `|a, b, c| { X.curve_to(a, b, c); }`: what is appended to X ($i = arguments)
    pub callback_append: Option<String>,
    /// render `-1.0` as the negation of the literal `1.0` (what Rust's syntax says) instead of a negative literal;
    /// the value is the same, the model of this function happens to be written that way
    pub neg_literal_op: bool,
    /// the body of this function's `while` is not translated again: the loop calls the generated step function
    /// (a `while_body_state` entry for the same Rust function) with this `gen` name
    pub while_step: Option<String>,
    /// `for_body_state`: like `while_body`, for the function's top-level `for`
    pub for_body: bool,
    /// like `while_step` for the function's top-level `for`: the loop is a fold over the list that calls the
    /// generated step function (a `for_body_state` entry for the same Rust function) with this `gen` name
    pub for_step: Option<String>,
    /// this function *builds* a value of a type with ambient (constant) fields: its struct literal is the pair
    /// `((ambient field values, in the spec's order), record)`; the lemma's statement says what they are
    pub ambient_out: bool,
    /// iteration bound of the `while` loops of this function as a Rust expression over the variables in scope at the
    /// loop (an integer; `Z.to_nat` of it is the fuel), e.g. `n + 1 - i`: the models' own bound
    pub fuel_local: Option<String>,
    /// match arms (by variant name) that are not translated: their bodies are dropped (the step function leaves the
    /// state alone there) and the lemma's statement excludes them
    pub skip_arms: Vec<String>,
    pub ret: Ty,
    pub self_ty: Option<Ty>,
    pub body: Body,
    pub line: usize,
    pub load_error: Option<String>,
}

impl FnInfo {
    /// what the Coq function returns: the result and the final values of the `&mut` parameters
    pub fn ret_full(&self) -> Ty {
        if self.mut_params.is_empty() {
            return self.ret.clone();
        }
        let mut parts = Vec::new();
        if self.loop_body {
            parts.push(Ty::Opt(Box::new(self.ret.clone())));
        } else if self.ret != Ty::Unit {
            parts.push(self.ret.clone());
        }
        for &i in &self.mut_params {
            parts.push(self.params[i].ty.clone());
        }
        if parts.len() == 1 {
            parts[0].clone()
        } else {
            Ty::Tuple(parts)
        }
    }
}

pub struct Ctx {
    pub types: BTreeMap<String, TypeInfo>,
    pub type_order: Vec<String>,
    pub fns: Vec<FnInfo>,
    pub by_key: HashMap<(String, String), Vec<usize>>, // (impl type or "", fn name)
    pub imports: Vec<String>,
    pub derived_eq: HashMap<String, String>,
    pub consts: HashMap<String, String>,
    /// the value that stands for a panic (`unwrap()` of `None`, index out of range), per type, as in the hand models
    pub panic_defaults: HashMap<String, String>,
    /// `X::default()` per type
    pub defaults: HashMap<String, String>,
    /// error type -> (Coq type constructor, Ok, Err) for `Result<_, E>`
    pub results: HashMap<String, (String, String, String)>,
}

pub fn norm_tokens<T: quote::ToTokens>(t: &T) -> String {
    let s = quote::quote!(#t).to_string();
    s.chars().filter(|c| !c.is_whitespace()).collect()
}

fn has_cfg_test(attrs: &[syn::Attribute]) -> bool {
    attrs.iter().any(|a| {
        if a.path().is_ident("cfg") {
            let s = norm_tokens(a);
            s.contains("(test)") || s.contains("feature=\"mint\"") || s.contains("feature=\"libm\"")
        } else {
            false
        }
    })
}

pub struct Generics {
    pub into: HashMap<String, Ty>,
    pub usize_nat: bool,
}

impl Generics {
    pub fn none() -> Generics {
        Generics { into: HashMap::new(), usize_nat: false }
    }
}

impl Ctx {
    pub fn ty_of(&self, t: &syn::Type, self_ty: Option<&Ty>, output: Option<&Ty>, g: &Generics) -> Ty {
        match t {
            syn::Type::Reference(r) => self.ty_of(&r.elem, self_ty, output, g),
            syn::Type::Paren(p) => self.ty_of(&p.elem, self_ty, output, g),
            syn::Type::Group(p) => self.ty_of(&p.elem, self_ty, output, g),
            syn::Type::Tuple(tp) => {
                if tp.elems.is_empty() {
                    Ty::Unit
                } else {
                    Ty::Tuple(tp.elems.iter().map(|e| self.ty_of(e, self_ty, output, g)).collect())
                }
            }
            syn::Type::Slice(sl) => Ty::List(Box::new(self.ty_of(&sl.elem, self_ty, output, g))),
            syn::Type::Array(a) => {
                let n = match &a.len {
                    syn::Expr::Lit(l) => match &l.lit {
                        syn::Lit::Int(i) => i.base10_parse::<usize>().unwrap_or(0),
                        _ => 0,
                    },
                    _ => 0,
                };
                Ty::Array(Box::new(self.ty_of(&a.elem, self_ty, output, g)), n)
            }
            syn::Type::ImplTrait(it) => {
                for b in &it.bounds {
                    if let syn::TypeParamBound::Trait(tb) = b {
                        if let Some(x) = self.into_bound(&tb.path, self_ty, output, g) {
                            return Ty::Into(Box::new(x));
                        }
                        // `impl Iterator<Item = X>` as an argument: the list of what it yields
                        if let Some(last) = tb.path.segments.last() {
                            if last.ident == "Iterator" || last.ident == "IntoIterator" {
                                if let syn::PathArguments::AngleBracketed(ab) = &last.arguments {
                                    for a in &ab.args {
                                        if let syn::GenericArgument::AssocType(at) = a {
                                            if at.ident == "Item" {
                                                return Ty::List(Box::new(self.ty_of(&at.ty, self_ty, output, g)));
                                            }
                                        }
                                    }
                                }
                            }
                        }
                    }
                }
                Ty::Other(norm_tokens(t))
            }
            syn::Type::Path(p) => {
                let s = norm_tokens(t);
                if p.qself.is_none() {
                    let segs: Vec<_> = p.path.segments.iter().collect();
                    let last = segs.last().unwrap();
                    let id = last.ident.to_string();
                    if segs.len() == 2 && segs[0].ident == "Self" && id == "Output" {
                        return output.cloned().unwrap_or(Ty::Other(s));
                    }
                    if segs.len() == 1 || (segs.len() > 1 && segs[0].ident != "Self") {
                        match id.as_str() {
                            "f64" => return Ty::F64,
                            "bool" => return Ty::Bool,
                            "usize" if g.usize_nat => return Ty::Nat,
                            "i32" | "usize" | "u32" | "i64" | "isize" | "u64" | "u8" => return Ty::Int,
                            "Self" => return self_ty.cloned().unwrap_or(Ty::Other(s)),
                            "char" => return Ty::Int,
                            "str" | "String" => return Ty::List(Box::new(Ty::Int)),
                            "Result" => {
                                if let syn::PathArguments::AngleBracketed(ab) = &last.arguments {
                                    let tys: Vec<&syn::Type> = ab.args.iter().filter_map(|a| if let syn::GenericArgument::Type(t) = a { Some(t) } else { None }).collect();
                                    if tys.len() == 2 {
                                        return Ty::Res(Box::new(self.ty_of(tys[0], self_ty, output, g)), Box::new(self.ty_of(tys[1], self_ty, output, g)));
                                    }
                                }
                            }
                            "Option" => {
                                if let Some(a) = first_type_arg(last) {
                                    return Ty::Opt(Box::new(self.ty_of(a, self_ty, output, g)));
                                }
                            }
                            "ArrayVec" | "Vec" => {
                                if let Some(a) = first_type_arg(last) {
                                    let el = match self.ty_of(a, self_ty, output, g) {
                                        Ty::Range => Ty::Tuple(vec![Ty::F64, Ty::F64]),
                                        t => t,
                                    };
                                    return Ty::List(Box::new(el));
                                }
                            }
                            "Range" => {
                                if let Some(a) = first_type_arg(last) {
                                    if self.ty_of(a, self_ty, output, g) == Ty::F64 {
                                        return Ty::Range;
                                    }
                                }
                            }
                            _ => {}
                        }
                        if let Some(x) = g.into.get(&id) {
                            return Ty::Into(Box::new(x.clone()));
                        }
                        if self.types.contains_key(&id) && last.arguments.is_none() {
                            if let TypeKind::Transparent(inner) = &self.types[&id].kind {
                                if *inner != Ty::Unknown {
                                    return inner.clone();
                                }
                            }
                            return Ty::Named(id);
                        }
                    }
                }
                Ty::Other(s)
            }
            _ => Ty::Other(norm_tokens(t)),
        }
    }

    fn into_bound(&self, path: &syn::Path, self_ty: Option<&Ty>, output: Option<&Ty>, g: &Generics) -> Option<Ty> {
        let last = path.segments.last()?;
        if last.ident == "Into" {
            let a = first_type_arg(last)?;
            return Some(self.ty_of(a, self_ty, output, g));
        }
        None
    }

    pub fn generics_of(&self, gs: &syn::Generics, self_ty: Option<&Ty>) -> Generics {
        let mut g = Generics::none();
        let empty = Generics::none();
        // `I: IntoIterator<Item = X>` / `Iterator<Item = X>`: a list of X
        let item_of = |path: &syn::Path| -> Option<Ty> {
            let last = path.segments.last()?;
            if last.ident != "IntoIterator" && last.ident != "Iterator" {
                return None;
            }
            if let syn::PathArguments::AngleBracketed(ab) = &last.arguments {
                for a in &ab.args {
                    if let syn::GenericArgument::AssocType(at) = a {
                        if at.ident == "Item" {
                            return Some(Ty::List(Box::new(self.ty_of(&at.ty, self_ty, None, &empty))));
                        }
                    }
                }
            }
            None
        };
        for p in &gs.params {
            if let syn::GenericParam::Type(tp) = p {
                for b in &tp.bounds {
                    if let syn::TypeParamBound::Trait(tb) = b {
                        if let Some(x) = self.into_bound(&tb.path, self_ty, None, &empty) {
                            g.into.insert(tp.ident.to_string(), x);
                        } else if let Some(x) = item_of(&tb.path) {
                            g.into.insert(tp.ident.to_string(), x);
                        }
                    }
                }
            }
        }
        if let Some(wc) = &gs.where_clause {
            for pr in &wc.predicates {
                if let syn::WherePredicate::Type(pt) = pr {
                    let name = norm_tokens(&pt.bounded_ty);
                    for b in &pt.bounds {
                        if let syn::TypeParamBound::Trait(tb) = b {
                            if let Some(x) = item_of(&tb.path) {
                                g.into.insert(name.clone(), x);
                            }
                        }
                    }
                }
            }
        }
        g
    }

    pub fn coq_ty(&self, t: &Ty) -> Result<String, String> {
        Ok(match t {
            Ty::F64 => "T".into(),
            Ty::Bool => "bool".into(),
            Ty::Int => "Z".into(),
            Ty::Nat => "nat".into(),
            Ty::Unit => "unit".into(),
            Ty::Named(n) => match self.types.get(n) {
                Some(ti) => format!("({})", ti.coq),
                None => return Err(format!("type {} has no Coq counterpart in the spec", n)),
            },
            Ty::Tuple(v) => {
                let mut parts = Vec::new();
                for x in v {
                    parts.push(self.coq_ty(x)?);
                }
                format!("({})%type", parts.join(" * "))
            }
            Ty::Opt(x) => format!("(option {})", self.coq_ty(x)?),
            Ty::Res(a, e) => match &**e {
                Ty::Named(en) => match self.results.get(en) {
                    Some(r) => format!("({} {})", r.0, self.coq_ty(a)?),
                    None => return Err(format!("Result with error type {} (not in the spec)", en)),
                },
                t => return Err(format!("Result with error type {}", t.show())),
            },
            Ty::List(x) => format!("(list {})", self.coq_ty(x)?),
            Ty::Into(x) => self.coq_ty(x)?,
            Ty::Range => return Err("Range<f64> outside an argument position".into()),
            Ty::ArrayOf(n) => return Err(format!("bare coefficient array of {}", n)),
            Ty::Array(..) => return Err(format!("array type {}", t.show())),
            Ty::Thunk(_) => return Err("closure type".into()),
            Ty::Other(s) => return Err(format!("type `{}` is outside the subset", s)),
            Ty::Unknown => return Err("type could not be inferred".into()),
        })
    }

    pub fn lookup(&self, impl_ty: &str, name: &str) -> Vec<usize> {
        self.by_key.get(&(impl_ty.to_string(), name.to_string())).cloned().unwrap_or_default()
    }
}

fn first_type_arg(seg: &syn::PathSegment) -> Option<&syn::Type> {
    if let syn::PathArguments::AngleBracketed(ab) = &seg.arguments {
        for a in &ab.args {
            if let syn::GenericArgument::Type(t) = a {
                return Some(t);
            }
        }
    }
    None
}

fn jstr(v: &Value, k: &str) -> Option<String> {
    v.get(k).and_then(|x| x.as_str()).map(|s| s.to_string())
}

struct Found<'a> {
    sig: &'a syn::Signature,
    block: &'a syn::Block,
    impl_generics: Option<&'a syn::Generics>,
    output: Option<&'a syn::Type>,
    line: usize,
}

pub fn load(repo: &str, spec: &Value) -> Result<Ctx, String> {
    let mut files: HashMap<String, syn::File> = HashMap::new();
    let mut need: Vec<String> = Vec::new();
    for t in spec["types"].as_array().ok_or("spec: `types` missing")? {
        need.push(jstr(t, "file").ok_or("spec type without file")?);
    }
    for f in spec["functions"].as_array().ok_or("spec: `functions` missing")? {
        need.push(jstr(f, "file").ok_or("spec function without file")?);
    }
    for f in need {
        if files.contains_key(&f) {
            continue;
        }
        let p = format!("{}/{}", repo, f);
        let src = std::fs::read_to_string(&p).map_err(|e| format!("cannot read {}: {}", p, e))?;
        let parsed = syn::parse_file(&src).map_err(|e| format!("{}:{}: parse error: {}", p, e.span().start().line, e))?;
        files.insert(f, parsed);
    }
    let mut ctx = Ctx {
        types: BTreeMap::new(),
        type_order: Vec::new(),
        fns: Vec::new(),
        by_key: HashMap::new(),
        imports: spec["imports"].as_array().map(|a| a.iter().filter_map(|x| x.as_str().map(|s| s.to_string())).collect()).unwrap_or_default(),
        derived_eq: HashMap::new(),
        consts: HashMap::new(),
        panic_defaults: HashMap::new(),
        defaults: HashMap::new(),
        results: HashMap::new(),
    };
    if let Some(m) = spec.get("results").and_then(|x| x.as_object()) {
        for (k, v) in m {
            if let Some(a) = v.as_array() {
                if a.len() == 3 {
                    ctx.results.insert(k.clone(), (a[0].as_str().unwrap_or("").to_string(), a[1].as_str().unwrap_or("").to_string(), a[2].as_str().unwrap_or("").to_string()));
                }
            }
        }
    }
    if let Some(m) = spec.get("defaults").and_then(|x| x.as_object()) {
        for (k, v) in m {
            if let Some(s) = v.as_str() {
                ctx.defaults.insert(k.clone(), s.to_string());
            }
        }
    }
    if let Some(m) = spec.get("panic_defaults").and_then(|x| x.as_object()) {
        for (k, v) in m {
            if let Some(s) = v.as_str() {
                ctx.panic_defaults.insert(k.clone(), s.to_string());
            }
        }
    }
    if let Some(m) = spec.get("consts").and_then(|x| x.as_object()) {
        for (k, v) in m {
            if let Some(s) = v.as_str() {
                ctx.consts.insert(k.clone(), s.to_string());
            }
        }
    }
    if let Some(m) = spec.get("derived_eq").and_then(|x| x.as_object()) {
        for (k, v) in m {
            if let Some(s) = v.as_str() {
                ctx.derived_eq.insert(k.clone(), s.to_string());
            }
        }
    }
    // types: two passes (names first so that field types referring to other spec types resolve)
    let tspecs = spec["types"].as_array().unwrap();
    for t in tspecs {
        let rust = jstr(t, "rust").ok_or("spec type without rust name")?;
        ctx.types.insert(
            rust.clone(),
            TypeInfo {
                rust: rust.clone(),
                coq: jstr(t, "coq").unwrap_or_default(),
                destruct: t.get("destruct").and_then(|x| x.as_bool()).unwrap_or(true),
                partial: t.get("partial").and_then(|x| x.as_bool()).unwrap_or(false),
                usize_nat: t.get("usize_as_nat").and_then(|x| x.as_bool()).unwrap_or(false),
                ambient: vec![],
                ambient_binders: t
                    .get("ambient_binders")
                    .and_then(|x| x.as_array())
                    .map(|a| a.iter().map(|p| (p[0].as_str().unwrap_or("").to_string(), p[1].as_str().unwrap_or("").to_string())).collect())
                    .unwrap_or_default(),
                iter: t.get("iter").and_then(|x| x.as_array()).map(|a| (a[0].as_str().unwrap_or("").to_string(), a[1].as_str().unwrap_or("").to_string(), a[2].as_str().unwrap_or("").to_string())),
                kind: TypeKind::Transparent(Ty::Unknown),
            },
        );
        ctx.type_order.push(rust);
    }
    let empty = Generics::none();
    let mut type_errs: Vec<String> = Vec::new();
    // transparent types first
    for pass in 0..2 {
        for t in tspecs {
            let rust = jstr(t, "rust").unwrap();
            let file = jstr(t, "file").unwrap();
            let transparent = t.get("transparent").and_then(|x| x.as_bool()).unwrap_or(false);
            if (pass == 0) != transparent {
                continue;
            }
            let f = &files[&file];
            let mut kind = None;
            for it in &f.items {
                match it {
                    syn::Item::Struct(s) if s.ident == rust.as_str() => {
                        if transparent {
                            if let syn::Fields::Unnamed(u) = &s.fields {
                                if u.unnamed.len() == 1 {
                                    // temporarily remove self to avoid resolving to itself
                                    let inner = ctx.ty_of(&u.unnamed[0].ty, None, None, &empty);
                                    kind = Some(TypeKind::Transparent(inner));
                                }
                            }
                        } else if let Some(arr) = t.get("array").and_then(|x| x.as_array()) {
                            if let syn::Fields::Unnamed(u) = &s.fields {
                                if u.unnamed.len() == 1 {
                                    if let Ty::Array(el, n) = ctx.ty_of(&u.unnamed[0].ty, None, None, &empty) {
                                        if *el == Ty::F64 && n == arr.len() {
                                            kind = Some(TypeKind::ArrayNewtype {
                                                ctor: jstr(t, "ctor").unwrap_or_default(),
                                                projs: arr.iter().map(|x| x.as_str().unwrap_or("").to_string()).collect(),
                                            });
                                        }
                                    }
                                }
                            }
                        } else if let Some(fl) = t.get("fields").and_then(|x| x.as_array()) {
                            if let syn::Fields::Named(nf) = &s.fields {
                                let mut fields = Vec::new();
                                let mut ambient = Vec::new();
                                let mut g = Generics::none();
                                g.usize_nat = t.get("usize_as_nat").and_then(|x| x.as_bool()).unwrap_or(false);
                                let field_ty = |ctx: &Ctx, pair: &Value, sf: &syn::Field| -> Ty {
                                    // optional third component: a Rust type to use instead of the declared one
                                    // (e.g. "Vec<PathEl>" for a generic iterator field)
                                    match pair.get(2).and_then(|x| x.as_str()) {
                                        Some(o) => match syn::parse_str::<syn::Type>(o) {
                                            Ok(ty) => ctx.ty_of(&ty, None, None, &g),
                                            Err(_) => Ty::Other(o.to_string()),
                                        },
                                        None => ctx.ty_of(&sf.ty, None, None, &g),
                                    }
                                };
                                for pair in fl {
                                    let rf = pair[0].as_str().unwrap_or("").to_string();
                                    let cf = pair[1].as_str().unwrap_or("").to_string();
                                    let sf = nf.named.iter().find(|x| x.ident.as_ref().map(|i| i == rf.as_str()).unwrap_or(false));
                                    match sf {
                                        Some(sf) => fields.push((rf, cf, field_ty(&ctx, pair, sf))),
                                        None => { type_errs.push(format!("spec type {}: field {} not in the Rust struct", rust, rf)); continue; }
                                    }
                                }
                                if let Some(al) = t.get("ambient").and_then(|x| x.as_array()) {
                                    for pair in al {
                                        let rf = pair[0].as_str().unwrap_or("").to_string();
                                        let cf = pair[1].as_str().unwrap_or("").to_string();
                                        let sf = nf.named.iter().find(|x| x.ident.as_ref().map(|i| i == rf.as_str()).unwrap_or(false));
                                        match sf {
                                            Some(sf) => ambient.push((rf, cf, field_ty(&ctx, pair, sf))),
                                            None => { type_errs.push(format!("spec type {}: field {} not in the Rust struct", rust, rf)); continue; }
                                        }
                                    }
                                }
                                let partial = t.get("partial").and_then(|x| x.as_bool()).unwrap_or(false);
                                if !partial && fields.len() + ambient.len() != nf.named.len() {
                                    type_errs.push(format!("spec type {}: the Rust struct has {} fields, the spec lists {}", rust, nf.named.len(), fields.len() + ambient.len()));
                                }
                                ctx.types.get_mut(&rust).unwrap().ambient = ambient;
                                kind = Some(TypeKind::Record { ctor: jstr(t, "ctor").unwrap_or_default(), fields });
                            }
                        }
                    }
                    syn::Item::Enum(e) if e.ident == rust.as_str() => {
                        if let Some(vl) = t.get("variants").and_then(|x| x.as_array()) {
                            let mut variants = Vec::new();
                            for pair in vl {
                                let rv = pair[0].as_str().unwrap_or("").to_string();
                                let cv = pair[1].as_str().unwrap_or("").to_string();
                                let sv = e.variants.iter().find(|x| x.ident == rv.as_str());
                                match sv {
                                    Some(sv) => {
                                        let tys: Vec<Ty> = match &sv.fields {
                                            syn::Fields::Unnamed(u) => u.unnamed.iter().map(|x| ctx.ty_of(&x.ty, None, None, &empty)).collect(),
                                            syn::Fields::Unit => vec![],
                                            syn::Fields::Named(_) => { type_errs.push(format!("spec type {}: struct-like variant {}", rust, rv)); vec![] }
                                        };
                                        variants.push((rv, cv, tys));
                                    }
                                    None => type_errs.push(format!("spec type {}: variant {} not in the Rust enum", rust, rv)),
                                }
                            }
                            if variants.len() != e.variants.len() {
                                type_errs.push(format!("spec type {}: the Rust enum has {} variants, the spec lists {}", rust, e.variants.len(), variants.len()));
                            }
                            kind = Some(TypeKind::Enum { variants });
                        }
                    }
                    _ => {}
                }
            }
            match kind {
                Some(k) => ctx.types.get_mut(&rust).unwrap().kind = k,
                None => type_errs.push(format!("spec type {}: no matching definition in {}", rust, file)),
            }
        }
    }

    // a record/enum of the spec that no longer matches the source is dropped: every function that
    // touches it then fails with "type ... is outside the subset"
    let mut bad_types: HashMap<String, String> = HashMap::new();
    for e in &type_errs {
        if let Some(name) = e.strip_prefix("spec type ").and_then(|r| r.split(':').next()) {
            bad_types.insert(name.to_string(), e.clone());
            ctx.types.remove(name);
            ctx.type_order.retain(|t| t != name);
        }
    }
    // functions
    for fs in spec["functions"].as_array().unwrap() {
        let file = jstr(fs, "file").unwrap();
        let impl_ty = jstr(fs, "impl");
        let trait_str = jstr(fs, "trait");
        let trait_default = jstr(fs, "trait_default");
        let name = jstr(fs, "fn").ok_or("spec function without fn")?;
        let nested_in = jstr(fs, "nested_in");
        let is_const = fs.get("const").and_then(|x| x.as_bool()).unwrap_or(false);
        let short = file.rsplit('/').next().unwrap_or(&file).to_string();
        let label = match (&impl_ty, &trait_str, &trait_default) {
            (Some(i), Some(t), _) => format!("{}::<{} as {}>::{}", short, i, t, name),
            (Some(i), None, Some(td)) => format!("{}::<{} as {} (default)>::{}", short, i, td, name),
            (Some(i), None, None) => format!("{}::{}::{}", short, i, name),
            (None, _, _) => match &nested_in {
                Some(n) => format!("{}::{}::{}", short, n, name),
                None => format!("{}::{}", short, name),
            },
        };
        // one iteration of the function's `while` loop, next to an entry for the whole function
        let label = if fs.get("while_body_state").is_some() || fs.get("for_body_state").is_some() { format!("{} (loop body)", label) } else { label };
        let mut info = FnInfo {
            file: file.clone(),
            impl_ty: impl_ty.clone(),
            trait_str: trait_str.clone(),
            trait_base: None,
            trait_arg: None,
            name: name.clone(),
            gen: jstr(fs, "gen").unwrap_or_else(|| format!("g_{}", name)),
            model: jstr(fs, "model"),
            model_app: jstr(fs, "model_app"),
            props: fs.get("props").and_then(|x| x.as_array()).map(|a| a.iter().filter_map(|x| x.as_str().map(|s| s.to_string())).collect()).unwrap_or_default(),
            is_extern: fs.get("extern").and_then(|x| x.as_bool()).unwrap_or(false),
            is_const,
            identity_ctor: fs.get("identity_ctor").and_then(|x| x.as_bool()).unwrap_or(false),
            identity_coeffs: fs.get("identity_coeffs").and_then(|x| x.as_bool()).unwrap_or(false),
            also: fs
                .get("also")
                .and_then(|x| x.as_array())
                .map(|a| {
                    a.iter()
                        .filter_map(|x| {
                            jstr(x, "model").map(|m| {
                                let props = x.get("props").and_then(|p| p.as_array()).map(|p| p.iter().filter_map(|y| y.as_str().map(|s| s.to_string())).collect()).unwrap_or_default();
                                (m, jstr(x, "model_app"), props, jstr(x, "bridge"))
                            })
                        })
                        .collect()
                })
                .unwrap_or_default(),
            label,
            params: vec![],
            has_self: false,
            mut_params: vec![],
            usize_nat: fs.get("usize_as_nat").and_then(|x| x.as_bool()).unwrap_or(false),
            call: jstr(fs, "call"),
            bridge: jstr(fs, "bridge"),
            stmt: jstr(fs, "stmt"),
            via: jstr(fs, "via"),
            loop_body: fs.get("loop_body").and_then(|x| x.as_bool()).unwrap_or(false),
            fuel: jstr(fs, "fuel"),
            call_gen: fs.get("call_gen").and_then(|x| x.as_bool()).unwrap_or(false),
            while_body: fs.get("while_body_state").is_some(),
            extra_binders: fs
                .get("extra_binders")
                .and_then(|x| x.as_array())
                .map(|a| a.iter().map(|p| (p[0].as_str().unwrap_or("").to_string(), p[1].as_str().unwrap_or("").to_string())).collect())
                .unwrap_or_default(),
            callback_append: jstr(fs, "callback_append"),
            neg_literal_op: fs.get("neg_literal_op").and_then(|x| x.as_bool()).unwrap_or(false),
            while_step: jstr(fs, "while_step"),
            for_body: fs.get("for_body_state").is_some(),
            for_step: jstr(fs, "for_step"),
            ambient_out: fs.get("ambient_out").and_then(|x| x.as_bool()).unwrap_or(false),
            fuel_local: jstr(fs, "fuel_local"),
            skip_arms: fs.get("skip_arms").and_then(|x| x.as_array()).map(|a| a.iter().filter_map(|x| x.as_str().map(|y| y.to_string())).collect()).unwrap_or_default(),
            ret: Ty::Unknown,
            self_ty: None,
            body: Body::None,
            line: 0,
            load_error: None,
        };
        let self_ty: Option<Ty> = impl_ty.as_ref().map(|i| match i.as_str() {
            "f64" => Ty::F64,
            full => {
                // `DashIterator<'a,T>`: the spec type is named by the base identifier
                let n = full.split('<').next().unwrap_or(full);
                match ctx.types.get(n) {
                    Some(ti) => match &ti.kind {
                        TypeKind::Transparent(inner) if *inner != Ty::Unknown => inner.clone(),
                        _ => Ty::Named(n.to_string()),
                    },
                    None => match syn::parse_str::<syn::Type>(full) {
                        // `&'a [PathEl]`
                        Ok(t @ syn::Type::Reference(_)) => ctx.ty_of(&t, None, None, &Generics::none()),
                        _ => Ty::Other(n.to_string()),
                    },
                }
            }
        });
        if let Some(Ty::Named(n)) = &self_ty {
            if ctx.types[n].usize_nat {
                info.usize_nat = true;
            }
        }
        info.self_ty = self_ty.clone();
        let f = &files[&file];
        // locate
        let mut found: Vec<Found> = Vec::new();
        let mut found_const: Vec<(&syn::Type, &syn::Expr, usize)> = Vec::new();
        let mut trait_path: Option<syn::Path> = None;
        for it in &f.items {
            match it {
                syn::Item::Impl(im) if impl_ty.is_some() && trait_default.is_none() => {
                    if has_cfg_test(&im.attrs) {
                        continue;
                    }
                    if norm_tokens(&*im.self_ty) != *impl_ty.as_ref().unwrap() {
                        continue;
                    }
                    let tr = im.trait_.as_ref().map(|(_, p, _)| norm_tokens(p));
                    if tr != trait_str {
                        continue;
                    }
                    let output = im.items.iter().find_map(|x| match x {
                        syn::ImplItem::Type(t) if t.ident == "Output" => Some(&t.ty),
                        _ => None,
                    });
                    for ii in &im.items {
                        match ii {
                            syn::ImplItem::Fn(m) if !is_const && m.sig.ident == name.as_str() && !has_cfg_test(&m.attrs) => {
                                trait_path = im.trait_.as_ref().map(|(_, p, _)| p.clone());
                                found.push(Found { sig: &m.sig, block: &m.block, impl_generics: Some(&im.generics), output, line: m.sig.ident.span().start().line });
                            }
                            syn::ImplItem::Const(c) if is_const && c.ident == name.as_str() => {
                                found_const.push((&c.ty, &c.expr, c.ident.span().start().line));
                            }
                            _ => {}
                        }
                    }
                }
                syn::Item::Trait(tr) if trait_default.as_deref() == Some(tr.ident.to_string().as_str()) => {
                    for ti in &tr.items {
                        if let syn::TraitItem::Fn(m) = ti {
                            if m.sig.ident == name.as_str() {
                                if let Some(b) = &m.default {
                                    found.push(Found { sig: &m.sig, block: b, impl_generics: None, output: None, line: m.sig.ident.span().start().line });
                                }
                            }
                        }
                    }
                }
                syn::Item::Const(c) if impl_ty.is_none() && is_const && c.ident == name.as_str() => {
                    found_const.push((&c.ty, &c.expr, c.ident.span().start().line));
                }
                syn::Item::Fn(func) if impl_ty.is_none() && !has_cfg_test(&func.attrs) => {
                    if let Some(outer) = &nested_in {
                        if func.sig.ident == outer.as_str() {
                            find_nested(&func.block, &name, &mut found);
                        }
                    } else if func.sig.ident == name.as_str() {
                        found.push(Found { sig: &func.sig, block: &func.block, impl_generics: None, output: None, line: func.sig.ident.span().start().line });
                    }
                }
                _ => {}
            }
        }
        // nested fns inside impl methods
        if impl_ty.is_none() && nested_in.is_some() && found.is_empty() {
            for it in &f.items {
                if let syn::Item::Impl(im) = it {
                    for ii in &im.items {
                        if let syn::ImplItem::Fn(m) = ii {
                            if m.sig.ident == nested_in.as_ref().unwrap().as_str() {
                                find_nested(&m.block, &name, &mut found);
                            }
                        }
                    }
                }
            }
        }
        if is_const {
            if found_const.len() != 1 {
                info.load_error = Some(format!("{}: {} definitions of constant {} found", file, found_const.len(), name));
            } else {
                let (ty, e, line) = found_const[0];
                info.ret = ctx.ty_of(ty, self_ty.as_ref(), None, &empty);
                info.body = Body::Expr(e.clone());
                info.line = line;
            }
        } else if found.len() != 1 {
            info.load_error = Some(format!("{}: {} definitions of {} found (expected exactly one)", file, found.len(), info.label));
        } else {
            let fd = &found[0];
            info.line = fd.line;
            let mut g = ctx.generics_of(&fd.sig.generics, self_ty.as_ref());
            g.usize_nat = info.usize_nat;
            if let Some(ig) = fd.impl_generics {
                let g2 = ctx.generics_of(ig, self_ty.as_ref());
                g.into.extend(g2.into);
            }
            let output = fd.output.map(|o| ctx.ty_of(o, self_ty.as_ref(), None, &g));
            if let Some(tp) = &trait_path {
                let last = tp.segments.last().unwrap();
                info.trait_base = Some(last.ident.to_string());
                info.trait_arg = first_type_arg(last).map(|a| ctx.ty_of(a, self_ty.as_ref(), None, &g));
            }
            let mut params = Vec::new();
            let mut idx = 0;
            for inp in &fd.sig.inputs {
                match inp {
                    syn::FnArg::Receiver(r) => {
                        info.has_self = true;
                        if r.reference.is_some() && r.mutability.is_some() {
                            info.mut_params.push(idx);
                        }
                        params.push(Param { pat: None, name: "self".into(), ty: self_ty.clone().unwrap_or(Ty::Unknown) });
                    }
                    syn::FnArg::Typed(pt) => {
                        let ty = ctx.ty_of(&pt.ty, self_ty.as_ref(), output.as_ref(), &g);
                        if let syn::Type::Reference(r) = &*pt.ty {
                            if r.mutability.is_some() {
                                info.mut_params.push(idx);
                            }
                        }
                        match &*pt.pat {
                            syn::Pat::Ident(pi) => params.push(Param { pat: None, name: pi.ident.to_string(), ty }),
                            other => params.push(Param { pat: Some(other.clone()), name: format!("arg{}", idx), ty }),
                        }
                    }
                }
                idx += 1;
            }
            if let Some(cb) = jstr(fs, "callback_as_push") {
                // the whole function: `mut callback: impl FnMut(X)` is a `&mut Vec<X>` (what was handed to it, in order)
                for (j, inp) in fd.sig.inputs.iter().enumerate() {
                    if let syn::FnArg::Typed(pt) = inp {
                        let is_cb = matches!(&*pt.pat, syn::Pat::Ident(pi) if pi.ident == cb.as_str());
                        if let (true, syn::Type::ImplTrait(it)) = (is_cb, &*pt.ty) {
                            for b in &it.bounds {
                                if let syn::TypeParamBound::Trait(tb) = b {
                                    if let Some(seg) = tb.path.segments.last() {
                                        if let (true, syn::PathArguments::Parenthesized(pa)) = (seg.ident == "FnMut", &seg.arguments) {
                                            if pa.inputs.len() == 1 {
                                                params[j].ty = Ty::List(Box::new(ctx.ty_of(&pa.inputs[0], self_ty.as_ref(), None, &g)));
                                                if !info.mut_params.contains(&j) {
                                                    info.mut_params.push(j);
                                                }
                                            }
                                        }
                                    }
                                }
                            }
                        }
                    }
                }
            }
            info.params = params;
            if let Some(st) = fs.get("while_body_state").or_else(|| fs.get("for_body_state")).and_then(|x| x.as_array()) {
                // the state variables of the loop (and the variables its pattern binds) are the parameters
                let mut ps = Vec::new();
                let parse = |pair: &Value| -> (String, Ty) {
                    let n = pair[0].as_str().unwrap_or("").to_string();
                    let t = pair[1].as_str().and_then(|o| syn::parse_str::<syn::Type>(o).ok()).map(|t| ctx.ty_of(&t, self_ty.as_ref(), None, &g)).unwrap_or(Ty::Unknown);
                    (n, t)
                };
                for pair in st {
                    let (n, t) = parse(pair);
                    ps.push(Param { pat: None, name: n, ty: t });
                }
                let nstate = ps.len();
                if let Some(vs) = fs.get("while_body_vars").or_else(|| fs.get("for_body_vars")).and_then(|x| x.as_array()) {
                    for pair in vs {
                        let (n, t) = parse(pair);
                        ps.push(Param { pat: None, name: n, ty: t });
                    }
                }
                info.params = ps;
                info.mut_params = (0..nstate).collect();
                info.has_self = false;
                info.loop_body = true;
            }
            let ret_override = jstr(fs, "ret").and_then(|o| syn::parse_str::<syn::Type>(&o).ok());
            info.ret = if let Some(t) = &ret_override { ctx.ty_of(t, self_ty.as_ref(), output.as_ref(), &g) } else {
            match &fd.sig.output {
                syn::ReturnType::Default => Ty::Unit,
                syn::ReturnType::Type(_, t) => ctx.ty_of(t, self_ty.as_ref(), output.as_ref(), &g),
            }
            };
            let mut blk = fd.block.clone();
            if let Some(cb) = jstr(fs, "callback_as_push") {
                // `callback(x)` with `callback: impl FnMut(X)`: the elements handed to it, as a list that is pushed to
                use syn::visit_mut::VisitMut;
                struct Cb(String);
                impl VisitMut for Cb {
                    fn visit_expr_mut(&mut self, e: &mut syn::Expr) {
                        syn::visit_mut::visit_expr_mut(self, e);
                        let mut repl = None;
                        if let syn::Expr::Call(c) = e {
                            if let syn::Expr::Path(p) = &*c.func {
                                if p.path.is_ident(self.0.as_str()) && c.args.len() == 1 {
                                    let id = p.path.get_ident().unwrap().clone();
                                    let a = c.args[0].clone();
                                    repl = Some(syn::parse_quote!(#id.push(#a)));
                                }
                            }
                        }
                        if let Some(r) = repl {
                            *e = r;
                        }
                    }
                }
                Cb(cb).visit_block_mut(&mut blk);
            }
            if !info.skip_arms.is_empty() {
                // the bodies of the arms that are not translated are dropped here (what they assign is not state of the step)
                use syn::visit_mut::VisitMut;
                struct Sk<'a>(&'a [String], syn::Ident);
                impl<'a> VisitMut for Sk<'a> {
                    fn visit_arm_mut(&mut self, a: &mut syn::Arm) {
                        let v = match &a.pat {
                            syn::Pat::TupleStruct(ts) => ts.path.segments.last().map(|x| x.ident.to_string()),
                            syn::Pat::Path(pp) => pp.path.segments.last().map(|x| x.ident.to_string()),
                            _ => None,
                        };
                        if v.map_or(false, |v| self.0.contains(&v)) {
                            let id = &self.1;
                            a.body = Box::new(syn::parse_quote!({ #id = #id; }));
                        } else {
                            syn::visit_mut::visit_arm_mut(self, a);
                        }
                    }
                }
                let sk = info.skip_arms.clone();
                let first = info.params.first().map(|p| p.name.clone()).unwrap_or_else(|| "self".to_string());
                Sk(&sk, syn::Ident::new(&first, proc_macro2::Span::call_site())).visit_block_mut(&mut blk);
            }
            info.body = Body::Block(blk);
        }
        if let Some(e) = impl_ty.as_ref().and_then(|t| bad_types.get(t)) {
            info.load_error = Some(format!("untranslatable: {}", e));
        }
        let key = (impl_ty.clone().map(|i| i.split('<').next().unwrap_or("").to_string()).unwrap_or_default(), name.clone());
        let i = ctx.fns.len();
        ctx.by_key.entry(key).or_default().push(i);
        ctx.fns.push(info);
    }
    Ok(ctx)
}

fn find_nested<'a>(b: &'a syn::Block, name: &str, out: &mut Vec<Found<'a>>) {
    for s in &b.stmts {
        if let syn::Stmt::Item(syn::Item::Fn(f)) = s {
            if f.sig.ident == name {
                out.push(Found { sig: &f.sig, block: &f.block, impl_generics: None, output: None, line: f.sig.ident.span().start().line });
            }
        }
    }
}

pub fn line_of<T: Spanned>(t: &T) -> usize {
    t.span().start().line
}
