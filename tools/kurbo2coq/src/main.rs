//! kurbo2coq <repo-root> <spec.json> <out.v>
//!
//! Regenerates Gallina definitions from the Rust source of kurbo for the functions listed in the
//! spec, and writes next to <out.v> a JSON report (<out.v>.json) with, per function, the
//! translation status and the statement of the lemma `Gen.f = model f` that `translate_check.py`
//! hands to Coq.

mod ctx;
mod lit;
mod tr;

use ctx::*;
use serde_json::{json, Value};
use std::cell::RefCell;
use std::collections::BTreeSet;

struct Out {
    def: Option<String>,
    deps: BTreeSet<usize>,
    error: Option<String>,
    binders: Vec<(String, String)>,
}

fn check_identity_ctor(f: &FnInfo) -> Result<(), String> {
    // fn new(c: [f64; N]) -> Self { Self(c) }
    let b = match &f.body {
        Body::Block(b) => b,
        _ => return Err("identity_ctor: no body".into()),
    };
    if f.params.len() != 1 || !matches!(f.params[0].ty, Ty::Array(..)) || b.stmts.len() != 1 {
        return Err(format!("identity_ctor {}: not of the shape `fn(c: [f64; N]) -> Self {{ Self(c) }}`", f.label));
    }
    if let syn::Stmt::Expr(syn::Expr::Call(c), None) = &b.stmts[0] {
        let head = norm_tokens(&*c.func);
        let ok_head = head == "Self" || Some(head.as_str()) == f.impl_ty.as_deref();
        if ok_head && c.args.len() == 1 && norm_tokens(&c.args[0]) == f.params[0].name {
            return Ok(());
        }
    }
    Err(format!("identity_ctor {}: body is not `Self({})`", f.label, f.params[0].name))
}

fn check_identity_coeffs(f: &FnInfo) -> Result<(), String> {
    // fn as_coeffs(self) -> [f64; N] { self.0 }
    let b = match &f.body {
        Body::Block(b) => b,
        _ => return Err("identity_coeffs: no body".into()),
    };
    if f.params.len() == 1 && f.has_self && matches!(f.ret, Ty::Array(..)) && b.stmts.len() == 1 {
        if let syn::Stmt::Expr(e, None) = &b.stmts[0] {
            if norm_tokens(e) == "self.0" {
                return Ok(());
            }
        }
    }
    Err(format!("identity_coeffs {}: not of the shape `fn(self) -> [f64; N] {{ self.0 }}`", f.label))
}

fn main() {
    let args: Vec<String> = std::env::args().collect();
    if args.len() != 4 && args.len() != 5 {
        eprintln!("usage: kurbo2coq <repo-root> <spec.json> <out.v> [--exclude=gen1:reason;gen2:reason]");
        std::process::exit(2);
    }
    // definitions Coq rejected in a previous round (translate_check.py): treated as failed, so that
    // their users are reported too
    let mut excluded: Vec<(String, String)> = Vec::new();
    if args.len() == 5 {
        if let Some(list) = args[4].strip_prefix("--exclude=") {
            for item in list.split(";;") {
                if let Some((g, r)) = item.split_once(':') {
                    excluded.push((g.to_string(), r.to_string()));
                }
            }
        } else {
            eprintln!("unknown option {}", args[4]);
            std::process::exit(2);
        }
    }
    let repo = &args[1];
    let spec_s = match std::fs::read_to_string(&args[2]) {
        Ok(s) => s,
        Err(e) => {
            eprintln!("cannot read spec {}: {}", args[2], e);
            std::process::exit(2);
        }
    };
    let spec: Value = match serde_json::from_str(&spec_s) {
        Ok(v) => v,
        Err(e) => {
            eprintln!("spec is not valid JSON: {}", e);
            std::process::exit(2);
        }
    };
    let ctx = match load(repo, &spec) {
        Ok(c) => c,
        Err(e) => {
            eprintln!("kurbo2coq: {}", e);
            std::process::exit(2);
        }
    };

    let mut_methods: std::collections::HashSet<String> = ctx.fns.iter().filter(|f| f.has_self && f.mut_params.contains(&0)).map(|f| f.name.clone()).collect();
    // phase A: translate every function on its own
    let mut outs: Vec<Out> = Vec::new();
    for f in ctx.fns.iter() {
        if f.is_extern {
            outs.push(Out { def: None, deps: BTreeSet::new(), error: f.load_error.clone(), binders: vec![] });
            continue;
        }
        if f.identity_coeffs {
            let e = f.load_error.clone().or_else(|| check_identity_coeffs(f).err());
            outs.push(Out { def: None, deps: BTreeSet::new(), error: e, binders: vec![] });
            continue;
        }
        if f.identity_ctor {
            let e = f.load_error.clone().or_else(|| check_identity_ctor(f).err());
            outs.push(Out { def: None, deps: BTreeSet::new(), error: e, binders: vec![] });
            continue;
        }
        if let Some((_, r)) = excluded.iter().find(|(g, _)| *g == f.gen) {
            outs.push(Out { def: None, deps: BTreeSet::new(), error: Some(format!("untranslatable: Coq rejected the generated definition: {}", r)), binders: vec![] });
            continue;
        }
        let t = tr::Tr {
            ctx: &ctx,
            f,
            file: f.file.clone(),
            deps: RefCell::new(BTreeSet::new()),
            counter: RefCell::new(0),
            allow_mut: std::cell::Cell::new(false),
            mut_places: RefCell::new(None),
            cur_call: RefCell::new(None),
            mut_methods: &mut_methods,
            loops: RefCell::new(vec![]),
            thunks: RefCell::new(vec![]),
            writebacks: RefCell::new(vec![]),
            hoist: RefCell::new(None),
            ambient: RefCell::new(vec![]),
        };
        match t.function() {
            Ok((binders, ret, body)) => {
                let bs: String = binders.iter().map(|(n, ty)| format!(" ({} : {})", n, ty)).collect();
                let def = format!("(* {}  ({}:{}) *)\nDefinition {}{} : {} :=\n  {}.\n", f.label, f.file, f.line, f.gen, bs, ret, body);
                outs.push(Out { def: Some(def), deps: t.deps.into_inner(), error: None, binders });
            }
            Err(e) => outs.push(Out { def: None, deps: BTreeSet::new(), error: Some(e), binders: vec![] }),
        }
    }
    // phase B: propagate failures of model-less helpers to their users; topological order
    loop {
        let mut changed = false;
        for i in 0..outs.len() {
            if outs[i].error.is_some() {
                continue;
            }
            let bad = outs[i].deps.iter().copied().find(|&d| outs[d].error.is_some());
            if let Some(d) = bad {
                outs[i].error = Some(format!("untranslatable: depends on helper {} which failed: {}", ctx.fns[d].label, outs[d].error.clone().unwrap()));
                outs[i].def = None;
                changed = true;
            }
        }
        if !changed {
            break;
        }
    }
    let mut order: Vec<usize> = Vec::new();
    let mut done: BTreeSet<usize> = BTreeSet::new();
    fn visit(i: usize, outs: &Vec<Out>, done: &mut BTreeSet<usize>, order: &mut Vec<usize>, stack: &mut Vec<usize>) -> Result<(), String> {
        if done.contains(&i) {
            return Ok(());
        }
        if stack.contains(&i) {
            return Err(format!("dependency cycle through function #{}", i));
        }
        stack.push(i);
        for &d in &outs[i].deps {
            visit(d, outs, done, order, stack)?;
        }
        stack.pop();
        done.insert(i);
        order.push(i);
        Ok(())
    }
    for i in 0..outs.len() {
        if outs[i].def.is_some() {
            let mut stack = Vec::new();
            if let Err(e) = visit(i, &outs, &mut done, &mut order, &mut stack) {
                eprintln!("kurbo2coq: {}", e);
                std::process::exit(2);
            }
        }
    }

    // Gen.v
    let imports = if ctx.imports.is_empty() { "Scalar".to_string() } else { ctx.imports.join(" ") };
    let mut v = String::new();
    v.push_str("(* GENERATED by kurbo2coq from the Rust source -- do not edit. *)\n");
    v.push_str("From Coq Require Import ZArith QArith List Bool Floats.\n");
    v.push_str(&format!("From KV Require Import {}.\n", imports));
    v.push_str("Import ListNotations.\n\nSet Implicit Arguments.\n\nSection Gen.\nContext {T : Type} `{Scalar T}.\nLocal Open Scope S_scope.\n\n");
    v.push_str("(* Rust standard-library operations on slices used by the translated code *)\nFixpoint tr_set (l : list T) (i : nat) (x : T) : list T :=\n  match l, i with\n  | [], _ => []\n  | _ :: r, O => x :: r\n  | a :: r, S i' => a :: tr_set r i' x\n  end.\nDefinition tr_swap (l : list T) (i j : nat) : list T := tr_set (tr_set l i (nth j l f0)) j (nth i l f0).\nFixpoint tr_drain {St A : Type} (next : St -> option A * St) (fuel : nat) (s : St) : list A :=\n  match fuel with\n  | O => []\n  | S k => match next s with (Some a, s') => a :: tr_drain next k s' | (None, _) => [] end\n  end.\nFixpoint tr_find_map {A B : Type} (f : A -> option B) (l : list A) : option B :=\n  match l with\n  | [] => None\n  | x :: r => match f x with Some y => Some y | None => tr_find_map f r end\n  end.\n\n");
    let mut def_lines: Vec<(usize, usize, usize)> = Vec::new(); // fn index, first line, last line
    for &i in &order {
        if let Some(d) = &outs[i].def {
            let start = v.matches('\n').count() + 1;
            v.push_str(d);
            let end = v.matches('\n').count();
            v.push('\n');
            def_lines.push((i, start, end));
        }
    }
    v.push_str("End Gen.\n");
    if let Err(e) = std::fs::write(&args[3], &v) {
        eprintln!("cannot write {}: {}", args[3], e);
        std::process::exit(2);
    }

    // the destructing tactic: one clause per record / enum type of the spec
    let mut ltac = String::from("Ltac tr_destruct := repeat match goal with\n");
    for tn in &ctx.type_order {
        let ti = &ctx.types[tn];
        match &ti.kind {
            TypeKind::Transparent(_) => {}
            _ if !ti.destruct => {}
            _ => {
                let head = ti.coq.split_whitespace().next().unwrap_or("");
                ltac.push_str(&format!("  | x : {} _ |- _ => destruct x\n", head));
            }
        }
    }
    ltac.push_str("  | x : (_ * _)%type |- _ => destruct x\n  | x : option _ |- _ => destruct x\n  end.\n");
    ltac.push_str("Ltac tr_ifs := repeat match goal with |- context [if ?c then _ else _] => destruct c end.\n");
    ltac.push_str("Ltac tr_solve := intros; first [ reflexivity | tr_destruct; reflexivity | timeout 20 (tr_destruct; cbv; tr_ifs; reflexivity) ].\n");
    let prelude = format!(
        "From Coq Require Import ZArith QArith List Bool Floats.\nFrom KV Require Import {}.\nFrom KVGen Require Gen.\nImport ListNotations.\n{}",
        imports, ltac
    );

    let mut funs: Vec<Value> = Vec::new();
    for (i, f) in ctx.fns.iter().enumerate() {
        if f.is_extern {
            if let Some(e) = &outs[i].error {
                funs.push(json!({"rust": f.label, "gen": Value::Null, "model": f.model, "props": f.props, "kind": "extern", "status": "untranslatable", "detail": e}));
            }
            continue;
        }
        let o = &outs[i];
        let kind = if f.identity_ctor || f.identity_coeffs { "identity_ctor" } else if f.model.is_some() { "tied" } else { "helper" };
        let names: Vec<String> = o.binders.iter().map(|b| b.0.clone()).collect();
        // `$i` in a model_app template is the i-th Rust parameter: skip the ambient binders
        let n_amb = {
            let mut amb: Vec<(String, String)> = Vec::new();
            for p in &f.params {
                if let Ty::Named(n) = p.ty.strip_into() {
                    if let Some(ti) = ctx.types.get(n) {
                        for b in &ti.ambient_binders {
                            if !amb.contains(b) {
                                amb.push(b.clone());
                            }
                        }
                    }
                }
            }
            for b in &f.extra_binders {
                if !amb.contains(b) {
                    amb.push(b.clone());
                }
            }
            if o.binders.len() >= amb.len() { amb.len() } else { 0 }
        };
        let bs: String = o.binders.iter().map(|(n, ty)| format!(" ({} : {})", n, ty)).collect();
        let lemma_for = |m: &String, app: &Option<String>| -> Value {
            if o.def.is_none() {
                return Value::Null;
            }
            let rhs = match app {
                Some(tpl) => {
                    let mut s = tpl.clone();
                    for (j, n) in names.iter().skip(n_amb).enumerate().rev() {
                        s = s.replace(&format!("${}", j), n);
                    }
                    s
                }
                None => {
                    if names.is_empty() {
                        m.clone()
                    } else {
                        format!("{} {}", m, names.join(" "))
                    }
                }
            };
            let lhs = if names.is_empty() { format!("Gen.{}", f.gen) } else { format!("Gen.{} {}", f.gen, names.join(" ")) };
            if let Some(st) = &f.stmt {
                let mut s = st.replace("$G", &format!("({})", lhs));
                for (j, n) in names.iter().skip(n_amb).enumerate().rev() {
                    s = s.replace(&format!("${}", j), n);
                }
                return json!(format!("forall (T : Type) (S : Scalar T){}, {}", bs, s));
            }
            json!(format!("forall (T : Type) (S : Scalar T){}, {} = {}", bs, lhs, rhs))
        };
        let lines = def_lines.iter().find(|d| d.0 == i).map(|d| json!([d.1, d.2])).unwrap_or(Value::Null);
        // one entry per (function, model constant) tie; a helper or identity constructor gets a single entry
        let mut ties: Vec<(String, Option<String>, Option<String>, Vec<String>, Option<String>)> = Vec::new();
        ties.push((f.gen.clone(), f.model.clone(), f.model_app.clone(), f.props.clone(), f.bridge.clone()));
        for (k, (m, app, props, br)) in f.also.iter().enumerate() {
            ties.push((format!("{}__{}", f.gen, k + 2), Some(m.clone()), app.clone(), props.clone(), br.clone()));
        }
        for (id, model, app, props, bridge) in ties {
            let lemma = match &model {
                Some(m) => lemma_for(m, &app),
                None => Value::Null,
            };
            funs.push(json!({
                "id": id,
                "rust": f.label,
                "file": f.file,
                "line": f.line,
                "gen": f.gen,
                "model": model,
                "props": props,
                "kind": kind,
                "status": if o.error.is_some() { "untranslatable" } else { "translated" },
                "detail": o.error.clone().unwrap_or_default(),
                "lemma": lemma,
                "gen_lines": lines,
                "bridge": bridge,
                "via": f.via,
                "deps": o.deps.iter().map(|&d| ctx.fns[d].gen.clone()).collect::<Vec<_>>(),
            }));
        }
    }
    let report = json!({"prelude": prelude, "functions": funs});
    let rp = format!("{}.json", args[3]);
    if let Err(e) = std::fs::write(&rp, serde_json::to_string_pretty(&report).unwrap()) {
        eprintln!("cannot write {}: {}", rp, e);
        std::process::exit(2);
    }
}
