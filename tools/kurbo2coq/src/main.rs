fn main() { let f: syn::File = syn::parse_str("fn a() {}").unwrap(); let v: serde_json::Value = serde_json::from_str("{}").unwrap(); println!("{} {}", f.items.len(), v); }
