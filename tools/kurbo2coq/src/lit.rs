//! Conversion of Rust f64 literals into the two forms the hand models use:
//!   `fofZ n`                                  for integral literals without exponent (2.0, 6., 0.)
//!   `flit <hex binary64>%float (num#den)`     otherwise; the rational is the exact value of the
//!                                             decimal, in lowest terms.
//! The binary64 value is obtained with Rust's own correctly rounded `str::parse::<f64>`.

/// Minimal unsigned big number (base 1e9) -- enough to print 2^a * 5^b * m exactly.
#[derive(Clone, Debug)]
pub struct Big(Vec<u32>);

const BASE: u64 = 1_000_000_000;

impl Big {
    pub fn from_u128(mut v: u128) -> Big {
        let mut d = Vec::new();
        if v == 0 {
            d.push(0);
        }
        while v > 0 {
            d.push((v % BASE as u128) as u32);
            v /= BASE as u128;
        }
        Big(d)
    }
    pub fn mul_small(&mut self, m: u32) {
        let mut carry: u64 = 0;
        for x in self.0.iter_mut() {
            let cur = (*x as u64) * (m as u64) + carry;
            *x = (cur % BASE) as u32;
            carry = cur / BASE;
        }
        while carry > 0 {
            self.0.push((carry % BASE) as u32);
            carry /= BASE;
        }
    }
    pub fn pow_mul(&mut self, base: u32, e: u32) {
        for _ in 0..e {
            self.mul_small(base);
        }
    }
    pub fn to_string(&self) -> String {
        let mut s = String::new();
        let n = self.0.len();
        s.push_str(&format!("{}", self.0[n - 1]));
        for i in (0..n - 1).rev() {
            s.push_str(&format!("{:09}", self.0[i]));
        }
        s
    }
}

/// Exact hexadecimal spelling of a finite binary64 (Coq parses it back to the same float).
pub fn hex_f64(x: f64) -> String {
    let bits = x.to_bits();
    let exp = ((bits >> 52) & 0x7ff) as i64;
    let man = bits & 0xf_ffff_ffff_ffff;
    let (lead, e) = if exp == 0 { (0u8, -1022i64) } else { (1u8, exp - 1023) };
    let mut frac = format!("{:013x}", man);
    while frac.ends_with('0') {
        frac.pop();
    }
    if frac.is_empty() {
        format!("0x{}p{}{}", lead, if e >= 0 { "+" } else { "" }, e)
    } else {
        format!("0x{}.{}p{}{}", lead, frac, if e >= 0 { "+" } else { "" }, e)
    }
}

/// `digits`: the literal as written, suffix removed (e.g. "0.5", "1e-9", "2.", "3.999_999").
pub fn float_literal(digits: &str, neg: bool) -> Result<String, String> {
    let s: String = digits.chars().filter(|c| *c != '_').collect();
    let (mant_s, exp_s) = match s.find(|c| c == 'e' || c == 'E') {
        Some(i) => (&s[..i], Some(&s[i + 1..])),
        None => (&s[..], None),
    };
    let (int_s, frac_s) = match mant_s.find('.') {
        Some(i) => (&mant_s[..i], &mant_s[i + 1..]),
        None => (mant_s, ""),
    };
    if !int_s.chars().all(|c| c.is_ascii_digit()) || !frac_s.chars().all(|c| c.is_ascii_digit()) {
        return Err(format!("unsupported float literal `{}`", digits));
    }
    // integral literal without exponent -> fofZ
    if exp_s.is_none() && frac_s.chars().all(|c| c == '0') {
        let n: u128 = int_s.parse().map_err(|_| format!("integer part of `{}` too large", digits))?;
        if n <= (1u128 << 53) {
            if neg && n == 0 {
                return Err("the negative zero literal `-0.0` is not supported".into());
            }
            return Ok(if neg { format!("(fofZ (-{}))", n) } else { format!("(fofZ {})", n) });
        }
    }
    let exp10: i64 = match exp_s {
        Some(e) => e.parse().map_err(|_| format!("bad exponent in `{}`", digits))?,
        None => 0,
    };
    let frac_trim = frac_s.trim_end_matches('0');
    let all = format!("{}{}", int_s, frac_trim);
    let all_trim = all.trim_start_matches('0');
    if all_trim.len() > 38 {
        return Err(format!("float literal `{}` has too many digits", digits));
    }
    let mut m: u128 = if all_trim.is_empty() { 0 } else { all_trim.parse().unwrap() };
    if m == 0 {
        return Err(format!("zero written with an exponent (`{}`) is not supported", digits));
    }
    // value = m * 10^(exp10 - len(frac_trim))
    let mut e = exp10 - frac_trim.len() as i64;
    // move trailing decimal zeros of m into the exponent
    while m % 10 == 0 {
        m /= 10;
        e += 1;
    }
    let (num, den) = if e >= 0 {
        let mut n = Big::from_u128(m);
        n.pow_mul(10, e as u32);
        (n.to_string(), "1".to_string())
    } else {
        let k = (-e) as u32;
        let mut a = 0u32; // power of 2 cancelled
        let mut b = 0u32; // power of 5 cancelled
        while a < k && m % 2 == 0 {
            m /= 2;
            a += 1;
        }
        while b < k && m % 5 == 0 {
            m /= 5;
            b += 1;
        }
        let mut d = Big::from_u128(1);
        d.pow_mul(2, k - a);
        d.pow_mul(5, k - b);
        (Big::from_u128(m).to_string(), d.to_string())
    };
    let v: f64 = s.parse().map_err(|_| format!("cannot parse `{}` as f64", digits))?;
    if !v.is_finite() || v == 0.0 {
        return Err(format!("float literal `{}` is not a finite non-zero binary64", digits));
    }
    let hex = hex_f64(v);
    Ok(if neg {
        format!("(flit (-{})%float (-{}#{}))", hex, num, den)
    } else {
        format!("(flit {}%float ({}#{}))", hex, num, den)
    })
}

#[cfg(test)]
mod tests {
    use super::*;
    #[test]
    fn lits() {
        assert_eq!(float_literal("0.5", false).unwrap(), "(flit 0x1p-1%float (1#2))");
        assert_eq!(float_literal("0.25", false).unwrap(), "(flit 0x1p-2%float (1#4))");
        assert_eq!(float_literal("2.", false).unwrap(), "(fofZ 2)");
        assert_eq!(float_literal("6.0", false).unwrap(), "(fofZ 6)");
        assert_eq!(float_literal("2.0", true).unwrap(), "(fofZ (-2))");
        assert_eq!(float_literal("5e-4", false).unwrap(), "(flit 0x1.0624dd2f1a9fcp-11%float (1#2000))");
        assert_eq!(float_literal("0.5", true).unwrap(), "(flit (-0x1p-1)%float (-1#2))");
        assert_eq!(float_literal("0.1", false).unwrap(), "(flit 0x1.999999999999ap-4%float (1#10))");
        assert_eq!(float_literal("2.25", false).unwrap(), "(flit 0x1.2p+1%float (9#4))");
        assert_eq!(float_literal("1e-9", false).unwrap(), "(flit 0x1.12e0be826d695p-30%float (1#1000000000))");
    }
}
