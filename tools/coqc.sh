#!/bin/bash
# usage: tools/coqc.sh <file.v relative to coq/> [more files, in dependency order]
# Compiles the given files directly (no make, no lock) under a time and memory limit.
# Use it for the files you own; shared files are built by `./check --make`.
# env: T=<seconds per file, default 600>
cd /verif/coq || exit 2
export OCAMLRUNPARAM=${OCAMLRUNPARAM:-s=8M,h=256M}
rc=0
for f in "$@"; do
  ( ulimit -v 16000000; timeout "${T:-600}" coqc -Q base KV -Q model KV -Q spec KV -Q proofs KV -Q corr KV -Q Properties KV \
      -w -notation-overridden,-ambiguous-paths,-deprecated-instance-without-locality,-deprecated-hint-without-locality "$f" 2>&1 \
      | grep -v "coercion path\|ambiguous-paths\|^Warning:$" | tail -"${TAIL:-60}"; exit ${PIPESTATUS[0]} )
  r=$?
  echo "== $f rc=$r"
  if [ $r -ne 0 ]; then rc=$r; break; fi
done
exit $rc
