#!/usr/bin/env python3
"""Seeded-change tooling (development aid; never part of a registered check).

  tools/seed.py verify <srcdir> <name>        confirm a candidate (patch.diff, demo.rs, meta.json) in a scratch worktree:
                                              demo passes without the patch, existing suite passes with it, demo fails with it;
                                              on success copy it to /verif/seeded/<name>/
  tools/seed.py run <name> [PROP ...] [--tier quick|thorough]
                                              apply seeded/<name>/patch.diff in a scratch worktree and run the given checks
                                              (default: the property named in meta.json) against it via KV_REPO; prints caught/missed
  tools/seed.py matrix [--tier quick]         run every seeded change against its own property's check; writes seeded/RESULTS.json
"""
import sys, os, json, subprocess, shutil, re, time
ROOT = os.path.dirname(os.path.dirname(os.path.abspath(__file__)))
SEEDED = os.path.join(ROOT, "seeded")


def sh(cmd, cwd=None, env=None, timeout=3600):
    e = dict(os.environ)
    e.update(env or {})
    p = subprocess.run(cmd, cwd=cwd, env=e, shell=isinstance(cmd, str), stdout=subprocess.PIPE, stderr=subprocess.STDOUT, text=True, errors="replace", timeout=timeout)
    return p.returncode, p.stdout


def mkwt(tag):
    wt = "/tmp/sv-%s" % tag
    rmwt(wt)
    rc, out = sh(["git", "-C", "/repo", "worktree", "add", "-q", "--detach", wt, "HEAD"])
    assert rc == 0, out
    return wt


def rmwt(wt):
    sh(["git", "-C", "/repo", "worktree", "remove", "--force", wt])
    shutil.rmtree(wt, ignore_errors=True)
    sh(["git", "-C", "/repo", "worktree", "prune"])
    tag = re.sub(r"[^A-Za-z0-9]+", "_", wt).strip("_")
    shutil.rmtree(os.path.join(ROOT, "build", "dev-" + tag), ignore_errors=True)


def verify(src, name, store=True):
    wt = mkwt(name)
    env = {"CARGO_TARGET_DIR": wt + "/target", "CARGO_NET_OFFLINE": "true"}
    ran = []
    try:
        os.makedirs(wt + "/kurbo/tests", exist_ok=True)
        shutil.copy(os.path.join(src, "demo.rs"), wt + "/kurbo/tests/seed_demo.rs")
        rc, out = sh("cargo test --offline -p kurbo %s --test seed_demo 2>&1 | tail -15" % os.environ.get("SEED_DEMO_FLAGS", ""), cwd=wt, env=env)
        ok0 = "test result: ok" in out
        ran.append("demo on unchanged tree: %s" % ("passes" if ok0 else "FAILS"))
        if not ok0:
            print(out)
            return False, ran
        rc, out = sh(["git", "apply", os.path.abspath(os.path.join(src, "patch.diff"))], cwd=wt)
        if rc != 0:
            ran.append("patch does not apply: " + out[-300:])
            return False, ran
        os.remove(wt + "/kurbo/tests/seed_demo.rs")
        rc, out = sh("cargo test --workspace --no-fail-fast --offline 2>&1 | grep -E 'test result|FAILED|error' ", cwd=wt, env=env)
        m = re.search(r"test result: ok\. 144 passed; 0 failed", out)
        suite_ok = bool(m) and "FAILED" not in out and "error" not in out
        ran.append("existing suite with the patch: %s (%s)" % ("144 passed, doc tests ok" if suite_ok else "NOT green", " | ".join(out.strip().split("\n"))[:300]))
        if not suite_ok:
            return False, ran
        shutil.copy(os.path.join(src, "demo.rs"), wt + "/kurbo/tests/seed_demo.rs")
        rc, out = sh("cargo test --offline -p kurbo %s --test seed_demo 2>&1 | tail -15" % os.environ.get("SEED_DEMO_FLAGS", ""), cwd=wt, env=env)
        fails = "test result: FAILED" in out or "panicked" in out or "stack overflow" in out or "error: test failed" in out or "SIGABRT" in out or "SIGSEGV" in out
        ran.append("demo with the patch: %s" % ("fails (as required)" if fails else "still passes"))
        if not fails:
            return False, ran
        if not store:
            return True, ran
        dst = os.path.join(SEEDED, name)
        os.makedirs(dst, exist_ok=True)
        for f in ("patch.diff", "demo.rs"):
            shutil.copy(os.path.join(src, f), os.path.join(dst, f))
        meta = {}
        try:
            meta = json.load(open(os.path.join(src, "meta.json")))
        except Exception as e:
            meta = {"note": "meta.json of the candidate unreadable: %s" % e}
        meta["confirmed_by_coordinator"] = ran
        meta["base_commit"] = sh(["git", "-C", "/repo", "rev-parse", "--short", "HEAD"])[1].strip()
        json.dump(meta, open(os.path.join(dst, "meta.json"), "w"), indent=1)
        return True, ran
    finally:
        rmwt(wt)


def apply_patch(wt, patch):
    """git apply; fall back to a 3-way merge and to patch(1) with fuzz when /repo has moved on since the seed was made"""
    rc, out = sh(["git", "apply", patch], cwd=wt)
    if rc == 0:
        return True, "git apply"
    rc, out2 = sh(["git", "apply", "--3way", patch], cwd=wt)
    if rc == 0:
        sh(["git", "reset", "-q"], cwd=wt)
        return True, "git apply --3way"
    sh(["git", "checkout", "-q", "--", "."], cwd=wt)
    rc, out3 = sh("patch -p1 -F3 --no-backup-if-mismatch < %s" % patch, cwd=wt)
    if rc == 0:
        return True, "patch -F3"
    sh(["git", "checkout", "-q", "--", "."], cwd=wt)
    return False, out + out3


def refresh(name):
    """re-base seeded/<name>/patch.diff onto /repo HEAD if it no longer applies verbatim, then re-confirm it"""
    d = os.path.join(SEEDED, name)
    wt = mkwt("rf-" + name)
    try:
        rc, out = sh(["git", "apply", "--check", os.path.join(d, "patch.diff")], cwd=wt)
        if rc == 0:
            return "applies"
        ok, how = apply_patch(wt, os.path.join(d, "patch.diff"))
        if not ok:
            return "CANNOT REBASE: " + how[-300:]
        rc, diff = sh(["git", "diff"], cwd=wt)
        tmp = "/tmp/seed-refresh-" + name
        shutil.rmtree(tmp, ignore_errors=True)
        os.makedirs(tmp)
        open(os.path.join(tmp, "patch.diff"), "w").write(diff)
        shutil.copy(os.path.join(d, "demo.rs"), tmp)
        shutil.copy(os.path.join(d, "meta.json"), tmp)
    finally:
        rmwt(wt)
    if not os.path.exists(os.path.join(d, "patch.orig.diff")):
        shutil.copy(os.path.join(d, "patch.diff"), os.path.join(d, "patch.orig.diff"))
    ok, ran = verify(tmp, name)
    return ("rebased via %s and re-confirmed" % how) if ok else ("rebased via %s but NOT confirmed: %s" % (how, ran))


def run(name, props, tier):
    d = os.path.join(SEEDED, name)
    meta = json.load(open(os.path.join(d, "meta.json")))
    props = props or meta.get("run_checks") or [meta["property"]]
    wt = mkwt("run-" + name)
    res = {}
    try:
        ok, how = apply_patch(wt, os.path.join(d, "patch.diff"))
        assert ok, how
        for p in props:
            t0 = time.time()
            env = {"KV_REPO": wt}
            if p != "C19":   # C19 re-runs every integrated property under the libm build: needs the full harness
                env["KV_ONLY"] = p.lower()
            rc, out = sh(["./check", p, "--tier", tier], cwd=ROOT, env=env, timeout=7200)
            viol = [l for l in out.split("\n") if l.startswith("VIOLATION")]
            last = out.strip().split("\n")[-1] if out.strip() else ""
            replays = []
            for l in viol[:3]:
                m = re.search(r"replay=(\S+)", l)
                if m and os.path.exists(m.group(1)):
                    try:
                        r = json.load(open(m.group(1)))
                        replays.append({k: r.get(k) for k in ("kind", "class", "desc", "group", "text") if r.get(k)})
                    except Exception:
                        pass
            res[p] = {"caught": rc == 1 and bool(viol), "rc": rc, "violations": viol[:5], "replays": replays, "summary": last, "wall_s": round(time.time() - t0, 1)}
    finally:
        rmwt(wt)
    return res


def main():
    a = sys.argv[1:]
    if not a:
        print(__doc__); return 2
    tier = "quick"
    if "--tier" in a:
        i = a.index("--tier"); tier = a[i + 1]; del a[i:i + 2]
    if a[0] == "verify":
        ok, ran = verify(a[1], a[2])
        print(("CONFIRMED " if ok else "REJECTED ") + a[2])
        for r in ran:
            print("  -", r)
        return 0 if ok else 1
    if a[0] == "run":
        res = run(a[1], a[2:], tier)
        print(json.dumps(res, indent=1))
        return 0
    if a[0] == "reconfirm":
        # re-run the confirmation of every live seed against /repo HEAD (repairs can neutralise a seeded change)
        names = a[1:] or sorted(n for n in os.listdir(SEEDED) if os.path.isdir(os.path.join(SEEDED, n)))
        out = {}
        for n in names:
            meta = json.load(open(os.path.join(SEEDED, n, "meta.json")))
            if str(meta.get("status", "")).startswith("retired"):
                continue
            if n.startswith("C19"):
                os.environ["SEED_DEMO_FLAGS"] = "--no-default-features --features libm"
            else:
                os.environ.pop("SEED_DEMO_FLAGS", None)
            ok, ran = verify(os.path.join(SEEDED, n), "rc-" + n, store=False)
            out[n] = {"ok": ok, "ran": ran}
            print(n, "still confirmed" if ok else "NOT CONFIRMED: %s" % ran, flush=True)
        json.dump(out, open(os.path.join(SEEDED, "RECONFIRM.json"), "w"), indent=1)
        return 0
    if a[0] == "refresh":
        names = a[1:] or sorted(n for n in os.listdir(SEEDED) if os.path.isdir(os.path.join(SEEDED, n)))
        for n in names:
            print(n, refresh(n))
        return 0
    if a[0] == "matrix":
        names = sorted(n for n in os.listdir(SEEDED) if os.path.isdir(os.path.join(SEEDED, n)))
        if len(a) > 1:
            names = [n for n in names if n in a[1:]]
        allres = {}
        path = os.path.join(SEEDED, "RESULTS.json")
        if os.path.exists(path):
            allres = json.load(open(path))
        for n in names:
            try:
                r = run(n, [], tier)
            except Exception as e:
                r = {"error": str(e)}
            # merge into the file as it is now (several matrix runs may be going on)
            cur = {}
            if os.path.exists(path):
                try:
                    cur = json.load(open(path))
                except Exception:
                    cur = {}
            cur[n] = {"tier": tier, "result": r}
            print(n, {p: v.get("caught") for p, v in r.items() if isinstance(v, dict)}, flush=True)
            tmpf = path + ".tmp%d" % os.getpid()
            json.dump(cur, open(tmpf, "w"), indent=1)
            os.replace(tmpf, path)
        return 0
    print(__doc__)
    return 2


if __name__ == "__main__":
    sys.exit(main())
