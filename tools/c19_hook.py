"""C19 extension of ./check: the libm table decision and the two-build correspondence.

run(ctx) does:
  1. regenerate the define_float_funcs! table from /repo's common.rs (tools/c19_gen.py), evaluate
     `table_ok` on it inside Coq (the hypothesis of theorem C19_libm_mapping_ok);
  2. build the harness a second time against kurbo with default-features = false, features = ["libm"];
     run C19's own cases and laws under that build (the float methods through kurbo's FloatFuncs trait)
     and compare with the F64 model inside Coq;
  3. for every other integrated property: run its correspondence cases under the libm build, evaluate
     them against the same Coq model, and diff the libm build's outputs against the std build's on the
     same seeded cases (tolerance 1e-9 relative; identical where the std output is integral).
"""
import os, re, json, glob, subprocess, math
from concurrent.futures import ThreadPoolExecutor


def parse_tsv(path):
    rows = {}
    try:
        for line in open(path):
            p = line.rstrip("\n").split("\t")
            rows[int(p[0])] = (p[1], p[2], p[3], p[4])
    except OSError:
        pass
    return rows


def fl(x):
    if isinstance(x, str):
        return {"inf": math.inf, "-inf": -math.inf, "NaN": math.nan, "nan": math.nan}.get(x, math.nan)
    return float(x)


def close(a, b):
    if math.isnan(a) and math.isnan(b):
        return True
    if a == b:
        return True
    if math.isinf(a) or math.isinf(b) or math.isnan(a) or math.isnan(b):
        return False
    # discrete outputs (counts, flags, winding numbers, kinds) are encoded as integral floats: must be identical
    if a == math.floor(a) and abs(a) < 2 ** 31 and b == math.floor(b):
        return a == b
    return abs(a - b) <= 1e-9 * max(1.0, abs(a), abs(b))


def run(ctx):
    prop, tier, seed = ctx["prop"], ctx["tier"], ctx["seed"]
    ROOT, COQ, CASES, REPO, QFLAGS = ctx["ROOT"], ctx["COQ"], ctx["CASES"], ctx["REPO"], ctx["QFLAGS"]
    sh, log = ctx["run"], ctx["log"]
    problems, violations, ev = [], [], {}
    obligations = discharged = evaluations = 0
    wd = os.path.join(CASES, prop)
    os.makedirs(wd, exist_ok=True)

    # 1. table decision -------------------------------------------------------------------------
    obligations += 1
    tv = os.path.join(wd, "table.v")
    rc, out, dt = sh(["python3", os.path.join(ROOT, "tools", "c19_gen.py"), REPO, tv], timeout=120)
    table_info = None
    if rc != 0:
        problems.append(("proof", "the define_float_funcs! table could not be regenerated from common.rs: " + out.strip()[-300:],
                         {"obligation": "hypothesis of C19_libm_mapping_ok: table_ok (table regenerated from the source)", "log": out[-2000:]}))
    else:
        try:
            table_info = json.loads(out.strip().split("\n")[-1])
        except Exception:
            table_info = None
        rc, out, dt = sh(["timeout", "600", "coqc", "-noglob"] + QFLAGS + [tv], cwd=COQ, timeout=700)
        m = re.search(r"=\s*(true|false)\s*:\s*bool", out)
        bad = re.search(r"=\s*(\[.*?\])\s*:\s*list string", out, re.S)
        badm = re.findall(r'"([^"]+)"', bad.group(1)) if bad else []
        if rc == 0 and m and m.group(1) == "true":
            discharged += 1
        else:
            problems.append(("proof", "table_ok fails on the table found in common.rs (methods not mapped to the libm function of their meaning: %s; shape %s; signum %s)"
                             % (", ".join(badm) or "-", table_info and table_info.get("shape"), table_info and table_info.get("signum")),
                             {"obligation": "hypothesis of C19_libm_mapping_ok: table_ok src_shape src_signum src_table = true",
                              "bad_methods": badm, "table": table_info, "log": out[-1500:]}))
        for f in glob.glob(os.path.join(wd, "table.vo")) + glob.glob(os.path.join(wd, ".table.aux")):
            os.remove(f)
    ev["table"] = table_info

    # 2. libm build --------------------------------------------------------------------------------
    ok, out, dt, lexe = ctx["build_harness"]("libm")
    ev["libm_build_s"] = round(dt, 1)
    if not ok:
        problems.append(("harness", "harness does not build against kurbo with the libm feature (no std)", {"obligation": "libm build", "log": out[-3000:]}))
        return {"problems": problems, "violations": violations, "obligations": obligations + 1, "discharged": discharged, "evidence": ev}
    std_exe = ctx["std_exe"]

    def corr_under_libm(p, with_laws):
        """run property p's cases under the libm build, evaluate in Coq, diff against the std build"""
        res = {"prop": p, "cases": 0, "coq_disagree": [], "diff": [], "err": None, "law_violations": []}
        dl = os.path.join(wd, "libm_" + p)
        ds = os.path.join(wd, "std_" + p)
        for d in (dl, ds):
            os.makedirs(d, exist_ok=True)
            for f in glob.glob(os.path.join(d, "cases_*")) + glob.glob(os.path.join(d, ".cases_*")):
                os.remove(f)
        args = ["run", p, tier, str(seed), dl, "1"] + ([] if with_laws else ["corr-only"])
        rc, out, dt = sh(["timeout", "1500", lexe] + args, timeout=1600)
        if rc != 0:
            res["err"] = "libm harness run failed rc=%d: %s" % (rc, out[-500:]); return res
        summ = json.load(open(os.path.join(dl, "summary.json")))
        res["cases"] = summ["cases"]
        res["law_violations"] = summ.get("violations", [])
        res["law_evals"] = summ.get("oracle_evaluations", 0)
        if summ["cases"] > 0:
            path, r, err, dt = ctx["run_shard"]((os.path.join(dl, "cases_0.v"),))
            if r is None:
                res["err"] = "coqc failed on libm cases of %s: %s" % (p, err[-500:]); return res
            res["coq_disagree"] = r[0]
        if std_exe:
            rc, out, dt = sh(["timeout", "1500", std_exe, "run", p, tier, str(seed), ds, "1", "corr-only"], timeout=1600)
            if rc == 0:
                a, b = parse_tsv(os.path.join(ds, "cases.tsv")), parse_tsv(os.path.join(dl, "cases.tsv"))
                for i, ra in a.items():
                    rb = b.get(i)
                    if rb is None or ra[:3] != rb[:3]:
                        continue   # generation diverged (it may depend on computed values): not comparable
                    try:
                        oa, ob = [fl(x) for x in json.loads(ra[3])], [fl(x) for x in json.loads(rb[3])]
                    except Exception:
                        continue
                    if len(oa) != len(ob) or not all(close(x, y) for x, y in zip(oa, ob)):
                        res["diff"].append({"index": i, "group": ra[0], "op": ra[1], "args": ra[2], "std": ra[3], "libm": rb[3]})
                res["compared"] = sum(1 for i in a if i in b and a[i][:3] == b[i][:3])
        for f in glob.glob(os.path.join(dl, "cases_*.v*")) + glob.glob(os.path.join(ds, "cases_*.v*")) + glob.glob(os.path.join(dl, ".cases_*")):
            try:
                os.remove(f)
            except OSError:
                pass
        return res

    others = [p for p, c in sorted(ctx["PROPS"].items()) if c.get("integrated") and p != prop]
    jobs = [(prop, True)] + [(p, False) for p in others]
    with ThreadPoolExecutor(max_workers=4) as ex:
        results = list(ex.map(lambda j: corr_under_libm(*j), jobs))
    per = {}
    for r in results:
        p = r["prop"]
        obligations += 1
        per[p] = {"cases": r["cases"], "coq_disagreements": len(r["coq_disagree"]), "std_vs_libm_compared": r.get("compared", 0),
                  "std_vs_libm_differences": len(r["diff"])}
        evaluations += r["cases"] + r.get("law_evals", 0)
        if r["err"]:
            problems.append(("harness", r["err"], {"obligation": "libm-build correspondence of " + p, "log": r["err"]}))
            continue
        rows = parse_tsv(os.path.join(wd, "libm_" + p, "cases.tsv"))
        for v in r["law_violations"]:
            v = dict(v)
            v["class"] = "libm:" + v["class"]
            inp = v.get("input") or {}
            if isinstance(inp, dict) and "law" in inp:
                v["input"] = {"cmd": [lexe, "replay", p, inp["law"]] + [str(b) for b in inp.get("bits", [])], "law": None, "args": inp.get("args")}
                del v["input"]["law"]
            violations.append(v)
        excluded = set(ctx["cfg"].get("ill_conditioned_groups", {}).get(p, []))
        diff_idx = {d["index"]: d for d in r["diff"]}
        if p == prop:
            # the float methods themselves: the model's own tolerances decide (exact for the IEEE-specified ones)
            bad = [(i, None) for i in r["coq_disagree"]] + [(i, d) for i, d in diff_idx.items() if i not in r["coq_disagree"]]
        else:
            # another property's cases: a departure counts when the libm build leaves BOTH the model (under that
            # property's own tolerances) and the std build (beyond 1e-9 relative, or in a discrete output); a
            # last-bit difference in an exactly compared group (powi through libm's pow, …) is expected and is
            # only counted in the evidence
            bad = [(i, diff_idx[i]) for i in r["coq_disagree"] if i in diff_idx and (rows.get(i) or ("",))[0] not in excluded]
        per[p]["departures_counted"] = len(bad)
        per[p]["excluded_groups"] = sorted(excluded)
        if bad:
            for i, d in bad[:3]:
                row = rows.get(i)
                violations.append({"class": "libm-build:%s:%s" % (p, row[0] if row else "?"),
                                   "desc": "under the libm backend the implementation departs from the model%s on group %s op %s: args %s -> libm %s%s"
                                           % (" and from the std build" if d else "", row[0] if row else "?", row[1] if row else "?", row[2] if row else "?",
                                              row[3] if row else "?", (", std %s" % d["std"]) if d else ""),
                                   "input": {"property": p, "case_index": i, "args": row[2] if row else None, "libm_output": row[3] if row else None,
                                             "std_output": d["std"] if d else None}})
        else:
            discharged += 1
    ev["per_property_under_libm"] = per
    return {"problems": problems, "violations": violations, "obligations": obligations, "discharged": discharged,
            "evaluations": evaluations, "evidence": ev}
