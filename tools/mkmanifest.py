#!/usr/bin/env python3
"""Regenerates MANIFEST.json from props.json (claimed checks) and tools/manifest_meta.json (texts)."""
import json, os
ROOT = os.path.dirname(os.path.dirname(os.path.abspath(__file__)))
import glob
props = {os.path.basename(f)[:-5]: json.load(open(f)) for f in sorted(glob.glob(os.path.join(ROOT, "props", "C*.json")))}
meta = json.load(open(os.path.join(ROOT, "tools", "manifest_meta.json")))
all_ids = [json.loads(l)["id"] for l in open(os.path.join(ROOT, "properties.jsonl"))]
checks = []
for pid in all_ids:
    if pid not in props or not props[pid].get("integrated", False):
        continue
    m = props[pid]
    checks.append({
        "property_id": pid,
        "quick_cmd": "./check %s --tier quick" % pid,
        "thorough_cmd": "./check %s --tier thorough" % pid,
        "evidence_file": "/verif/evidence/%s.json" % pid,
        "replay_cmd_template": "./check %s --replay {path}" % pid,
        "engine": "coq-proof+correspondence",
        "level_claimed": {"category": "proof", "text": m["text"], "design_ref": m.get("design_ref", "DESIGN.md section 4 (%s)" % pid)},
        "level_note": m["note"],
        "technique": m.get("technique", "machine-checked proof in Coq 8.16 about a hand-written Gallina model; the model is tied to the code on every run by (i) a translator (tools/kurbo2coq) that regenerates the straight-line and simple-loop functions from the Rust source, each proved in Coq definitionally equal to the model function, and (ii) a bit-level correspondence check (the model executed by vm_compute on primitive floats against the compiled crate on the same inputs); laws sampled on the implementation supply concrete failing inputs"),
    })
na = [{"property_id": pid, "reason": meta["not_applicable"].get(pid, "check not built yet in this round; see DESIGN.md section 4 for the plan")}
      for pid in all_ids if pid not in [c["property_id"] for c in checks]]
man = {
    "version": 1,
    "setup_cmd": "./check --setup",
    "hooks": meta["hooks"],
    "engines": [{"name": "coq-proof+correspondence", "path": "/verif/check",
                 "serves_properties": [c["property_id"] for c in checks],
                 "kind_free_text": "Coq 8.16.1 theorems (coq/Properties/*.v) about scalar-generic Gallina models (coq/model/*.v), at the real instance and, where exactness is the claim, at the binary64 instance; tie 1: tools/kurbo2coq regenerates Gallina from the Rust source of ~317 functions on every run and Coq proves each definitionally equal to its model (props/translation.json, docs/TRANSLATOR.md); tie 2: the models are executed at binary64 inside Coq (vm_compute) on the inputs/outputs produced by a Rust harness linked against /repo's working tree and compared bit-for-bit; property laws are additionally sampled on the implementation to produce concrete replays"}],
    "checks": checks,
    "notes": meta["notes"],
    "not_applicable": na,
}
json.dump(man, open(os.path.join(ROOT, "MANIFEST.json"), "w"), indent=1)
print("MANIFEST.json:", len(checks), "checks,", len(na), "not applicable")
