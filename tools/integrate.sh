#!/bin/bash
# usage: tools/integrate.sh Cxx   — mark a property integrated, run its check (full harness build), record fingerprints
set -e
P=$1
cd /verif
python3 - "$P" <<'PY'
import json,sys
p=sys.argv[1]; f='/verif/props/%s.json'%p
d=json.load(open(f)); d['integrated']=True; json.dump(d,open(f,'w'),indent=1)
PY
python3 tools/mkmanifest.py
./check --fingerprints >/dev/null
./check "$P" --tier quick 2>&1 | tail -8
