#!/usr/bin/env python3
"""translate_check.py <repo-root> <workdir> [--props C20,C12,...] [--spec props/translation.json]

Second, proof-level tie between the hand models and the code: regenerates Gallina definitions from
the Rust source with tools/kurbo2coq (syn-based) and lets Coq prove, one lemma per function, that
each generated definition equals the hand-written model constant the theorems are about
(`intros; [destruct the records;] reflexivity` over an abstract `Scalar T`).

stdout: one JSON object {"functions": [{rust, model, props, status: equal|differs|untranslatable,
detail}], "helpers": [...], "summary": {...}}.  Exit 0 unless the tool itself crashed (exit 2).
A `differs`/`untranslatable` is not an alarm by itself; the driver escalates the sampling.
"""
import hashlib, json, os, re, shutil, subprocess, sys, time

VERIF = os.path.dirname(os.path.dirname(os.path.abspath(__file__)))
CRATE = os.path.join(VERIF, 'tools', 'kurbo2coq')
TARGET = os.path.join(VERIF, 'build', 'target-kurbo2coq')
BIN = os.path.join(TARGET, 'release', 'kurbo2coq')
CACHE = os.path.join(VERIF, 'build', 'translate-cache')
COQ_WARN = '-notation-overridden,-ambiguous-paths,-deprecated-instance-without-locality,-deprecated-hint-without-locality'
LIMIT_KB = 8000000


class ToolError(Exception):
    pass


def run(cmd, cwd=None, timeout=120, env=None, limit=True):
    e = dict(os.environ)
    e['OCAMLRUNPARAM'] = 's=8M,h=256M'
    if env:
        e.update(env)
    if limit:
        cmd = ['bash', '-c', 'ulimit -v %d; exec "$@"' % LIMIT_KB, 'sh'] + cmd
    try:
        p = subprocess.run(cmd, cwd=cwd, env=e, stdout=subprocess.PIPE, stderr=subprocess.STDOUT, timeout=timeout)
        return p.returncode, p.stdout.decode('utf-8', 'replace')
    except subprocess.TimeoutExpired as t:
        return 124, (t.stdout or b'').decode('utf-8', 'replace') + '\n[timeout after %ds]' % timeout


def build_translator():
    srcs = [os.path.join(CRATE, 'Cargo.toml')] + [os.path.join(CRATE, 'src', f) for f in os.listdir(os.path.join(CRATE, 'src'))]
    if os.path.exists(BIN) and all(os.path.getmtime(BIN) >= os.path.getmtime(s) for s in srcs):
        return
    rc, out = run(['cargo', 'build', '--release', '--offline'], cwd=CRATE, timeout=600,
                  env={'CARGO_NET_OFFLINE': 'true', 'CARGO_TARGET_DIR': TARGET}, limit=False)
    if rc != 0 or not os.path.exists(BIN):
        raise ToolError('building kurbo2coq failed:\n' + out[-3000:])


def kv_deps(mod, seen, order):
    """KV modules `mod` requires (base/ and model/ only), in dependency order."""
    if mod in seen:
        return
    seen.add(mod)
    path = None
    for d in ('base', 'model'):
        p = os.path.join(VERIF, 'coq', d, mod + '.v')
        if os.path.exists(p):
            path = p
    if path is None:
        raise ToolError('KV module %s not found under coq/base or coq/model' % mod)
    src = open(path).read()
    for m in re.finditer(r'From\s+KV\s+Require\s+(?:Import|Export)?\s*([^.]*)\.', src):
        for dep in m.group(1).split():
            kv_deps(dep, seen, order)
    order.append((mod, path))


def model_cache(imports):
    """Private, content-addressed build of the model files the lemmas talk about: the check never
    depends on (possibly stale, possibly concurrently rebuilt) .vo files under /verif/coq."""
    seen, order = set(), []
    for m in imports:
        kv_deps(m, seen, order)
    h = hashlib.sha256()
    for mod, path in order:
        h.update(mod.encode())
        h.update(open(path, 'rb').read())
    d = os.path.join(CACHE, h.hexdigest()[:20])
    if os.path.exists(os.path.join(d, 'OK')):
        return d
    tmp = d + '.tmp%d' % os.getpid()
    shutil.rmtree(tmp, ignore_errors=True)
    os.makedirs(tmp)
    for mod, path in order:
        shutil.copy(path, os.path.join(tmp, mod + '.v'))
        rc, out = run(['coqc', '-q', '-Q', tmp, 'KV', '-w', COQ_WARN, mod + '.v'], cwd=tmp, timeout=600)
        if rc != 0:
            raise ToolError('compiling model file %s failed:\n%s' % (path, out[-3000:]))
    open(os.path.join(tmp, 'OK'), 'w').write('ok\n')
    shutil.rmtree(d, ignore_errors=True)
    try:
        os.rename(tmp, d)
    except OSError:
        shutil.rmtree(tmp, ignore_errors=True)  # somebody else finished first
    # keep the cache small
    try:
        olds = sorted((os.path.getmtime(os.path.join(CACHE, x)), x) for x in os.listdir(CACHE))
        for _, x in olds[:-6]:
            shutil.rmtree(os.path.join(CACHE, x), ignore_errors=True)
    except OSError:
        pass
    return d


def coqc(kv, work, f, timeout=120):
    return run(['coqc', '-q', '-Q', kv, 'KV', '-Q', work, 'KVGen', '-w', COQ_WARN, f], cwd=work, timeout=timeout)


def error_line(out, fname):
    m = re.search(r'File "\./%s", line (\d+)' % re.escape(fname), out)
    return int(m.group(1)) if m else None


def short_err(out):
    m = re.search(r'Error:(.*)', out, re.S)
    s = (m.group(1) if m else out).strip()
    return re.sub(r'\s+', ' ', s)[:400]


def main():
    args = sys.argv[1:]
    props = None
    spec = os.path.join(VERIF, 'props', 'translation.json')
    pos = []
    i = 0
    while i < len(args):
        if args[i] == '--props':
            props = set(x for x in args[i + 1].split(',') if x)
            i += 2
        elif args[i].startswith('--props='):
            props = set(x for x in args[i][8:].split(',') if x)
            i += 1
        elif args[i] == '--spec':
            spec = args[i + 1]
            i += 2
        else:
            pos.append(args[i])
            i += 1
    if len(pos) != 2:
        raise ToolError(__doc__)
    repo, work = os.path.abspath(pos[0]), os.path.abspath(pos[1])
    os.makedirs(work, exist_ok=True)
    timings = {}
    t0 = time.time()
    build_translator()
    timings['build_translator'] = round(time.time() - t0, 2)

    specj = json.load(open(spec))
    t0 = time.time()
    kv = model_cache(specj.get('imports', ['Scalar']))
    timings['model_cache'] = round(time.time() - t0, 2)

    # translate; definitions Coq rejects are excluded and the translation repeated (their users follow)
    t0 = time.time()
    excluded = []
    gen = os.path.join(work, 'Gen.v')
    for rnd in range(8):
        cmd = [BIN, repo, spec, gen]
        if excluded:
            cmd.append('--exclude=' + ';;'.join('%s:%s' % (g, r.replace(';;', ';')) for g, r in excluded))
        rc, out = run(cmd, timeout=120)
        if rc != 0:
            raise ToolError('kurbo2coq failed (rc=%d):\n%s' % (rc, out[-3000:]))
        rep = json.load(open(gen + '.json'))
        for ext in ('.vo', '.vok', '.vos', '.glob'):
            try:
                os.remove(os.path.join(work, 'Gen' + ext))
            except OSError:
                pass
        rc, out = coqc(kv, work, 'Gen.v')
        if rc == 0:
            break
        ln = error_line(out, 'Gen.v')
        culprit = None
        if ln is not None:
            for f in rep['functions']:
                gl = f.get('gen_lines')
                if gl and gl[0] <= ln <= gl[1]:
                    culprit = f
        if culprit is None:
            raise ToolError('Gen.v does not compile and the error is not inside a generated definition:\n' + out[-3000:])
        excluded.append((culprit['gen'], short_err(out)))
    else:
        raise ToolError('Gen.v still does not compile after excluding: %s' % excluded)
    timings['translate_and_compile_gen'] = round(time.time() - t0, 2)

    funs = [f for f in rep['functions'] if f['kind'] == 'tied']
    helpers = [f for f in rep['functions'] if f['kind'] != 'tied']
    if props is not None:
        funs = [f for f in funs if props & set(f['props'])]
    results = {}
    for f in funs:
        if f['status'] != 'translated':
            results[f['id']] = ('untranslatable', f['detail'])

    todo = [f for f in funs if f['status'] == 'translated']
    prelude = rep['prelude']

    def write_eq(fs, name):
        lines = [prelude, '']
        spans = []
        for f in fs:
            start = sum(x.count('\n') + 1 for x in lines) + 1
            lines.append('(* TR %s *)\nLemma tr_%s : %s.\nProof. tr_solve. Qed.' % (f['id'], f['id'], f['lemma']))
            end = sum(x.count('\n') + 1 for x in lines)
            spans.append((f, start, end))
        open(os.path.join(work, name), 'w').write('\n'.join(lines) + '\n')
        return spans

    t0 = time.time()
    rounds = 0
    while todo:
        rounds += 1
        spans = write_eq(todo, 'GenEq.v')
        rc, out = coqc(kv, work, 'GenEq.v', timeout=120)
        if rc == 0:
            for f in todo:
                results[f['id']] = ('equal', '')
            break
        if rounds == 1:
            # find every lemma that does not go through, in one diagnostic pass
            lines = [prelude, '']
            for f in todo:
                lines.append('Goal %s.\nProof. tryif assert_succeeds (timeout 30 tr_solve) then idtac "TR_EQ %s" else idtac "TR_DIFF %s". Abort.'
                             % (f['lemma'], f['id'], f['id']))
            open(os.path.join(work, 'GenEqDiag.v'), 'w').write('\n'.join(lines) + '\n')
            rc2, out2 = coqc(kv, work, 'GenEqDiag.v', timeout=300)
            diffs = set(re.findall(r'TR_DIFF (\S+)', out2))
            if rc2 == 0 and diffs:
                for f in todo:
                    if f['id'] in diffs:
                        results[f['id']] = ('differs', 'no proof of `%s` by computation: the generated definition and the hand model are not definitionally equal' % f['lemma'].split(', ', 1)[-1])
                todo = [f for f in todo if f['id'] not in diffs]
                continue
            if rc2 != 0:
                # a statement that does not even type-check (signature changed): attribute by line below
                pass
        ln = error_line(out, 'GenEq.v')
        bad = None
        if ln is not None:
            for f, a, b in spans:
                if a <= ln <= b:
                    bad = f
        if bad is None:
            raise ToolError('GenEq.v fails outside any lemma:\n' + out[-3000:])
        results[bad['id']] = ('differs', short_err(out))
        todo = [f for f in todo if f is not bad]
        if rounds > 40:
            raise ToolError('too many failing lemmas')
    timings['coq_lemmas'] = round(time.time() - t0, 2)
    timings['coq_rounds'] = rounds

    out_f = []
    for f in funs:
        st, det = results.get(f['id'], ('untranslatable', 'internal: no verdict'))
        out_f.append({'rust': f['rust'], 'model': f['model'], 'props': f['props'], 'status': st, 'detail': det,
                      'gen': f['gen'], 'source': '%s:%s' % (f.get('file'), f.get('line'))})
    out_h = [{'rust': f['rust'], 'kind': f['kind'], 'status': f['status'], 'detail': f['detail']} for f in helpers]
    summary = {'equal': 0, 'differs': 0, 'untranslatable': 0}
    per_prop = {}
    for f in out_f:
        summary[f['status']] += 1
        for p in f['props']:
            per_prop.setdefault(p, {'equal': 0, 'differs': 0, 'untranslatable': 0})[f['status']] += 1
    summary['functions'] = len(out_f)
    summary['helpers'] = len(out_h)
    summary['helpers_untranslatable'] = sum(1 for h in out_h if h['status'] != 'translated')
    summary['per_property'] = dict(sorted(per_prop.items()))
    summary['timings_s'] = timings
    summary['repo'] = repo
    summary['spec'] = spec
    summary['generated'] = gen
    json.dump({'functions': out_f, 'helpers': out_h, 'summary': summary}, sys.stdout, indent=1)
    sys.stdout.write('\n')


if __name__ == '__main__':
    try:
        main()
    except ToolError as e:
        sys.stderr.write('translate_check: %s\n' % e)
        sys.exit(2)
    except Exception:
        import traceback
        traceback.print_exc()
        sys.exit(2)
    sys.exit(0)
