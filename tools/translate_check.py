#!/usr/bin/env python3
"""translate_check.py <repo-root> <workdir> [--props C20,C12,...] [--spec props/translation.json]

Second, proof-level tie between the hand models and the code: regenerates Gallina definitions from
the Rust source with tools/kurbo2coq (syn-based) and lets Coq prove, one lemma per function, that
each generated definition equals the hand-written model constant the theorems are about
(`intros; [destruct the records;] reflexivity` over an abstract `Scalar T`).

stdout: one JSON object {"functions": [{rust, model, props, status: equal|differs|untranslatable,
detail}], "helpers": [...], "summary": {...}}.  Exit 0 unless the tool itself crashed (exit 2).
A `differs`/`untranslatable` is not an alarm by itself; the driver escalates the sampling.
"""
import hashlib, json, os, re, shutil, subprocess, sys, time

VERIF = os.path.dirname(os.path.dirname(os.path.abspath(__file__)))
CRATE = os.path.join(VERIF, 'tools', 'kurbo2coq')
TARGET = os.path.join(VERIF, 'build', 'target-kurbo2coq')
BIN = os.path.join(TARGET, 'release', 'kurbo2coq')
CACHE = os.path.join(VERIF, 'build', 'translate-cache')
COQ_WARN = '-notation-overridden,-ambiguous-paths,-deprecated-instance-without-locality,-deprecated-hint-without-locality'
LIMIT_KB = 8000000


class ToolError(Exception):
    pass


def run(cmd, cwd=None, timeout=120, env=None, limit=True):
    e = dict(os.environ)
    e['OCAMLRUNPARAM'] = 's=8M,h=256M'
    if env:
        e.update(env)
    if limit:
        cmd = ['bash', '-c', 'ulimit -v %d; exec "$@"' % LIMIT_KB, 'sh'] + cmd
    try:
        p = subprocess.run(cmd, cwd=cwd, env=e, stdout=subprocess.PIPE, stderr=subprocess.STDOUT, timeout=timeout)
        return p.returncode, p.stdout.decode('utf-8', 'replace')
    except subprocess.TimeoutExpired as t:
        return 124, (t.stdout or b'').decode('utf-8', 'replace') + '\n[timeout after %ds]' % timeout


def build_translator():
    srcs = [os.path.join(CRATE, 'Cargo.toml')] + [os.path.join(CRATE, 'src', f) for f in os.listdir(os.path.join(CRATE, 'src'))]
    if os.path.exists(BIN) and all(os.path.getmtime(BIN) >= os.path.getmtime(s) for s in srcs):
        return
    rc, out = run(['cargo', 'build', '--release', '--offline'], cwd=CRATE, timeout=600,
                  env={'CARGO_NET_OFFLINE': 'true', 'CARGO_TARGET_DIR': TARGET}, limit=False)
    if rc != 0 or not os.path.exists(BIN):
        raise ToolError('building kurbo2coq failed:\n' + out[-3000:])


def kv_deps(mod, seen, order):
    """KV modules `mod` requires (base/ and model/ only), in dependency order."""
    if mod in seen:
        return
    seen.add(mod)
    path = None
    for d in ('base', 'model'):
        p = os.path.join(VERIF, 'coq', d, mod + '.v')
        if os.path.exists(p):
            path = p
    if path is None:
        raise ToolError('KV module %s not found under coq/base or coq/model' % mod)
    src = open(path).read()
    for m in re.finditer(r'From\s+KV\s+Require\s+(?:Import|Export)?\s*([^.]*)\.', src):
        for dep in m.group(1).split():
            kv_deps(dep, seen, order)
    order.append((mod, path))


def model_cache(imports):
    """Private, content-addressed build of the model files the lemmas talk about: the check never
    depends on (possibly stale, possibly concurrently rebuilt) .vo files under /verif/coq."""
    seen, order = set(), []
    for m in imports:
        kv_deps(m, seen, order)
    h = hashlib.sha256()
    for mod, path in order:
        h.update(mod.encode())
        h.update(open(path, 'rb').read())
    d = os.path.join(CACHE, h.hexdigest()[:20])
    if os.path.exists(os.path.join(d, 'OK')):
        return d
    tmp = d + '.tmp%d' % os.getpid()
    shutil.rmtree(tmp, ignore_errors=True)
    os.makedirs(tmp)
    for mod, path in order:
        shutil.copy(path, os.path.join(tmp, mod + '.v'))
        rc, out = run(['coqc', '-q', '-Q', tmp, 'KV', '-w', COQ_WARN, mod + '.v'], cwd=tmp, timeout=600)
        if rc != 0:
            raise ToolError('compiling model file %s failed:\n%s' % (path, out[-3000:]))
    open(os.path.join(tmp, 'OK'), 'w').write('ok\n')
    shutil.rmtree(d, ignore_errors=True)
    try:
        os.rename(tmp, d)
    except OSError:
        shutil.rmtree(tmp, ignore_errors=True)  # somebody else finished first
    # keep the cache small
    try:
        olds = sorted((os.path.getmtime(os.path.join(CACHE, x)), x) for x in os.listdir(CACHE))
        for _, x in olds[:-6]:
            shutil.rmtree(os.path.join(CACHE, x), ignore_errors=True)
    except OSError:
        pass
    return d


BRIDGES = os.path.join(CRATE, 'bridges')
BRIDGE_JOBS = max(1, min(6, (os.cpu_count() or 2) // 2))


def coqc(kv, work, f, timeout=120, cwd=None):
    return run(['coqc', '-q', '-Q', kv, 'KV', '-Q', os.path.join(work, 'gen'), 'KVGen', '-Q', os.path.join(work, 'bridges'), 'KVBridge',
                '-w', COQ_WARN, f], cwd=cwd or work, timeout=timeout)


def compile_bridge_module(kv, work, bdir, mod, ids):
    """One bridge file: compile, cutting out what fails (see compile_bridges).  Returns {lemma id: error}."""
    failed = {}
    src_path = os.path.join(BRIDGES, mod + '.v')
    if not os.path.exists(src_path):
        for i in ids:
            failed[i] = 'bridge file bridges/%s.v is missing' % mod
        return failed
    text = open(src_path).read()
    admitted = []
    for _ in range(len(ids) + 12):
        open(os.path.join(bdir, mod + '.v'), 'w').write(text)
        rc, out = coqc(kv, work, mod + '.v', timeout=90, cwd=bdir)
        if rc == 0:
            break
        ln = error_line(out, mod + '.v')
        lines = text.split('\n')
        # the lemma (Lemma NAME ... Qed.) enclosing the error
        start = None
        if ln is not None:
            for k in range(min(ln, len(lines)) - 1, -1, -1):
                m = re.match(r'\s*(?:Lemma|Theorem)\s+([A-Za-z0-9_\']+)', lines[k])
                if m:
                    start = (k, m.group(1))
                    break
                if re.match(r'\s*(.*\s)?(Qed|Defined|Abort|Admitted)\.\s*$', lines[k]) and k < ln - 1:
                    break
        if start is None:
            for i in ids:
                failed.setdefault(i, 'bridge file %s.v fails outside a lemma: %s' % (mod, short_err(out)))
            break
        k0, lname = start
        k1 = k0
        while k1 < len(lines) and not re.match(r'\s*(.*\s)?(Qed\.|Admitted\.)', lines[k1]):
            k1 += 1
        if lname.startswith('br_'):
            lid = lname[3:]
            failed[lid] = 'the bridge lemma br_%s no longer goes through: %s' % (lid, short_err(out))
            text = '\n'.join(lines[:k0] + ['(* br_%s removed: it failed *)' % lid] * (k1 - k0 + 1) + lines[k1 + 1:])
        else:
            # an auxiliary (simulation) lemma: keep its statement so that the lemmas about *other* functions,
            # which use it as the specification of their callee, are still checked; every br_ lemma that
            # appeals to it directly is reported as failed
            kp = k0
            while kp <= k1 and not re.match(r'\s*Proof\b', lines[kp]):
                kp += 1
            if kp > k1:
                for i in ids:
                    failed.setdefault(i, 'bridge file %s.v: cannot isolate the failing lemma %s' % (mod, lname))
                break
            # ownership tag on the line(s) above the lemma: (* owner: <function id> *)
            owner = None
            for kk in range(k0 - 1, max(k0 - 4, -1), -1):
                mo = re.search(r'\(\*\s*owner:\s*(\S+)\s*\*\)', lines[kk])
                if mo:
                    owner = mo.group(1)
                    break
            if owner is None:
                for i in ids:
                    failed.setdefault(i, 'bridge file %s.v: the shared lemma %s fails: %s' % (mod, lname, short_err(out)))
                break
            failed.setdefault(owner, 'its simulation lemma %s no longer goes through: %s' % (lname, short_err(out)))
            if any(a[0] == lname for a in admitted):
                # even the statement is rejected (the generated function is gone): drop the lemma altogether
                text = '\n'.join(lines[:k0] + ['(* %s removed *)' % lname] * (k1 - k0 + 1) + lines[k1 + 1:])
                continue
            admitted.append((lname, short_err(out)))
            text = '\n'.join(lines[:kp] + ['Proof. Admitted. (* %s failed in this run *)' % lname] + [''] * (k1 - kp) + lines[k1 + 1:])
    else:
        for i in ids:
            failed.setdefault(i, 'bridge file %s.v keeps failing' % mod)
    return failed


def compile_bridges(kv, work, wanted):
    """Compile the hand-written bridge files against the freshly generated Gen.vo.
    wanted: {module: [lemma ids]}.  Returns {lemma id: error} for the bridge lemmas that failed
    (a failing lemma is cut out of the private copy of the file and the file recompiled, so that
    the failure is attributed to that function only)."""
    bdir = os.path.join(work, 'bridges')
    shutil.rmtree(bdir, ignore_errors=True)
    os.makedirs(bdir)
    failed = {}
    if not wanted:
        return failed
    lib = os.path.join(BRIDGES, 'BridgeLib.v')
    if os.path.exists(lib):
        shutil.copy(lib, bdir)
        rc, out = coqc(kv, work, 'BridgeLib.v', timeout=120, cwd=bdir)
        if rc != 0:
            raise ToolError('bridges/BridgeLib.v does not compile:\n' + out[-2000:])
    # the bridge files depend on BridgeLib only: compile them side by side (each in its own coqc process)
    import concurrent.futures
    mods = sorted(wanted.items())
    with concurrent.futures.ThreadPoolExecutor(max_workers=min(len(mods), BRIDGE_JOBS)) as ex:
        results = list(ex.map(lambda mi: compile_bridge_module(kv, work, bdir, mi[0], mi[1]), mods))
    for r in results:       # in module order: deterministic
        for k, v in r.items():
            failed.setdefault(k, v)
    return failed


def error_line(out, fname):
    m = re.search(r'File "\./%s", line (\d+)' % re.escape(fname), out)
    return int(m.group(1)) if m else None


def short_err(out):
    m = re.search(r'Error:(.*)', out, re.S)
    s = (m.group(1) if m else out).strip()
    return re.sub(r'\s+', ' ', s)[:400]


def main():
    args = sys.argv[1:]
    props = None
    spec = os.path.join(VERIF, 'props', 'translation.json')
    pos = []
    i = 0
    while i < len(args):
        if args[i] == '--props':
            props = set(x for x in args[i + 1].split(',') if x)
            i += 2
        elif args[i].startswith('--props='):
            props = set(x for x in args[i][8:].split(',') if x)
            i += 1
        elif args[i] == '--spec':
            spec = args[i + 1]
            i += 2
        else:
            pos.append(args[i])
            i += 1
    if len(pos) != 2:
        raise ToolError(__doc__)
    repo, work = os.path.abspath(pos[0]), os.path.abspath(pos[1])
    os.makedirs(work, exist_ok=True)
    timings = {}
    t0 = time.time()
    build_translator()
    timings['build_translator'] = round(time.time() - t0, 2)

    specj = json.load(open(spec))
    t0 = time.time()
    kv = model_cache(specj.get('imports', ['Scalar']))
    timings['model_cache'] = round(time.time() - t0, 2)

    # translate; definitions Coq rejects are excluded and the translation repeated (their users follow)
    t0 = time.time()
    excluded = []
    os.makedirs(os.path.join(work, 'gen'), exist_ok=True)
    gen = os.path.join(work, 'gen', 'Gen.v')
    for rnd in range(8):
        cmd = [BIN, repo, spec, gen]
        if excluded:
            cmd.append('--exclude=' + ';;'.join('%s:%s' % (g, r.replace(';;', ';')) for g, r in excluded))
        rc, out = run(cmd, timeout=120)
        if rc != 0:
            raise ToolError('kurbo2coq failed (rc=%d):\n%s' % (rc, out[-3000:]))
        rep = json.load(open(gen + '.json'))
        for ext in ('.vo', '.vok', '.vos', '.glob'):
            try:
                os.remove(os.path.join(work, 'gen', 'Gen' + ext))
            except OSError:
                pass
        rc, out = coqc(kv, work, 'Gen.v', cwd=os.path.join(work, 'gen'))
        if rc == 0:
            break
        ln = error_line(out, 'Gen.v')
        culprit = None
        if ln is not None:
            for f in rep['functions']:
                gl = f.get('gen_lines')
                if gl and gl[0] <= ln <= gl[1]:
                    culprit = f
        if culprit is None:
            raise ToolError('Gen.v does not compile and the error is not inside a generated definition:\n' + out[-3000:])
        excluded.append((culprit['gen'], short_err(out)))
    else:
        raise ToolError('Gen.v still does not compile after excluding: %s' % excluded)
    shutil.copy(gen, os.path.join(work, 'Gen.v'))   # the generated file, for the reader (the compiled copy is gen/Gen.v)
    timings['translate_and_compile_gen'] = round(time.time() - t0, 2)

    funs = [f for f in rep['functions'] if f['kind'] == 'tied']
    helpers = [f for f in rep['functions'] if f['kind'] != 'tied']
    if props is not None:
        funs = [f for f in funs if props & set(f['props'])]
    results = {}
    for f in funs:
        if f['status'] != 'translated':
            results[f['id']] = ('untranslatable', f['detail'])

    todo = [f for f in funs if f['status'] == 'translated']
    prelude = rep['prelude']
    t0 = time.time()
    wanted = {}
    for f in todo:
        if f.get('bridge'):
            wanted.setdefault(f['bridge'], []).append(f['id'])
    bridge_failed = compile_bridges(kv, work, wanted)
    for f in todo:
        if f.get('bridge') and f['id'] in bridge_failed:
            results[f['id']] = ('differs', bridge_failed[f['id']])
        elif f.get('bridge') and not os.path.exists(os.path.join(work, 'bridges', f['bridge'] + '.vo')):
            results[f['id']] = ('differs', 'bridge file %s.v did not compile' % f['bridge'])
    todo = [f for f in todo if f['id'] not in results]
    compiled = [m for m in sorted(wanted) if os.path.exists(os.path.join(work, 'bridges', m + '.vo'))]
    if compiled:
        prelude += '\n' + '\n'.join('From KVBridge Require %s.' % m for m in compiled)
    timings['bridges'] = round(time.time() - t0, 2)

    def write_eq(fs, name):
        lines = [prelude, '']
        spans = []
        for f in fs:
            start = sum(x.count('\n') + 1 for x in lines) + 1
            proof = 'exact KVBridge.%s.br_%s.' % (f['bridge'], f['id']) if f.get('bridge') else 'tr_solve.'
            lines.append('(* TR %s *)\nLemma tr_%s : %s.\nProof. %s Qed.' % (f['id'], f['id'], f['lemma'], proof))
            end = sum(x.count('\n') + 1 for x in lines)
            spans.append((f, start, end))
        open(os.path.join(work, name), 'w').write('\n'.join(lines) + '\n')
        return spans

    t0 = time.time()
    rounds = 0
    while todo:
        rounds += 1
        spans = write_eq(todo, 'GenEq.v')
        rc, out = coqc(kv, work, 'GenEq.v', timeout=120)
        if rc == 0:
            for f in todo:
                results[f['id']] = ('equal', '')
            break
        if rounds == 1:
            # find every lemma that does not go through, in one diagnostic pass
            lines = [prelude, '']
            for f in todo:
                tac = '(exact KVBridge.%s.br_%s)' % (f['bridge'], f['id']) if f.get('bridge') else 'tr_solve'
                lines.append('Goal %s.\nProof. tryif assert_succeeds (timeout 30 %s) then idtac "TR_EQ %s" else idtac "TR_DIFF %s". Abort.'
                             % (f['lemma'], tac, f['id'], f['id']))
            open(os.path.join(work, 'GenEqDiag.v'), 'w').write('\n'.join(lines) + '\n')
            rc2, out2 = coqc(kv, work, 'GenEqDiag.v', timeout=300)
            diffs = set(re.findall(r'TR_DIFF (\S+)', out2))
            if rc2 == 0 and diffs:
                for f in todo:
                    if f['id'] in diffs:
                        results[f['id']] = ('differs', 'no proof of `%s` by computation: the generated definition and the hand model are not definitionally equal' % f['lemma'].split(', ', 1)[-1])
                todo = [f for f in todo if f['id'] not in diffs]
                continue
            if rc2 != 0:
                # a statement that does not even type-check (signature changed): attribute by line below
                pass
        ln = error_line(out, 'GenEq.v')
        bad = None
        if ln is not None:
            for f, a, b in spans:
                if a <= ln <= b:
                    bad = f
        if bad is None:
            raise ToolError('GenEq.v fails outside any lemma:\n' + out[-3000:])
        results[bad['id']] = ('differs', short_err(out))
        todo = [f for f in todo if f is not bad]
        if rounds > 40:
            raise ToolError('too many failing lemmas')
    timings['coq_lemmas'] = round(time.time() - t0, 2)
    timings['coq_rounds'] = rounds

    out_f = []
    for f in funs:
        st, det = results.get(f['id'], ('untranslatable', 'internal: no verdict'))
        o = {'rust': f['rust'], 'model': f['model'], 'props': f['props'], 'status': st, 'detail': det,
             'gen': f['gen'], 'source': '%s:%s' % (f.get('file'), f.get('line')), 'via': f.get('via') or ('bridge' if f.get('bridge') else 'reflexivity')}
        out_f.append(o)
    out_h = [{'rust': f['rust'], 'kind': f['kind'], 'status': f['status'], 'detail': f['detail']} for f in helpers]
    summary = {'equal': 0, 'differs': 0, 'untranslatable': 0}
    per_prop = {}
    for f in out_f:
        summary[f['status']] += 1
        for p in f['props']:
            per_prop.setdefault(p, {'equal': 0, 'differs': 0, 'untranslatable': 0})[f['status']] += 1
    summary['functions'] = len(out_f)
    summary['helpers'] = len(out_h)
    summary['helpers_untranslatable'] = sum(1 for h in out_h if h['status'] != 'translated')
    summary['per_property'] = dict(sorted(per_prop.items()))
    summary['timings_s'] = timings
    summary['repo'] = repo
    summary['spec'] = spec
    summary['generated'] = gen
    json.dump({'functions': out_f, 'helpers': out_h, 'summary': summary}, sys.stdout, indent=1)
    sys.stdout.write('\n')


if __name__ == '__main__':
    try:
        main()
    except ToolError as e:
        sys.stderr.write('translate_check: %s\n' % e)
        sys.exit(2)
    except Exception:
        import traceback
        traceback.print_exc()
        sys.exit(2)
    sys.exit(0)
