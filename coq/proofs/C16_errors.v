(** C16: the documented errors. *)
From Coq Require Import ZArith List Bool Lia.
From KV Require Import Scalar Geom Curves Path ShapeTypes Svg SvgSpec C16_lex C16_parse.
Import ListNotations.
Local Open Scope Z_scope.

Section Errors.
Context {T : Type} `{Scalar T}.
Variable num_of : list Z -> option T.
Variable frem : T -> T -> T.
Local Notation getnum := (get_number num_of).
Local Notation Cmd := (@SCmd T).

Definition is_letter (c : Z) : bool := is_lower c || is_upper c.

Section AnyCfg.
Variable cfg : Cfg.

Lemma get_cmd_letter_skip lc s c r : skip_ws s = c :: r -> is_letter c = true ->
  get_cmd (cfg_plus cfg) lc s = Some (c, r).
Proof. intros E Hc. rewrite <- get_cmd_skip, E. apply get_cmd_letter; auto. Qed.

(** a command other than moveto at the start of the data *)
Lemma uninitialized s c r : skip_ws s = c :: r -> is_letter c = true -> c <> 109 -> c <> 77 ->
  from_svg num_of frem cfg s = Err UninitializedPath.
Proof.
  intros E Hc H1 H2. unfold from_svg. cbn [parse_loop]. unfold step.
  rewrite (get_cmd_letter_skip _ _ _ _ E Hc). unfold step_cmd.
  destruct (Z.eqb_spec c 109); [congruence|]. destruct (Z.eqb_spec c 77); [congruence|]. reflexivity.
Qed.

(** a letter that is not a path command, once the path has been started *)
Lemma step_unknown st s c r : ps_started st = true -> skip_ws s = c :: r -> is_letter c = true ->
  decode_cmd c = None -> step num_of frem cfg st s = SErr (UnknownCommand c).
Proof.
  intros Hst E Hc Hd. unfold step. rewrite (get_cmd_letter_skip _ _ _ _ E Hc). unfold step_cmd.
  rewrite Hst, andb_false_r, Hd. reflexivity.
Qed.

(** a command letter followed by something that is not a number *)
Lemma step_cmd_bad_number st c r k e : decode_cmd c = Some k -> k <> KZ ->
  (ps_started st = true \/ k = KM) -> getnum r = Err e ->
  step_cmd num_of frem cfg st c r = SErr e.
Proof.
  intros Hd Hk Hst Hn. unfold step_cmd. rewrite Hd.
  assert (negb ((c =? 109) || (c =? 77)) && negb (ps_started st) = false) as ->.
  { destruct Hst as [->| ->]; [apply andb_false_r|].
    unfold decode_cmd in Hd. destruct (is_lower c) eqn:El.
    - unfold kind_of_upper in Hd. destruct (Z.eqb_spec (c - 32) 77).
      + assert (c = 109) by lia. subst. reflexivity.
      + repeat match type of Hd with context [if ?b then _ else _] => destruct b end; discriminate.
    - unfold kind_of_upper in Hd. destruct (Z.eqb_spec c 77).
      + subst. reflexivity.
      + repeat match type of Hd with context [if ?b then _ else _] => destruct b end; discriminate. }
  destruct k; try congruence; unfold get_maybe_relative, get_number_pair; rewrite Hn; reflexivity.
Qed.

Lemma step_bad_number st s c r k e : skip_ws s = c :: r -> is_letter c = true ->
  decode_cmd c = Some k -> k <> KZ -> (ps_started st = true \/ k = KM) -> getnum r = Err e ->
  step num_of frem cfg st s = SErr e.
Proof.
  intros E Hc Hd Hk Hst Hn. unfold step. rewrite (get_cmd_letter_skip _ _ _ _ E Hc).
  eapply step_cmd_bad_number; eauto.
Qed.

End AnyCfg.

(** ** what makes [get_number] fail *)

(** [get_number] fails with [UnexpectedEof] exactly at the end of the data, and with [Wrong]
    exactly when the remaining text does not start with a token of the number grammar
    delimited from what follows, or [parse] rejects the token *)
Lemma get_number_eof s : getnum s = Err UnexpectedEof <-> skip_ws s = [].
Proof.
  unfold get_number. split.
  - destruct (lex_number s) as [[t r]|e] eqn:E; cbn [bind].
    + destruct (num_of t); discriminate.
    + intros E'; inversion E'; subst. destruct (lex_number_err _ _ E) as [[_ ?]|[? _]]; auto. discriminate.
  - intros E. unfold lex_number. rewrite E. reflexivity.
Qed.

Lemma get_number_ok_iff s x r :
  getnum s = Ok (x, r) <->
  exists t, skip_ws s = t ++ r /\ number_tok t /\ delim t r /\ num_of t = Some x.
Proof.
  unfold get_number. split.
  - destruct (lex_number s) as [[t r']|e] eqn:E; cbn [bind]; [|discriminate].
    destruct (num_of t) eqn:En; intros E'; inversion E'; subst.
    destruct (lex_number_spec _ _ _ E) as (Es & Ht & Hd & _). eauto.
  - intros (t & Es & Ht & Hd & Hn). rewrite <- lex_number_skip, Es, lex_number_tok; auto.
    cbn [bind]. rewrite Hn. reflexivity.
Qed.

Lemma get_number_wrong s : getnum s = Err Wrong <->
  skip_ws s <> [] /\
  forall t r, skip_ws s = t ++ r -> number_tok t -> delim t r -> num_of t = None.
Proof.
  split.
  - intros E. split.
    + intros Es. apply get_number_eof in Es. congruence.
    + intros t r Es Ht Hd. destruct (num_of t) as [x|] eqn:En; auto.
      assert (getnum s = Ok (x, r)) by (apply get_number_ok_iff; eauto). congruence.
  - intros (Hne & Hall). unfold get_number.
    destruct (lex_number s) as [[t r]|e] eqn:E; cbn [bind].
    + destruct (lex_number_spec _ _ _ E) as (Es & Ht & Hd & _). rewrite (Hall t r Es Ht Hd). reflexivity.
    + destruct (lex_number_err _ _ E) as [[_ ?]|[-> _]]; [contradiction|reflexivity].
Qed.

(** ** after a valid prefix *)
Local Open Scope S_scope.
Hypothesis fadd_comm : forall a b : T, a + b = b + a.
Hypothesis fmul2_comm : forall a : T, f2 * a = a * f2.

Lemma interp_step_started (ist ist' : @IState T) (c : Cmd) em :
  interp_step frem ist c = Ok (ist', em) -> i_started ist' = true.
Proof.
  destruct c; cbn [interp_step]; try (intros E; inversion E; reflexivity);
    destruct (negb (i_started ist)); try discriminate; intros E; inversion E; reflexivity.
Qed.

Lemma interp_run_started (cmds : list Cmd) : forall ist istf els, cmds <> [] ->
  interp_run frem ist cmds = Ok (istf, els) -> i_started istf = true.
Proof.
  induction cmds as [|c r IH]; intros ist istf els Hne; [congruence|]. cbn [interp_run].
  destruct (interp_step frem ist c) as [[ist' em]|e] eqn:Es; [|discriminate].
  destruct (interp_run frem ist' r) as [[sf e2]|e] eqn:Er; [|discriminate].
  intros E; inversion E; subst.
  destruct r as [|c2 r2]; [cbn in Er; inversion Er; subst; eapply interp_step_started; eauto|].
  eapply IH; eauto. discriminate.
Qed.

(** a valid rendering of [cmds], white space [w], then the text [k0] on which the next loop iteration
    fails with [e] in every started state: the whole parse fails with [e] *)
Lemma error_after_prefix (cmds : list Cmd) sps w k0 e :
  cmds <> [] -> spells_ok num_of None cmds sps -> all_ws w -> tailk k0 -> end_ok None cmds sps w k0 ->
  (exists els, interp frem cmds = Ok els) ->
  (forall st r, ps_started st = true -> skip_ws r = k0 -> step num_of frem fixed st r = SErr e) ->
  from_svg num_of frem fixed (render cmds sps (w ++ k0)) = Err e.
Proof.
  intros Hne Hsp Hw Hk0 Hend (els0 & Hint) Hfail. unfold from_svg.
  pose proof (loop_rendered num_of frem fadd_comm fmul2_comm cmds sps None ps_init i_init
                (render cmds sps (w ++ k0)) w k0 (S (length (render cmds sps (w ++ k0))))
                (R_init) lcinv_init I Hsp Hw Hk0 Hend (canon_start num_of _ _ _ Hsp) ltac:(lia)) as Hloop.
  unfold interp in Hint. rewrite interp_from_run in Hint.
  destruct (interp_run frem i_init cmds) as [[istf els]|e'] eqn:Er; [|discriminate].
  destruct Hloop as (stf & r & HR & _ & Hr & _ & ->).
  cbn [parse_loop]. rewrite (Hfail stf r); [reflexivity| |exact Hr].
  destruct HR as (Hs & _). rewrite Hs. eapply interp_run_started; eauto.
Qed.

End Errors.
