(** C18 proofs.
    Part 1 (any scalar instance, so also the floats): the recursion of fit_to_bezpath as a tree,
    the chain of leaf ranges, the shape of the emitted path, the line fallback.
    Part 2 (any scalar instance): simplify_bezpath's state machine.
    Part 3 (real instance): tiling of [0,1], CubicOffset algebra, moment integrals. *)
From Coq Require Import ZArith QArith Reals List Bool Lra Lia.
From KV Require Import Scalar RInst Geom Curves Path Fit FitSpec RTac.
Import ListNotations.

Set Implicit Arguments.

(* ===================================================================================== *)
Section FitGeneric.
Context {T : Type} `{Scalar T}.
Variable spt : T -> T -> Sample T.
Variable spd : T -> Point T.
Variable bc : T -> T -> option T.
Variable fc : T -> T -> option (CubicBez T * T).
Variable acc : T.

Definition sp (t : T) : Point T := s_p (spt t f1).
Definition ep (t : T) : Point T := s_p (spt t (fneg f1)).

Notation fit_rec' := (fit_rec spt spd bc fc acc).
Notation fit_tree' := (fit_tree spt spd bc fc acc).

Lemma emit_leaves_app path (a b : list (Z * (T * T) * CubicBez T)) :
  emit_leaves path (a ++ b) = emit_leaves (emit_leaves path a) b.
Proof. unfold emit_leaves. apply fold_left_app. Qed.

(** the operation-by-operation recursion emits exactly the leaves of the tree, in order *)
Lemma fit_rec_tree : forall fuel s e path,
  fit_rec' fuel s e path =
  match fit_tree' fuel s e with
  | Some tr => Some (emit_leaves path (tree_leaves tr))
  | None => None
  end.
Proof.
  induction fuel as [|k IH]; intros s e path; [reflexivity|].
  cbn [fit_rec fit_tree].
  destruct (if fleb (pt_distance_squared (s_p (spt s f1)) (s_p (spt e (fneg f1)))) (fmul acc acc)
            then try_fit_line spd acc s e (s_p (spt s f1)) (s_p (spt e (fneg f1))) else None)
    as [[c err]|]; [reflexivity|].
  assert (Hcont : forall t,
    (if (feqb t s || feqb t e)%bool
     then Some (push_cubic path (s_p (spt s f1))
                 (pt_lerp (s_p (spt s f1)) (s_p (spt e (fneg f1))) one_third)
                 (pt_lerp (s_p (spt e (fneg f1))) (s_p (spt s f1)) one_third) (s_p (spt e (fneg f1))))
     else match fit_rec' k s t path with
          | Some path' => fit_rec' k t e path'
          | None => None
          end) =
    match (if (feqb t s || feqb t e)%bool
           then Some (FLeaf 3 s e (line_cubic (s_p (spt s f1)) (s_p (spt e (fneg f1)))))
           else match fit_tree' k s t with
                | Some l => match fit_tree' k t e with
                            | Some r => Some (FNode s t e l r)
                            | None => None
                            end
                | None => None
                end) with
    | Some tr => Some (emit_leaves path (tree_leaves tr))
    | None => None
    end).
  { intros t. destruct (feqb t s || feqb t e)%bool; [reflexivity|].
    rewrite IH. destruct (fit_tree' k s t) as [l|]; [|reflexivity].
    rewrite IH. destruct (fit_tree' k t e) as [r|]; [|reflexivity].
    cbn [tree_leaves]. rewrite emit_leaves_app. reflexivity. }
  destruct (bc s e) as [t|].
  - apply Hcont.
  - destruct (fc s e) as [[c err]|]; [reflexivity|]. apply Hcont.
Qed.


Definition leaf_kind (l : Z * (T * T) * CubicBez T) : Z := fst (fst l).
Definition leaf_range (l : Z * (T * T) * CubicBez T) : T * T := snd (fst l).
Definition leaf_cubic (l : Z * (T * T) * CubicBez T) : CubicBez T := snd l.
Definition leaf_curve (l : Z * (T * T) * CubicBez T) : PathEl T :=
  CurveTo (c1 (leaf_cubic l)) (c2 (leaf_cubic l)) (c3 (leaf_cubic l)).

(** the test fit_to_bezpath_rec makes before anything else: short chord and try_fit_line accepts *)
Definition line_attempt (s e : T) : option (CubicBez T * T) :=
  if fleb (pt_distance_squared (sp s) (ep e)) (fmul acc acc)
  then try_fit_line spd acc s e (sp s) (ep e) else None.

(** what a leaf of the recursion is: 1 = line accepted on a short chord, 2 = the cubic the oracle
    returned for exactly this range (no cusp reported), 3 = collapsed range, straight cubic *)
Definition leaf_wf (l : Z * (T * T) * CubicBez T) : Prop :=
  let s := fst (leaf_range l) in let e := snd (leaf_range l) in
  (leaf_kind l = 1%Z /\ leaf_cubic l = line_cubic (sp s) (ep e) /\ line_attempt s e <> None) \/
  (leaf_kind l = 2%Z /\ line_attempt s e = None /\ bc s e = None /\ exists err, fc s e = Some (leaf_cubic l, err)) \/
  (leaf_kind l = 3%Z /\ leaf_cubic l = line_cubic (sp s) (ep e) /\ line_attempt s e = None /\
     exists t, (feqb t s || feqb t e)%bool = true /\
               (bc s e = Some t \/ (bc s e = None /\ fc s e = None /\ t = fmul fhalf (fadd s e)))).

Lemma try_fit_line_cubic s e a b c err :
  try_fit_line spd acc s e a b = Some (c, err) -> c = line_cubic a b.
Proof.
  unfold try_fit_line.
  destruct (try_fit_line_loop spd (mkLine a b) (fmul acc acc) s (fdiv (fsub e s) (fofZ 8)) 0 7 f0); intros E; inversion E; reflexivity.
Qed.

Lemma chain_app (a m b : T) r1 r2 : chain a r1 m -> chain m r2 b -> chain a (r1 ++ r2) b.
Proof.
  revert a. induction r1 as [|[x y] r1 IH]; intros a H1 H2; cbn in *.
  - subst. exact H2.
  - destruct H1 as [-> H1]. split; [reflexivity|]. eapply IH; eauto.
Qed.

Lemma fit_tree_leaves : forall fuel s e tr,
  fit_tree' fuel s e = Some tr ->
  tree_leaves tr <> [] /\ chain s (map leaf_range (tree_leaves tr)) e /\ Forall leaf_wf (tree_leaves tr).
Proof.
  induction fuel as [|k IH]; intros s e tr; [discriminate|].
  cbn [fit_tree]. fold (sp s) (ep e). fold (line_attempt s e).
  destruct (line_attempt s e) as [[c err]|] eqn:El.
  { intros E; inversion E; subst; cbn. split; [discriminate|]. split; [auto|].
    constructor; [|constructor]. left. cbn. split; [reflexivity|]. split.
    - unfold line_attempt in El. destruct (fleb _ _); [|discriminate]. eapply try_fit_line_cubic; eauto.
    - rewrite El; discriminate. }
  assert (Hcont : forall t,
    (bc s e = Some t \/ (bc s e = None /\ fc s e = None /\ t = fmul fhalf (fadd s e))) ->
    (if (feqb t s || feqb t e)%bool
     then Some (FLeaf 3 s e (line_cubic (sp s) (ep e)))
     else match fit_tree' k s t with
          | Some l => match fit_tree' k t e with
                      | Some r => Some (FNode s t e l r)
                      | None => None
                      end
          | None => None
          end) = Some tr ->
    tree_leaves tr <> [] /\ chain s (map leaf_range (tree_leaves tr)) e /\ Forall leaf_wf (tree_leaves tr)).
  { intros t Ht. destruct (feqb t s || feqb t e)%bool eqn:Et.
    - intros E; inversion E; subst; cbn. split; [discriminate|]. split; [auto|].
      constructor; [|constructor]. right; right. cbn. repeat split; auto. exists t; auto.
    - destruct (fit_tree' k s t) as [l|] eqn:E1; [|discriminate].
      destruct (fit_tree' k t e) as [r|] eqn:E2; [|discriminate].
      intros E; inversion E; subst; cbn [tree_leaves].
      destruct (IH _ _ _ E1) as (N1 & C1 & W1). destruct (IH _ _ _ E2) as (N2 & C2 & W2).
      split; [destruct (tree_leaves l); [congruence|discriminate]|].
      split; [rewrite map_app; eapply chain_app; eauto|].
      apply Forall_app; auto. }
  destruct (bc s e) as [t|] eqn:Eb.
  - apply Hcont; auto.
  - destruct (fc s e) as [[c err]|] eqn:Ef.
    + intros E; inversion E; subst; cbn. split; [discriminate|]. split; [auto|].
      constructor; [|constructor]. right; left. cbn. repeat split; auto. exists err; auto.
    + apply Hcont. right; auto.
Qed.

(** an accepted line: none of the SHORT_N = 7 interior samples is farther than the accuracy from the chord *)
Lemma try_fit_line_loop_samples : forall n chord acc2 start dt i m r,
  try_fit_line_loop spd chord acc2 start dt i n m = Some r ->
  forall j, (j < n)%nat ->
    fltb acc2 (line_nearest_dsq chord (spd (fadd start (fmul (fofZ (i + Z.of_nat j + 1)) dt)))) = false.
Proof.
  induction n as [|n IH]; intros chord acc2 start dt i m r E j Hj; [lia|].
  cbn [try_fit_line_loop] in E.
  destruct (fltb acc2 (line_nearest_dsq chord (spd (fadd start (fmul (fofZ (i + 1)) dt))))) eqn:El; [discriminate|].
  destruct j as [|j].
  - cbn [Z.of_nat]. rewrite Z.add_0_r. exact El.
  - specialize (IH _ _ _ _ _ _ _ E j ltac:(lia)).
    replace (i + Z.of_nat (S j) + 1)%Z with (i + 1 + Z.of_nat j + 1)%Z by lia. exact IH.
Qed.

Lemma try_fit_line_samples s e a b c err :
  try_fit_line spd acc s e a b = Some (c, err) ->
  c = line_cubic a b /\
  forall j, (j < 7)%nat ->
    fltb (fmul acc acc)
         (line_nearest_dsq (mkLine a b) (spd (fadd s (fmul (fofZ (Z.of_nat j + 1)) (fdiv (fsub e s) (fofZ 8)))))) = false.
Proof.
  intros E. split; [eapply try_fit_line_cubic; eauto|].
  unfold try_fit_line in E.
  destruct (try_fit_line_loop spd (mkLine a b) (fmul acc acc) s (fdiv (fsub e s) (fofZ 8)) 0 7 f0) as [m|] eqn:El; [|discriminate].
  intros j Hj. pose proof (@try_fit_line_loop_samples _ _ _ _ _ _ _ _ El j Hj) as G. rewrite Z.add_0_l in G. exact G.
Qed.

(** shape of the emitted path *)
Lemma path_is_empty_snoc_curve (p : list (PathEl T)) a b c : path_is_empty (p ++ [CurveTo a b c]) = false.
Proof. unfold path_is_empty. rewrite forallb_app. cbn. apply andb_false_r. Qed.

Lemma emit_nonempty : forall ls path, path_is_empty path = false ->
  emit_leaves path ls = path ++ map leaf_curve ls.
Proof.
  induction ls as [|l ls IH]; intros path Hp; cbn.
  - rewrite app_nil_r; reflexivity.
  - unfold emit_leaves in *. cbn [fold_left]. unfold push_cubic_c at 2, push_cubic. rewrite Hp.
    rewrite IH by apply path_is_empty_snoc_curve. rewrite <- app_assoc. reflexivity.
Qed.

Lemma emit_empty l ls :
  emit_leaves [] (l :: ls) = MoveTo (c0 (leaf_cubic l)) :: map leaf_curve (l :: ls).
Proof.
  unfold emit_leaves. cbn [fold_left]. unfold push_cubic_c at 2, push_cubic. cbn [path_is_empty forallb app].
  change (fold_left _ ls ?p) with (emit_leaves p ls).
  rewrite emit_nonempty by reflexivity. reflexivity.
Qed.

(** fit_rec_chain, structural form: whatever the oracles answer, within fuel the output is one
    MoveTo followed by one CurveTo per leaf; the leaf ranges form a chain from 0 to 1. *)
Lemma fit_rec_chain_leaves fuel out :
  fit_to_bezpath spt spd bc fc acc fuel = Some out ->
  exists l ls,
    chain f0 (map leaf_range (l :: ls)) f1 /\
    Forall leaf_wf (l :: ls) /\
    out = MoveTo (c0 (leaf_cubic l)) :: map leaf_curve (l :: ls).
Proof.
  unfold fit_to_bezpath. rewrite fit_rec_tree.
  destruct (fit_tree' fuel f0 f1) as [tr|] eqn:E; [|discriminate].
  intros E'; inversion E'; subst; clear E'.
  destruct (fit_tree_leaves _ _ _ E) as (N & C & W).
  destruct (tree_leaves tr) as [|l ls]; [congruence|].
  exists l, ls. split; [exact C|]. split; [exact W|]. apply emit_empty.
Qed.

(** the oracle keeps the end points of the range it was asked to fit
    (true of the real fit_to_cubic in exact arithmetic: see [fit_to_cubic_affine_endpoints]) *)
Definition oracle_keeps_endpoints : Prop :=
  forall s e c err, fc s e = Some (c, err) -> c0 c = sp s /\ c3 c = ep e.

Lemma leaf_wf_endpoints l : oracle_keeps_endpoints -> leaf_wf l ->
  c0 (leaf_cubic l) = sp (fst (leaf_range l)) /\ c3 (leaf_cubic l) = ep (snd (leaf_range l)).
Proof.
  intros Ho [(_ & -> & _) | [(_ & _ & _ & err & Hf) | (_ & -> & _)]]; cbn; auto.
  eapply Ho; eauto.
Qed.

(** fit_rec_chain: the fitted path starts with a MoveTo at the source's start sample, every leaf
    emits one CurveTo ending at the end sample of its range, the ranges are consecutive from 0 to 1,
    and the path ends at the source's end sample. *)
Lemma fit_rec_chain fuel out :
  oracle_keeps_endpoints ->
  fit_to_bezpath spt spd bc fc acc fuel = Some out ->
  exists ranges curves,
    ranges <> [] /\ chain f0 ranges f1 /\
    out = MoveTo (sp f0) :: curves /\
    Forall2 (fun r el => exists p1 p2, el = CurveTo p1 p2 (ep (snd r))) ranges curves /\
    last_end out = Some (ep f1).
Proof.
  intros Ho E. destruct (fit_rec_chain_leaves _ E) as (l & ls & C & W & ->).
  exists (map leaf_range (l :: ls)), (map leaf_curve (l :: ls)).
  split; [discriminate|]. split; [exact C|].
  assert (Hl : c0 (leaf_cubic l) = sp f0).
  { inversion W; subst. destruct (leaf_wf_endpoints Ho H2) as [-> _]. cbn in C. destruct (leaf_range l); cbn in *.
    destruct C as [-> _]; reflexivity. }
  split; [rewrite Hl; reflexivity|].
  split.
  - clear C Hl E. induction W as [|x xs Hx _ IH]; cbn; constructor; auto.
    destruct (leaf_wf_endpoints Ho Hx) as [_ <-]. unfold leaf_curve. eauto.
  - (* the last element *)
    assert (G : forall a (xs : list (Z * (T * T) * CubicBez T)) pre,
              Forall leaf_wf xs -> xs <> [] -> chain a (map leaf_range xs) f1 ->
              last_end (pre ++ map leaf_curve xs) = Some (ep f1)).
    { intros a xs. revert a. induction xs as [|x xs IH]; intros a pre Wx Nx Cx; [congruence|].
      inversion Wx; subst. destruct xs as [|y ys].
      - cbn in Cx. destruct (leaf_range x) as [u v] eqn:Er. cbn in Cx. destruct Cx as [_ ->].
        unfold last_end. cbn [map]. rewrite rev_app_distr. cbn.
        destruct (leaf_wf_endpoints Ho H2) as [_ ->]. rewrite Er; reflexivity.
      - cbn [map] in *. destruct (leaf_range x) as [u v]. cbn in Cx. destruct Cx as [_ Cx].
        specialize (IH v (pre ++ [leaf_curve x]) H3). rewrite <- app_assoc in IH. apply IH; [discriminate|exact Cx]. }
    apply (G f0 (l :: ls) [MoveTo (c0 (leaf_cubic l))] W); [discriminate|exact C].
Qed.

(** fit_line_fallback: when the split parameter (a reported cusp, or the midpoint) coincides with
    an end of the range, a straight cubic between the end samples is emitted and the recursion
    stops (one unit of fuel suffices). *)
Lemma fit_line_fallback k s e path t :
  line_attempt s e = None ->
  (bc s e = Some t \/ (bc s e = None /\ fc s e = None /\ t = fmul fhalf (fadd s e))) ->
  (feqb t s || feqb t e)%bool = true ->
  fit_rec' (S k) s e path = Some (push_cubic_c path (line_cubic (sp s) (ep e))) /\
  fit_tree' (S k) s e = Some (FLeaf 3 s e (line_cubic (sp s) (ep e))).
Proof.
  intros Hl Ht Eq. cbn [fit_rec fit_tree]. fold (sp s) (ep e). fold (line_attempt s e). rewrite Hl.
  destruct Ht as [Hb | (Hb & Hf & ->)]; rewrite Hb; [|rewrite Hf]; rewrite Eq; split; reflexivity.
Qed.

(** with a continuous source the segments of the fitted path are exactly the leaf cubics *)
Fixpoint linked (last : Point T) (cs : list (CubicBez T)) : Prop :=
  match cs with [] => True | c :: r => c0 c = last /\ linked (c3 c) r end.

Lemma segs_from_curves : forall (cs : list (CubicBez T)) start last,
  linked last cs ->
  segs_from (Some (start, last)) (map (fun c => CurveTo (c1 c) (c2 c) (c3 c)) cs) = Some (map (@SegCubic T) cs).
Proof.
  induction cs as [|c cs IH]; intros start last L; [reflexivity|].
  destruct L as [L0 L]. cbn [map segs_from seg_step el_end].
  rewrite (IH start (c3 c) L). rewrite <- L0. destruct c; reflexivity.
Qed.

Lemma leaves_linked : oracle_keeps_endpoints -> (forall t, sp t = ep t) ->
  forall xs a b, Forall leaf_wf xs -> chain a (map leaf_range xs) b -> linked (sp a) (map leaf_cubic xs).
Proof.
  intros Ho Hc. induction xs as [|x xs IH]; intros a b W C; [exact I|].
  inversion W; subst. cbn [map] in *. destruct (leaf_wf_endpoints Ho H2) as [E0 E3].
  destruct (leaf_range x) as [u v]. cbn in C, E0, E3. destruct C as [-> C].
  split; [exact E0|]. rewrite E3, <- Hc. eapply IH; eauto.
Qed.

Lemma emit_segments l ls a b :
  oracle_keeps_endpoints -> (forall t, sp t = ep t) ->
  Forall leaf_wf (l :: ls) -> chain a (map leaf_range (l :: ls)) b ->
  segments (emit_leaves [] (l :: ls)) = Some (map (fun l => SegCubic (leaf_cubic l)) (l :: ls)).
Proof.
  intros Ho Hc W C. rewrite emit_empty.
  unfold segments. cbn [segs_from seg_step el_end].
  assert (L := leaves_linked Ho Hc _ _ W C).
  pose proof (segs_from_curves (map leaf_cubic (l :: ls)) (c0 (leaf_cubic l)) (c0 (leaf_cubic l))) as S.
  rewrite !map_map in S. unfold leaf_curve. rewrite S.
  - reflexivity.
  - cbn [map linked] in *. destruct L as [_ L]. split; [reflexivity| exact L].
Qed.

Lemma fit_segments fuel out :
  oracle_keeps_endpoints -> (forall t, sp t = ep t) ->
  fit_to_bezpath spt spd bc fc acc fuel = Some out ->
  exists leaves, leaves <> [] /\ chain f0 (map leaf_range leaves) f1 /\ Forall leaf_wf leaves /\
    segments out = Some (map (fun l => SegCubic (leaf_cubic l)) leaves).
Proof.
  intros Ho Hc E. destruct (fit_rec_chain_leaves _ E) as (l & ls & C & W & ->).
  exists (l :: ls). split; [discriminate|]. split; [exact C|]. split; [exact W|].
  rewrite <- emit_empty. eapply emit_segments; eauto.
Qed.

End FitGeneric.

(* ===================================================================================== *)
(** * Part 2: simplify_bezpath's outer state machine, any scalar instance, abstract fitter *)
Section SimplifyGeneric.
Context {T : Type} `{Scalar T}.
Variable fitter : list (PathEl T) -> list (PathEl T).
Variable thresh : T.

Notation corner := (is_corner thresh).

(** the queue holding a run of segments *)
Definition run_queue (run : list (PathSeg T)) : list (PathEl T) :=
  match run with [] => [] | s :: _ => MoveTo (seg_start s) :: map (@seg_el T) run end.

(** what [flush] appends to the result for a run: a single segment passes through unchanged,
    longer runs go through the fitter; the leading MoveTo is kept only when a sub-path starts *)
Definition emit_run (nm : bool) (run : list (PathSeg T)) : list (PathEl T) :=
  match run with
  | [] => []
  | _ => let q := run_queue run in
         let out := if Nat.eqb (length q) 2 then q else fitter q in
         if nm then out else tl out
  end.

Definition last_seg_of (run : list (PathSeg T)) : option (PathSeg T) :=
  match rev run with [] => None | s :: _ => Some s end.

Definition mk_lp (R : list (PathEl T)) (nm : bool) (cur : list (PathSeg T)) (last : option (Point T)) : SimpLoop T :=
  mkSL last (last_seg_of cur) (mkSS (run_queue cur) R nm).

(** the machine at the level of segments: (result so far, needs_moveto, current run) *)
Fixpoint spec_segs (R : list (PathEl T)) (nm : bool) (cur segs : list (PathSeg T))
  : list (PathEl T) * bool * list (PathSeg T) :=
  match segs with
  | [] => (R, nm, cur)
  | s :: r =>
      match last_seg_of cur with
      | Some l => if corner l s then spec_segs (R ++ emit_run nm cur) false [s] r
                  else spec_segs R nm (cur ++ [s]) r
      | None => spec_segs R nm (cur ++ [s]) r
      end
  end.

(** the point the body ends at (degenerate elements do not move it) *)
Fixpoint body_last (last : Point T) (body : list (PathEl T)) : Point T :=
  match body with
  | [] => last
  | LineTo p :: r => if pt_eq last p then body_last last r else body_last p r
  | QuadTo p1 p2 :: r => if pt_eq last p1 && pt_eq last p2 then body_last last r else body_last p2 r
  | CurveTo p1 p2 p3 :: r =>
      if pt_eq last p1 && pt_eq last p2 && pt_eq last p3 then body_last last r else body_last p3 r
  | _ :: r => body_last last r
  end.

Lemma seg_el_draw (s : PathSeg T) : is_draw (seg_el s) = true.
Proof. destruct s; reflexivity. Qed.

Lemma run_queue_nonempty s r : path_is_empty (run_queue (s :: r)) = false.
Proof. cbn. destruct s; reflexivity. Qed.

Lemma flush_mk R nm cur :
  ss_flush fitter (mkSS (run_queue cur) R nm) =
  match cur with
  | [] => mkSS [] R nm
  | _ => mkSS [] (R ++ emit_run nm cur) false
  end.
Proof.
  destruct cur as [|s r]; [reflexivity|].
  unfold ss_flush. cbn [ss_queue ss_result ss_needs_moveto]. rewrite run_queue_nonempty. reflexivity.
Qed.

Lemma add_seg_mk R nm cur s :
  ss_add_seg (mkSS (run_queue cur) R nm) s = mkSS (run_queue (cur ++ [s])) R nm.
Proof.
  destruct cur as [|a r]; [reflexivity|].
  unfold ss_add_seg. cbn [ss_queue ss_result ss_needs_moveto]. rewrite run_queue_nonempty.
  cbn [run_queue app map]. rewrite map_app. reflexivity.
Qed.

Lemma last_seg_of_snoc cur s : last_seg_of (cur ++ [s]) = Some s.
Proof. unfold last_seg_of. rewrite rev_unit. reflexivity. Qed.

Lemma last_seg_of_nil_inv cur : last_seg_of cur = None -> cur = [].
Proof.
  unfold last_seg_of. destruct (rev cur) eqn:E; [|discriminate]. intros _.
  apply (f_equal (@rev _)) in E. rewrite rev_involutive in E. exact E.
Qed.

(** one non-degenerate segment through the loop body *)
Lemma step_seg_mk R nm cur s :
  (let st := match last_seg_of cur with
             | Some l => if corner l s then ss_flush fitter (mkSS (run_queue cur) R nm) else mkSS (run_queue cur) R nm
             | None => mkSS (run_queue cur) R nm
             end in
   mkSL (Some (seg_end s)) (Some s) (ss_add_seg st s)) =
  (let '(R', nm', cur') := match last_seg_of cur with
                           | Some l => if corner l s then (R ++ emit_run nm cur, false, [s]) else (R, nm, cur ++ [s])
                           | None => (R, nm, cur ++ [s])
                           end in
   mk_lp R' nm' cur' (Some (seg_end s))).
Proof.
  cbv zeta.
  destruct (last_seg_of cur) as [l|] eqn:El.
  - destruct (corner l s).
    + rewrite flush_mk. destruct cur as [|a r]; [discriminate|].
      change (mkSS [] (R ++ emit_run nm (a :: r)) false) with (mkSS (run_queue []) (R ++ emit_run nm (a :: r)) false).
      rewrite add_seg_mk. reflexivity.
    + rewrite add_seg_mk. unfold mk_lp. rewrite last_seg_of_snoc. reflexivity.
  - rewrite add_seg_mk. unfold mk_lp. rewrite last_seg_of_snoc. reflexivity.
Qed.

Lemma body_sim : forall body, forallb (@is_draw T) body = true ->
  forall R nm cur last R' nm' cur',
  spec_segs R nm cur (body_segs last body) = (R', nm', cur') ->
  simplify_loop fitter thresh (mk_lp R nm cur (Some last)) body = Some (mk_lp R' nm' cur' (Some (body_last last body))).
Proof.
  induction body as [|el body IH]; intros Hd R nm cur last R' nm' cur' Hs.
  - cbn in *. inversion Hs; subst. reflexivity.
  - cbn [forallb] in Hd. apply andb_true_iff in Hd. destruct Hd as [Hel Hd].
    assert (Hseg : forall s,
       spec_segs R nm cur (s :: body_segs (seg_end s) body) = (R', nm', cur') ->
       simplify_loop fitter thresh
         (mkSL (Some (seg_end s)) (Some s)
            (ss_add_seg match last_seg_of cur with
                        | Some l => if corner l s then ss_flush fitter (mkSS (run_queue cur) R nm) else mkSS (run_queue cur) R nm
                        | None => mkSS (run_queue cur) R nm
                        end s)) body
       = Some (mk_lp R' nm' cur' (Some (body_last (seg_end s) body)))).
    { intros s Hs'. pose proof (step_seg_mk R nm cur s) as E. cbv zeta in E. rewrite E. clear E.
      cbn [spec_segs] in Hs'.
      destruct (last_seg_of cur) as [l|].
      - destruct (corner l s); apply IH; assumption.
      - apply IH; assumption. }
    destruct el as [p|p|p1 p2|p1 p2 p3|]; try discriminate; cbn [body_segs] in Hs;
      cbn [simplify_loop simplify_step body_segs body_last];
      unfold mk_lp; cbn [sl_last_pt sl_last_seg sl_state].
    + destruct (pt_eq last p) eqn:E.
      * fold (mk_lp R nm cur (Some last)). apply IH; assumption.
      * exact (Hseg (SegLine (mkLine last p)) Hs).
    + destruct (pt_eq last p1 && pt_eq last p2)%bool eqn:E.
      * fold (mk_lp R nm cur (Some last)). apply IH; assumption.
      * exact (Hseg (SegQuad (mkQuad last p1 p2)) Hs).
    + destruct (pt_eq last p1 && pt_eq last p2 && pt_eq last p3)%bool eqn:E.
      * fold (mk_lp R nm cur (Some last)). apply IH; assumption.
      * exact (Hseg (SegCubic (mkCubic last p1 p2 p3)) Hs).
Qed.

Definition closing (b : bool) : list (PathEl T) := if b then [ClosePath] else [].

(** the output for one well-formed sub-path. ClosePath rule: a closed sub-path gets its ClosePath
    exactly when it has at least one non-degenerate segment (then the final run is non-empty);
    a sub-path whose elements all have zero length produces no output at all. *)
Definition sub_out (s : Subpath T) : list (PathEl T) :=
  let '(R, nm, cur) := spec_segs [] true [] (sub_segs s) in
  R ++ emit_run nm cur ++ match cur with [] => [] | _ => closing (sp_closed s) end.

Lemma spec_segs_cur_nonempty : forall segs R nm cur R' nm' cur',
  cur ++ segs <> [] -> spec_segs R nm cur segs = (R', nm', cur') -> cur' <> [].
Proof.
  induction segs as [|s r IH]; intros R nm cur R' nm' cur' Hne E; cbn [spec_segs] in E.
  - inversion E; subst. rewrite app_nil_r in Hne. exact Hne.
  - destruct (last_seg_of cur) as [l|].
    + destruct (corner l s); eapply IH; try exact E; try discriminate. destruct cur; discriminate.
    + eapply IH; try exact E. destruct cur; discriminate.
Qed.

Lemma spec_segs_prefix : forall segs R nm cur,
  spec_segs R nm cur segs =
  let '(R', nm', cur') := spec_segs [] nm cur segs in (R ++ R', nm', cur').
Proof.
  induction segs as [|s r IH]; intros R nm cur; cbn [spec_segs].
  - rewrite app_nil_r; reflexivity.
  - destruct (last_seg_of cur) as [l|].
    + destruct (corner l s).
      * rewrite IH. rewrite (IH ([] ++ emit_run nm cur)).
        destruct (spec_segs [] false [s] r) as [[R' nm'] cur']. cbn. rewrite app_assoc. reflexivity.
      * apply IH.
    + apply IH.
Qed.

Lemma loop_app : forall a b lp,
  simplify_loop fitter thresh lp (a ++ b) =
  match simplify_loop fitter thresh lp a with
  | Some lp' => simplify_loop fitter thresh lp' b
  | None => None
  end.
Proof.
  induction a as [|x a IH]; intros b lp; cbn [app simplify_loop]; [reflexivity|].
  destruct (simplify_step fitter thresh lp x); [apply IH|reflexivity].
Qed.

Lemma emit_run_nil nm : emit_run nm [] = [].
Proof. reflexivity. Qed.

Lemma step_moveto R nm cur last p :
  simplify_step fitter thresh (mk_lp R nm cur last) (MoveTo p) = Some (mk_lp (R ++ emit_run nm cur) true [] (Some p)).
Proof.
  cbn [simplify_step]. unfold mk_lp at 1 2. cbn [sl_state]. rewrite flush_mk.
  destruct cur; cbn [ss_queue ss_result emit_run]; [rewrite app_nil_r|]; reflexivity.
Qed.

Lemma step_closepath R nm cur last :
  simplify_step fitter thresh (mk_lp R nm cur last) ClosePath =
  Some (mk_lp (match cur with
               | [] => if nm then R else R ++ [ClosePath]
               | _ => (R ++ emit_run nm cur) ++ [ClosePath]
               end) true [] last).
Proof.
  cbn [simplify_step]. unfold mk_lp. cbn [sl_state sl_last_pt]. rewrite !flush_mk.
  destruct cur; cbn [ss_queue ss_result ss_needs_moveto]; [destruct nm|]; reflexivity.
Qed.

Definition sub_ok (s : Subpath T) : Prop := forallb (@is_draw T) (sp_body s) = true.

Lemma sub_sim s : sub_ok s -> forall R nm cur last,
  exists R2 nm2 cur2 last2,
    simplify_loop fitter thresh (mk_lp R nm cur last) (sub_els s) = Some (mk_lp R2 nm2 cur2 last2) /\
    R2 ++ emit_run nm2 cur2 = (R ++ emit_run nm cur) ++ sub_out s.
Proof.
  intros Hok R nm cur last. unfold sub_els. cbn [simplify_loop]. rewrite step_moveto.
  rewrite loop_app.
  destruct (spec_segs (R ++ emit_run nm cur) true [] (sub_segs s)) as [[R1 nm1] cur1] eqn:E1.
  rewrite (body_sim _ Hok _ _ _ _ E1).
  rewrite spec_segs_prefix in E1. unfold sub_out.
  destruct (spec_segs [] true [] (sub_segs s)) as [[R' nm'] cur'] eqn:E0. inversion E1; subst; clear E1.
  destruct (sp_closed s); cbn [closing simplify_loop].
  - rewrite step_closepath. do 4 eexists. split; [reflexivity|].
    destruct cur1 as [|c cs].
    + (* no segment at all: nothing was emitted and nothing is closed *)
      assert (Hs : sub_segs s = []).
      { destruct (sub_segs s) as [|a r] eqn:Es; [reflexivity|]. exfalso.
        eapply (spec_segs_cur_nonempty (a :: r) [] true []); [discriminate|exact E0|reflexivity]. }
      rewrite Hs in E0. cbn in E0. inversion E0; subst.
      cbn [emit_run]. rewrite !app_nil_r. reflexivity.
    + cbn [emit_run]. rewrite app_nil_r. rewrite <- !app_assoc. reflexivity.
  - do 4 eexists. split; [reflexivity|]. destruct cur1; rewrite ?app_nil_r, <- ?app_assoc; reflexivity.
Qed.

Lemma subs_sim : forall sps, Forall sub_ok sps -> forall R nm cur last,
  exists R2 nm2 cur2 last2,
    simplify_loop fitter thresh (mk_lp R nm cur last) (flat_map (@sub_els T) sps) = Some (mk_lp R2 nm2 cur2 last2) /\
    R2 ++ emit_run nm2 cur2 = (R ++ emit_run nm cur) ++ flat_map sub_out sps.
Proof.
  induction sps as [|s sps IH]; intros Hok R nm cur last.
  - do 4 eexists. split; [reflexivity|]. cbn. rewrite app_nil_r. reflexivity.
  - inversion Hok; subst. cbn [flat_map]. rewrite loop_app.
    destruct (sub_sim H2 R nm cur last) as (R1 & nm1 & cur1 & last1 & -> & E1).
    destruct (IH H3 R1 nm1 cur1 last1) as (R2 & nm2 & cur2 & last2 & -> & E2).
    do 4 eexists. split; [reflexivity|]. rewrite E2, E1, <- app_assoc. reflexivity.
Qed.

(** simplify_bezpath on a list of well-formed sub-paths is the concatenation of the per-sub-path outputs *)
Lemma simplify_spec sps : Forall sub_ok sps ->
  simplify_bezpath fitter thresh (flat_map (@sub_els T) sps) = Some (flat_map sub_out sps).
Proof.
  intros Hok. unfold simplify_bezpath.
  change (mkSL None None (mkSS [] [] false)) with (mk_lp [] false [] None).
  destruct (subs_sim Hok [] false [] None) as (R2 & nm2 & cur2 & last2 & -> & E).
  unfold mk_lp. cbn [sl_state]. rewrite flush_mk. cbn in E.
  destruct cur2; cbn [ss_result]; [rewrite emit_run_nil, app_nil_r in E|]; rewrite E; reflexivity.
Qed.

(** ** what the output looks like when the fitter has the shape fit_rec_chain gives it *)
Definition fitter_chain : Prop :=
  forall p0 body, body <> [] -> forallb (@is_draw T) body = true ->
    exists cs, cs <> [] /\ fitter (MoveTo p0 :: body) = MoveTo p0 :: cs /\
               forallb (@is_curveto T) cs = true /\ last_end cs = last_end body.

Lemma curveto_draw (cs : list (PathEl T)) : forallb (@is_curveto T) cs = true -> forallb (@is_draw T) cs = true.
Proof.
  induction cs as [|c cs IH]; cbn; [reflexivity|]. intros E. apply andb_true_iff in E. destruct E as [E1 E2].
  rewrite (IH E2). destruct c; try discriminate; reflexivity.
Qed.

Lemma last_end_map_seg_el (run : list (PathSeg T)) :
  last_end (map (@seg_el T) run) = option_map (fun x => seg_end x) (last_seg_of run).
Proof.
  unfold last_end, last_seg_of. rewrite <- map_rev. destruct (rev run) as [|x r]; [reflexivity|].
  cbn. destruct x; reflexivity.
Qed.

Lemma last_end_app (a b : list (PathEl T)) : b <> [] -> last_end (a ++ b) = last_end b.
Proof.
  intros Hb. unfold last_end. rewrite rev_app_distr. destruct (rev b) eqn:E; [|reflexivity].
  apply (f_equal (@rev _)) in E. rewrite rev_involutive in E. cbn in E. congruence.
Qed.

Lemma last_seg_of_app (a b : list (PathSeg T)) : b <> [] -> last_seg_of (a ++ b) = last_seg_of b.
Proof.
  intros Hb. unfold last_seg_of. rewrite rev_app_distr. destruct (rev b) eqn:E; [|reflexivity].
  apply (f_equal (@rev _)) in E. rewrite rev_involutive in E. cbn in E. congruence.
Qed.

Lemma forallb_map_seg_el (run : list (PathSeg T)) : forallb (@is_draw T) (map (@seg_el T) run) = true.
Proof. induction run as [|x r IH]; cbn; [reflexivity|]. rewrite seg_el_draw, IH. reflexivity. Qed.

Lemma emit_run_shape : fitter_chain -> forall nm s r,
  exists els, els <> [] /\ forallb (@is_draw T) els = true /\
    last_end els = option_map (fun x => seg_end x) (last_seg_of (s :: r)) /\
    emit_run nm (s :: r) = (if nm then [MoveTo (seg_start s)] else []) ++ els.
Proof.
  intros Hf nm s r. unfold emit_run. cbn [run_queue length].
  destruct (Nat.eqb (S (length (map (@seg_el T) (s :: r)))) 2) eqn:E.
  - exists (map (@seg_el T) (s :: r)). split; [discriminate|]. split; [apply forallb_map_seg_el|].
    split; [apply last_end_map_seg_el|]. destruct nm; reflexivity.
  - destruct (Hf (seg_start s) (map (@seg_el T) (s :: r))) as (cs & Nc & Ef & Dc & Lc).
    + discriminate. + apply forallb_map_seg_el.
    + exists cs. split; [exact Nc|]. split; [apply curveto_draw; exact Dc|].
      split; [rewrite Lc; apply last_end_map_seg_el|]. rewrite Ef. destruct nm; reflexivity.
Qed.

(** corner vertices, threading the previous segment *)
Fixpoint cv (prev : option (PathSeg T)) (segs : list (PathSeg T)) : list (Point T) :=
  match segs with
  | [] => []
  | s :: r => (match prev with
               | Some l => if corner l s then [seg_end l] else []
               | None => []
               end) ++ cv (Some s) r
  end.

Lemma cv_corner_vertices : forall r a, cv (Some a) r = corner_vertices corner (a :: r).
Proof. induction r as [|b r IH]; intros a; [reflexivity|]. cbn [cv corner_vertices]. rewrite IH. reflexivity. Qed.

Lemma cv_none segs : cv None segs = corner_vertices corner segs.
Proof. destruct segs as [|a r]; [reflexivity|]. cbn [cv app]. apply cv_corner_vertices. Qed.

Lemma last_end_in_vertices (els : list (PathEl T)) v : last_end els = Some v -> In v (vertices els).
Proof.
  unfold last_end, vertices. intros E. destruct (rev els) as [|x r] eqn:Er; [discriminate|].
  apply in_flat_map. exists x. split.
  - apply in_rev. rewrite Er. left; reflexivity.
  - rewrite E. left; reflexivity.
Qed.

Lemma vertices_app (a b : list (PathEl T)) : vertices (a ++ b) = vertices a ++ vertices b.
Proof. unfold vertices. apply flat_map_app. Qed.

Lemma spec_out_shape : fitter_chain -> forall segs nm cur d, cur ++ segs <> [] ->
  forall R nm' cur', spec_segs [] nm cur segs = (R, nm', cur') ->
  exists els,
    R ++ emit_run nm' cur' = (if nm then [MoveTo (seg_start (hd d (cur ++ segs)))] else []) ++ els /\
    els <> [] /\ forallb (@is_draw T) els = true /\
    last_end els = option_map (fun x => seg_end x) (last_seg_of (cur ++ segs)) /\
    (forall v, In v (cv (last_seg_of cur) segs) -> In v (vertices els)).
Proof.
  intros Hf. induction segs as [|s r IH]; intros nm cur d Hne R nm' cur' Hs.
  - cbn in Hs. inversion Hs; subst. rewrite app_nil_r in *. destruct cur' as [|a c]; [congruence|].
    destruct (emit_run_shape Hf nm' a c) as (els & N & D & L & E).
    exists els. cbn [app hd]. repeat split; auto. cbn. intros v [].
  - cbn [spec_segs] in Hs.
    assert (Hkeep : spec_segs [] nm (cur ++ [s]) r = (R, nm', cur') ->
                    (forall v, In v (cv (last_seg_of cur) (s :: r)) -> In v (cv (Some s) r)) ->
                    exists els,
      R ++ emit_run nm' cur' = (if nm then [MoveTo (seg_start (hd d (cur ++ s :: r)))] else []) ++ els /\
      els <> [] /\ forallb (@is_draw T) els = true /\
      last_end els = option_map (fun x => seg_end x) (last_seg_of (cur ++ s :: r)) /\
      (forall v, In v (cv (last_seg_of cur) (s :: r)) -> In v (vertices els))).
    { intros Hs' Hcv. destruct (IH nm (cur ++ [s]) d) with (R := R) (nm' := nm') (cur' := cur') as (els & E & N & D & L & V).
      - destruct cur; discriminate.
      - exact Hs'.
      - rewrite <- app_assoc in E, L. cbn [app] in E, L. exists els. repeat split; auto.
        intros v Hv. apply V. rewrite last_seg_of_snoc. apply Hcv; exact Hv. }
    destruct (last_seg_of cur) as [l|] eqn:El.
    + destruct (corner l s) eqn:Ec.
      * rewrite spec_segs_prefix in Hs.
        destruct (spec_segs [] false [s] r) as [[R2 nm2] cur2] eqn:E2. inversion Hs; subst; clear Hs.
        destruct (IH false [s] d) with (R := R2) (nm' := nm') (cur' := cur') as (els2 & Eq2 & N2 & D2 & L2 & V2);
          [discriminate|exact E2|].
        destruct cur as [|a c]; [discriminate|].
        destruct (emit_run_shape Hf nm a c) as (els1 & N1 & D1 & L1 & E1).
        exists (els1 ++ els2). cbn [app hd] in *. rewrite E1, <- !app_assoc. rewrite Eq2. cbn [app].
        split; [reflexivity|]. split; [destruct els1; [congruence|discriminate]|].
        split; [rewrite forallb_app, D1, D2; reflexivity|].
        split.
        -- rewrite last_end_app by exact N2. rewrite L2.
           change (a :: c ++ s :: r) with ((a :: c) ++ (s :: r)). rewrite last_seg_of_app by discriminate. reflexivity.
        -- intros v Hv. rewrite vertices_app. apply in_or_app. cbn [cv] in Hv. rewrite Ec in Hv.
           cbn [app] in Hv. destruct Hv as [<- | Hv].
           ++ left. apply last_end_in_vertices. rewrite L1, El. reflexivity.
           ++ right. apply V2. exact Hv.
      * apply Hkeep; [exact Hs|]. intros v Hv. cbn [cv] in Hv. rewrite Ec in Hv. exact Hv.
    + apply Hkeep; [exact Hs|]. intros v Hv. cbn [cv] in Hv. exact Hv.
Qed.

Lemma body_segs_start : forall body last s r, body_segs last body = s :: r -> seg_start s = last.
Proof.
  induction body as [|el body IH]; intros last s r E; [discriminate|].
  destruct el as [p|p|p1 p2|p1 p2 p3|]; cbn [body_segs] in E.
  - eapply IH; eauto.
  - destruct (pt_eq last p); [eapply IH; eauto|]. inversion E; reflexivity.
  - destruct (pt_eq last p1 && pt_eq last p2)%bool; [eapply IH; eauto|]. inversion E; reflexivity.
  - destruct (pt_eq last p1 && pt_eq last p2 && pt_eq last p3)%bool; [eapply IH; eauto|]. inversion E; reflexivity.
  - eapply IH; eauto.
Qed.

Lemma sub_out_shape s : fitter_chain -> sub_segs s <> [] ->
  exists els,
    sub_out s = MoveTo (sp_start s) :: els ++ closing (sp_closed s) /\
    els <> [] /\ forallb (@is_draw T) els = true /\
    last_end els = segs_end (sub_segs s) /\
    incl (corner_vertices corner (sub_segs s)) (vertices els).
Proof.
  intros Hf Hne. unfold sub_out.
  destruct (spec_segs [] true [] (sub_segs s)) as [[R nm] cur] eqn:E.
  destruct (sub_segs s) as [|a r] eqn:Es; [congruence|].
  destruct (spec_out_shape Hf (a :: r) true [] a) with (R := R) (nm' := nm) (cur' := cur) as (els & Eq & N & D & L & V);
    [discriminate|exact E|].
  assert (Hcur : cur <> []) by (eapply (spec_segs_cur_nonempty (a :: r) [] true []); [discriminate|exact E]).
  exists els. cbn [app hd] in Eq, L.
  replace (match cur with [] => [] | _ :: _ => closing (sp_closed s) end) with (closing (sp_closed s))
    by (destruct cur; [congruence|reflexivity]).
  rewrite app_assoc, Eq. cbn [app].
  unfold sub_segs in Es. rewrite (body_segs_start _ _ Es).
  split; [reflexivity|]. split; [exact N|]. split; [exact D|]. split.
  - rewrite L. unfold segs_end, last_seg_of. destruct (rev (a :: r)); reflexivity.
  - intros v Hv. apply V. change (last_seg_of []) with (@None (PathSeg T)). rewrite cv_none. exact Hv.
Qed.

(** simplify_structure *)
Lemma simplify_structure sps :
  fitter_chain -> Forall sub_ok sps -> Forall (fun s => sub_segs s <> []) sps ->
  exists outs,
    simplify_bezpath fitter thresh (flat_map (@sub_els T) sps) = Some (concat outs) /\
    Forall2 (fun s out => exists els,
               out = MoveTo (sp_start s) :: els ++ closing (sp_closed s) /\
               els <> [] /\ forallb (@is_draw T) els = true /\
               last_end els = segs_end (sub_segs s) /\
               incl (corner_vertices corner (sub_segs s)) (vertices els)) sps outs.
Proof.
  intros Hf Hok Hne. exists (map sub_out sps). split.
  - rewrite simplify_spec by exact Hok. rewrite flat_map_concat_map. reflexivity.
  - clear Hok. induction Hne as [|s sps Hs _ IH]; cbn; constructor; auto. apply sub_out_shape; assumption.
Qed.

End SimplifyGeneric.

(* ===================================================================================== *)
(** * Part 3: the real instance *)
From Coquelicot Require Import Coquelicot.
From KV Require Import Affine C06_proofs.
Local Open Scope R_scope.

Ltac fit_unfold :=
  cbv [co_new co_eval co_eval_offset co_cusp_sign co_eval_deriv co_c co_q co_d co_c0 co_c1 co_c2
       moment_integrals lit_0_05 lit_0_1
       cubic_deriv cubic_eval quad_eval quad_deriv line_eval cubic_signed_area
       pt_lerp v_lerp pt_add_v pt_sub_v pt_sub v_add v_sub s_scale_v v_scale v_neg v_div
       v_dot v_cross v_hypot2 v_hypot pt_distance_squared pt_distance
       to_point to_vec2 two_thirds one_third one_sixth one_twentieth fquarter
       aff_apply aff_mul aff_translate aff_rotate aff_scale aa ab ac ad ae af
       pdist2 px py vx vy l0 l1 q0 q1 q2 c0 c1 c2 c3 fst snd] in *;
  rs_unfold; cbv [Q2R Qnum Qden] in *.

Section FitReal.
Variable spt : R -> R -> Sample R.
Variable spd : R -> Point R.
Variable bc : R -> R -> option R.
Variable fc : R -> R -> option (CubicBez R * R).
Variable acc : R.

(** break_cusp answers inside the range it was given (the trait's contract) *)
Definition cusp_in_range : Prop := forall s e t, bc s e = Some t -> s <= t <= e.

Lemma half_mid s e : @fmul R RS fhalf (@fadd R RS s e) = (s + e) / 2.
Proof. rs_unfold. rewrite Q2R_half. lra. Qed.

(** in exact arithmetic the midpoint collapses onto an end point only for an empty range *)
Lemma fit_midpoint_collapse_real s e :
  (@feqb R RS (@fmul R RS fhalf (@fadd R RS s e)) s || @feqb R RS (@fmul R RS fhalf (@fadd R RS s e)) e)%bool = true <-> s = e.
Proof.
  rewrite half_mid. change (@feqb R RS) with Reqb. split.
  - intros E. apply orb_true_iff in E. destruct E as [E|E]; apply Reqb_true in E; lra.
  - intros ->. apply orb_true_iff. left. apply Reqb_true. lra.
Qed.

Lemma fit_tree_positive : cusp_in_range -> forall fuel s e tr, s < e ->
  fit_tree spt spd bc fc acc fuel s e = Some tr ->
  List.Forall (fun r => fst r < snd r) (map (@leaf_range R) (tree_leaves tr)).
Proof.
  intros Hc. induction fuel as [|k IH]; intros s e tr Hse; [discriminate|].
  cbn [fit_tree].
  match goal with |- context [if ?c then try_fit_line _ _ _ _ _ _ else None] =>
    destruct (if c then try_fit_line spd acc s e (s_p (spt s f1)) (s_p (spt e (fneg f1))) else None) as [[c' err]|] end.
  { intros E; inversion E; subst; cbn. constructor; [exact Hse|constructor]. }
  assert (Hcont : forall t, s <= t <= e ->
    (if (feqb t s || feqb t e)%bool
     then Some (FLeaf 3 s e (line_cubic (s_p (spt s f1)) (s_p (spt e (fneg f1)))))
     else match fit_tree spt spd bc fc acc k s t with
          | Some l => match fit_tree spt spd bc fc acc k t e with
                      | Some r => Some (FNode s t e l r)
                      | None => None
                      end
          | None => None
          end) = Some tr ->
    List.Forall (fun r => fst r < snd r) (map (@leaf_range R) (tree_leaves tr))).
  { intros t Ht. destruct (feqb t s || feqb t e)%bool eqn:Et.
    - intros E; inversion E; subst; cbn. constructor; [exact Hse|constructor].
    - apply orb_false_iff in Et. destruct Et as [E1 E2].
      change (@feqb R RS) with Reqb in E1, E2. apply Reqb_false in E1, E2.
      destruct (fit_tree spt spd bc fc acc k s t) as [l|] eqn:F1; [|discriminate].
      destruct (fit_tree spt spd bc fc acc k t e) as [r|] eqn:F2; [|discriminate].
      intros E; inversion E; subst; cbn [tree_leaves]. rewrite map_app. apply Forall_app. split.
      + eapply IH; [|exact F1]. lra.
      + eapply IH; [|exact F2]. lra. }
  destruct (bc s e) as [t|] eqn:Eb.
  - apply Hcont. apply Hc; exact Eb.
  - destruct (fc s e) as [[c' err]|].
    + intros E; inversion E; subst; cbn. constructor; [exact Hse|constructor].
    + apply Hcont. rewrite half_mid. lra.
Qed.

Lemma chain_cover : forall (rs : list (R * R)) a b, chain a rs b ->
  forall t, a <= t < b -> exists r, In r rs /\ fst r <= t < snd r.
Proof.
  induction rs as [|[x y] rs IH]; intros a b C t Ht; cbn in C.
  - subst. lra.
  - destruct C as [-> C]. destruct (Rlt_le_dec t y) as [Hy|Hy].
    + exists (a, y). split; [left; reflexivity|]. cbn; lra.
    + destruct (IH y b C t) as (r & Hr & Hin); [lra|]. exists r. split; [right; exact Hr|exact Hin].
Qed.

Lemma chain_ordered : forall (rs : list (R * R)) a b, chain a rs b ->
  List.Forall (fun r => fst r < snd r) rs ->
  a <= b /\ List.Forall (fun r => a <= fst r /\ snd r <= b) rs /\
  ForallOrdPairs (fun r1 r2 => snd r1 <= fst r2) rs.
Proof.
  induction rs as [|[x y] rs IH]; intros a b C P; cbn in C.
  - subst. split; [lra|]. split; constructor.
  - destruct C as [-> C]. inversion P; subst. cbn in H1.
    destruct (IH y b C H2) as (Hyb & Hin & Hord).
    split; [lra|]. split.
    + constructor; [cbn; lra|]. eapply Forall_impl; [|exact Hin]. cbn. intros r [? ?]; lra.
    + constructor; [|exact Hord]. eapply Forall_impl; [|exact Hin]. cbn. intros r [? ?]; lra.
Qed.

(** fit_rec_ranges_tile: the leaf ranges tile [0,1] in order *)
Lemma fit_rec_ranges_tile fuel out :
  cusp_in_range ->
  fit_to_bezpath spt spd bc fc acc fuel = Some out ->
  exists ranges : list (R * R),
    length out = S (length ranges) /\
    chain 0 ranges 1 /\
    List.Forall (fun r => fst r < snd r) ranges /\
    ForallOrdPairs (fun r1 r2 => snd r1 <= fst r2) ranges /\
    (forall t, 0 <= t < 1 -> exists r, In r ranges /\ fst r <= t < snd r).
Proof.
  intros Hc. unfold fit_to_bezpath. rewrite fit_rec_tree.
  destruct (fit_tree spt spd bc fc acc fuel f0 f1) as [tr|] eqn:E; [|discriminate].
  intros E'; inversion E'; subst; clear E'.
  destruct (fit_tree_leaves _ _ _ _ _ _ _ _ E) as (N & C & W).
  assert (P := fit_tree_positive Hc fuel (s:=f0) (e:=f1)). specialize (P tr).
  change (@f0 R RS) with 0 in *. change (@f1 R RS) with 1 in *.
  specialize (P ltac:(lra) E).
  exists (map (@leaf_range R) (tree_leaves tr)).
  split.
  { destruct (tree_leaves tr) as [|l ls]; [congruence|]. rewrite emit_empty. cbn. rewrite !map_length. reflexivity. }
  split; [exact C|]. split; [exact P|].
  split; [apply (@chain_ordered _ _ _ C P)|]. apply (@chain_cover _ _ _ C).
Qed.

End FitReal.

(** ** CubicOffset: exact algebra of the offset sample *)
Lemma offset_vec X Y d : X * X + Y * Y <> 0 ->
  let h := sqrt (X * X + Y * Y) in
  (- Y * d * (1 / h)) * (- Y * d * (1 / h)) + (X * d * (1 / h)) * (X * d * (1 / h)) = d * d /\
  (- Y * d * (1 / h)) * X + (X * d * (1 / h)) * Y = 0 /\ h <> 0.
Proof.
  intros Hn h.
  assert (Hp : 0 < X * X + Y * Y) by nra.
  assert (Hh : h * h = X * X + Y * Y) by (apply sqrt_sqrt; lra).
  assert (Hh0 : h <> 0) by (intros E; rewrite E in Hh; lra).
  split; [|split; [field; exact Hh0|exact Hh0]].
  replace (- Y * d * (1 / h) * (- Y * d * (1 / h)) + X * d * (1 / h) * (X * d * (1 / h)))
    with (d * d * ((X * X + Y * Y) / (h * h))) by (field; exact Hh0).
  rewrite Hh. field. lra.
Qed.

(** offset_sample_distance: wherever the source derivative does not vanish, the sample of the offset
    curve is at distance exactly |d| from the source point of the same parameter, along the normal. *)
Lemma offset_sample_distance (c : CubicBez R) (d t : R) :
  let q := quad_eval (cubic_deriv c) t in
  px q * px q + py q * py q <> 0 ->
  let o := co_new c d in
  pdist2 (co_eval o t) (cubic_eval c t) = d * d /\
  (px (co_eval o t) - px (cubic_eval c t)) * px q + (py (co_eval o t) - py (cubic_eval c t)) * py q = 0 /\
  sqrt (pdist2 (co_eval o t) (cubic_eval c t)) = Rabs d.
Proof.
  intros q Hq o.
  assert (G : pdist2 (co_eval o t) (cubic_eval c t) = d * d /\
              (px (co_eval o t) - px (cubic_eval c t)) * px q + (py (co_eval o t) - py (cubic_eval c t)) * py q = 0).
  { subst o. unfold q in *. clear q.
    cbv [co_eval co_eval_offset co_new co_q co_c co_d pt_add_v v_div v_scale to_vec2 v_hypot vx vy px py pdist2] in *.
    destruct (quad_eval (cubic_deriv c) t) as [X Y]. destruct (cubic_eval c t) as [Px Py].
    rs_unfold. destruct (offset_vec d Hq) as (E1 & E2 & _). cbv zeta in E1, E2.
    split.
    - rewrite <- E1. ring.
    - rewrite <- E2. ring. }
  destruct G as [G1 G2]. split; [exact G1|]. split; [exact G2|].
  rewrite G1. apply sqrt_Rsqr_abs.
Qed.

(** the cusp function is 1 - d * curvature: positive exactly when the offset stays inside the radius of curvature *)
Lemma offset_cusp_sign_curvature (c : CubicBez R) (d t : R) :
  let q := quad_eval (cubic_deriv c) t in          (* c'(t) *)
  let a := line_eval (quad_deriv (cubic_deriv c)) t in   (* c''(t) *)
  let ds2 := px q * px q + py q * py q in
  co_cusp_sign (co_new c d) t = 1 - d * ((px q * py a - py q * px a) / (ds2 * sqrt ds2)).
Proof.
  destruct c as [[x0 y0] [x1 y1] [x2 y2] [x3 y3]]. fit_unfold.
  set (D := sqrt _). unfold Rdiv. ring.
Qed.

(** the derivative of the unit-normal term, for any differentiable (X, Y) that does not vanish at t *)
Lemma offset_norm_derive (X Y : R -> R) (X' Y' d t : R) :
  is_derive X t X' -> is_derive Y t Y' -> X t * X t + Y t * Y t <> 0 ->
  is_derive (fun u => - Y u * d * (1 / sqrt (X u * X u + Y u * Y u))) t
    (X t * (d * (Y t * X' - X t * Y') / ((X t * X t + Y t * Y t) * sqrt (X t * X t + Y t * Y t)))) /\
  is_derive (fun u => X u * d * (1 / sqrt (X u * X u + Y u * Y u))) t
    (Y t * (d * (Y t * X' - X t * Y') / ((X t * X t + Y t * Y t) * sqrt (X t * X t + Y t * Y t)))).
Proof.
  intros HX HY Hn.
  assert (Hp : 0 < X t * X t + Y t * Y t) by nra.
  assert (Hs : sqrt (X t * X t + Y t * Y t) <> 0).
  { intros E. apply sqrt_eq_0 in E; lra. }
  assert (EX : ex_derive X t) by (eexists; exact HX).
  assert (EY : ex_derive Y t) by (eexists; exact HY).
  assert (Hc : ex_derive (fun x => Y x) t /\ ex_derive (fun x => X x) t) by (split; assumption).
  split; auto_derive.
  - repeat split; try tauto; auto.
  - replace (Derive (fun x : R => X x) t) with X' by (symmetry; apply is_derive_unique; exact HX).
    replace (Derive (fun x : R => Y x) t) with Y' by (symmetry; apply is_derive_unique; exact HY).
    set (x := X t) in *; set (y := Y t) in *; set (h := sqrt _) in *.
    assert (Hh : h * h = x * x + y * y) by (apply sqrt_sqrt; lra).
    rewrite <- Hh. apply Rminus_diag_uniq.
    match goal with |- ?L = 0 => replace L with (d * Y' * (x * x + y * y - h * h) / (h * h * h)) by (field; auto) end.
    rewrite Hh. unfold Rdiv. ring.
  - repeat split; try tauto; auto.
  - replace (Derive (fun x : R => X x) t) with X' by (symmetry; apply is_derive_unique; exact HX).
    replace (Derive (fun x : R => Y x) t) with Y' by (symmetry; apply is_derive_unique; exact HY).
    set (x := X t) in *; set (y := Y t) in *; set (h := sqrt _) in *.
    assert (Hh : h * h = x * x + y * y) by (apply sqrt_sqrt; lra).
    rewrite <- Hh. apply Rminus_diag_uniq.
    match goal with |- ?L = 0 => replace L with (- d * X' * (x * x + y * y - h * h) / (h * h * h)) by (field; auto) end.
    rewrite Hh. unfold Rdiv. ring.
Qed.

(** [eval_deriv] is the derivative of [eval] wherever the source derivative does not vanish *)
Lemma offset_eval_deriv_is_derivative (c : CubicBez R) (d t : R) :
  let q := quad_eval (cubic_deriv c) t in
  px q * px q + py q * py q <> 0 ->
  let o := co_new c d in
  is_derive (fun u => px (co_eval o u)) t (vx (co_eval_deriv o t)) /\
  is_derive (fun u => py (co_eval o u)) t (vy (co_eval_deriv o t)).
Proof.
  intros q Hq o.
  set (X := fun u => px (quad_eval (cubic_deriv c) u)).
  set (Y := fun u => py (quad_eval (cubic_deriv c) u)).
  set (X' := px (line_eval (quad_deriv (cubic_deriv c)) t)).
  set (Y' := py (line_eval (quad_deriv (cubic_deriv c)) t)).
  destruct (quad_deriv_is_derivative (cubic_deriv c) t) as [HX HY].
  destruct (cubic_deriv_is_derivative c t) as [HCx HCy].
  destruct (@offset_norm_derive X Y X' Y' d t HX HY Hq) as [Nx Ny].
  pose proof (offset_cusp_sign_curvature c d t) as Hk. cbv zeta in Hk.
  fold X' Y' in Hk. change (px (quad_eval (cubic_deriv c) t)) with (X t) in Hk.
  change (py (quad_eval (cubic_deriv c) t)) with (Y t) in Hk.
  split.
  - apply is_derive_ext with (f := fun u => px (cubic_eval c u) + - Y u * d * (1 / sqrt (X u * X u + Y u * Y u))).
    { intros u. reflexivity. }
    replace (vx (co_eval_deriv o t)) with
      (X t + X t * (d * (Y t * X' - X t * Y') / ((X t * X t + Y t * Y t) * sqrt (X t * X t + Y t * Y t)))).
    { apply (is_derive_plus (fun u => px (cubic_eval c u)) _ t _ _ HCx Nx). }
    subst o. cbv [co_eval_deriv s_scale_v v_scale vx vy to_vec2]. rewrite Hk. cbv [co_q co_new].
    change (@fmul R RS) with Rmult. unfold X, Y. unfold Rdiv. ring.
  - apply is_derive_ext with (f := fun u => py (cubic_eval c u) + X u * d * (1 / sqrt (X u * X u + Y u * Y u))).
    { intros u. reflexivity. }
    replace (vy (co_eval_deriv o t)) with
      (Y t + Y t * (d * (Y t * X' - X t * Y') / ((X t * X t + Y t * Y t) * sqrt (X t * X t + Y t * Y t)))).
    { apply (is_derive_plus (fun u => py (cubic_eval c u)) _ t _ _ HCy Ny). }
    subst o. cbv [co_eval_deriv s_scale_v v_scale vx vy to_vec2]. rewrite Hk. cbv [co_q co_new].
    change (@fmul R RS) with Rmult. unfold X, Y. unfold Rdiv. ring.
Qed.

(** ** moment integrals: polynomial integrals over [0,1] *)
Lemma peval_padd : forall p q t, peval (padd p q) t = peval p t + peval q t.
Proof.
  induction p as [|a p IH]; intros [|b q] t; cbn; try lra. rewrite IH. ring.
Qed.
Lemma peval_pscale k p t : peval (pscale k p) t = k * peval p t.
Proof. induction p as [|a p IH]; cbn; [ring|]. unfold pscale in IH. rewrite IH. ring. Qed.
Lemma peval_pmul : forall p q t, peval (pmul p q) t = peval p t * peval q t.
Proof.
  induction p as [|a p IH]; intros q t; cbn [pmul peval]; [ring|].
  rewrite peval_padd, peval_pscale. cbn [peval]. rewrite IH. ring.
Qed.

Lemma is_RInt_monomial (a : R) (k : nat) : is_RInt (fun t => a * t ^ k) 0 1 (a / INR (S k)).
Proof.
  assert (Hk : INR (S k) <> 0) by (apply not_0_INR; discriminate).
  evar_last.
  - apply (is_RInt_derive (fun t => a * t ^ (S k) / INR (S k)) (fun t => a * t ^ k)).
    + intros x _. auto_derive; [exact I|].
      change (match k with 0%nat => 1 | S _ => INR k + 1 end) with (INR (S k)). field. exact Hk.
    + intros x _. apply (ex_derive_continuous (fun t => a * t ^ k)). auto_derive. exact I.
  - change (a * 1 ^ S k / INR (S k) - a * 0 ^ S k / INR (S k) = a / INR (S k)).
    rewrite pow1. rewrite (pow_i (S k)) by lia. unfold Rdiv. ring.
Qed.

(** integral over [0,1] of t^k * p(t) *)
Lemma is_RInt_peval_from : forall p k, is_RInt (fun t => t ^ k * peval p t) 0 1 (pint_from k p).
Proof.
  induction p as [|a p IH]; intros k; cbn [peval pint_from].
  - apply (is_RInt_ext (fun _ => 0)); [intros x _; symmetry; apply Rmult_0_r|].
    evar_last; [apply (@is_RInt_const R_NormedModule)|]. unfold scal; cbn. unfold mult; cbn. ring.
  - apply (is_RInt_ext (fun t => a * t ^ k + t ^ (S k) * peval p t)).
    { intros x _. change (a * x ^ k + x ^ S k * peval p x = x ^ k * (a + x * peval p x)). cbn [pow]. ring. }
    apply (@is_RInt_plus R_NormedModule); [apply is_RInt_monomial|apply IH].
Qed.

Lemma is_RInt_peval p : is_RInt (peval p) 0 1 (pint p).
Proof.
  apply (is_RInt_ext (fun t => t ^ 0 * peval p t)).
  { intros x _. change (x ^ 0 * peval p x = peval p x). cbn [pow]. ring. }
  apply is_RInt_peval_from.
Qed.

Lemma powerRZ_2 x : powerRZ x 2 = x * x.
Proof. unfold powerRZ. change (Pos.to_nat 2) with 2%nat. cbn [pow]. ring. Qed.

Definition cubic_xpoly (c : CubicBez R) := bez3 (px (c0 c)) (px (c1 c)) (px (c2 c)) (px (c3 c)).
Definition cubic_ypoly (c : CubicBez R) := bez3 (py (c0 c)) (py (c1 c)) (py (c2 c)) (py (c3 c)).

Lemma moment_integrals_green (c : CubicBez R) :
  let x := fun t => px (cubic_eval c t) in
  let y := fun t => py (cubic_eval c t) in
  let dx := fun t => px (quad_eval (cubic_deriv c) t) in
  is_RInt (fun t => y t * dx t) 0 1 (fst (fst (moment_integrals c))) /\
  is_RInt (fun t => x t * y t * dx t) 0 1 (snd (fst (moment_integrals c))) /\
  is_RInt (fun t => y t * y t * dx t) 0 1 (snd (moment_integrals c)).
Proof.
  intros x y dx.
  set (X := cubic_xpoly c). set (Y := cubic_ypoly c). set (DX := pderiv X).
  assert (Ex : forall t, x t = peval X t).
  { intros t. subst x X. destruct c as [[x0 y0] [x1 y1] [x2 y2] [x3 y3]]. unfold cubic_xpoly, bez3. fit_unfold. cbn [peval]. ring. }
  assert (Ey : forall t, y t = peval Y t).
  { intros t. subst y Y. destruct c as [[x0 y0] [x1 y1] [x2 y2] [x3 y3]]. unfold cubic_ypoly, bez3. fit_unfold. cbn [peval]. ring. }
  assert (Ed : forall t, dx t = peval DX t).
  { intros t. subst dx DX X. destruct c as [[x0 y0] [x1 y1] [x2 y2] [x3 y3]]. unfold cubic_xpoly, bez3. fit_unfold.
    cbn [peval pderiv pderiv_from INR]. ring. }
  split; [|split].
  - apply (is_RInt_ext (peval (pmul Y DX))).
    { intros t _. rewrite peval_pmul, <- Ey, <- Ed. reflexivity. }
    evar_last; [apply is_RInt_peval|].
    subst X Y DX. destruct c as [[x0 y0] [x1 y1] [x2 y2] [x3 y3]]. unfold cubic_xpoly, cubic_ypoly, bez3.
    fit_unfold. cbv [pint pint_from pmul padd pscale pderiv pderiv_from map INR]. clear. rewrite ?powerRZ_2. field.
  - apply (is_RInt_ext (peval (pmul (pmul X Y) DX))).
    { intros t _. rewrite !peval_pmul, <- Ex, <- Ey, <- Ed. reflexivity. }
    evar_last; [apply is_RInt_peval|].
    subst X Y DX. destruct c as [[x0 y0] [x1 y1] [x2 y2] [x3 y3]]. unfold cubic_xpoly, cubic_ypoly, bez3.
    fit_unfold. cbv [pint pint_from pmul padd pscale pderiv pderiv_from map INR]. clear. rewrite ?powerRZ_2. field.
  - apply (is_RInt_ext (peval (pmul (pmul Y Y) DX))).
    { intros t _. rewrite !peval_pmul, <- Ey, <- Ed. reflexivity. }
    evar_last; [apply is_RInt_peval|].
    subst X Y DX. destruct c as [[x0 y0] [x1 y1] [x2 y2] [x3 y3]]. unfold cubic_xpoly, cubic_ypoly, bez3.
    fit_unfold. cbv [pint pint_from pmul padd pscale pderiv pderiv_from map INR]. clear. rewrite ?powerRZ_2. field.
Qed.

(** the area component against the Green's-theorem area of Curves.v ([cubic_signed_area] is
    1/2 * integral of (x dy - y dx); integrating d(xy) gives the relation) *)
Lemma moment_area_vs_signed_area (c : CubicBez R) :
  fst (fst (moment_integrals c)) =
  (px (c3 c) * py (c3 c) - px (c0 c) * py (c0 c)) / 2 - cubic_signed_area c.
Proof.
  destruct c as [[x0 y0] [x1 y1] [x2 y2] [x3 y3]]. fit_unfold. field.
Qed.

(** ** the candidate cubic of fit_to_cubic keeps the end points (exact arithmetic):
    [aff = translate(start) * rotate(th) * scale(chord)] maps (0,0) to start and (1,0) to end
    whenever (chord cos th, chord sin th) is the chord vector *)
Lemma fit_to_cubic_affine_endpoints (start : Point R) (dx dy th chord : R) :
  chord * cos th = dx -> chord * sin th = dy ->
  let aff := aff_mul (aff_mul (aff_translate (to_vec2 start)) (aff_rotate th)) (aff_scale chord) in
  aff_apply aff (mkPoint 0 0) = start /\
  aff_apply aff (mkPoint 1 0) = mkPoint (px start + dx) (py start + dy).
Proof.
  intros Hx Hy. destruct start as [sx sy]. fit_unfold. split; f_equal; try ring.
  - rewrite <- Hx. ring.
  - rewrite <- Hy. ring.
Qed.

(** ** what the structure theorems buy for the accuracy claim: it reduces to the per-leaf claims *)
Section FitAccuracy.
Variable spt : R -> R -> Sample R.
Variable spd : R -> Point R.
Variable bc : R -> R -> option R.
Variable fc : R -> R -> option (CubicBez R * R).
Variable acc : R.

Definition src (t : R) : Point R := s_p (spt t 1).

(** the trait's contract: cusps are reported strictly inside the range *)
Definition cusp_interior : Prop := forall s e t, bc s e = Some t -> s < t < e.
(** the source is continuous where it is split (both one-sided samples give the same point) *)
Definition src_continuous : Prop := forall t, s_p (spt t 1) = s_p (spt t (-1)).

(** THE UNPROVED PART. The fitter accepts a cubic when an approximate Fréchet estimate from 20
    ray casts is below the accuracy; that an accepted cubic really is within 2*accuracy of the
    source (both ways) is not a theorem here. *)
Definition accepted_within_accuracy : Prop :=
  forall s e c err, s < e -> fc s e = Some (c, err) -> two_sided src s e (cubic_eval c) (2 * acc).
(** try_fit_line looks at 7 interior samples only *)
Definition line_within_accuracy : Prop :=
  forall s e, s < e -> line_attempt spt spd acc s e <> None ->
    two_sided src s e (cubic_eval (line_cubic (sp spt s) (ep spt e))) (2 * acc).

Lemma chain_cover_closed : forall (rs : list (R * R)) a b, rs <> [] -> chain a rs b ->
  forall t, a <= t <= b -> exists r, In r rs /\ fst r <= t <= snd r.
Proof.
  induction rs as [|[x y] rs IH]; intros a b N C t Ht; [congruence|]. cbn in C. destruct C as [-> C].
  destruct (Rle_lt_dec t y) as [Hy|Hy].
  - exists (a, y). split; [left; reflexivity|]. cbn; lra.
  - destruct rs as [|r' rs'].
    + cbn in C. subst. lra.
    + destruct (IH y b ltac:(discriminate) C t ltac:(lra)) as (r & Hr & Hin).
      exists r. split; [right; exact Hr|exact Hin].
Qed.

Lemma leaf_two_sided :
  cusp_interior -> accepted_within_accuracy -> line_within_accuracy ->
  forall l, leaf_wf spt spd bc fc acc l -> fst (leaf_range l) < snd (leaf_range l) ->
  two_sided src (fst (leaf_range l)) (snd (leaf_range l)) (cubic_eval (leaf_cubic l)) (2 * acc).
Proof.
  intros Hc Ha Hl l W Hlt.
  destruct W as [(_ & Ec & Hne) | [(_ & _ & _ & err & Hf) | (_ & _ & _ & t & Et & Ht)]].
  - rewrite Ec. apply Hl; assumption.
  - eapply Ha; eauto.
  - exfalso. apply orb_true_iff in Et. change (@feqb R RS) with Reqb in Et.
    destruct Ht as [Hb | (_ & _ & ->)].
    + apply Hc in Hb. destruct Et as [E|E]; apply Reqb_true in E; lra.
    + rewrite half_mid in Et. destruct Et as [E|E]; apply Reqb_true in E; lra.
Qed.

(** C18_full for fit_to_bezpath: the fitted path consists of the leaf cubics and is within
    2*accuracy of the source in Hausdorff distance *)
Definition fit_within_accuracy : Prop :=
  forall fuel out, fit_to_bezpath spt spd bc fc acc fuel = Some out ->
  exists cubics, segments out = Some (map (@SegCubic R) cubics) /\ hausdorff_path src cubics (2 * acc).

Lemma fit_within_accuracy_partial :
  cusp_interior -> src_continuous -> oracle_keeps_endpoints spt fc ->
  accepted_within_accuracy -> line_within_accuracy ->
  fit_within_accuracy.
Proof.
  intros Hc Hs Ho Ha Hl fuel out E.
  assert (Hcr : cusp_in_range bc) by (intros s e t Hb; apply Hc in Hb; lra).
  unfold fit_to_bezpath in E. rewrite fit_rec_tree in E.
  destruct (fit_tree spt spd bc fc acc fuel f0 f1) as [tr|] eqn:Et; [|discriminate].
  inversion E; subst; clear E.
  destruct (fit_tree_leaves _ _ _ _ _ _ _ _ Et) as (N & C & W).
  assert (P := @fit_tree_positive spt spd bc fc acc Hcr fuel f0 f1 tr).
  change (@f0 R RS) with 0 in *. change (@f1 R RS) with 1 in *.
  specialize (P ltac:(lra) Et).
  destruct (@chain_ordered _ _ _ C P) as (_ & Hin & _).
  exists (map (@leaf_cubic R) (tree_leaves tr)). split.
  { destruct (tree_leaves tr) as [|l ls] eqn:El; [congruence|].
    rewrite (@emit_segments R RS spt spd bc fc acc l ls 0 1 Ho Hs W C). rewrite map_map. reflexivity. }
  assert (TS : forall l, In l (tree_leaves tr) ->
            two_sided src (fst (leaf_range l)) (snd (leaf_range l)) (cubic_eval (leaf_cubic l)) (2 * acc) /\
            0 <= fst (leaf_range l) /\ snd (leaf_range l) <= 1).
  { intros l Hl0. split.
    - apply leaf_two_sided; auto.
      + rewrite List.Forall_forall in W. apply W; exact Hl0.
      + rewrite List.Forall_forall in P. apply (P (leaf_range l)). apply in_map; exact Hl0.
    - rewrite List.Forall_forall in Hin. apply (Hin (leaf_range l)). apply in_map; exact Hl0. }
  split.
  - intros t Ht.
    destruct (@chain_cover_closed (map (@leaf_range R) (tree_leaves tr)) 0 1) with (t := t) as (r & Hr & Hrt); auto.
    { destruct (tree_leaves tr); [congruence|discriminate]. }
    apply in_map_iff in Hr. destruct Hr as (l & <- & Hl0).
    destruct (TS l Hl0) as ((T1 & _) & _). destruct (T1 t Hrt) as (u & Hu & Hd).
    exists (leaf_cubic l). split; [apply in_map; exact Hl0|]. exists u; split; assumption.
  - intros c Hcin u Hu. apply in_map_iff in Hcin. destruct Hcin as (l & <- & Hl0).
    destruct (TS l Hl0) as ((_ & T2) & H0 & H1). destruct (T2 u Hu) as (t & Ht & Hd).
    exists t. split; [lra|exact Hd].
Qed.

End FitAccuracy.

(** ** SimplifyBezPath as a source: its end samples are the path's end points (real instance) *)
Lemma sbp_build_length : forall (segs : list (PathSeg R)) acc0, length (sbp_build acc0 segs) = length segs.
Proof.
  induction segs as [|s r IH]; intros [[a x] y]; cbn [sbp_build]; [reflexivity|].
  destruct (moment_integrals (seg_to_cubic s)) as [[ai xi] yi]. cbn. rewrite IH. reflexivity.
Qed.

Lemma sbp_build_nth : forall (segs : list (PathSeg R)) acc0 i sg,
  nth_error segs i = Some sg ->
  exists m, nth_error (sbp_build acc0 segs) i = Some (seg_to_cubic sg, m).
Proof.
  induction segs as [|s r IH]; intros [[a x] y] i sg Hn; [destruct i; discriminate|].
  cbn [sbp_build]. destruct (moment_integrals (seg_to_cubic s)) as [[ai xi] yi].
  destruct i as [|i]; cbn in *.
  - inversion Hn; subst. eexists; reflexivity.
  - eapply IH; eauto.
Qed.

Lemma sbp_endpoints (segs : list (PathSeg R)) (s0 s1 : PathSeg R) :
  nth_error segs 0 = Some s0 -> nth_error segs (length segs - 1) = Some s1 ->
  (exists tan, sbp_sample_pt_tangent (sbp_new segs) 0 = Some (mkSample (seg_start s0) tan)) /\
  (exists tan, sbp_sample_pt_tangent (sbp_new segs) 1 = Some (mkSample (seg_end s1) tan)).
Proof.
  intros H0 H1.
  assert (Hlen : length (sbp_new segs) = length segs) by apply sbp_build_length.
  assert (Hpos : (0 < length segs)%nat) by (destruct segs; [discriminate|cbn; lia]).
  destruct (sbp_build_nth segs (f0, f0, f0) 0 H0) as (m0 & E0).
  destruct (sbp_build_nth segs (f0, f0, f0) _ H1) as (m1 & E1).
  fold (sbp_new segs) in E0, E1.
  split.
  - unfold sbp_sample_pt_tangent, sbp_locate, sbp_scale. rewrite Hlen.
    change (@fmul R RS 0 (@fofZ R RS (Z.of_nat (length segs)))) with (0 * IZR (Z.of_nat (length segs))).
    rewrite Rmult_0_l. change (@ffloor R RS 0) with (IZR (Raux.Zfloor 0)).
    replace (Raux.Zfloor 0) with 0%Z by (symmetry; apply (Raux.Zfloor_IZR 0)).
    change (@fto_usize R RS 0) with (Z.max 0 (Raux.Ztrunc 0)).
    replace (Raux.Ztrunc 0) with 0%Z by (symmetry; apply (Raux.Ztrunc_IZR 0)).
    change (Z.max 0 0) with 0%Z. destruct (0 =? Z.of_nat (length segs))%Z eqn:En; [apply Z.eqb_eq in En; lia|].
    unfold sbp_nth. cbn [Z.ltb Z.compare Z.to_nat]. rewrite E0.
    change (@fsub R RS 0 0) with (0 - 0). replace (0 - 0) with 0 by ring.
    destruct (seg_to_cubic_endpoints s0) as [<- _]. eexists. f_equal. f_equal.
    destruct (seg_to_cubic s0) as [[x0 y0] [x1 y1] [x2 y2] [x3 y3]]. fit_unfold. f_equal; ring.
  - unfold sbp_sample_pt_tangent, sbp_locate, sbp_scale. rewrite Hlen.
    change (@fmul R RS 1 (@fofZ R RS (Z.of_nat (length segs)))) with (1 * IZR (Z.of_nat (length segs))).
    rewrite Rmult_1_l. change (@ffloor R RS (IZR (Z.of_nat (length segs)))) with (IZR (Raux.Zfloor (IZR (Z.of_nat (length segs))))).
    rewrite Raux.Zfloor_IZR.
    change (@fto_usize R RS (IZR (Z.of_nat (length segs)))) with (Z.max 0 (Raux.Ztrunc (IZR (Z.of_nat (length segs))))).
    rewrite Raux.Ztrunc_IZR. rewrite Z.max_r by lia. rewrite Z.eqb_refl.
    unfold sbp_nth. destruct (Z.of_nat (length segs) - 1 <? 0)%Z eqn:En; [apply Z.ltb_lt in En; lia|].
    replace (Z.to_nat (Z.of_nat (length segs) - 1)) with (length segs - 1)%nat by lia. rewrite E1.
    destruct (seg_to_cubic_endpoints s1) as [_ <-]. eexists. f_equal. f_equal.
    destruct (seg_to_cubic s1) as [[x0 y0] [x1 y1] [x2 y2] [x3 y3]]. fit_unfold. f_equal; ring.
Qed.

(** ** CurveDist::from_curve: where a candidate cubic is compared with the source (reals) *)
Lemma cd_kept_ts_real (s e : R) :
  cd_kept_ts s e = map (fun k => s + IZR k * ((e - s) / 21))
                       [1; 2; 3; 4; 5; 6; 7; 8; 9; 10; 11; 12; 13; 14; 15; 16; 17; 18; 19; 20]%Z.
Proof.
  unfold cd_kept_ts, cd_indices. cbn [filter Z.ltb Z.compare Pos.compare Pos.compare_cont andb map].
  unfold cd_t, cd_step. rs_unfold. unfold Rdiv. repeat (f_equal; try ring).
Qed.

(** the 20 retained samples are evenly spaced and interior, [(e-s)/21] apart and from both ends:
    every parameter of the range is within one step of a retained sample (so a feature wider than two
    steps cannot hide from eval_ray) — this is what a change of the step or of the retained index
    range breaks *)
Lemma cd_samples_cover (s e t : R) : s <= t <= e ->
  exists u, In u (cd_kept_ts s e) /\ Rabs (t - u) <= (e - s) / 21 /\ s < u < e \/ s = e.
Proof.
  intros Ht. destruct (Req_dec s e) as [->|Hne].
  { exists e. right. reflexivity. }
  assert (Hd : 0 < (e - s) / 21) by lra.
  rewrite cd_kept_ts_real. set (d := (e - s) / 21) in *.
  assert (He : e = s + 21 * d) by (unfold d; lra).
  assert (pick : forall k : Z, In k [1; 2; 3; 4; 5; 6; 7; 8; 9; 10; 11; 12; 13; 14; 15; 16; 17; 18; 19; 20]%Z ->
            s + (IZR k - 1) * d <= t <= s + (IZR k + 1) * d ->
            exists u, In u (map (fun k => s + IZR k * d) [1; 2; 3; 4; 5; 6; 7; 8; 9; 10; 11; 12; 13; 14; 15; 16; 17; 18; 19; 20]%Z) /\
                      Rabs (t - u) <= d /\ s < u < e \/ s = e).
  { intros k Hk Hb. exists (s + IZR k * d). left. split; [apply (in_map (fun k0 : Z => s + IZR k0 * d)); exact Hk|].
    split; [apply Rabs_le; lra|].
    assert (1 <= IZR k <= 20).
    { cbn [In] in Hk. repeat (destruct Hk as [<-|Hk]; [lra|]). destruct Hk. }
    nra. }
  destruct (Rle_dec t (s + 2 * d)) as [H1|H1]; [apply (pick 1%Z); [cbn [In]; tauto|lra]|].
  destruct (Rle_dec t (s + 3 * d)) as [H2|H2]; [apply (pick 2%Z); [cbn [In]; tauto|lra]|].
  destruct (Rle_dec t (s + 4 * d)) as [H3|H3]; [apply (pick 3%Z); [cbn [In]; tauto|lra]|].
  destruct (Rle_dec t (s + 5 * d)) as [H4|H4]; [apply (pick 4%Z); [cbn [In]; tauto|lra]|].
  destruct (Rle_dec t (s + 6 * d)) as [H5|H5]; [apply (pick 5%Z); [cbn [In]; tauto|lra]|].
  destruct (Rle_dec t (s + 7 * d)) as [H6|H6]; [apply (pick 6%Z); [cbn [In]; tauto|lra]|].
  destruct (Rle_dec t (s + 8 * d)) as [H7|H7]; [apply (pick 7%Z); [cbn [In]; tauto|lra]|].
  destruct (Rle_dec t (s + 9 * d)) as [H8|H8]; [apply (pick 8%Z); [cbn [In]; tauto|lra]|].
  destruct (Rle_dec t (s + 10 * d)) as [H9|H9]; [apply (pick 9%Z); [cbn [In]; tauto|lra]|].
  destruct (Rle_dec t (s + 11 * d)) as [H10|H10]; [apply (pick 10%Z); [cbn [In]; tauto|lra]|].
  destruct (Rle_dec t (s + 12 * d)) as [H11|H11]; [apply (pick 11%Z); [cbn [In]; tauto|lra]|].
  destruct (Rle_dec t (s + 13 * d)) as [H12|H12]; [apply (pick 12%Z); [cbn [In]; tauto|lra]|].
  destruct (Rle_dec t (s + 14 * d)) as [H13|H13]; [apply (pick 13%Z); [cbn [In]; tauto|lra]|].
  destruct (Rle_dec t (s + 15 * d)) as [H14|H14]; [apply (pick 14%Z); [cbn [In]; tauto|lra]|].
  destruct (Rle_dec t (s + 16 * d)) as [H15|H15]; [apply (pick 15%Z); [cbn [In]; tauto|lra]|].
  destruct (Rle_dec t (s + 17 * d)) as [H16|H16]; [apply (pick 16%Z); [cbn [In]; tauto|lra]|].
  destruct (Rle_dec t (s + 18 * d)) as [H17|H17]; [apply (pick 17%Z); [cbn [In]; tauto|lra]|].
  destruct (Rle_dec t (s + 19 * d)) as [H18|H18]; [apply (pick 18%Z); [cbn [In]; tauto|lra]|].
  destruct (Rle_dec t (s + 20 * d)) as [H19|H19]; [apply (pick 19%Z); [cbn [In]; tauto|lra]|].
  apply (pick 20%Z); [cbn [In]; tauto|lra].
Qed.
