(** C18 proofs.
    Part 1 (any scalar instance, so also the floats): the recursion of fit_to_bezpath as a tree,
    the chain of leaf ranges, the shape of the emitted path, the line fallback.
    Part 2 (any scalar instance): simplify_bezpath's state machine.
    Part 3 (real instance): tiling of [0,1], CubicOffset algebra, moment integrals. *)
From Coq Require Import ZArith QArith Reals List Bool Lra Lia.
From KV Require Import Scalar RInst Geom Curves Path Fit FitSpec RTac.
Import ListNotations.

Set Implicit Arguments.

(* ===================================================================================== *)
Section FitGeneric.
Context {T : Type} `{Scalar T}.
Variable spt : T -> T -> Sample T.
Variable spd : T -> Point T.
Variable bc : T -> T -> option T.
Variable fc : T -> T -> option (CubicBez T * T).
Variable acc : T.

Definition sp (t : T) : Point T := s_p (spt t f1).
Definition ep (t : T) : Point T := s_p (spt t (fneg f1)).

Notation fit_rec' := (fit_rec spt spd bc fc acc).
Notation fit_tree' := (fit_tree spt spd bc fc acc).

Lemma emit_leaves_app path (a b : list (Z * (T * T) * CubicBez T)) :
  emit_leaves path (a ++ b) = emit_leaves (emit_leaves path a) b.
Proof. unfold emit_leaves. apply fold_left_app. Qed.

(** the operation-by-operation recursion emits exactly the leaves of the tree, in order *)
Lemma fit_rec_tree : forall fuel s e path,
  fit_rec' fuel s e path =
  match fit_tree' fuel s e with
  | Some tr => Some (emit_leaves path (tree_leaves tr))
  | None => None
  end.
Proof.
  induction fuel as [|k IH]; intros s e path; [reflexivity|].
  cbn [fit_rec fit_tree].
  destruct (if fleb (pt_distance_squared (s_p (spt s f1)) (s_p (spt e (fneg f1)))) (fmul acc acc)
            then try_fit_line spd acc s e (s_p (spt s f1)) (s_p (spt e (fneg f1))) else None)
    as [[c err]|]; [reflexivity|].
  assert (Hcont : forall t,
    (if (feqb t s || feqb t e)%bool
     then Some (push_cubic path (s_p (spt s f1))
                 (pt_lerp (s_p (spt s f1)) (s_p (spt e (fneg f1))) one_third)
                 (pt_lerp (s_p (spt e (fneg f1))) (s_p (spt s f1)) one_third) (s_p (spt e (fneg f1))))
     else match fit_rec' k s t path with
          | Some path' => fit_rec' k t e path'
          | None => None
          end) =
    match (if (feqb t s || feqb t e)%bool
           then Some (FLeaf 3 s e (line_cubic (s_p (spt s f1)) (s_p (spt e (fneg f1)))))
           else match fit_tree' k s t with
                | Some l => match fit_tree' k t e with
                            | Some r => Some (FNode s t e l r)
                            | None => None
                            end
                | None => None
                end) with
    | Some tr => Some (emit_leaves path (tree_leaves tr))
    | None => None
    end).
  { intros t. destruct (feqb t s || feqb t e)%bool; [reflexivity|].
    rewrite IH. destruct (fit_tree' k s t) as [l|]; [|reflexivity].
    rewrite IH. destruct (fit_tree' k t e) as [r|]; [|reflexivity].
    cbn [tree_leaves]. rewrite emit_leaves_app. reflexivity. }
  destruct (bc s e) as [t|].
  - apply Hcont.
  - destruct (fc s e) as [[c err]|]; [reflexivity|]. apply Hcont.
Qed.


Definition leaf_kind (l : Z * (T * T) * CubicBez T) : Z := fst (fst l).
Definition leaf_range (l : Z * (T * T) * CubicBez T) : T * T := snd (fst l).
Definition leaf_cubic (l : Z * (T * T) * CubicBez T) : CubicBez T := snd l.
Definition leaf_curve (l : Z * (T * T) * CubicBez T) : PathEl T :=
  CurveTo (c1 (leaf_cubic l)) (c2 (leaf_cubic l)) (c3 (leaf_cubic l)).

(** the test fit_to_bezpath_rec makes before anything else: short chord and try_fit_line accepts *)
Definition line_attempt (s e : T) : option (CubicBez T * T) :=
  if fleb (pt_distance_squared (sp s) (ep e)) (fmul acc acc)
  then try_fit_line spd acc s e (sp s) (ep e) else None.

(** what a leaf of the recursion is: 1 = line accepted on a short chord, 2 = the cubic the oracle
    returned for exactly this range (no cusp reported), 3 = collapsed range, straight cubic *)
Definition leaf_wf (l : Z * (T * T) * CubicBez T) : Prop :=
  let s := fst (leaf_range l) in let e := snd (leaf_range l) in
  (leaf_kind l = 1%Z /\ leaf_cubic l = line_cubic (sp s) (ep e) /\ line_attempt s e <> None) \/
  (leaf_kind l = 2%Z /\ line_attempt s e = None /\ bc s e = None /\ exists err, fc s e = Some (leaf_cubic l, err)) \/
  (leaf_kind l = 3%Z /\ leaf_cubic l = line_cubic (sp s) (ep e) /\ line_attempt s e = None /\
     exists t, (feqb t s || feqb t e)%bool = true /\
               (bc s e = Some t \/ (bc s e = None /\ fc s e = None /\ t = fmul fhalf (fadd s e)))).

Lemma try_fit_line_cubic s e a b c err :
  try_fit_line spd acc s e a b = Some (c, err) -> c = line_cubic a b.
Proof.
  unfold try_fit_line.
  destruct (try_fit_line_loop spd (mkLine a b) (fmul acc acc) s (fdiv (fsub e s) (fofZ 8)) 0 7 f0); intros E; inversion E; reflexivity.
Qed.

Lemma chain_app (a m b : T) r1 r2 : chain a r1 m -> chain m r2 b -> chain a (r1 ++ r2) b.
Proof.
  revert a. induction r1 as [|[x y] r1 IH]; intros a H1 H2; cbn in *.
  - subst. exact H2.
  - destruct H1 as [-> H1]. split; [reflexivity|]. eapply IH; eauto.
Qed.

Lemma fit_tree_leaves : forall fuel s e tr,
  fit_tree' fuel s e = Some tr ->
  tree_leaves tr <> [] /\ chain s (map leaf_range (tree_leaves tr)) e /\ Forall leaf_wf (tree_leaves tr).
Proof.
  induction fuel as [|k IH]; intros s e tr; [discriminate|].
  cbn [fit_tree]. fold (sp s) (ep e). fold (line_attempt s e).
  destruct (line_attempt s e) as [[c err]|] eqn:El.
  { intros E; inversion E; subst; cbn. split; [discriminate|]. split; [auto|].
    constructor; [|constructor]. left. cbn. split; [reflexivity|]. split.
    - unfold line_attempt in El. destruct (fleb _ _); [|discriminate]. eapply try_fit_line_cubic; eauto.
    - rewrite El; discriminate. }
  assert (Hcont : forall t,
    (bc s e = Some t \/ (bc s e = None /\ fc s e = None /\ t = fmul fhalf (fadd s e))) ->
    (if (feqb t s || feqb t e)%bool
     then Some (FLeaf 3 s e (line_cubic (sp s) (ep e)))
     else match fit_tree' k s t with
          | Some l => match fit_tree' k t e with
                      | Some r => Some (FNode s t e l r)
                      | None => None
                      end
          | None => None
          end) = Some tr ->
    tree_leaves tr <> [] /\ chain s (map leaf_range (tree_leaves tr)) e /\ Forall leaf_wf (tree_leaves tr)).
  { intros t Ht. destruct (feqb t s || feqb t e)%bool eqn:Et.
    - intros E; inversion E; subst; cbn. split; [discriminate|]. split; [auto|].
      constructor; [|constructor]. right; right. cbn. repeat split; auto. exists t; auto.
    - destruct (fit_tree' k s t) as [l|] eqn:E1; [|discriminate].
      destruct (fit_tree' k t e) as [r|] eqn:E2; [|discriminate].
      intros E; inversion E; subst; cbn [tree_leaves].
      destruct (IH _ _ _ E1) as (N1 & C1 & W1). destruct (IH _ _ _ E2) as (N2 & C2 & W2).
      split; [destruct (tree_leaves l); [congruence|discriminate]|].
      split; [rewrite map_app; eapply chain_app; eauto|].
      apply Forall_app; auto. }
  destruct (bc s e) as [t|] eqn:Eb.
  - apply Hcont; auto.
  - destruct (fc s e) as [[c err]|] eqn:Ef.
    + intros E; inversion E; subst; cbn. split; [discriminate|]. split; [auto|].
      constructor; [|constructor]. right; left. cbn. repeat split; auto. exists err; auto.
    + apply Hcont. right; auto.
Qed.

(** shape of the emitted path *)
Lemma path_is_empty_snoc_curve (p : list (PathEl T)) a b c : path_is_empty (p ++ [CurveTo a b c]) = false.
Proof. unfold path_is_empty. rewrite forallb_app. cbn. apply andb_false_r. Qed.

Lemma emit_nonempty : forall ls path, path_is_empty path = false ->
  emit_leaves path ls = path ++ map leaf_curve ls.
Proof.
  induction ls as [|l ls IH]; intros path Hp; cbn.
  - rewrite app_nil_r; reflexivity.
  - unfold emit_leaves in *. cbn [fold_left]. unfold push_cubic_c at 2, push_cubic. rewrite Hp.
    rewrite IH by apply path_is_empty_snoc_curve. rewrite <- app_assoc. reflexivity.
Qed.

Lemma emit_empty l ls :
  emit_leaves [] (l :: ls) = MoveTo (c0 (leaf_cubic l)) :: map leaf_curve (l :: ls).
Proof.
  unfold emit_leaves. cbn [fold_left]. unfold push_cubic_c at 2, push_cubic. cbn [path_is_empty forallb app].
  change (fold_left _ ls ?p) with (emit_leaves p ls).
  rewrite emit_nonempty by reflexivity. reflexivity.
Qed.

(** fit_rec_chain, structural form: whatever the oracles answer, within fuel the output is one
    MoveTo followed by one CurveTo per leaf; the leaf ranges form a chain from 0 to 1. *)
Lemma fit_rec_chain_leaves fuel out :
  fit_to_bezpath spt spd bc fc acc fuel = Some out ->
  exists l ls,
    chain f0 (map leaf_range (l :: ls)) f1 /\
    Forall leaf_wf (l :: ls) /\
    out = MoveTo (c0 (leaf_cubic l)) :: map leaf_curve (l :: ls).
Proof.
  unfold fit_to_bezpath. rewrite fit_rec_tree.
  destruct (fit_tree' fuel f0 f1) as [tr|] eqn:E; [|discriminate].
  intros E'; inversion E'; subst; clear E'.
  destruct (fit_tree_leaves _ _ _ E) as (N & C & W).
  destruct (tree_leaves tr) as [|l ls]; [congruence|].
  exists l, ls. split; [exact C|]. split; [exact W|]. apply emit_empty.
Qed.

(** the oracle keeps the end points of the range it was asked to fit
    (true of the real fit_to_cubic in exact arithmetic: see [fit_to_cubic_affine_endpoints]) *)
Definition oracle_keeps_endpoints : Prop :=
  forall s e c err, fc s e = Some (c, err) -> c0 c = sp s /\ c3 c = ep e.

Lemma leaf_wf_endpoints l : oracle_keeps_endpoints -> leaf_wf l ->
  c0 (leaf_cubic l) = sp (fst (leaf_range l)) /\ c3 (leaf_cubic l) = ep (snd (leaf_range l)).
Proof.
  intros Ho [(_ & -> & _) | [(_ & _ & _ & err & Hf) | (_ & -> & _)]]; cbn; auto.
  eapply Ho; eauto.
Qed.

(** fit_rec_chain: the fitted path starts with a MoveTo at the source's start sample, every leaf
    emits one CurveTo ending at the end sample of its range, the ranges are consecutive from 0 to 1,
    and the path ends at the source's end sample. *)
Lemma fit_rec_chain fuel out :
  oracle_keeps_endpoints ->
  fit_to_bezpath spt spd bc fc acc fuel = Some out ->
  exists ranges curves,
    ranges <> [] /\ chain f0 ranges f1 /\
    out = MoveTo (sp f0) :: curves /\
    Forall2 (fun r el => exists p1 p2, el = CurveTo p1 p2 (ep (snd r))) ranges curves /\
    last_end out = Some (ep f1).
Proof.
  intros Ho E. destruct (fit_rec_chain_leaves _ E) as (l & ls & C & W & ->).
  exists (map leaf_range (l :: ls)), (map leaf_curve (l :: ls)).
  split; [discriminate|]. split; [exact C|].
  assert (Hl : c0 (leaf_cubic l) = sp f0).
  { inversion W; subst. destruct (leaf_wf_endpoints Ho H2) as [-> _]. cbn in C. destruct (leaf_range l); cbn in *.
    destruct C as [-> _]; reflexivity. }
  split; [rewrite Hl; reflexivity|].
  split.
  - clear C Hl E. induction W as [|x xs Hx _ IH]; cbn; constructor; auto.
    destruct (leaf_wf_endpoints Ho Hx) as [_ <-]. unfold leaf_curve. eauto.
  - (* the last element *)
    assert (G : forall a (xs : list (Z * (T * T) * CubicBez T)) pre,
              Forall leaf_wf xs -> xs <> [] -> chain a (map leaf_range xs) f1 ->
              last_end (pre ++ map leaf_curve xs) = Some (ep f1)).
    { intros a xs. revert a. induction xs as [|x xs IH]; intros a pre Wx Nx Cx; [congruence|].
      inversion Wx; subst. destruct xs as [|y ys].
      - cbn in Cx. destruct (leaf_range x) as [u v] eqn:Er. cbn in Cx. destruct Cx as [_ ->].
        unfold last_end. cbn [map]. rewrite rev_app_distr. cbn.
        destruct (leaf_wf_endpoints Ho H2) as [_ ->]. rewrite Er; reflexivity.
      - cbn [map] in *. destruct (leaf_range x) as [u v]. cbn in Cx. destruct Cx as [_ Cx].
        specialize (IH v (pre ++ [leaf_curve x]) H3). rewrite <- app_assoc in IH. apply IH; [discriminate|exact Cx]. }
    apply (G f0 (l :: ls) [MoveTo (c0 (leaf_cubic l))] W); [discriminate|exact C].
Qed.

(** fit_line_fallback: when the split parameter (a reported cusp, or the midpoint) coincides with
    an end of the range, a straight cubic between the end samples is emitted and the recursion
    stops (one unit of fuel suffices). *)
Lemma fit_line_fallback k s e path t :
  line_attempt s e = None ->
  (bc s e = Some t \/ (bc s e = None /\ fc s e = None /\ t = fmul fhalf (fadd s e))) ->
  (feqb t s || feqb t e)%bool = true ->
  fit_rec' (S k) s e path = Some (push_cubic_c path (line_cubic (sp s) (ep e))) /\
  fit_tree' (S k) s e = Some (FLeaf 3 s e (line_cubic (sp s) (ep e))).
Proof.
  intros Hl Ht Eq. cbn [fit_rec fit_tree]. fold (sp s) (ep e). fold (line_attempt s e). rewrite Hl.
  destruct Ht as [Hb | (Hb & Hf & ->)]; rewrite Hb; [|rewrite Hf]; rewrite Eq; split; reflexivity.
Qed.

(** with a continuous source the segments of the fitted path are exactly the leaf cubics *)
Fixpoint linked (last : Point T) (cs : list (CubicBez T)) : Prop :=
  match cs with [] => True | c :: r => c0 c = last /\ linked (c3 c) r end.

Lemma segs_from_curves : forall (cs : list (CubicBez T)) start last,
  linked last cs ->
  segs_from (Some (start, last)) (map (fun c => CurveTo (c1 c) (c2 c) (c3 c)) cs) = Some (map (@SegCubic T) cs).
Proof.
  induction cs as [|c cs IH]; intros start last L; [reflexivity|].
  destruct L as [L0 L]. cbn [map segs_from seg_step el_end].
  rewrite (IH start (c3 c) L). rewrite <- L0. destruct c; reflexivity.
Qed.

Lemma leaves_linked : oracle_keeps_endpoints -> (forall t, sp t = ep t) ->
  forall xs a b, Forall leaf_wf xs -> chain a (map leaf_range xs) b -> linked (sp a) (map leaf_cubic xs).
Proof.
  intros Ho Hc. induction xs as [|x xs IH]; intros a b W C; [exact I|].
  inversion W; subst. cbn [map] in *. destruct (leaf_wf_endpoints Ho H2) as [E0 E3].
  destruct (leaf_range x) as [u v]. cbn in C, E0, E3. destruct C as [-> C].
  split; [exact E0|]. rewrite E3, <- Hc. eapply IH; eauto.
Qed.

Lemma fit_segments fuel out :
  oracle_keeps_endpoints -> (forall t, sp t = ep t) ->
  fit_to_bezpath spt spd bc fc acc fuel = Some out ->
  exists leaves, leaves <> [] /\ chain f0 (map leaf_range leaves) f1 /\ Forall leaf_wf leaves /\
    segments out = Some (map (fun l => SegCubic (leaf_cubic l)) leaves).
Proof.
  intros Ho Hc E. destruct (fit_rec_chain_leaves _ E) as (l & ls & C & W & ->).
  exists (l :: ls). split; [discriminate|]. split; [exact C|]. split; [exact W|].
  unfold segments. cbn [segs_from seg_step el_end].
  assert (L := leaves_linked Ho Hc _ _ W C).
  pose proof (segs_from_curves (map leaf_cubic (l :: ls)) (c0 (leaf_cubic l)) (c0 (leaf_cubic l))) as S.
  rewrite !map_map in S. unfold leaf_curve. rewrite S.
  - reflexivity.
  - cbn [map linked] in *. destruct L as [_ L]. split; [reflexivity| exact L].
Qed.

End FitGeneric.

(* ===================================================================================== *)
(** * Part 2: simplify_bezpath's outer state machine, any scalar instance, abstract fitter *)
Section SimplifyGeneric.
Context {T : Type} `{Scalar T}.
Variable fitter : list (PathEl T) -> list (PathEl T).
Variable thresh : T.

Notation corner := (is_corner thresh).

(** the queue holding a run of segments *)
Definition run_queue (run : list (PathSeg T)) : list (PathEl T) :=
  match run with [] => [] | s :: _ => MoveTo (seg_start s) :: map (@seg_el T) run end.

(** what [flush] appends to the result for a run: a single segment passes through unchanged,
    longer runs go through the fitter; the leading MoveTo is kept only when a sub-path starts *)
Definition emit_run (nm : bool) (run : list (PathSeg T)) : list (PathEl T) :=
  match run with
  | [] => []
  | _ => let q := run_queue run in
         let out := if Nat.eqb (length q) 2 then q else fitter q in
         if nm then out else tl out
  end.

Definition last_seg_of (run : list (PathSeg T)) : option (PathSeg T) :=
  match rev run with [] => None | s :: _ => Some s end.

Definition mk_lp (R : list (PathEl T)) (nm : bool) (cur : list (PathSeg T)) (last : option (Point T)) : SimpLoop T :=
  mkSL last (last_seg_of cur) (mkSS (run_queue cur) R nm).

(** the machine at the level of segments: (result so far, needs_moveto, current run) *)
Fixpoint spec_segs (R : list (PathEl T)) (nm : bool) (cur segs : list (PathSeg T))
  : list (PathEl T) * bool * list (PathSeg T) :=
  match segs with
  | [] => (R, nm, cur)
  | s :: r =>
      match last_seg_of cur with
      | Some l => if corner l s then spec_segs (R ++ emit_run nm cur) false [s] r
                  else spec_segs R nm (cur ++ [s]) r
      | None => spec_segs R nm (cur ++ [s]) r
      end
  end.

(** the point the body ends at (degenerate elements do not move it) *)
Fixpoint body_last (last : Point T) (body : list (PathEl T)) : Point T :=
  match body with
  | [] => last
  | LineTo p :: r => if pt_eq last p then body_last last r else body_last p r
  | QuadTo p1 p2 :: r => if pt_eq last p1 && pt_eq last p2 then body_last last r else body_last p2 r
  | CurveTo p1 p2 p3 :: r =>
      if pt_eq last p1 && pt_eq last p2 && pt_eq last p3 then body_last last r else body_last p3 r
  | _ :: r => body_last last r
  end.

Lemma seg_el_draw (s : PathSeg T) : is_draw (seg_el s) = true.
Proof. destruct s; reflexivity. Qed.

Lemma run_queue_nonempty s r : path_is_empty (run_queue (s :: r)) = false.
Proof. cbn. destruct s; reflexivity. Qed.

Lemma flush_mk R nm cur :
  ss_flush fitter (mkSS (run_queue cur) R nm) =
  match cur with
  | [] => mkSS [] R nm
  | _ => mkSS [] (R ++ emit_run nm cur) false
  end.
Proof.
  destruct cur as [|s r]; [reflexivity|].
  unfold ss_flush. cbn [ss_queue ss_result ss_needs_moveto]. rewrite run_queue_nonempty. reflexivity.
Qed.

Lemma add_seg_mk R nm cur s :
  ss_add_seg (mkSS (run_queue cur) R nm) s = mkSS (run_queue (cur ++ [s])) R nm.
Proof.
  destruct cur as [|a r]; [reflexivity|].
  unfold ss_add_seg. cbn [ss_queue ss_result ss_needs_moveto]. rewrite run_queue_nonempty.
  cbn [run_queue app map]. rewrite map_app. reflexivity.
Qed.

Lemma last_seg_of_snoc cur s : last_seg_of (cur ++ [s]) = Some s.
Proof. unfold last_seg_of. rewrite rev_unit. reflexivity. Qed.

Lemma last_seg_of_nil_inv cur : last_seg_of cur = None -> cur = [].
Proof.
  unfold last_seg_of. destruct (rev cur) eqn:E; [|discriminate]. intros _.
  apply (f_equal (@rev _)) in E. rewrite rev_involutive in E. exact E.
Qed.

(** one non-degenerate segment through the loop body *)
Lemma step_seg_mk R nm cur s :
  (let st := match last_seg_of cur with
             | Some l => if corner l s then ss_flush fitter (mkSS (run_queue cur) R nm) else mkSS (run_queue cur) R nm
             | None => mkSS (run_queue cur) R nm
             end in
   mkSL (Some (seg_end s)) (Some s) (ss_add_seg st s)) =
  (let '(R', nm', cur') := match last_seg_of cur with
                           | Some l => if corner l s then (R ++ emit_run nm cur, false, [s]) else (R, nm, cur ++ [s])
                           | None => (R, nm, cur ++ [s])
                           end in
   mk_lp R' nm' cur' (Some (seg_end s))).
Proof.
  cbv zeta.
  destruct (last_seg_of cur) as [l|] eqn:El.
  - destruct (corner l s).
    + rewrite flush_mk. destruct cur as [|a r]; [discriminate|].
      change (mkSS [] (R ++ emit_run nm (a :: r)) false) with (mkSS (run_queue []) (R ++ emit_run nm (a :: r)) false).
      rewrite add_seg_mk. reflexivity.
    + rewrite add_seg_mk. unfold mk_lp. rewrite last_seg_of_snoc. reflexivity.
  - rewrite add_seg_mk. unfold mk_lp. rewrite last_seg_of_snoc. reflexivity.
Qed.

Lemma body_sim : forall body, forallb (@is_draw T) body = true ->
  forall R nm cur last R' nm' cur',
  spec_segs R nm cur (body_segs last body) = (R', nm', cur') ->
  simplify_loop fitter thresh (mk_lp R nm cur (Some last)) body = Some (mk_lp R' nm' cur' (Some (body_last last body))).
Proof.
  induction body as [|el body IH]; intros Hd R nm cur last R' nm' cur' Hs.
  - cbn in *. inversion Hs; subst. reflexivity.
  - cbn [forallb] in Hd. apply andb_true_iff in Hd. destruct Hd as [Hel Hd].
    assert (Hseg : forall s, 
       spec_segs R nm cur (s :: body_segs (seg_end s) body) = (R', nm', cur') ->
       match simplify_loop fitter thresh
         (let st := match last_seg_of cur with
                    | Some l => if corner l s then ss_flush fitter (mkSS (run_queue cur) R nm) else mkSS (run_queue cur) R nm
                    | None => mkSS (run_queue cur) R nm
                    end in
          mkSL (Some (seg_end s)) (Some s) (ss_add_seg st s)) body with
       | Some lp => Some lp | None => None end
       = Some (mk_lp R' nm' cur' (Some (body_last (seg_end s) body)))).
    { intros s Hs'. rewrite (step_seg_mk R nm cur s).
      cbn [spec_segs] in Hs'.
      destruct (last_seg_of cur) as [l|].
      - destruct (corner l s); rewrite (IH Hd _ _ _ _ _ _ _ Hs'); reflexivity.
      - rewrite (IH Hd _ _ _ _ _ _ _ Hs'); reflexivity. }
    destruct el as [p|p|p1 p2|p1 p2 p3|]; try discriminate; cbn [simplify_loop simplify_step body_segs body_last];
      unfold mk_lp at 1; cbn [sl_last_pt sl_last_seg sl_state].
    + destruct (pt_eq last p) eqn:E.
      * fold (mk_lp R nm cur (Some last)). apply IH; assumption.
      * specialize (Hseg (SegLine (mkLine last p)) Hs). cbn [seg_end l1] in Hseg.
        destruct (simplify_loop _ _ _ body); [exact Hseg|discriminate].
    + destruct (pt_eq last p1 && pt_eq last p2)%bool eqn:E.
      * fold (mk_lp R nm cur (Some last)). apply IH; assumption.
      * specialize (Hseg (SegQuad (mkQuad last p1 p2)) Hs). cbn [seg_end q2] in Hseg.
        destruct (simplify_loop _ _ _ body); [exact Hseg|discriminate].
    + destruct (pt_eq last p1 && pt_eq last p2 && pt_eq last p3)%bool eqn:E.
      * fold (mk_lp R nm cur (Some last)). apply IH; assumption.
      * specialize (Hseg (SegCubic (mkCubic last p1 p2 p3)) Hs). cbn [seg_end c3] in Hseg.
        destruct (simplify_loop _ _ _ body); [exact Hseg|discriminate].
Qed.

End SimplifyGeneric.
