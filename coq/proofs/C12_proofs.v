(** C12: affine maps compose as documented and commute with evaluation — lemmas at the real
    instance of model/{Affine,AffineOps}.v. *)
From Coq Require Import ZArith QArith Reals List Bool Lra Lia Nsatz.
From KV Require Import Scalar RInst Geom Rect Curves Path Affine ShapeTypes AffineOps RTac.
Import ListNotations.
Local Open Scope R_scope.

(* one call-by-value pass over a white-list (see the guide: [unfold] with a long list is slow) *)
Ltac aff_unfold :=
  cbv [aff_identity aff_scale aff_scale_non_uniform aff_translate aff_rotate aff_skew aff_apply aff_mul
       aff_determinant aff_inverse aff_translation aff_with_translation
       aff_IDENTITY aff_FLIP_X aff_FLIP_Y
       aff_pre_rotate aff_pre_scale aff_pre_scale_non_uniform aff_pre_translate
       aff_then_rotate aff_then_scale aff_then_scale_non_uniform aff_then_translate
       aff_scale_about aff_rotate_about aff_then_rotate_about aff_then_scale_about
       aff_pre_rotate_about aff_pre_rotate_about_pinned
       v_normalize aff_reflect aff_map_unit_square aff_scalar_mul
       aff_mul_line aff_mul_quad aff_mul_cubic aff_mul_seg map_el aff_mul_el
       ellipse_new ellipse_from_affine ellipse_center ellipse_from_circle aff_mul_ellipse aff_mul_circle
       ellipse_add_v ellipse_sub_v ellipse_with_center ellipse_point circle_point
       arc_rotate_pt arc_sample_ellipse arc_point_at arc_eval
       ts_new_scale ts_new_translate ts_default ts_from_scale_about ts_inverse ts_to_affine ts_apply ts_mul
       ts_scalar_mul ts_add_v ts_sub_v ts_mul_circle ts_mul_line ts_mul_quad ts_mul_cubic ts_mul_seg ts_mul_el
       ts_translation ts_scale
       aa ab ac ad ae af el_inner ci_center ci_radius
       arc_center arc_radii arc_start_angle arc_sweep_angle arc_x_rotation
       seg_eval line_eval quad_eval cubic_eval seg_start seg_end
       pt_lerp pt_midpoint v_lerp pt_add_v pt_sub_v pt_sub v_add v_sub s_scale_v v_scale v_neg v_div
       v_dot v_cross v_hypot2 v_hypot to_point to_vec2
       px py vx vy l0 l1 q0 q1 q2 c0 c1 c2 c3 fst snd] in *;
  rs_unfold; cbv [Q2R Qnum Qden] in *.

Ltac rec_eq :=
  repeat match goal with
  | |- @eq (prod _ _) _ _ => f_equal
  | |- @eq (Point _) _ _ => f_equal
  | |- @eq (Vec2 _) _ _ => f_equal
  | |- @eq (Affine _) _ _ => f_equal
  | |- @eq (Line _) _ _ => f_equal
  | |- @eq (QuadBez _) _ _ => f_equal
  | |- @eq (CubicBez _) _ _ => f_equal
  | |- @eq (PathSeg _) _ _ => f_equal
  | |- @eq (PathEl _) _ _ => f_equal
  | |- @eq (Ellipse _) _ _ => f_equal
  | |- @eq (Circle _) _ _ => f_equal
  | |- @eq (TranslateScale _) _ _ => f_equal
  end.
Ltac aff_ring := aff_unfold; rec_eq; ring.
Ltac aff_field := aff_unfold; rec_eq; field.

(** * The matrix algebra *)

Lemma mul_assoc_point (A B : Affine R) (p : Point R) :
  aff_apply (aff_mul A B) p = aff_apply A (aff_apply B p).
Proof. destruct A, B, p. aff_ring. Qed.

Lemma mul_assoc (A B C : Affine R) : aff_mul (aff_mul A B) C = aff_mul A (aff_mul B C).
Proof. destruct A, B, C. aff_ring. Qed.

Lemma mul_identity (A : Affine R) (p : Point R) :
  aff_mul aff_identity A = A /\ aff_mul A aff_identity = A /\ aff_apply aff_identity p = p
  /\ aff_IDENTITY = aff_identity (T := R).
Proof. destruct A, p. repeat split; aff_ring. Qed.

Lemma inverse_right (A : Affine R) : aff_determinant A <> 0 -> aff_mul A (aff_inverse A) = aff_identity.
Proof. destruct A. aff_unfold. intros Hd. rec_eq; field; exact Hd. Qed.

Lemma inverse_left (A : Affine R) : aff_determinant A <> 0 -> aff_mul (aff_inverse A) A = aff_identity.
Proof. destruct A. aff_unfold. intros Hd. rec_eq; field; exact Hd. Qed.

Lemma inverse_point (A : Affine R) (p : Point R) :
  aff_determinant A <> 0 ->
  aff_apply (aff_inverse A) (aff_apply A p) = p /\ aff_apply A (aff_apply (aff_inverse A) p) = p.
Proof. destruct A, p. aff_unfold. intros Hd. split; rec_eq; field; exact Hd. Qed.

Lemma det_mul (A B : Affine R) :
  aff_determinant (aff_mul A B) = aff_determinant A * aff_determinant B.
Proof. destruct A, B. aff_unfold. ring. Qed.

Lemma det_inverse (A : Affine R) :
  aff_determinant A <> 0 -> aff_determinant (aff_inverse A) = / aff_determinant A.
Proof. destruct A. aff_unfold. intros Hd. field; exact Hd. Qed.

Lemma det_identity : aff_determinant (aff_identity (T := R)) = 1.
Proof. aff_unfold. ring. Qed.

(** a non-singular map is injective on points *)
Lemma apply_injective (A : Affine R) (p q : Point R) :
  aff_determinant A <> 0 -> aff_apply A p = aff_apply A q -> p = q.
Proof.
  intros Hd He.
  destruct (inverse_point A p Hd) as [Hp _]. destruct (inverse_point A q Hd) as [Hq _].
  rewrite <- Hp, <- Hq, He. reflexivity.
Qed.

Lemma scalar_mul_coeffs (k : R) (A : Affine R) :
  aff_scalar_mul k A = mkAffine (k * aa A) (k * ab A) (k * ac A) (k * ad A) (k * ae A) (k * af A).
Proof. reflexivity. Qed.

(** * pre_* = self * T, then_* = T * self *)

Lemma then_translate_is_mul (m : Affine R) (t : Vec2 R) :
  aff_then_translate m t = aff_mul (aff_translate t) m.
Proof. destruct m, t. aff_ring. Qed.

(** scale_about / rotate_about are translate(c) * (scale | rotate) * translate(-c) *)
Lemma scale_about_is_conjugate (s : R) (c : Point R) :
  aff_scale_about s c
  = aff_mul (aff_translate (to_vec2 c)) (aff_mul (aff_scale s) (aff_translate (v_neg (to_vec2 c)))).
Proof. destruct c. aff_ring. Qed.

Lemma rotate_about_is_conjugate (th : R) (c : Point R) :
  aff_rotate_about th c
  = aff_mul (aff_translate (to_vec2 c)) (aff_mul (aff_rotate th) (aff_translate (v_neg (to_vec2 c)))).
Proof. destruct c. aff_ring. Qed.

(** the pinned [pre_rotate_about] is [then_rotate_about]; it is [self * T] exactly when [self]
    commutes with the rotation, and not in general *)
Lemma pre_rotate_about_pinned_is_then (m : Affine R) (th : R) (c : Point R) :
  aff_pre_rotate_about_pinned m th c = aff_then_rotate_about m th c.
Proof. reflexivity. Qed.

Lemma pre_rotate_about_pinned_refuted :
  exists (m : Affine R) (th : R) (c : Point R),
    aff_pre_rotate_about_pinned m th c <> aff_mul m (aff_rotate_about th c).
Proof.
  exists (aff_translate (mkVec2 1 0)), PI, (mkPoint 0 0).
  aff_unfold. rewrite cos_PI, sin_PI. intros He.
  injection He as _ _ _ _ He _. lra.
Qed.

(** * scale_about / rotate_about fix the centre; reflect *)

Lemma scale_about_fixes_centre (s : R) (c : Point R) : aff_apply (aff_scale_about s c) c = c.
Proof. destruct c. aff_ring. Qed.

Lemma scale_about_action (s : R) (c p : Point R) :
  aff_apply (aff_scale_about s c) p = mkPoint (px c + s * (px p - px c)) (py c + s * (py p - py c)).
Proof. destruct c, p. aff_ring. Qed.

Lemma rotate_about_fixes_centre (th : R) (c : Point R) : aff_apply (aff_rotate_about th c) c = c.
Proof. destruct c. aff_ring. Qed.

Lemma rotate_about_action (th : R) (c p : Point R) :
  aff_apply (aff_rotate_about th c) p
  = mkPoint (px c + (cos th * (px p - px c) - sin th * (py p - py c)))
            (py c + (sin th * (px p - px c) + cos th * (py p - py c))).
Proof. destruct c, p. aff_ring. Qed.

Lemma rotate_det (th : R) (c : Point R) :
  aff_determinant (aff_rotate th) = 1 /\ aff_determinant (aff_rotate_about th c) = 1.
Proof.
  destruct c. aff_unfold. pose proof (sin2_cos2 th) as H. unfold Rsqr in H. split; nra.
Qed.

(** rotate_about preserves the distance to the centre *)
Lemma rotate_about_isometry (th : R) (c p : Point R) :
  pt_distance_squared (aff_apply (aff_rotate_about th c) p) c = pt_distance_squared p c.
Proof.
  destruct c as [cx cy], p as [x y]. unfold pt_distance_squared. aff_unfold.
  pose proof (sin2_cos2 th) as H. unfold Rsqr in H.
  set (s := sin th) in *. set (c := cos th) in *. nsatz.
Qed.

(** the unit normal of [reflect]: n = (dy, -dx) / hypot *)
Lemma reflect_normal (dx dy : R) :
  dx * dx + dy * dy <> 0 ->
  let h := sqrt (dy * dy + - dx * - dx) in
  let nx := dy * (1 / h) in let ny := - dx * (1 / h) in
  nx * nx + ny * ny = 1 /\ h <> 0 /\ nx * dx + ny * dy = 0.
Proof.
  intros Hd h nx ny.
  assert (Hpos : 0 < dy * dy + - dx * - dx) by nra.
  assert (Hh : h * h = dy * dy + - dx * - dx) by (apply sqrt_sqrt; lra).
  assert (Hh0 : h <> 0) by (intros E; rewrite E in Hh; lra).
  split; [|split; [exact Hh0|]].
  - unfold nx, ny. replace (dy * (1 / h) * (dy * (1 / h)) + - dx * (1 / h) * (- dx * (1 / h)))
      with ((dy * dy + - dx * - dx) / (h * h)) by (field; exact Hh0).
    rewrite Hh. field. lra.
  - unfold nx, ny. field. exact Hh0.
Qed.

(** Householder matrix with a unit normal, in the form the code builds it *)
Definition householder (nx ny : R) (p : Point R) : Affine R :=
  aff_pre_translate (mkAffine (1 - 2 * (nx * nx)) (-2 * (nx * ny)) (-2 * (nx * ny)) (1 - 2 * (ny * ny)) (px p) (py p))
                    (v_neg (to_vec2 p)).

Lemma reflect_is_householder (p : Point R) (d : Vec2 R) :
  aff_reflect p d
  = let h := sqrt (vy d * vy d + - vx d * - vx d) in
    householder (vy d * (1 / h)) (- vx d * (1 / h)) p.
Proof. destruct p, d. reflexivity. Qed.

Lemma householder_props (nx ny : R) (p : Point R) :
  nx * nx + ny * ny = 1 ->
  aff_determinant (householder nx ny p) = -1
  /\ aff_mul (householder nx ny p) (householder nx ny p) = aff_identity
  /\ (forall dx dy t, nx * dx + ny * dy = 0 ->
        aff_apply (householder nx ny p) (mkPoint (px p + t * dx) (py p + t * dy))
        = mkPoint (px p + t * dx) (py p + t * dy))
  /\ (forall k, aff_apply (householder nx ny p) (mkPoint (px p + k * nx) (py p + k * ny))
                = mkPoint (px p - k * nx) (py p - k * ny)).
Proof.
  intros Hn. destruct p as [x y]. unfold householder. aff_unfold.
  split; [|split; [|split]].
  - nsatz.
  - rec_eq; nsatz.
  - intros dx dy t Ht. rec_eq; nsatz.
  - intros k. rec_eq; nsatz.
Qed.

Lemma reflect_props (p : Point R) (d : Vec2 R) :
  vx d * vx d + vy d * vy d <> 0 ->
  aff_determinant (aff_reflect p d) = -1
  /\ aff_mul (aff_reflect p d) (aff_reflect p d) = aff_identity
  /\ (forall t, aff_apply (aff_reflect p d) (mkPoint (px p + t * vx d) (py p + t * vy d))
                = mkPoint (px p + t * vx d) (py p + t * vy d)).
Proof.
  intros Hd. rewrite reflect_is_householder. cbv zeta.
  destruct (reflect_normal (vx d) (vy d) Hd) as (Hn & _ & Hperp).
  destruct (householder_props _ _ p Hn) as (H1 & H2 & H3 & _).
  split; [exact H1|split; [exact H2|]].
  intros t. apply H3. exact Hperp.
Qed.

(** the mirror image: a point at signed distance k from the axis goes to distance -k *)
Lemma reflect_mirror (p : Point R) (d : Vec2 R) (t k : R) :
  vx d * vx d + vy d * vy d <> 0 ->
  let h := sqrt (vy d * vy d + - vx d * - vx d) in
  let nx := vy d * (1 / h) in let ny := - vx d * (1 / h) in
  aff_apply (aff_reflect p d) (mkPoint (px p + t * vx d + k * nx) (py p + t * vy d + k * ny))
  = mkPoint (px p + t * vx d - k * nx) (py p + t * vy d - k * ny).
Proof.
  intros Hd h nx ny. rewrite reflect_is_householder. cbv zeta. fold h. fold nx. fold ny.
  destruct (reflect_normal (vx d) (vy d) Hd) as (Hn & _ & Hperp). fold h in Hn, Hperp. fold nx in Hn, Hperp. fold ny in Hn, Hperp.
  destruct p as [x y], d as [dx dy]. unfold householder. aff_unfold. cbn [vx vy] in *.
  rec_eq; nsatz.
Qed.

(** * Affine maps commute with evaluation *)

Lemma line_eval_commutes (A : Affine R) (l : Line R) (t : R) :
  line_eval (aff_mul_line A l) t = aff_apply A (line_eval l t).
Proof. destruct A, l as [[? ?] [? ?]]. aff_ring. Qed.

Lemma quad_eval_commutes (A : Affine R) (q : QuadBez R) (t : R) :
  quad_eval (aff_mul_quad A q) t = aff_apply A (quad_eval q t).
Proof. destruct A, q as [[? ?] [? ?] [? ?]]. aff_ring. Qed.

Lemma cubic_eval_commutes (A : Affine R) (c : CubicBez R) (t : R) :
  cubic_eval (aff_mul_cubic A c) t = aff_apply A (cubic_eval c t).
Proof. destruct A, c as [[? ?] [? ?] [? ?] [? ?]]. aff_ring. Qed.

Lemma seg_eval_commutes (A : Affine R) (s : PathSeg R) (t : R) :
  seg_eval (aff_mul_seg A s) t = aff_apply A (seg_eval s t).
Proof.
  destruct s; cbn [aff_mul_seg seg_eval].
  - apply line_eval_commutes. - apply quad_eval_commutes. - apply cubic_eval_commutes.
Qed.

Lemma seg_endpoints_commute (A : Affine R) (s : PathSeg R) :
  seg_start (aff_mul_seg A s) = aff_apply A (seg_start s) /\ seg_end (aff_mul_seg A s) = aff_apply A (seg_end s).
Proof. destruct s; split; reflexivity. Qed.

(** ** paths: the segments of the image path are the images of the segments.
    Stated for any point map [f] that is injective (so that the [last != start] test of
    [ClosePath] is preserved) and any segment map that maps control points by [f]. *)
Section PathMap.
Variable f : Point R -> Point R.
Hypothesis f_inj : forall p q, f p = f q -> p = q.

Definition fseg (s : PathSeg R) : PathSeg R :=
  match s with
  | SegLine l => SegLine (mkLine (f (l0 l)) (f (l1 l)))
  | SegQuad q => SegQuad (mkQuad (f (q0 q)) (f (q1 q)) (f (q2 q)))
  | SegCubic c => SegCubic (mkCubic (f (c0 c)) (f (c1 c)) (f (c2 c)) (f (c3 c)))
  end.
Definition fst2 (st : Point R * Point R) : Point R * Point R := (f (fst st), f (snd st)).

Lemma pt_eqb_iff (p q : Point R) : pt_eqb p q = true <-> p = q.
Proof.
  destruct p as [a b], q as [c d]. unfold pt_eqb. cbn [px py]. rs_unfold.
  rewrite andb_true_iff, !Reqb_true. split.
  - intros [-> ->]. reflexivity.
  - intros E. injection E as -> ->. auto.
Qed.

Lemma pt_neb_map (p q : Point R) : pt_neb (f p) (f q) = pt_neb p q.
Proof.
  unfold pt_neb. f_equal.
  destruct (pt_eqb p q) eqn:E1, (pt_eqb (f p) (f q)) eqn:E2; try reflexivity.
  - apply pt_eqb_iff in E1. subst q. assert (pt_eqb (f p) (f p) = true) by (apply pt_eqb_iff; reflexivity). congruence.
  - apply pt_eqb_iff in E2. apply f_inj in E2. apply pt_eqb_iff in E2. congruence.
Qed.

Lemma seg_step_map (st : option (Point R * Point R)) (e : PathEl R) :
  seg_step (option_map fst2 st) (map_el f e)
  = option_map (fun r => (fst2 (fst r), option_map fseg (snd r))) (seg_step st e).
Proof.
  destruct st as [[start last]|]; destruct e; cbn -[pt_neb]; try reflexivity.
  rewrite pt_neb_map. destruct (pt_neb last start); reflexivity.
Qed.

Lemma segs_from_map (els : list (PathEl R)) : forall st,
  segs_from (option_map fst2 st) (map (map_el f) els) = option_map (map fseg) (segs_from st els).
Proof.
  induction els as [|e r IH]; intros st; [reflexivity|].
  cbn [map segs_from]. rewrite seg_step_map.
  destruct (seg_step st e) as [[st' out]|]; cbn [option_map fst snd]; [|reflexivity].
  change (Some (fst2 st')) with (option_map fst2 (Some st')). rewrite IH.
  destruct (segs_from (Some st') r); cbn [option_map]; [|reflexivity].
  destruct out; reflexivity.
Qed.

Lemma segments_map (els : list (PathEl R)) :
  segments (map (map_el f) els) = option_map (map fseg) (segments els).
Proof. exact (segs_from_map els None). Qed.
End PathMap.

Lemma fseg_aff (A : Affine R) (s : PathSeg R) : fseg (aff_apply A) s = aff_mul_seg A s.
Proof. destruct s; reflexivity. Qed.

Lemma path_segments_commute (A : Affine R) (els : list (PathEl R)) :
  aff_determinant A <> 0 ->
  segments (aff_mul_path A els) = option_map (map (aff_mul_seg A)) (segments els).
Proof.
  intros Hd. unfold aff_mul_path, aff_mul_el.
  rewrite (segments_map (aff_apply A) (fun p q => apply_injective A p q Hd)).
  destruct (segments els); cbn [option_map]; [|reflexivity].
  reflexivity.
Qed.

(** every segment of the image path, evaluated, is the image of the corresponding segment evaluated *)
Lemma path_eval_commutes (A : Affine R) (els : list (PathEl R)) (segs : list (PathSeg R)) (i : nat) (s : PathSeg R) (t : R) :
  aff_determinant A <> 0 ->
  segments els = Some segs -> nth_error segs i = Some s ->
  exists s', option_map (fun l => nth_error l i) (segments (aff_mul_path A els)) = Some (Some s')
             /\ seg_eval s' t = aff_apply A (seg_eval s t).
Proof.
  intros Hd Hs Hi. exists (aff_mul_seg A s). split.
  - rewrite path_segments_commute by exact Hd. rewrite Hs. cbn [option_map].
    rewrite nth_error_map, Hi. reflexivity.
  - apply seg_eval_commutes.
Qed.

(** element kinds and end points are preserved *)
Lemma el_end_commutes (A : Affine R) (e : PathEl R) :
  el_end (aff_mul_el A e) = option_map (aff_apply A) (el_end e).
Proof. destruct e; reflexivity. Qed.

(** * Images of circles and ellipses *)

(** the image of an ellipse has the product as inner map; point by point it is the image *)
Lemma ellipse_image (A : Affine R) (e : Ellipse R) (th : R) :
  el_inner (aff_mul_ellipse A e) = aff_mul A (el_inner e)
  /\ ellipse_point (aff_mul_ellipse A e) th = aff_apply A (ellipse_point e th).
Proof. split; [reflexivity|]. unfold ellipse_point, aff_mul_ellipse. cbn [el_inner]. apply mul_assoc_point. Qed.

(** [Ellipse::new(c, radii, rot)] is the curve c + R(rot) (|rx| cos th, |ry| sin th) *)
Lemma ellipse_new_point (c : Point R) (radii : Vec2 R) (rot th : R) :
  ellipse_point (ellipse_new c radii rot) th
  = pt_add_v c (arc_sample_ellipse (mkVec2 (Rabs (vx radii)) (Rabs (vy radii))) rot th).
Proof. destruct c, radii. aff_ring. Qed.

Lemma ellipse_new_centre (c : Point R) (radii : Vec2 R) (rot : R) :
  ellipse_center (ellipse_new c radii rot) = c.
Proof. destruct c, radii. aff_ring. Qed.

(** the image of a circle (radius r >= 0) is, angle by angle, the image of the circle's point *)
Lemma circle_image (A : Affine R) (c : Circle R) (th : R) :
  0 <= ci_radius c ->
  ellipse_point (aff_mul_circle A c) th = aff_apply A (circle_point c th).
Proof.
  destruct A, c as [[cx cy] r]. cbn [ci_radius]. intros Hr. aff_unfold.
  rewrite cos_0, sin_0, (Rabs_pos_eq r Hr). rec_eq; ring.
Qed.

(** for any radius the image is that of the circle of radius |r| *)
Lemma circle_image_abs (A : Affine R) (c : Circle R) (th : R) :
  ellipse_point (aff_mul_circle A c) th
  = aff_apply A (circle_point (mkCircle (ci_center c) (Rabs (ci_radius c))) th).
Proof.
  destruct A, c as [[cx cy] r]. aff_unfold. rewrite cos_0, sin_0. rec_eq; ring.
Qed.

(** ** svd invariants *)
Lemma svd_identity (a b c d : R) :
  (a*a + b*b + c*c + d*d) * (a*a + b*b + c*c + d*d)
  - ((a*a - b*b + c*c - d*d) * (a*a - b*b + c*c - d*d) + 4 * ((a*b + c*d) * (a*b + c*d)))
  = 4 * ((a*d - b*c) * (a*d - b*c)).
Proof. ring. Qed.

Lemma svd_invariants (m : Affine R) :
  let r := fst (aff_svd m) in
  0 <= vy r <= vx r
  /\ vx r * vx r + vy r * vy r = aa m * aa m + ab m * ab m + ac m * ac m + ad m * ad m
  /\ vx r * vy r = Rabs (aff_determinant m).
Proof.
  destruct m as [a b c d e f]. cbv [aff_svd aff_determinant aa ab ac ad fst snd vx vy]. rs_unfold.
  cbv [Q2R Qnum Qden]. cbn [powerRZ]. change (Pos.to_nat 2) with 2%nat.
  remember (a * a + b * b + c * c + d * d) as s1 eqn:Es1.
  remember (a * a - b * b + c * c - d * d) as P eqn:EP.
  remember (a * b + c * d) as Q eqn:EQ.
  replace (P ^ 2 + 4 * Q ^ 2) with (P * P + 4 * (Q * Q)) by ring.
  remember (sqrt (P * P + 4 * (Q * Q))) as s2 eqn:Es2.
  pose proof (Rle_0_sqr P) as HP. pose proof (Rle_0_sqr Q) as HQ. unfold Rsqr in HP, HQ.
  assert (Hin : 0 <= P * P + 4 * (Q * Q)) by lra.
  assert (Hs2 : 0 <= s2) by (subst s2; apply sqrt_pos).
  assert (Hs2sq : s2 * s2 = P * P + 4 * (Q * Q)) by (subst s2; apply sqrt_sqrt; exact Hin).
  assert (Hs1 : 0 <= s1).
  { pose proof (Rle_0_sqr a). pose proof (Rle_0_sqr b). pose proof (Rle_0_sqr c). pose proof (Rle_0_sqr d).
    unfold Rsqr in *. lra. }
  pose proof (svd_identity a b c d) as Hid. rewrite <- Es1, <- EP, <- EQ in Hid.
  pose proof (Rle_0_sqr (a * d - b * c)) as Hdd. unfold Rsqr in Hdd.
  assert (Hsq : s2 * s2 <= s1 * s1) by lra.
  assert (Hle : s2 <= s1).
  { destruct (Rle_dec s2 s1) as [|Hn]; [assumption|]. exfalso.
    assert (Hlt : s1 < s2) by lra.
    assert (s1 * s1 < s2 * s2) by (apply Rmult_le_0_lt_compat; assumption). lra. }
  replace (1 * / 2) with (/ 2) by lra.
  assert (Hp : 0 <= / 2 * (s1 + s2)) by lra.
  assert (Hm : 0 <= / 2 * (s1 - s2)) by lra.
  split; [split; [apply sqrt_pos | apply sqrt_le_1_alt; lra] | split].
  - rewrite !sqrt_sqrt by assumption. lra.
  - rewrite <- sqrt_mult by assumption.
    replace (/ 2 * (s1 + s2) * (/ 2 * (s1 - s2))) with (Rsqr (a * d - b * c)).
    + apply sqrt_Rsqr_abs.
    + unfold Rsqr. replace (/ 2 * (s1 + s2) * (/ 2 * (s1 - s2))) with ((s1 * s1 - s2 * s2) / 4) by field. lra.
Qed.

(** the determinant form of the minor radius is the same number *)
Lemma svd_variants_agree (m : Affine R) : aff_svd_det m = aff_svd m.
Proof.
  destruct (svd_invariants m) as (Hr & Hsum & Hprod).
  destruct m as [a b c d e f].
  cbv [aff_svd aff_svd_det aff_determinant aa ab ac ad fst snd vx vy] in *. rs_unfold.
  match goal with |- (mkVec2 ?x (if Reqb ?x 0 then 0 else Rmin (?n / ?x) ?x), ?g) = (mkVec2 ?x ?y, ?g) =>
    set (X := x) in *; set (Y := y) in * end.
  f_equal. f_equal.
  destruct (Reqb_spec X 0) as [E|E].
  - rewrite E in Hr. lra.
  - rewrite <- Hprod. replace (X * Y / X) with Y by (field; exact E). apply Rmin_left. lra.
Qed.

(** * TranslateScale behaves as the affine map it converts to *)

Lemma ts_apply_as_affine (ts : TranslateScale R) (p : Point R) :
  ts_apply ts p = aff_apply (ts_to_affine ts) p.
Proof. destruct ts as [[tx ty] s], p. aff_ring. Qed.

Lemma ts_mul_as_affine (a b : TranslateScale R) :
  ts_to_affine (ts_mul a b) = aff_mul (ts_to_affine a) (ts_to_affine b).
Proof. destruct a as [[? ?] ?], b as [[? ?] ?]. aff_ring. Qed.

Lemma ts_inverse_as_affine (ts : TranslateScale R) :
  ts_scale ts <> 0 -> ts_to_affine (ts_inverse ts) = aff_inverse (ts_to_affine ts).
Proof. destruct ts as [[tx ty] s]. cbn [ts_scale]. intros Hs. aff_unfold. rec_eq; field; exact Hs. Qed.

Lemma ts_inverse_laws (ts : TranslateScale R) :
  ts_scale ts <> 0 -> ts_mul ts (ts_inverse ts) = ts_default /\ ts_mul (ts_inverse ts) ts = ts_default.
Proof. destruct ts as [[tx ty] s]. cbn [ts_scale]. intros Hs. aff_unfold. split; rec_eq; field; exact Hs. Qed.

Lemma ts_misc_as_affine (ts : TranslateScale R) (k : R) (v : Vec2 R) (c : Point R) :
  ts_to_affine (ts_scalar_mul k ts) = aff_mul (aff_scale k) (ts_to_affine ts)
  /\ ts_to_affine (ts_add_v ts v) = aff_then_translate (ts_to_affine ts) v
  /\ ts_to_affine (ts_sub_v ts v) = aff_then_translate (ts_to_affine ts) (v_neg v)
  /\ ts_to_affine (ts_from_scale_about k c) = aff_scale_about k c
  /\ ts_to_affine (ts_new_scale k) = aff_scale k
  /\ ts_to_affine (ts_new_translate v) = aff_translate v
  /\ ts_to_affine ts_default = aff_identity.
Proof. destruct ts as [[tx ty] s], v, c. repeat split; aff_ring. Qed.

Lemma ts_curves_as_affine (ts : TranslateScale R) :
  (forall l, ts_mul_line ts l = aff_mul_line (ts_to_affine ts) l)
  /\ (forall q, ts_mul_quad ts q = aff_mul_quad (ts_to_affine ts) q)
  /\ (forall c, ts_mul_cubic ts c = aff_mul_cubic (ts_to_affine ts) c)
  /\ (forall s, ts_mul_seg ts s = aff_mul_seg (ts_to_affine ts) s)
  /\ (forall e, ts_mul_el ts e = aff_mul_el (ts_to_affine ts) e)
  /\ (forall els, ts_mul_path ts els = aff_mul_path (ts_to_affine ts) els).
Proof.
  assert (Hl : forall l, ts_mul_line ts l = aff_mul_line (ts_to_affine ts) l)
    by (intros [pa pb]; unfold ts_mul_line, aff_mul_line; cbn [l0 l1]; rewrite !ts_apply_as_affine; reflexivity).
  assert (Hq : forall q, ts_mul_quad ts q = aff_mul_quad (ts_to_affine ts) q)
    by (intros [pa pb pc]; unfold ts_mul_quad, aff_mul_quad; cbn [q0 q1 q2]; rewrite !ts_apply_as_affine; reflexivity).
  assert (Hc : forall c, ts_mul_cubic ts c = aff_mul_cubic (ts_to_affine ts) c)
    by (intros [pa pb pc pd]; unfold ts_mul_cubic, aff_mul_cubic; cbn [c0 c1 c2 c3]; rewrite !ts_apply_as_affine; reflexivity).
  assert (He : forall e, ts_mul_el ts e = aff_mul_el (ts_to_affine ts) e)
    by (intros []; unfold ts_mul_el, aff_mul_el; cbn [map_el]; rewrite ?ts_apply_as_affine; reflexivity).
  repeat split; try assumption.
  - intros []; cbn [ts_mul_seg aff_mul_seg]; rewrite ?Hl, ?Hq, ?Hc; reflexivity.
  - intros els. unfold ts_mul_path, aff_mul_path. apply map_ext. exact He.
Qed.

(** rectangles: [TranslateScale * Rect] is the (normalised) bounding box of the affine image, for
    every rectangle and every scale, negative ones included *)
Lemma ts_rect_as_affine (ts : TranslateScale R) (r : Rect R) :
  ts_mul_rect ts r = aff_transform_rect_bbox (ts_to_affine ts) r.
Proof.
  destruct ts as [[tx ty] s], r as [x0 y0 x1 y1].
  cbv [ts_mul_rect aff_transform_rect_bbox rect_from_points rect_abs rect_union rx0 ry0 rx1 ry1]. aff_unfold.
  f_equal; minmax; nra.
Qed.

(** circles: the same angle gives the same point as on the image under the affine map *)
Lemma ts_circle_as_affine (ts : TranslateScale R) (c : Circle R) (th : R) :
  circle_point (ts_mul_circle ts c) th = aff_apply (ts_to_affine ts) (circle_point c th).
Proof. destruct ts as [[tx ty] s], c as [[cx cy] r]. aff_ring. Qed.

Lemma ts_circle_vs_ellipse (ts : TranslateScale R) (c : Circle R) (th : R) :
  0 <= ci_radius c ->
  circle_point (ts_mul_circle ts c) th = ellipse_point (aff_mul_circle (ts_to_affine ts) c) th.
Proof. intros Hr. rewrite circle_image by exact Hr. apply ts_circle_as_affine. Qed.

(** ** rounded rectangles: every corner takes its radius to its image corner *)
Definition rrect_corners (rr : RoundedRect R) : list (Point R * R) :=
  let q := rr_rect rr in let d := rr_radii rr in
  [ (mkPoint (rx0 q) (ry0 q), r_top_left d); (mkPoint (rx1 q) (ry0 q), r_top_right d);
    (mkPoint (rx1 q) (ry1 q), r_bottom_right d); (mkPoint (rx0 q) (ry1 q), r_bottom_left d) ].

Definition rrect_wf (rr : RoundedRect R) : Prop :=
  let q := rr_rect rr in let d := rr_radii rr in
  rx0 q <= rx1 q /\ ry0 q <= ry1 q
  /\ 0 <= r_top_left d /\ 0 <= r_top_right d /\ 0 <= r_bottom_right d /\ 0 <= r_bottom_left d.

(** the largest radius [RoundedRect::from_rect] allows in the image rectangle *)
Definition ts_radius_limit (ts : TranslateScale R) (rr : RoundedRect R) : R :=
  let w := ts_mul_rect ts (rr_rect rr) in Rmin (rect_width w) (rect_height w) / 2.

Lemma minmax_idem (u v : R) :
  Rmin (Rmin u v) (Rmax u v) = Rmin u v /\ Rmax (Rmin u v) (Rmax u v) = Rmax u v.
Proof. split; minmax. Qed.

Lemma ts_rrect_corners (ts : TranslateScale R) (rr : RoundedRect R) (p : Point R) (r : R) :
  rrect_wf rr -> In (p, r) (rrect_corners rr) ->
  rr_rect (ts_mul_rrect ts rr) = ts_mul_rect ts (rr_rect rr)
  /\ In (aff_apply (ts_to_affine ts) p, Rmin (Rabs (ts_scale ts) * r) (ts_radius_limit ts rr))
        (rrect_corners (ts_mul_rrect ts rr)).
Proof.
  destruct ts as [[tx ty] s], rr as [[x0 y0 x1 y1] [tl tr br bl]].
  unfold rrect_wf. cbn [rr_rect rr_radii rx0 ry0 rx1 ry1 r_top_left r_top_right r_bottom_right r_bottom_left].
  intros (Hx & Hy & Htl & Htr & Hbr & Hbl) Hin.
  assert (Ea : forall u, 0 <= u -> Rabs (s * u) = Rabs s * u)
    by (intros u Hu; rewrite Rabs_mult, (Rabs_pos_eq u Hu); reflexivity).
  unfold ts_mul_rrect. cbn [ts_scale rr_rect rr_radii]. rs_unfold.
  destruct (Rltb_spec s 0) as [Hs|Hs];
  cbv [ts_radius_limit ts_mul_rect rrect_from_rect rect_from_points rect_abs rect_width rect_height
       ts_mul_radii radii_abs radii_clamp radii_half_turn rrect_corners
       rr_rect rr_radii rx0 ry0 rx1 ry1 r_top_left r_top_right r_bottom_right r_bottom_left] in *;
  aff_unfold;
  rewrite !(proj1 (minmax_idem _ _)), !(proj2 (minmax_idem _ _)); (split; [reflexivity|]).
  - (* s < 0: half turn *)
    assert (E1 : forall u v t, u <= v -> Rmin (u * s + t) (v * s + t) = v * s + t /\ Rmax (u * s + t) (v * s + t) = u * s + t)
      by (intros; split; minmax; nra).
    rewrite !(proj1 (E1 _ _ _ Hx)), !(proj2 (E1 _ _ _ Hx)), !(proj1 (E1 _ _ _ Hy)), !(proj2 (E1 _ _ _ Hy)).
    rewrite !Ea by assumption.
    cbn [In] in *.
    destruct Hin as [E|[E|[E|[E|[]]]]]; injection E as <- <-.
    + right; right; left. f_equal; f_equal; ring.
    + right; right; right; left. f_equal; f_equal; ring.
    + left. f_equal; f_equal; ring.
    + right; left. f_equal; f_equal; ring.
  - (* s >= 0 *)
    assert (E1 : forall u v t, u <= v -> Rmin (u * s + t) (v * s + t) = u * s + t /\ Rmax (u * s + t) (v * s + t) = v * s + t)
      by (intros; split; minmax; nra).
    rewrite !(proj1 (E1 _ _ _ Hx)), !(proj2 (E1 _ _ _ Hx)), !(proj1 (E1 _ _ _ Hy)), !(proj2 (E1 _ _ _ Hy)).
    rewrite !Ea by assumption.
    cbn [In] in *.
    destruct Hin as [E|[E|[E|[E|[]]]]]; injection E as <- <-.
    + left. f_equal; f_equal; ring.
    + right; left. f_equal; f_equal; ring.
    + right; right; left. f_equal; f_equal; ring.
    + right; right; right; left. f_equal; f_equal; ring.
Qed.

(** the pinned code leaves every radius at its corner: with scale -1 the corner (0,0) of
    [0,10]^2 (radius 1) lands on (0,0), now the bottom-right corner, which is given radius 3 *)
Lemma ts_rrect_pinned_refuted :
  exists (ts : TranslateScale R) (rr : RoundedRect R) (p : Point R) (r : R),
    rrect_wf rr /\ In (p, r) (rrect_corners rr)
    /\ ~ In (aff_apply (ts_to_affine ts) p, Rmin (Rabs (ts_scale ts) * r) (ts_radius_limit ts rr))
            (rrect_corners (ts_mul_rrect_pinned ts rr)).
Proof.
  exists (mkTS (mkVec2 0 0) (-1)), (mkRoundedRect (mkRect 0 0 10 10) (mkRadii 1 2 3 4)), (mkPoint 0 0), 1.
  split; [|split].
  - unfold rrect_wf. cbn. lra.
  - left. reflexivity.
  - cbv [ts_mul_rrect_pinned ts_radius_limit ts_mul_rect rrect_from_rect rect_from_points rect_abs rect_width rect_height
         ts_mul_radii radii_abs radii_clamp rrect_corners
         rr_rect rr_radii rx0 ry0 rx1 ry1 r_top_left r_top_right r_bottom_right r_bottom_left].
    aff_unfold.
    replace (0 * -1 + 0) with 0 by ring. replace (10 * -1 + 0) with (-10) by ring.
    replace (-1 * 0 + 0 * 0 + 0) with 0 by ring. replace (0 * 0 + -1 * 0 + 0) with 0 by ring.
    assert (M1 : Rmin 0 (-10) = -10) by (apply Rmin_right; lra). assert (M2 : Rmax 0 (-10) = 0) by (apply Rmax_left; lra).
    rewrite M1, M2.
    assert (M3 : Rmin (-10) 0 = -10) by (apply Rmin_left; lra). assert (M4 : Rmax (-10) 0 = 0) by (apply Rmax_right; lra).
    rewrite M3, M4.
    replace (0 - -10) with 10 by ring.
    assert (M5 : Rmin 10 10 / 2 = 5) by (rewrite Rmin_left; lra). rewrite M5.
    replace (-1 * 1) with (-1) by ring. replace (-1 * 2) with (-2) by ring.
    replace (-1 * 3) with (-3) by ring. replace (-1 * 4) with (-4) by ring.
    assert (A1 : Rabs (-1) = 1) by (rewrite Rabs_left; lra). assert (A2 : Rabs (-2) = 2) by (rewrite Rabs_left; lra).
    assert (A3 : Rabs (-3) = 3) by (rewrite Rabs_left; lra). assert (A4 : Rabs (-4) = 4) by (rewrite Rabs_left; lra).
    rewrite ?A1, ?A2, ?A3, ?A4.
    replace (1 * 1) with 1 by ring.
    assert (N1 : Rmin 1 5 = 1) by (apply Rmin_left; lra). assert (N2 : Rmin 2 5 = 2) by (apply Rmin_left; lra).
    assert (N3 : Rmin 3 5 = 3) by (apply Rmin_left; lra). assert (N4 : Rmin 4 5 = 4) by (apply Rmin_left; lra).
    rewrite ?N1, ?N2, ?N3, ?N4.
    cbn [In]. intros [E|[E|[E|[E|[]]]]]; injection E; intros; lra.
Qed.

(** * one lemma per pre_* / then_* method (the model mirrors the code, which defines all but
    [then_translate] through the product) *)
Lemma pre_rotate_is_mul (m : Affine R) th : aff_pre_rotate m th = aff_mul m (aff_rotate th).
Proof. reflexivity. Qed.
Lemma pre_rotate_about_is_mul (m : Affine R) th c : aff_pre_rotate_about m th c = aff_mul m (aff_rotate_about th c).
Proof. reflexivity. Qed.
Lemma pre_scale_is_mul (m : Affine R) s : aff_pre_scale m s = aff_mul m (aff_scale s).
Proof. reflexivity. Qed.
Lemma pre_scale_non_uniform_is_mul (m : Affine R) sx sy :
  aff_pre_scale_non_uniform m sx sy = aff_mul m (aff_scale_non_uniform sx sy).
Proof. reflexivity. Qed.
Lemma pre_translate_is_mul (m : Affine R) t : aff_pre_translate m t = aff_mul m (aff_translate t).
Proof. reflexivity. Qed.
Lemma then_rotate_is_mul (m : Affine R) th : aff_then_rotate m th = aff_mul (aff_rotate th) m.
Proof. reflexivity. Qed.
Lemma then_rotate_about_is_mul (m : Affine R) th c : aff_then_rotate_about m th c = aff_mul (aff_rotate_about th c) m.
Proof. reflexivity. Qed.
Lemma then_scale_is_mul (m : Affine R) s : aff_then_scale m s = aff_mul (aff_scale s) m.
Proof. reflexivity. Qed.
Lemma then_scale_non_uniform_is_mul (m : Affine R) sx sy :
  aff_then_scale_non_uniform m sx sy = aff_mul (aff_scale_non_uniform sx sy) m.
Proof. reflexivity. Qed.
Lemma then_scale_about_is_mul (m : Affine R) s c : aff_then_scale_about m s c = aff_mul (aff_scale_about s c) m.
Proof. reflexivity. Qed.

(** the elementary maps act as documented *)
Lemma elementary_actions (p : Point R) (s sx sy th kx ky : R) (t : Vec2 R) :
  aff_apply (aff_scale s) p = mkPoint (s * px p) (s * py p)
  /\ aff_apply (aff_scale_non_uniform sx sy) p = mkPoint (sx * px p) (sy * py p)
  /\ aff_apply (aff_translate t) p = mkPoint (px p + vx t) (py p + vy t)
  /\ aff_apply (aff_rotate th) p = mkPoint (cos th * px p - sin th * py p) (sin th * px p + cos th * py p)
  /\ aff_apply (aff_skew kx ky) p = mkPoint (px p + kx * py p) (ky * px p + py p)
  /\ aff_apply aff_FLIP_Y p = mkPoint (px p) (- py p) /\ aff_apply aff_FLIP_X p = mkPoint (- px p) (py p).
Proof. destruct p, t. repeat split; aff_ring. Qed.

(** map_unit_square takes the unit square's corners to the rectangle's corners *)
Lemma map_unit_square_corners (r : Rect R) :
  let m := aff_map_unit_square r in
  aff_apply m (mkPoint 0 0) = mkPoint (rx0 r) (ry0 r) /\ aff_apply m (mkPoint 1 0) = mkPoint (rx1 r) (ry0 r)
  /\ aff_apply m (mkPoint 0 1) = mkPoint (rx0 r) (ry1 r) /\ aff_apply m (mkPoint 1 1) = mkPoint (rx1 r) (ry1 r).
Proof.
  destruct r as [x0 y0 x1 y1]. cbv [aff_map_unit_square rect_width rect_height rx0 ry0 rx1 ry1]. repeat split; aff_ring.
Qed.

(** transform_rect_bbox contains the image of every point of the (closed) rectangle *)
Lemma transform_rect_bbox_contains (m : Affine R) (r : Rect R) (p : Point R) :
  rx0 r <= px p <= rx1 r -> ry0 r <= py p <= ry1 r ->
  let b := aff_transform_rect_bbox m r in let q := aff_apply m p in
  rx0 b <= px q <= rx1 b /\ ry0 b <= py q <= ry1 b.
Proof.
  destruct m as [a b c d e f], r as [x0 y0 x1 y1], p as [x y]. cbn [rx0 ry0 rx1 ry1 px py]. intros Hx Hy.
  cbv [aff_transform_rect_bbox rect_from_points rect_abs rect_union rx0 ry0 rx1 ry1]. aff_unfold.
  assert (Hlin : forall k l u0 u1 v0 v1 u v w, u0 <= u <= u1 -> v0 <= v <= v1 ->
            Rmin (Rmin (k * u0 + l * v0 + w) (k * u0 + l * v1 + w)) (Rmin (k * u1 + l * v0 + w) (k * u1 + l * v1 + w))
            <= k * u + l * v + w
            <= Rmax (Rmax (k * u0 + l * v0 + w) (k * u0 + l * v1 + w)) (Rmax (k * u1 + l * v0 + w) (k * u1 + l * v1 + w))).
  { intros k l u0 u1 v0 v1 u v w Hu Hv.
    assert (Hk : Rmin (k * u0) (k * u1) <= k * u <= Rmax (k * u0) (k * u1)) by (destruct (Rle_dec 0 k); minmax; nra).
    assert (Hl : Rmin (l * v0) (l * v1) <= l * v <= Rmax (l * v0) (l * v1)) by (destruct (Rle_dec 0 l); minmax; nra).
    split; minmax. }
  split; apply Hlin; assumption.
Qed.

(** combined forms used by the property file *)
Lemma ellipse_new_curve (c : Point R) (radii : Vec2 R) (rot th : R) :
  ellipse_point (ellipse_new c radii rot) th
  = pt_add_v c (arc_sample_ellipse (mkVec2 (Rabs (vx radii)) (Rabs (vy radii))) rot th)
  /\ ellipse_center (ellipse_new c radii rot) = c.
Proof. split; [apply ellipse_new_point|apply ellipse_new_centre]. Qed.

Lemma ts_inverse_all (ts : TranslateScale R) :
  ts_scale ts <> 0 ->
  ts_to_affine (ts_inverse ts) = aff_inverse (ts_to_affine ts)
  /\ ts_mul ts (ts_inverse ts) = ts_default /\ ts_mul (ts_inverse ts) ts = ts_default.
Proof. intros H. split; [apply ts_inverse_as_affine|apply ts_inverse_laws]; exact H. Qed.

Lemma ts_circle_all (ts : TranslateScale R) (c : Circle R) (th : R) :
  circle_point (ts_mul_circle ts c) th = aff_apply (ts_to_affine ts) (circle_point c th)
  /\ (0 <= ci_radius c ->
      circle_point (ts_mul_circle ts c) th = ellipse_point (aff_mul_circle (ts_to_affine ts) c) th).
Proof. split; [apply ts_circle_as_affine|apply ts_circle_vs_ellipse]. Qed.
