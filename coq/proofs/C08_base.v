(** C08, part 1: lemmas that do not mention curves — the insertion sort, the range list,
    running minima/maxima, sign changes of continuous functions, Simpson's rule. Real instance. *)
From Coq Require Import ZArith QArith Reals List Bool Lra Lia Sorting.Sorted Sorting.Permutation.
From KV Require Import Scalar RInst Geom Curves Rect Path Solvers Extrema RTac ExtremaSpec.
Import ListNotations.
Local Open Scope R_scope.

(** * the filter [t > 0.0 && t < 1.0] *)
Lemma in_open01_true (t : R) : in_open01 t = true <-> 0 < t < 1.
Proof.
  unfold in_open01. rs_unfold. rewrite andb_true_iff, !Rltb_true. tauto.
Qed.

Lemma extrema_filter_In (l : list R) t : In t (extrema_filter l) <-> In t l /\ 0 < t < 1.
Proof. unfold extrema_filter. rewrite filter_In, in_open01_true. tauto. Qed.

Lemma extrema_filter_length (l : list R) : (length (extrema_filter l) <= length l)%nat.
Proof.
  unfold extrema_filter. induction l as [|x l IH]; simpl; [lia|].
  destruct (in_open01 x); simpl; lia.
Qed.

(** * insertion sort *)
Lemma insert_sorted_perm (x : R) l : Permutation (insert_sorted x l) (x :: l).
Proof.
  induction l as [|y l IH]; simpl; [reflexivity|].
  destruct (Rltb x y); [reflexivity|].
  rewrite IH. apply perm_swap.
Qed.

Lemma insert_sorted_sorted (x : R) l : Sorted Rle l -> Sorted Rle (insert_sorted x l).
Proof.
  induction l as [|y l IH]; simpl; intro Hs.
  - repeat constructor.
  - destruct (Rltb_spec x y) as [Hlt|Hge].
    + constructor; [assumption|]. constructor. lra.
    + inversion Hs as [|? ? Hs' Hhd]; subst. constructor; [apply IH; assumption|].
      destruct l as [|z l]; simpl.
      * constructor. lra.
      * destruct (Rltb_spec x z); constructor; [lra|].
        inversion Hhd; subst. assumption.
Qed.

Lemma sort_fold_spec (l acc : list R) : Sorted Rle acc ->
  let r := fold_left (fun a x => insert_sorted x a) l acc in
  Sorted Rle r /\ Permutation r (l ++ acc).
Proof.
  revert acc. induction l as [|x l IH]; simpl; intros acc Hs.
  - split; [assumption|reflexivity].
  - destruct (IH (insert_sorted x acc) (insert_sorted_sorted x acc Hs)) as [H1 H2].
    split; [exact H1|]. rewrite H2. rewrite insert_sorted_perm.
    symmetry. apply Permutation_middle.
Qed.

Lemma Rle_trans' : Relations_1.Transitive Rle.
Proof. intros x y z; apply Rle_trans. Qed.

Lemma sort_asc_spec (l : list R) :
  StronglySorted Rle (sort_asc l) /\ Permutation (sort_asc l) l.
Proof.
  destruct (sort_fold_spec l [] (Sorted_nil _)) as [H1 H2].
  split.
  - apply Sorted_StronglySorted; [exact Rle_trans'|exact H1].
  - unfold sort_asc. rewrite H2. rewrite app_nil_r. reflexivity.
Qed.

Lemma sort_asc_In (l : list R) x : In x (sort_asc l) <-> In x l.
Proof.
  destruct (sort_asc_spec l) as [_ Hp]. split; intro Hi.
  - eapply Permutation_in; [exact Hp|exact Hi].
  - eapply Permutation_in; [symmetry; exact Hp|exact Hi].
Qed.

Lemma sort_asc_length (l : list R) : length (sort_asc l) = length l.
Proof. destruct (sort_asc_spec l) as [_ Hp]. apply Permutation_length. exact Hp. Qed.

(** * extrema_ranges *)

(** the ranges pair each break point with the next one (any scalar) *)
Lemma ranges_from_combine (T : Type) (S : Scalar T) (t0 : T) (ts : list T) :
  ranges_from t0 ts = combine (t0 :: ts) (ts ++ [f1]).
Proof.
  revert t0. induction ts as [|t r IH]; intro t0; simpl; [reflexivity|].
  rewrite IH. reflexivity.
Qed.

Lemma ranges_from_length (T : Type) (S : Scalar T) (t0 : T) (ts : list T) :
  length (ranges_from t0 ts) = Datatypes.S (length ts).
Proof. revert t0. induction ts; intro; simpl; [reflexivity|]. rewrite IHts. reflexivity. Qed.

(** every parameter between the first break point and 1 lies in one of the ranges *)
Lemma ranges_cover (l : list R) (t0 t : R) : t0 <= t -> t <= 1 ->
  exists a b, In (a, b) (ranges_from t0 l) /\ a <= t <= b.
Proof.
  revert t0. induction l as [|x l IH]; intros t0 H0 H1; simpl.
  - exists t0, 1. rs_unfold. split; [left; reflexivity|lra].
  - destruct (Rle_dec t x) as [Hle|Hgt].
    + exists t0, x. split; [left; reflexivity|lra].
    + destruct (IH x ltac:(lra) H1) as (a & b & Hin & Hab).
      exists a, b. split; [right; exact Hin|exact Hab].
Qed.

(** for an ascending list with all entries at most 1: each range is well-formed, its ends are
    break points, and no break point lies strictly inside it *)
Lemma ranges_adjacent (l : list R) (t0 a b : R) :
  StronglySorted Rle (t0 :: l) -> t0 <= 1 -> (forall x, In x l -> x <= 1) ->
  In (a, b) (ranges_from t0 l) ->
  t0 <= a /\ a <= b /\ b <= 1 /\ (a = t0 \/ In a l) /\ (b = 1 \/ In b l) /\
  (forall x, In x (t0 :: l) -> x <= a \/ b <= x).
Proof.
  revert t0. induction l as [|x l IH]; intros t0 Hs H0 Hl Hin; simpl in Hin.
  - destruct Hin as [E|[]]. inversion E; subst. rs_unfold.
    repeat split; try lra; auto. intros x [<-|[]]. lra.
  - inversion Hs as [|? ? Hs' Hall]; subst.
    assert (Hx1 : x <= 1) by (apply Hl; left; reflexivity).
    assert (Ht0x : t0 <= x) by (inversion Hall; assumption).
    destruct Hin as [E|Hin].
    + inversion E; subst. repeat split; try lra; auto.
      * right; left; reflexivity.
      * intros y [<-|[<-|Hy]]; [lra|lra|].
        right. inversion Hs' as [|? ? _ Hall']; subst.
        rewrite Forall_forall in Hall'. apply Hall'. exact Hy.
    + destruct (IH x Hs' Hx1 (fun y Hy => Hl y (or_intror Hy)) Hin) as (A & B & C & D & E & F).
      repeat split; try lra.
      * right. destruct D as [->|D]; [left; reflexivity|right; exact D].
      * destruct E as [->|E]; [left; reflexivity|right; right; exact E].
      * intros y [<-|Hy]; [left; lra|apply F; exact Hy].
Qed.

(** * running minimum / maximum of a fold *)
Section Running.
Context {A : Type} (h : A -> R).

Lemma fold_min_spec (l : list A) (m0 : R) :
  let m := fold_left (fun m x => Rmin m (h x)) l m0 in
  m <= m0 /\ (forall x, In x l -> m <= h x) /\ (m = m0 \/ exists x, In x l /\ m = h x).
Proof.
  revert m0. induction l as [|y l IH]; simpl; intro m0.
  - split; [lra|]. split; [intros ? []|left; reflexivity].
  - destruct (IH (Rmin m0 (h y))) as (H1 & H2 & H3).
    pose proof (Rmin_l m0 (h y)). pose proof (Rmin_r m0 (h y)).
    split; [lra|]. split.
    + intros x [<-|Hx]; [lra|apply H2; exact Hx].
    + destruct H3 as [H3|(x & Hx & E)].
      * destruct (Rle_dec m0 (h y)).
        -- left. rewrite H3. apply Rmin_left. assumption.
        -- right. exists y. split; [left; reflexivity|]. rewrite H3. apply Rmin_right. lra.
      * right. exists x. split; [right; exact Hx|exact E].
Qed.

Lemma fold_max_spec (l : list A) (m0 : R) :
  let m := fold_left (fun m x => Rmax m (h x)) l m0 in
  m0 <= m /\ (forall x, In x l -> h x <= m) /\ (m = m0 \/ exists x, In x l /\ m = h x).
Proof.
  revert m0. induction l as [|y l IH]; simpl; intro m0.
  - split; [lra|]. split; [intros ? []|left; reflexivity].
  - destruct (IH (Rmax m0 (h y))) as (H1 & H2 & H3).
    pose proof (Rmax_l m0 (h y)). pose proof (Rmax_r m0 (h y)).
    split; [lra|]. split.
    + intros x [<-|Hx]; [lra|apply H2; exact Hx].
    + destruct H3 as [H3|(x & Hx & E)].
      * destruct (Rle_dec m0 (h y)).
        -- right. exists y. split; [left; reflexivity|]. rewrite H3. apply Rmax_right. assumption.
        -- left. rewrite H3. apply Rmax_left. lra.
      * right. exists x. split; [right; exact Hx|exact E].
Qed.
End Running.

(** * continuous functions: sign changes and sign-constancy between zeros *)

Lemma cont_sign_change_zero (g : R -> R) (t : R) :
  continuity g -> sign_change g t -> g t = 0.
Proof.
  intros Hc Hsc. destruct (Req_dec (g t) 0) as [|Hne]; [assumption|exfalso].
  specialize (Hc t). unfold continuity_pt, continue_in, limit1_in, limit_in in Hc.
  simpl in Hc. unfold R_dist, D_x, no_cond in Hc.
  destruct (Hc (Rabs (g t)) (Rabs_pos_lt _ Hne)) as (alp & Halp & Hclose).
  destruct (Hsc alp Halp) as (u & v & Hu & Hv & Hgu & Hgv).
  assert (Hnear : forall w, t - alp < w < t + alp -> Rabs (g w - g t) < Rabs (g t)).
  { intros w Hw. destruct (Req_dec w t) as [->|Hwt].
    - replace (g t - g t) with 0 by ring. rewrite Rabs_R0. apply Rabs_pos_lt. exact Hne.
    - apply Hclose. split; [split; [exact I|intro E; apply Hwt; symmetry; exact E]|].
      apply Rabs_def1; lra. }
  pose proof (Hnear u Hu) as Hu'. pose proof (Hnear v Hv) as Hv'.
  revert Hu' Hv'. unfold Rabs.
  destruct (Rcase_abs (g u - g t)), (Rcase_abs (g v - g t)), (Rcase_abs (g t)); lra.
Qed.

Lemma sign_change_not_zero (g : R -> R) (t : R) : sign_change g t -> not_identically_zero g.
Proof.
  intro H. destruct (H 1 ltac:(lra)) as (u & _ & _ & _ & Hu & _). exists u. lra.
Qed.

(** a continuous function without a zero strictly between [a] and [b] keeps one sign on [a,b] *)
Lemma no_root_sign (g : R -> R) (a b : R) :
  continuity g -> a <= b -> (forall z, a < z < b -> g z <> 0) ->
  (forall u, a <= u <= b -> 0 <= g u) \/ (forall u, a <= u <= b -> g u <= 0).
Proof.
  intros Hc Hab Hnz.
  destruct (Req_dec a b) as [->|Hne].
  { destruct (Rle_dec 0 (g b)); [left|right]; intros u Hu; replace u with b by lra; lra. }
  assert (Hlt : a < b) by lra.
  set (m := (a + b) / 2).
  assert (Hm : a < m < b) by (unfold m; lra).
  pose proof (Hnz m Hm) as Hgm.
  assert (Hroot : forall u, a <= u <= b -> g u * g m < 0 -> False).
  { intros u Hu Hneg.
    assert (Hgu : g u <> 0) by (intro E; rewrite E in Hneg; lra).
    destruct (Rle_dec u m) as [Hum|Hum].
    - destruct (IVT_cor g u m Hc Hum ltac:(lra)) as (z & Hz & Hgz).
      assert (z <> u) by (intro E; subst; contradiction).
      assert (z <> m) by (intro E; subst; contradiction).
      apply (Hnz z); [lra|exact Hgz].
    - destruct (IVT_cor g m u Hc ltac:(lra) ltac:(lra)) as (z & Hz & Hgz).
      assert (z <> u) by (intro E; subst; contradiction).
      assert (z <> m) by (intro E; subst; contradiction).
      apply (Hnz z); [lra|exact Hgz]. }
  destruct (Rlt_dec 0 (g m)) as [Hpos|Hnpos].
  - left. intros u Hu. destruct (Rle_dec 0 (g u)); [assumption|exfalso].
    apply (Hroot u Hu). nra.
  - right. intros u Hu. destruct (Rle_dec (g u) 0); [assumption|exfalso].
    apply (Hroot u Hu). nra.
Qed.

(** * Simpson's rule is exact: a sign-constant derivative gives monotonicity, without analysis *)
Definition simpson (f g : R -> R) : Prop :=
  forall u v, f v - f u = (v - u) * (g u + 4 * g ((u + v) / 2) + g v) / 6.

Lemma simpson_increasing (f g : R -> R) (a b : R) : simpson f g ->
  (forall u, a <= u <= b -> 0 <= g u) ->
  forall u v, a <= u -> u <= v -> v <= b -> f u <= f v.
Proof.
  intros Hs Hg u v Hau Huv Hvb.
  pose proof (Hs u v) as E.
  pose proof (Hg u ltac:(lra)). pose proof (Hg v ltac:(lra)). pose proof (Hg ((u + v) / 2) ltac:(lra)).
  nra.
Qed.

Lemma simpson_decreasing (f g : R -> R) (a b : R) : simpson f g ->
  (forall u, a <= u <= b -> g u <= 0) ->
  forall u v, a <= u -> u <= v -> v <= b -> f v <= f u.
Proof.
  intros Hs Hg u v Hau Huv Hvb.
  pose proof (Hs u v) as E.
  pose proof (Hg u ltac:(lra)). pose proof (Hg v ltac:(lra)). pose proof (Hg ((u + v) / 2) ltac:(lra)).
  nra.
Qed.

(** between two consecutive break points, when the break points include every interior zero of
    [g] (or [g] vanishes identically), [f] is monotone *)
Lemma mono_on_range (f g : R -> R) (l : list R) (a b : R) :
  simpson f g -> continuity g ->
  ((forall u, g u = 0) \/ (forall t, 0 < t < 1 -> g t = 0 -> In t l)) ->
  0 <= a -> a <= b -> b <= 1 -> (forall x, In x l -> x <= a \/ b <= x) ->
  mono_on f a b.
Proof.
  intros Hs Hc Hz H0 Hab H1 Hout.
  assert (Hsign : (forall u, a <= u <= b -> 0 <= g u) \/ (forall u, a <= u <= b -> g u <= 0)).
  { destruct Hz as [Hz|Hz].
    - left. intros u _. rewrite Hz. lra.
    - apply no_root_sign; [exact Hc|exact Hab|].
      intros z Hz' E. destruct (Hout z (Hz z ltac:(lra) E)); lra. }
  destruct Hsign as [Hp|Hn].
  - left. apply (simpson_increasing f g a b Hs Hp).
  - right. apply (simpson_decreasing f g a b Hs Hn).
Qed.

(** a monotone function on [a,b] stays between its end values *)
Lemma mono_on_between (f : R -> R) (a b t : R) : mono_on f a b -> a <= t <= b ->
  Rmin (f a) (f b) <= f t <= Rmax (f a) (f b).
Proof.
  intros [Hm|Hm] Ht.
  - pose proof (Hm a t ltac:(lra) ltac:(lra) ltac:(lra)). pose proof (Hm t b ltac:(lra) ltac:(lra) ltac:(lra)).
    pose proof (Rmin_l (f a) (f b)). pose proof (Rmax_r (f a) (f b)). lra.
  - pose proof (Hm a t ltac:(lra) ltac:(lra) ltac:(lra)). pose proof (Hm t b ltac:(lra) ltac:(lra) ltac:(lra)).
    pose proof (Rmin_r (f a) (f b)). pose proof (Rmax_l (f a) (f b)). lra.
Qed.
