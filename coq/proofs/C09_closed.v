(** C09: the hypotheses of the main theorems discharged from the C15 (cubic solver) and C17
    (cubic-to-quadratics error bound) developments.  Kept in a separate file so that
    C09_proofs.v builds independently of them. *)
From Coq Require Import ZArith QArith Reals List Bool Lra Lia Floats.
From KV Require Import Scalar RInst F64 Geom Curves Solvers ToQuads Nearest NearestSpec RTac.
From KV Require Import C15_proofs C17_proofs C09_proofs.
Import ListNotations.
Local Open Scope R_scope.

(** the solver modelled in Solvers.v is root-complete over the reals (C15) *)
Lemma cubic_solver_complete_holds : cubic_solver_complete_prop.
Proof.
  intros k0 k1 k2 k3 x H3 Hx. apply solve_cubic_exact; assumption.
Qed.

Lemma quad_nearest_min_closed (q : QuadBez R) (p : Point R) :
  quad_d1 q <> mkVec2 0 0 -> quad_nearest_spec q p (quad_nearest q p).
Proof. apply quad_nearest_min. exact cubic_solver_complete_holds. Qed.

(** this file's model of [to_quads] is the C17 model *)
Lemma nr_quads_piece_eq (c : CubicBez R) n i : nr_quads_piece c n i = to_quads_piece c n i.
Proof. reflexivity. Qed.
Lemma nr_quads_count_eq (c : CubicBez R) a : nr_quads_count c a = to_quads_count c a.
Proof. reflexivity. Qed.

(** [CubicBez::nearest] with the piece count the code computes, for a positive accuracy, when no
    quadratic piece is degree-degenerate *)
Lemma cubic_nearest_closed (c : CubicBez R) (p : Point R) (a : R) :
  0 < a ->
  (forall i : nat, (i < Z.to_nat (nr_quads_count c a))%nat ->
     quad_d1 (snd (nr_quads_piece c (nr_quads_count c a) (Z.of_nat i))) <> mkVec2 0 0) ->
  exists t d, cubic_nearest c p a = Some (t, d) /\ 0 <= t <= 1 /\
    forall tm dmin, min_on_unit_at (cubic_dist c p) tm dmin ->
      Rabs (R_sqrt.sqrt d - dmin) <= a /\ cubic_dist c p t <= dmin + 2 * a.
Proof.
  intros Ha Hnd. unfold cubic_nearest, cubic_nearest_with.
  set (n := Z.to_nat (nr_quads_count c a)) in *.
  pose proof (to_quads_count_ge_1 c a) as H1. rewrite <- nr_quads_count_eq in H1.
  assert (Hn : (1 <= n)%nat) by (unfold n; lia).
  assert (EN : Z.of_nat n = nr_quads_count c a) by (unfold n; rewrite Z2Nat.id; lia).
  apply (cubic_nearest_vs_minimum c p n a quad_nearest Hn).
  - intros i u Hi Hu.
    pose proof (to_quads_within_accuracy_n c a n i u Hi (Rlt_le _ _ Ha)) as W.
    rewrite <- nr_quads_piece_eq in W.
    destruct (nr_quads_piece c (Z.of_nat n) (Z.of_nat i)) as [[t0 t1] q] eqn:E. cbn [fst snd].
    apply W; [|exact Hu].
    rewrite INR_IZR_INZ, EN, nr_quads_count_eq. apply to_quads_count_enough. exact Ha.
  - intros i Hi. apply quad_nearest_min_closed. rewrite EN. apply Hnd. exact Hi.
Qed.

(** the solver with the branches the float code takes on a vanishing leading coefficient is
    root-complete for every polynomial that is not identically zero (C15) *)
Lemma solve_cubic_ext_complete : solver_root_complete solve_cubic_ext.
Proof.
  intros k0 k1 k2 k3 x Hnz Hx. unfold solve_cubic_ext.
  destruct (Reqb_spec k3 0) as [E3|N3].
  - destruct (Reqb_spec k2 0) as [E2|N2].
    + destruct (Reqb_spec k1 0) as [E1|N1].
      * subst. exfalso. apply Hnz. f_equal. f_equal. f_equal. lra.
      * destruct (quad_linear_real k0 k1 N1) as [-> _]. left. subst. 
        apply Rmult_eq_reg_l with k1; [|exact N1]. field_simplify; [|exact N1]. lra.
    + destruct (solve_quadratic_spec_main k0 k1 k2 N2) as [Hin _]. apply Hin. subst. lra.
  - apply solve_cubic_exact; assumption.
Qed.

(** on a genuine cubic it is [solve_cubic] *)
Lemma solve_cubic_ext_cubic k0 k1 k2 k3 : k3 <> 0 -> solve_cubic_ext k0 k1 k2 k3 = solve_cubic k0 k1 k2 k3.
Proof. intros H. unfold solve_cubic_ext. destruct (Reqb_spec k3 0); [contradiction | reflexivity]. Qed.

(** * Concrete instances (non-vacuity; binary64 runs by [vm_compute]) *)

Lemma ex_line_interior :
  line_nearest (mkLine (mkPoint 0 0) (mkPoint 4 0)) (mkPoint 1 3) = (/ 4, 9).
Proof.
  unfold line_nearest. nr_unfold.
  destruct (Rleb_spec ((4 - 0) * (1 - 0) + (0 - 0) * (3 - 0)) 0) as [H|H]; [lra|].
  destruct (Rleb_spec ((4 - 0) * (4 - 0) + (0 - 0) * (0 - 0)) ((4 - 0) * (1 - 0) + (0 - 0) * (3 - 0))) as [H2|H2]; [lra|].
  f_equal; field.
Qed.

Lemma ex_line_zero_length :
  line_nearest (mkLine (mkPoint 1 1) (mkPoint 1 1)) (mkPoint 4 5) = (0, 25).
Proof.
  unfold line_nearest. nr_unfold.
  destruct (Rleb_spec ((1 - 1) * (4 - 1) + (1 - 1) * (5 - 1)) 0) as [H|H]; [|lra].
  f_equal; ring.
Qed.

Lemma ex_quad_nondegenerate :
  quad_d1 (mkQuad (mkPoint 0 0) (mkPoint 1 1) (mkPoint 2 0)) <> mkVec2 0 0.
Proof. nr_unfold. intros H. injection H as _ H. lra. Qed.

Lemma ex_quad_degenerate :
  quad_d1 (mkQuad (mkPoint 0 0) (mkPoint 1 0) (mkPoint 2 0)) = mkVec2 0 0 /\
  quad_nearest_from_roots (mkQuad (mkPoint 0 0) (mkPoint 1 0) (mkPoint 2 0)) (mkPoint (/ 2) 1)
    (quad_linear (- (/ 2)) 2) = Some (/ 4, 1).
Proof.
  split; [nr_unfold; f_equal; ring|].
  assert (E : quad_linear (- (/ 2)) 2 = [/ 4]) by (unfold quad_linear; rs_unfold; f_equal; field).
  rewrite E. unfold quad_nearest_from_roots. cbn [nr_try_roots]. unfold nr_try_t.
  change ((f0 <=? / 4)%S && (/ 4 <=? f1)%S) with (in_unit (/ 4)).
  replace (in_unit (/ 4)) with true by (symmetry; apply in_unit_true; lra).
  cbn [negb orb fst snd nr_eval_t nr_init]. f_equal. f_equal. nr_unfold. field.
Qed.

Lemma ex_float_degenerate_path :
  (let q : QuadBez float := mkQuad (mkPoint 0 0) (mkPoint 1 0) (mkPoint 2 0) in
  let p : Point float := mkPoint 0.5 1 in
  let '(k0, k1, k2, k3) := quad_nearest_coeffs q p in
  ((fis_finite (k0 * (f1 / k3)) && fis_finite (k1 * (sv_third * (f1 / k3)))
     && fis_finite (k2 * (sv_third * (f1 / k3))))%S = false /\
   (negb (fis_finite (k0 * (f1 / k2))) || negb (fis_finite (k1 * (f1 / k2))))%S = true /\
   quad_nearest q p = Some (0.25, 1)))%float.
Proof. vm_compute. repeat split. Qed.

Lemma straight_cubic_float_witness :
  (let c : CubicBez float := mkCubic (mkPoint (-0x1.f3bd484ac151cp+2) (-0x1.2c4e8bd5f85cfp+2))
                   (mkPoint (-0x1.5140dcfd75c1ep+1) (-0x1.c7a716924319p-1))
                   (mkPoint 0x1.44f8d69a971fcp+1 0x1.74c98c62cf2d6p+1)
                   (mkPoint 0x1.ed9945195200cp+2 0x1.adbe6f3517908p+2) in
  let p : Point float := mkPoint (-0x1.4ec9d20f2b6d6p+3) 0x1.d06d3e399529p+1 in
  exists t d, cubic_nearest c p 0x1.0624dd2f1a9fcp-10 = Some (t, d) /\
     PrimFloat.ltb (pt_distance_squared (cubic_eval c 0x1.289006a786ae3p-3) p + 7) d = true)%float.
Proof.
  cbv zeta.
  eexists. eexists. split; [vm_compute; reflexivity | vm_compute; reflexivity].
Qed.

Lemma solve_quadratic_ext_complete : quad_solver_root_complete solve_quadratic_ext.
Proof.
  intros k0 k1 k2 x Hnz Hx. unfold solve_quadratic_ext.
  destruct (Reqb_spec k2 0) as [E2|N2].
  - destruct (Reqb_spec k1 0) as [E1|N1].
    + subst. exfalso. apply Hnz. f_equal. f_equal. lra.
    + destruct (quad_linear_real k0 k1 N1) as [-> _]. left. subst.
      apply Rmult_eq_reg_l with k1; [|exact N1]. field_simplify; [|exact N1]. lra.
  - destruct (solve_quadratic_spec_main k0 k1 k2 N2) as [Hin _]. apply Hin. exact Hx.
Qed.

(** [CubicBez::nearest] over the repaired [QuadBez::nearest], complete solvers, C17 bound *)
Lemma cubic_nearest_repaired_min (scubic : R -> R -> R -> R -> list R) (squad : R -> R -> R -> list R) :
  solver_root_complete scubic -> quad_solver_root_complete squad ->
  forall (c : CubicBez R) (p : Point R) (n : nat) (a : R),
  (1 <= n)%nat ->
  (forall (i : nat) (u : R), (i < n)%nat -> 0 <= u <= 1 ->
     let '(t0, t1, q) := nr_quads_piece c (Z.of_nat n) (Z.of_nat i) in
     pt_distance (cubic_eval c (t0 + u * (t1 - t0))) (quad_eval q u) <= a) ->
  (forall i : nat, (i < n)%nat ->
     let q := snd (nr_quads_piece c (Z.of_nat n) (Z.of_nat i)) in
     quad_d1 q = mkVec2 0 0 \/ Q2R (1 # 2 ^ 104) * v_hypot2 (pt_sub (q1 q) (q0 q)) < v_hypot2 (quad_d1 q)) ->
  exists t d, cubic_nearest_n_with (quad_nearest_repaired_with scubic squad) c p n = Some (t, d) /\ 0 <= t <= 1 /\
    forall tm dmin, min_on_unit_at (cubic_dist c p) tm dmin ->
      Rabs (R_sqrt.sqrt d - dmin) <= a /\ cubic_dist c p t <= dmin + 2 * a.
Proof.
  intros Hc Hq c p n a Hn Hb Hband.
  apply (cubic_nearest_vs_minimum c p n a (quad_nearest_repaired_with scubic squad) Hn).
  - intros i u Hi Hu. specialize (Hb i u Hi Hu).
    destruct (nr_quads_piece c (Z.of_nat n) (Z.of_nat i)) as [[t0 t1] q]. exact Hb.
  - intros i Hi. apply quad_nearest_repaired_min; [exact Hc | exact Hq | exact (Hband i Hi)].
Qed.

Lemma straight_cubic_float_repaired :
  (let c : CubicBez float := mkCubic (mkPoint (-0x1.f3bd484ac151cp+2) (-0x1.2c4e8bd5f85cfp+2))
                   (mkPoint (-0x1.5140dcfd75c1ep+1) (-0x1.c7a716924319p-1))
                   (mkPoint 0x1.44f8d69a971fcp+1 0x1.74c98c62cf2d6p+1)
                   (mkPoint 0x1.ed9945195200cp+2 0x1.adbe6f3517908p+2) in
  let p : Point float := mkPoint (-0x1.4ec9d20f2b6d6p+3) 0x1.d06d3e399529p+1 in
  exists t d, cubic_nearest_repaired c p 0x1.0624dd2f1a9fcp-10 = Some (t, d) /\
     PrimFloat.ltb (abs (t - 0x1.289006a786ae3p-3)) 0x1p-20 = true /\
     PrimFloat.ltb d (pt_distance_squared (cubic_eval c 0x1.289006a786ae3p-3) p + 0x1p-20) = true)%float.
Proof.
  cbv zeta.
  eexists. eexists. split; [vm_compute; reflexivity | split; vm_compute; reflexivity].
Qed.
