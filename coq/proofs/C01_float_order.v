(** C01: the finite binary64 numbers with PrimFloat's comparisons and Rust's min/max are an order embedded in
    the reals, so the telescoping theorem of C01_order.v holds for the binary64 run of the model. *)
From Coq Require Import ZArith Reals List Bool Floats Lra.
From Flocq Require Import Core.Raux IEEE754.BinarySingleNaN IEEE754.PrimFloat.
From KV Require Import Scalar RInst F64 Geom Curves Path Solvers Winding WindingSpec C01_proofs C01_order.
Import ListNotations.

Definition fin (x : float) : Prop := F.is_finite x = true.
Definition fval (x : float) : R := B2R (Prim2B x).

Lemma fin_finite (x : float) : fin x -> BinarySingleNaN.is_finite (Prim2B x) = true.
Proof. unfold fin. intro H. rewrite <- is_finite_equiv. exact H. Qed.

Lemma Rlt_bool_Rltb (a b : R) : Rlt_bool a b = Rltb a b.
Proof. destruct (Rlt_bool_spec a b), (Rltb_spec a b); try reflexivity; lra. Qed.
Lemma Rle_bool_Rleb (a b : R) : Rle_bool a b = Rleb a b.
Proof. destruct (Rle_bool_spec a b), (Rleb_spec a b); try reflexivity; lra. Qed.

Lemma f_ltb_val (x y : float) : fin x -> fin y -> fltb x y = Rltb (fval x) (fval y).
Proof.
  intros Hx Hy. change (fltb x y) with (PrimFloat.ltb x y).
  rewrite ltb_equiv, Bltb_correct by (apply fin_finite; assumption). apply Rlt_bool_Rltb.
Qed.
Lemma f_leb_val (x y : float) : fin x -> fin y -> fleb x y = Rleb (fval x) (fval y).
Proof.
  intros Hx Hy. change (fleb x y) with (PrimFloat.leb x y).
  rewrite leb_equiv, Bleb_correct by (apply fin_finite; assumption). apply Rle_bool_Rleb.
Qed.

Lemma fin_not_nan (x : float) : fin x -> PrimFloat.is_nan x = false.
Proof.
  unfold fin, F.is_finite. intro H. apply negb_true_iff, orb_false_iff in H. apply H.
Qed.

Lemma f_max_val (x y : float) : fin x -> fin y -> fin (fmax x y) /\ fval (fmax x y) = Rmax (fval x) (fval y).
Proof.
  intros Hx Hy. change (fmax x y) with (F.max x y). unfold F.max.
  rewrite (fin_not_nan x Hx), (fin_not_nan y Hy).
  pose proof (f_ltb_val x y Hx Hy) as L. change (fltb x y) with (PrimFloat.ltb x y) in L. rewrite L.
  destruct (Rltb_spec (fval x) (fval y)); (split; [assumption|]); unfold Rmax;
    destruct (Rle_dec (fval x) (fval y)); lra.
Qed.
Lemma f_min_val (x y : float) : fin x -> fin y -> fin (fmin x y) /\ fval (fmin x y) = Rmin (fval x) (fval y).
Proof.
  intros Hx Hy. change (fmin x y) with (F.min x y). unfold F.min.
  rewrite (fin_not_nan x Hx), (fin_not_nan y Hy).
  pose proof (f_ltb_val y x Hy Hx) as L. change (fltb y x) with (PrimFloat.ltb y x) in L. rewrite L.
  destruct (Rltb_spec (fval y) (fval x)); (split; [assumption|]); unfold Rmin;
    destruct (Rle_dec (fval x) (fval y)); lra.
Qed.

(** binary64: every closed chain of pieces (lines, quadratics, cubics, monotone or not) whose consecutive end
    points are the same binary64 values sums to 0 about any finite point p with every control abscissa <= p.x,
    whatever the row of p. Only comparisons are evaluated on this path through the code: no rounding. *)
Lemma closed_chain_outside_zero_f64 (fx : bool) (ps : list (PathSeg float)) (p : Point float) :
  fin (px p) -> fin (py p) -> closed_chain ps ->
  (forall s c, In s ps -> In c (seg_ctrl_g s) ->
     fin (px c) /\ fin (py c) /\ PrimFloat.leb (px c) (px p) = true) ->
  sum_Z (map (fun s => winding_inner_gen fx s p) ps) = 0%Z.
Proof.
  intros Hx Hy Hc Hr.
  apply (closed_chain_outside_zero_order fin fval f_ltb_val f_leb_val f_max_val f_min_val fx ps p).
  - split; assumption.
  - exact Hc.
  - intros s c Hs Hcc. destruct (Hr s c Hs Hcc) as (Fx & Fy & L). split; [split; assumption|].
    pose proof (f_leb_val (px c) (px p) Fx Hx) as E. change (fleb (px c) (px p)) with (PrimFloat.leb (px c) (px p)) in E.
    rewrite L in E. symmetry in E. apply Rleb_true in E. exact E.
Qed.

Lemma Req_bool_Reqb (a b : R) : Req_bool a b = Reqb a b.
Proof. destruct (Req_bool_spec a b), (Reqb_spec a b); try reflexivity; contradiction. Qed.

Lemma f_eqb_val (x y : float) : fin x -> fin y -> feqb x y = Reqb (fval x) (fval y).
Proof.
  intros Hx Hy. change (feqb x y) with (PrimFloat.eqb x y).
  rewrite eqb_equiv, Beqb_correct by (apply fin_finite; assumption). apply Req_bool_Reqb.
Qed.

(** binary64: for every closed polygon [MoveTo v0; LineTo v1; ...; LineTo vn; ClosePath] with finite coordinates
    and every finite p with every vertex abscissa <= p.x, the binary64 run of the (required) model returns
    winding 0 and "not contained" — whatever the row of p. *)
Lemma polygon_outside_right_zero_f64 (v0 : Point float) (vs : list (Point float)) (p : Point float) :
  fin (px p) -> fin (py p) ->
  (forall v, In v (v0 :: vs) -> fin (px v) /\ fin (py v) /\ PrimFloat.leb (px v) (px p) = true) ->
  path_winding (polygon_els_g v0 vs) p = Some 0%Z /\ path_contains (polygon_els_g v0 vs) p = Some false.
Proof.
  intros Hx Hy Hv.
  assert (W : path_winding (polygon_els_g v0 vs) p = Some 0%Z).
  { apply (polygon_outside_right_zero_order fin fval f_ltb_val f_leb_val f_max_val f_min_val f_eqb_val v0 vs p).
    - split; assumption.
    - intros v Hin. destruct (Hv v Hin) as (Fx & Fy & L). split; [split; assumption|].
      pose proof (f_leb_val (px v) (px p) Fx Hx) as E. change (fleb (px v) (px p)) with (PrimFloat.leb (px v) (px p)) in E.
      rewrite L in E. symmetry in E. apply Rleb_true in E. exact E. }
  split; [exact W|]. unfold path_contains, path_contains_gen. fold (path_winding (polygon_els_g v0 vs) p).
  rewrite W. reflexivity.
Qed.
