(** C05 — flattening. Part 1: structure of the output, for every scalar type (so also for
    binary64 itself), by induction over the element list. Part 2 (real instance): the parabola
    integral approximations are strictly increasing, the subdivision parameters stay in [0,1] and
    advance, the cubic loop never runs away, uniform scaling. *)
From Coq Require Import ZArith QArith Reals List Bool Lra Lia Sorted Psatz.
From Flocq Require Import Core.Raux.
From KV Require Import Scalar RInst Geom Curves Path Flatten FlattenSpec RTac.
Import ListNotations.

(* ================================================================== *)
(** * Part 1: structure, generic in the scalar *)
Section Structure.
Context {T : Type} `{Scalar T}.

Lemma forallb_flat_map_lineto (l : list (Point T)) : forallb is_flat_el (map (@LineTo T) l) = true.
Proof. induction l; simpl; auto. Qed.

Lemma fl_step_kinds keep tol s st e st' out :
  fl_step keep tol s st e = Some (st', out) -> forallb is_flat_el out = true.
Proof.
  destruct st as [start last]; destruct e; simpl; intros E.
  - inversion E; reflexivity.
  - inversion E; reflexivity.
  - destruct last; inversion E; subst; auto using forallb_flat_map_lineto.
  - destruct last; [destruct (flatten_cubic_pts _ _ _)|]; inversion E; subst; auto using forallb_flat_map_lineto.
  - inversion E; reflexivity.
Qed.

Lemma flatten_from_kinds keep tol s els : forall st out,
  flatten_from keep tol s st els = Some out -> forallb is_flat_el out = true.
Proof.
  induction els as [|e r IH]; simpl; intros st out E.
  - inversion E; reflexivity.
  - destruct (fl_step keep tol s st e) as [[st' o]|] eqn:Es; [|discriminate].
    destruct (flatten_from keep tol s st' r) as [rest|] eqn:Er; [|discriminate].
    inversion E; subst. rewrite forallb_app.
    erewrite fl_step_kinds by eauto. erewrite IH by eauto. reflexivity.
Qed.

(** only MoveTo / LineTo / ClosePath are emitted — pinned code and required behaviour alike *)
Lemma flatten_gen_kinds keep tol els out :
  flatten_gen keep tol els = Some out -> forallb is_flat_el out = true.
Proof. apply flatten_from_kinds. Qed.

(** with the current point kept after ClosePath, the state of [flatten] is the path's current point *)
Lemma fl_step_state tol s st e st' out :
  fl_step true tol s st e = Some (st', out) -> st' = cur_step st e.
Proof.
  destruct st as [start last]; destruct e; simpl; intros E.
  - inversion E; reflexivity.
  - inversion E; reflexivity.
  - destruct last; inversion E; reflexivity.
  - destruct last; [destruct (flatten_cubic_pts _ _ _)|]; inversion E; reflexivity.
  - inversion E; reflexivity.
Qed.

Definition has_cur (st : option (Point T) * option (Point T)) : Prop :=
  (exists a, fst st = Some a) /\ (exists b, snd st = Some b).

Lemma has_cur_step st e : has_cur st -> has_cur (cur_step st e).
Proof.
  intros [[a Ha] [b Hb]]; destruct st as [s l]; simpl in *; subst.
  destruct e; simpl; split; eexists; reflexivity.
Qed.

Lemma fl_step_run tol s st e st' out :
  has_cur st -> fl_step true tol s st e = Some (st', out) -> run_for tol s (snd st) e out.
Proof.
  intros [[a Ha] [b Hb]]; destruct st as [start last]; simpl in *; subst.
  destruct e; simpl; intros E.
  - inversion E; reflexivity.
  - inversion E; reflexivity.
  - inversion E; subst. exists b; split; reflexivity.
  - destruct (flatten_cubic_pts _ _ _) as [pts|] eqn:Ec; inversion E; subst.
    exists b, pts; repeat split; auto.
  - inversion E; reflexivity.
Qed.

Lemma flatten_from_runs tol s els : forall st out,
  has_cur st -> flatten_from true tol s st els = Some out ->
  exists runs, out = concat runs /\
    Forall2 (fun ce run => run_for tol s (fst ce) (snd ce) run) (combine (cur_trace st els) els) runs.
Proof.
  induction els as [|e r IH]; simpl; intros st out Hc E.
  - inversion E. exists []; split; [reflexivity|constructor].
  - destruct (fl_step true tol s st e) as [[st' o]|] eqn:Es; [|discriminate].
    destruct (flatten_from true tol s st' r) as [rest|] eqn:Er; [|discriminate].
    inversion E; subst out.
    pose proof (fl_step_state _ _ _ _ _ _ Es) as ->.
    destruct (IH _ _ (has_cur_step _ e Hc) Er) as [runs [-> HF]].
    exists (o :: runs); split; [reflexivity|].
    constructor; [|exact HF]. simpl. eapply fl_step_run; eauto.
Qed.

(** [flatten_runs]: for every path that begins with MoveTo, the output is the concatenation, in
    input order, of one run per input element *)
Lemma flatten_runs_gen tol p0 els out :
  flatten tol (MoveTo p0 :: els) = Some out ->
  runs_of tol (fsqrt tol) (MoveTo p0 :: els) out.
Proof.
  unfold flatten, flatten_gen, runs_of. cbn [flatten_from fl_step].
  destruct (flatten_from true tol (fsqrt tol) (Some p0, Some p0) els) as [rest|] eqn:Er; [|discriminate].
  intros E; inversion E; subst out.
  destruct (flatten_from_runs tol (fsqrt tol) els (Some p0, Some p0) rest) as [runs [-> HF]]; auto.
  { split; simpl; eauto. }
  exists ([MoveTo p0] :: runs); split; [reflexivity|].
  cbn [cur_trace combine cur_step fst snd]. constructor; [reflexivity|exact HF].
Qed.

Lemma run_for_shape tol s cur (e : PathEl T) run : run_for tol s cur e run -> run_shape e run.
Proof.
  destruct e; simpl; auto.
  - intros [p0 [_ ->]]; eauto.
  - intros [p0 [pts [_ [_ ->]]]]; eauto.
Qed.

Lemma run_shape_nonempty (e : PathEl T) run : run_shape e run -> (1 <= length run)%nat.
Proof.
  destruct e; simpl.
  1,2: intros ->; simpl; lia.
  1,2: intros [pts ->]; rewrite map_length, app_length; simpl; lia.
  intros ->; simpl; lia.
Qed.

(** the shape of the runs, without reference to the numeric functions *)
Lemma flatten_runs_shape tol p0 els out :
  flatten tol (MoveTo p0 :: els) = Some out ->
  exists runs, out = concat runs /\ Forall2 run_shape (MoveTo p0 :: els) runs.
Proof.
  intros E. destruct (flatten_runs_gen _ _ _ _ E) as [runs [-> HF]].
  exists runs; split; auto.
  remember (MoveTo p0 :: els) as l. clear Heql E.
  generalize dependent (@None (Point T), @None (Point T)).
  revert runs; induction l as [|e r IH]; intros runs st HF; simpl in HF.
  - inversion HF; constructor.
  - inversion HF; subst. constructor; eauto using run_for_shape.
Qed.

(** the pinned code on the witness of DESIGN section 5, finding 11 — for every scalar type *)
Lemma flatten_pinned_witness (tol : T) a b c d e :
  flatten_pinned tol [MoveTo a; LineTo b; @ClosePath T; QuadTo c d; LineTo e]
  = Some [MoveTo a; LineTo b; @ClosePath T; LineTo e].
Proof. reflexivity. Qed.

Lemma concat_length_ge (runs : list (list (PathEl T))) (els : list (PathEl T)) :
  Forall2 run_shape els runs -> (length els <= length (concat runs))%nat.
Proof.
  induction 1; simpl; auto. rewrite app_length.
  pose proof (run_shape_nonempty _ _ H0). lia.
Qed.

Lemma flatten_pinned_not_runs (a b c d e : Point T) :
  ~ exists runs, [MoveTo a; LineTo b; @ClosePath T; LineTo e] = concat runs /\
                 Forall2 run_shape [MoveTo a; LineTo b; @ClosePath T; QuadTo c d; LineTo e] runs.
Proof.
  intros [runs [E HF]]. apply concat_length_ge in HF. rewrite <- E in HF. simpl in HF. lia.
Qed.

(** the pinned code and the required behaviour differ only on a curve directly after ClosePath *)
Lemma flatten_from_pinned_agrees tol s els : forall start last after,
  no_curve_after_close after els = true ->
  flatten_from false tol s (start, if after then None else last) els
  = flatten_from true tol s (start, if after then start else last) els.
Proof.
  induction els as [|e r IH]; intros start last after Hok; [reflexivity|].
  destruct e; cbn [no_curve_after_close] in Hok; cbn [flatten_from fl_step].
  - rewrite (IH (Some p) (Some p) false Hok). reflexivity.
  - rewrite (IH start (Some p) false Hok). reflexivity.
  - apply andb_true_iff in Hok. destruct Hok as [Ha Hok]. destruct after; [discriminate|].
    destruct last; rewrite (IH start (Some p2) false Hok); reflexivity.
  - apply andb_true_iff in Hok. destruct Hok as [Ha Hok]. destruct after; [discriminate|].
    destruct last; [destruct (flatten_cubic_pts _ _ _)|]; try reflexivity;
      rewrite (IH start (Some p3) false Hok); reflexivity.
  - rewrite (IH start last true Hok). reflexivity.
Qed.

Lemma flatten_pinned_agrees tol els :
  no_curve_after_close false els = true -> flatten_pinned tol els = flatten tol els.
Proof. intros Hok. exact (flatten_from_pinned_agrees tol (fsqrt tol) els None None false Hok). Qed.

End Structure.

(* ================================================================== *)
(** * Part 2: the real instance *)
Local Open Scope R_scope.

(** ** closed forms of the two approximations over R *)
Definition dD4 : R := 20151121 / 100000000.      (* 0.67^4 *)
Definition dB2 : R := 1521 / 10000.              (* 0.39^2 *)
Definition hh (x : R) : R := sqrt (sqrt (dD4 + x * x / 4)).
Definition kk (x : R) : R := sqrt (dB2 + x * x / 4).
Definition api (x : R) : R := x / (33 / 100 + hh x).
Definition apinv (x : R) : R := x * (61 / 100 + kk x).

Lemma api_eq x : approx_parabola_integral (H := RS) x = api x.
Proof.
  unfold approx_parabola_integral, lit_D, lit_D4, lit_quarter, api, hh, dD4.
  rs_unfold. cbv [Q2R Qnum Qden].
  f_equal. f_equal; [lra|]. f_equal. f_equal. field.
Qed.

Lemma apinv_eq x : approx_parabola_inv_integral (H := RS) x = apinv x.
Proof.
  unfold approx_parabola_inv_integral, lit_B, lit_quarter, apinv, kk, dB2.
  rs_unfold. cbv [Q2R Qnum Qden].
  f_equal. f_equal; [lra|]. f_equal. field.
Qed.

Lemma hh_pos x : 0 < hh x.
Proof.
  unfold hh, dD4. apply sqrt_lt_R0, sqrt_lt_R0. nra.
Qed.

Lemma kk_pos x : 0 < kk x.
Proof. unfold kk, dB2. apply sqrt_lt_R0. nra. Qed.

Lemma hh_even x : hh (- x) = hh x.
Proof. unfold hh. replace (- x * - x) with (x * x) by ring. reflexivity. Qed.
Lemma kk_even x : kk (- x) = kk x.
Proof. unfold kk. replace (- x * - x) with (x * x) by ring. reflexivity. Qed.

Lemma api_odd x : api (- x) = - api x.
Proof. unfold api. rewrite hh_even. pose proof (hh_pos x). field. lra. Qed.
Lemma apinv_odd x : apinv (- x) = - apinv x.
Proof. unfold apinv. rewrite kk_even. ring. Qed.

Lemma api_0 : api 0 = 0.
Proof. unfold api. unfold Rdiv. ring. Qed.
Lemma apinv_0 : apinv 0 = 0.
Proof. unfold apinv. ring. Qed.

Lemma scale_root4 a A : 0 <= a -> 0 <= A -> a * sqrt (sqrt A) = sqrt (sqrt (a ^ 4 * A)).
Proof.
  intros Ha HA.
  replace (a ^ 4) with ((a * a) * (a * a)) by ring.
  rewrite sqrt_mult by nra. rewrite sqrt_square by nra.
  rewrite sqrt_mult; [|nra|apply sqrt_pos]. rewrite sqrt_square by lra. reflexivity.
Qed.

Lemma hh_key x y : 0 < x < y -> x * hh y < y * hh x.
Proof.
  intros [Hx Hxy]. unfold hh, dD4.
  rewrite !scale_root4 by nra.
  apply sqrt_lt_1_alt. split; [apply sqrt_pos|].
  apply sqrt_lt_1_alt. split; [nra|].
  assert (0 < y - x) by lra. assert (0 < x * y) by nra.
  assert (Hs : x * x < y * y) by nra.
  assert (x ^ 4 < y ^ 4).
  { replace (x ^ 4) with ((x * x) * (x * x)) by ring. replace (y ^ 4) with ((y * y) * (y * y)) by ring. nra. }
  assert (E : y ^ 4 * (x * x / 4) - x ^ 4 * (y * y / 4) = x * x * (y * y) * (y * y - x * x) / 4) by field.
  assert (0 < x * x * (y * y) * (y * y - x * x)) by (apply Rmult_lt_0_compat; nra).
  nra.
Qed.

Lemma api_incr_pos x y : 0 <= x < y -> api x < api y.
Proof.
  intros [Hx Hxy]. unfold api.
  pose proof (hh_pos x) as Px. pose proof (hh_pos y) as Py.
  assert (K : x * (33 / 100 + hh y) < y * (33 / 100 + hh x)).
  { destruct Hx as [Hx|<-]; [pose proof (hh_key x y (conj Hx Hxy)); nra | nra]. }
  apply (Rmult_lt_reg_r ((33 / 100 + hh x) * (33 / 100 + hh y))); [nra|].
  replace (x / (33 / 100 + hh x) * ((33 / 100 + hh x) * (33 / 100 + hh y))) with (x * (33 / 100 + hh y)) by (field; lra).
  replace (y / (33 / 100 + hh y) * ((33 / 100 + hh x) * (33 / 100 + hh y))) with (y * (33 / 100 + hh x)) by (field; lra).
  exact K.
Qed.

Lemma api_sign_pos x : 0 < x -> 0 < api x.
Proof. intros. rewrite <- api_0. apply api_incr_pos; lra. Qed.

(** [approx_parabola_integral] is strictly increasing on R *)
Lemma api_incr x y : x < y -> api x < api y.
Proof.
  intros Hxy. destruct (Rle_lt_dec 0 x) as [Hx|Hx].
  - apply api_incr_pos; lra.
  - destruct (Rle_lt_dec y 0) as [Hy|Hy].
    + assert (api (- y) < api (- x)) by (apply api_incr_pos; lra).
      rewrite !api_odd in H. lra.
    + pose proof (api_sign_pos y Hy). assert (0 < api (- x)) by (apply api_sign_pos; lra).
      rewrite api_odd in H0. lra.
Qed.

Lemma kk_mono x y : 0 <= x <= y -> kk x <= kk y.
Proof. intros. unfold kk, dB2. apply sqrt_le_1_alt. nra. Qed.

Lemma apinv_incr_pos x y : 0 <= x < y -> apinv x < apinv y.
Proof.
  intros [Hx Hxy]. unfold apinv.
  pose proof (kk_pos x). pose proof (kk_mono x y ltac:(lra)). nra.
Qed.

(** [approx_parabola_inv_integral] is strictly increasing on R *)
Lemma apinv_incr x y : x < y -> apinv x < apinv y.
Proof.
  intros Hxy. destruct (Rle_lt_dec 0 x) as [Hx|Hx].
  - apply apinv_incr_pos; lra.
  - destruct (Rle_lt_dec y 0) as [Hy|Hy].
    + assert (apinv (- y) < apinv (- x)) by (apply apinv_incr_pos; lra).
      rewrite !apinv_odd in H. lra.
    + assert (apinv 0 < apinv y) by (apply apinv_incr_pos; lra).
      assert (apinv 0 < apinv (- x)) by (apply apinv_incr_pos; lra).
      rewrite apinv_odd in H0. rewrite apinv_0 in *. lra.
Qed.

Lemma api_inj x y : api x = api y -> x = y.
Proof.
  intros E. destruct (Rtotal_order x y) as [L|[L|L]]; auto; apply api_incr in L; lra.
Qed.
Lemma apinv_inj x y : apinv x = apinv y -> x = y.
Proof.
  intros E. destruct (Rtotal_order x y) as [L|[L|L]]; auto; apply apinv_incr in L; lra.
Qed.

(** ** [determine_subdiv_t] over R *)
Definition det_t (p : FlattenParams R) (x : R) : R :=
  (apinv (fp_a0 p + (fp_a2 p - fp_a0 p) * x) - fp_u0 p) * fp_uscale p.

Lemma det_t_eq p x : determine_subdiv_t (H := RS) p x = det_t p x.
Proof. unfold determine_subdiv_t, det_t. rewrite apinv_eq. reflexivity. Qed.

(** the facts about the parameters that the monotonicity needs ("uscale / val facts") *)
Definition params_ok (p : FlattenParams R) : Prop :=
  fp_u0 p = apinv (fp_a0 p) /\
  fp_uscale p = 1 / (apinv (fp_a2 p) - apinv (fp_a0 p)) /\
  fp_a0 p <> fp_a2 p.

Lemma det_t_0 p : params_ok p -> det_t p 0 = 0.
Proof. intros [E0 _]. unfold det_t. rewrite E0. replace (fp_a0 p + (fp_a2 p - fp_a0 p) * 0) with (fp_a0 p) by ring. ring. Qed.

Lemma det_t_1 p : params_ok p -> det_t p 1 = 1.
Proof.
  intros [E0 [Es Hne]]. unfold det_t. rewrite E0, Es.
  replace (fp_a0 p + (fp_a2 p - fp_a0 p) * 1) with (fp_a2 p) by ring.
  assert (apinv (fp_a2 p) - apinv (fp_a0 p) <> 0).
  { intros E. apply Hne. symmetry. apply apinv_inj. lra. }
  field. exact H.
Qed.

Lemma det_t_incr p x y : params_ok p -> x < y -> det_t p x < det_t p y.
Proof.
  intros [E0 [Es Hne]] Hxy. unfold det_t. rewrite Es.
  set (a0 := fp_a0 p) in *. set (a2 := fp_a2 p) in *.
  destruct (Rtotal_order a0 a2) as [L|[L|L]]; [|contradiction|].
  - pose proof (apinv_incr _ _ L) as Hu.
    assert (Ha : a0 + (a2 - a0) * x < a0 + (a2 - a0) * y) by nra.
    pose proof (apinv_incr _ _ Ha) as Hv.
    assert (0 < 1 / (apinv a2 - apinv a0)) by (apply Rdiv_lt_0_compat; lra).
    nra.
  - pose proof (apinv_incr _ _ L) as Hu.
    assert (Ha : a0 + (a2 - a0) * y < a0 + (a2 - a0) * x) by nra.
    pose proof (apinv_incr _ _ Ha) as Hv.
    assert (0 < 1 / (apinv a0 - apinv a2)) by (apply Rdiv_lt_0_compat; lra).
    assert (1 / (apinv a2 - apinv a0) = - (1 / (apinv a0 - apinv a2))) by (field; lra).
    nra.
Qed.

(** [determine_subdiv_t] maps [0,1] into [0,1], end points to end points *)
Lemma det_t_range p x : params_ok p -> 0 <= x <= 1 -> 0 <= det_t p x <= 1.
Proof.
  intros Hp [H0 H1]. pose proof (det_t_0 p Hp) as E0. pose proof (det_t_1 p Hp) as E1.
  split.
  - destruct H0 as [H0| <-]; [|lra].
    assert (det_t p 0 < det_t p x) by (apply det_t_incr; auto). lra.
  - destruct H1 as [H1| ->]; [|lra].
    assert (det_t p x < det_t p 1) by (apply det_t_incr; auto). lra.
Qed.

Lemma det_t_range_open p x : params_ok p -> 0 < x < 1 -> 0 < det_t p x < 1.
Proof.
  intros Hp [H0 H1]. pose proof (det_t_0 p Hp) as E0. pose proof (det_t_1 p Hp) as E1.
  assert (det_t p 0 < det_t p x) by (apply det_t_incr; auto).
  assert (det_t p x < det_t p 1) by (apply det_t_incr; auto). lra.
Qed.

(** ** [estimate_subdiv] over R *)
Definition q_dd (q : QuadBez R) : Vec2 R := v_sub (pt_sub (q1 q) (q0 q)) (pt_sub (q2 q) (q1 q)).
Definition q_cross (q : QuadBez R) : R := v_cross (pt_sub (q2 q) (q0 q)) (q_dd q).
Definition q_x0 (q : QuadBez R) : R := v_dot (pt_sub (q1 q) (q0 q)) (q_dd q) * (1 / q_cross q).
Definition q_x2 (q : QuadBez R) : R := v_dot (pt_sub (q2 q) (q1 q)) (q_dd q) * (1 / q_cross q).
Definition q_scale (q : QuadBez R) : R := Rabs (q_cross q / (v_hypot (q_dd q) * (q_x2 q - q_x0 q))).
Definition q_val (q : QuadBez R) (s : R) : R :=
  let da := Rabs (api (q_x2 q) - api (q_x0 q)) in
  if Reqb (Rsignum (q_x0 q)) (Rsignum (q_x2 q)) then da * sqrt (q_scale q)
  else s * da / api (s / sqrt (q_scale q)).

Lemma est_eq q s :
  estimate_subdiv (H := RS) q s =
  mkFP (api (q_x0 q)) (api (q_x2 q)) (apinv (api (q_x0 q)))
       (1 / (apinv (api (q_x2 q)) - apinv (api (q_x0 q)))) (q_val q s).
Proof.
  unfold estimate_subdiv. cbv zeta. rewrite !api_eq, !apinv_eq. reflexivity.
Qed.

Lemma q_x_diff q : q_cross q <> 0 -> q_x2 q <> q_x0 q.
Proof.
  destruct q as [[x0 y0] [x1 y1] [x2 y2]].
  unfold q_x2, q_x0, q_cross, q_dd. cbv [v_dot v_cross pt_sub v_sub vx vy px py q0 q1 q2].
  rs_unfold. intros Hc E.
  set (c := (x2 - x0) * (y1 - y0 - (y2 - y1)) - (y2 - y0) * (x1 - x0 - (x2 - x1))) in *.
  assert (E2 : ((x2 - x1) * (x1 - x0 - (x2 - x1)) + (y2 - y1) * (y1 - y0 - (y2 - y1))) * (1 / c) * c
             = ((x1 - x0) * (x1 - x0 - (x2 - x1)) + (y1 - y0) * (y1 - y0 - (y2 - y1))) * (1 / c) * c) by (rewrite E; reflexivity).
  replace (((x2 - x1) * (x1 - x0 - (x2 - x1)) + (y2 - y1) * (y1 - y0 - (y2 - y1))) * (1 / c) * c)
    with ((x2 - x1) * (x1 - x0 - (x2 - x1)) + (y2 - y1) * (y1 - y0 - (y2 - y1))) in E2 by (field; exact Hc).
  replace (((x1 - x0) * (x1 - x0 - (x2 - x1)) + (y1 - y0) * (y1 - y0 - (y2 - y1))) * (1 / c) * c)
    with ((x1 - x0) * (x1 - x0 - (x2 - x1)) + (y1 - y0) * (y1 - y0 - (y2 - y1))) in E2 by (field; exact Hc).
  (* E2: d12.dd = d01.dd, i.e. |dd|^2 = 0, so dd = 0 and cross = 0 *)
  assert (S : Rsqr (x1 - x0 - (x2 - x1)) + Rsqr (y1 - y0 - (y2 - y1)) = 0) by (unfold Rsqr; lra).
  destruct (Rplus_sqr_eq_0 _ _ S) as [Hx Hy].
  apply Hc. unfold c. rewrite Hx, Hy. ring.
Qed.

(** for a quadratic whose control points are not collinear the parameters satisfy [params_ok] *)
Lemma est_params_ok q s : q_cross q <> 0 -> params_ok (estimate_subdiv (H := RS) q s).
Proof.
  intros Hc. rewrite est_eq. unfold params_ok; cbn [fp_a0 fp_a2 fp_u0 fp_uscale].
  repeat split. intros E. apply api_inj in E. apply (q_x_diff q Hc). auto.
Qed.

Lemma div_total_nonneg a b : 0 <= a -> 0 <= b -> 0 <= a / b.
Proof.
  intros Ha [Hb| <-].
  - apply Rmult_le_pos; [auto|left; apply Rinv_0_lt_compat; auto].
  - unfold Rdiv. rewrite Rinv_0. lra.
Qed.

Lemma api_nonneg x : 0 <= x -> 0 <= api x.
Proof. intros [Hx| <-]; [left; apply api_sign_pos; auto | rewrite api_0; lra]. Qed.

Lemma q_val_nonneg q s : 0 <= s -> 0 <= q_val q s.
Proof.
  intros Hs. unfold q_val. cbv zeta.
  destruct (Reqb _ _).
  - apply Rmult_le_pos; [apply Rabs_pos | apply sqrt_pos].
  - apply div_total_nonneg.
    + apply Rmult_le_pos; [auto | apply Rabs_pos].
    + apply api_nonneg. apply div_total_nonneg; [auto | apply sqrt_pos].
Qed.

Lemma q_val_zero q s : api (q_x0 q) = api (q_x2 q) -> q_val q s = 0.
Proof.
  intros E. unfold q_val. cbv zeta. rewrite E. replace (api (q_x2 q) - api (q_x2 q)) with 0 by ring.
  rewrite Rabs_R0. destruct (Reqb _ _); unfold Rdiv; ring.
Qed.

(** a positive [val] implies [params_ok] (used for the pieces of a cubic) *)
Lemma est_val_pos_ok q s : 0 < fp_val (estimate_subdiv (H := RS) q s) -> params_ok (estimate_subdiv (H := RS) q s).
Proof.
  rewrite est_eq. cbn [fp_val]. intros Hv. unfold params_ok; cbn [fp_a0 fp_a2 fp_u0 fp_uscale].
  repeat split. intros E. rewrite (q_val_zero q s E) in Hv. lra.
Qed.

Lemma q_collinear_val q s : q_cross q = 0 -> q_val q s = 0.
Proof.
  intros Hc. apply q_val_zero. unfold q_x0, q_x2. rewrite Hc.
  unfold Rdiv. rewrite Rinv_0. rewrite !Rmult_0_r. reflexivity.
Qed.

(** ** integer ranges *)
Lemma zrange_In lo hi i : In i (zrange lo hi) <-> (lo <= i < hi)%Z.
Proof.
  unfold zrange. rewrite in_map_iff. split.
  - intros [k [<- Hk]]. apply in_seq in Hk. lia.
  - intros Hi. exists (Z.to_nat (i - lo)). split; [lia|]. apply in_seq. lia.
Qed.

Lemma seq_sorted a n : StronglySorted lt (seq a n).
Proof.
  revert a; induction n; intros a; simpl; constructor; auto.
  apply Forall_forall. intros x Hx. apply in_seq in Hx. lia.
Qed.

Lemma sorted_map {A B} (RA : A -> A -> Prop) (RB : B -> B -> Prop) (f : A -> B) l :
  StronglySorted RA l ->
  (forall x y, In x l -> In y l -> RA x y -> RB (f x) (f y)) ->
  StronglySorted RB (map f l).
Proof.
  induction 1 as [|a l Hs IH Hf]; intros Hm; simpl; constructor.
  - apply IH. intros; apply Hm; simpl; auto.
  - apply Forall_forall. intros y Hy. apply in_map_iff in Hy. destruct Hy as [x [<- Hx]].
    apply Hm; simpl; auto. rewrite Forall_forall in Hf. auto.
Qed.

Lemma zrange_sorted lo hi : StronglySorted Z.lt (zrange lo hi).
Proof.
  unfold zrange. eapply sorted_map; [apply seq_sorted|]. intros; lia.
Qed.

Lemma subdiv_count_ge1 (v s : R) : (1 <= subdiv_count (H := RS) v s)%Z.
Proof. unfold subdiv_count. lia. Qed.

Lemma subdiv_count_zero (s : R) : subdiv_count (H := RS) 0 s = 1%Z.
Proof.
  unfold subdiv_count. rs_unfold.
  replace (Q2R (1 # 2) * 0 / s) with 0 by (unfold Rdiv; ring).
  change 0 with (IZR 0). rewrite Zceil_IZR, Ztrunc_IZR. reflexivity.
Qed.

(** ** the QuadTo arm: vertices on the quadratic, parameters in (0,1), strictly advancing *)
Lemma quad_ts_unfold q s :
  flatten_quad_ts (H := RS) q s =
  let p := estimate_subdiv (H := RS) q s in
  let n := subdiv_count (H := RS) (fp_val p) s in
  map (fun i => det_t p (IZR i * (1 / IZR n))) (zrange 1 n).
Proof.
  unfold flatten_quad_ts. cbv zeta. apply map_ext. intros i. rewrite det_t_eq. reflexivity.
Qed.

Lemma quad_ts_range q s t : In t (flatten_quad_ts (H := RS) q s) -> 0 < t < 1.
Proof.
  rewrite quad_ts_unfold. cbv zeta.
  set (p := estimate_subdiv q s). set (n := subdiv_count (fp_val p) s).
  intros Hin. apply in_map_iff in Hin. destruct Hin as [i [<- Hi]]. apply zrange_In in Hi.
  destruct (Req_dec (api (q_x0 q)) (api (q_x2 q))) as [E|NE].
  - exfalso. assert (Hn : n = 1%Z).
    { unfold n, p. rewrite est_eq. cbn [fp_val]. rewrite (q_val_zero q s E). apply subdiv_count_zero. }
    lia.
  - assert (Hp : params_ok p).
    { unfold p. rewrite est_eq. unfold params_ok; cbn [fp_a0 fp_a2 fp_u0 fp_uscale]. repeat split. exact NE. }
    apply det_t_range_open; auto.
    assert (0 < IZR n) by (apply IZR_lt; lia).
    assert (1 <= IZR i) by (apply IZR_le; lia).
    assert (IZR i < IZR n) by (apply IZR_lt; lia).
    split.
    + apply Rmult_lt_0_compat; [lra|]. apply Rdiv_lt_0_compat; lra.
    + apply (Rmult_lt_reg_r (IZR n)); auto. replace (IZR i * (1 / IZR n) * IZR n) with (IZR i) by (field; lra). lra.
Qed.

Lemma quad_ts_sorted q s : StronglySorted Rlt (flatten_quad_ts (H := RS) q s).
Proof.
  rewrite quad_ts_unfold. cbv zeta.
  set (p := estimate_subdiv q s). set (n := subdiv_count (fp_val p) s).
  destruct (Req_dec (api (q_x0 q)) (api (q_x2 q))) as [E|NE].
  - assert (Hn : n = 1%Z).
    { unfold n, p. rewrite est_eq. cbn [fp_val]. rewrite (q_val_zero q s E). apply subdiv_count_zero. }
    rewrite Hn. simpl. constructor.
  - assert (Hp : params_ok p).
    { unfold p. rewrite est_eq. unfold params_ok; cbn [fp_a0 fp_a2 fp_u0 fp_uscale]. repeat split. exact NE. }
    eapply sorted_map; [apply zrange_sorted|].
    intros i j Hi Hj Hij. apply det_t_incr; auto.
    apply zrange_In in Hi. assert (0 < IZR n) by (apply IZR_lt; lia).
    apply Rmult_lt_compat_r; [apply Rdiv_lt_0_compat; lra | apply IZR_lt; auto].
Qed.

(** [flatten_vertices_on_quad] *)
Lemma quad_vertices q s :
  exists ts, flatten_quad_pts (H := RS) q s = map (quad_eval q) ts /\
             Forall (fun t => 0 < t < 1) ts /\ StronglySorted Rlt ts.
Proof.
  exists (flatten_quad_ts q s). split; [reflexivity|]. split.
  - apply Forall_forall. intros t. apply quad_ts_range.
  - apply quad_ts_sorted.
Qed.

(** ** the CurveTo arm, second loop: no runaway, parameters in [0,1) and advancing *)
Lemma cubic_inner_S k vs v rv step n i target :
  cubic_inner (H := RS) (S k) vs v rv step n i target =
  if Rltb target (vs + v) then
    let u := (target - vs) * rv in
    if Z.eqb (i + 1) (n + 1) then Some ([u], (i + 1)%Z)
    else match cubic_inner (H := RS) k vs v rv step n (i + 1) (IZR (i + 1) * step) with
         | None => None
         | Some (us, j) => Some (u :: us, j)
         end
  else Some ([], i).
Proof. reflexivity. Qed.

Lemma cubic_inner_O vs v rv step n i target :
  cubic_inner (H := RS) O vs v rv step n i target =
  if Rltb target (vs + v) then None else Some ([], i).
Proof. reflexivity. Qed.

(** what one run of the [while] loop guarantees *)
Definition inner_post (vs v step : R) (n i : Z) (lo : R) (us : list R) (j : Z) : Prop :=
  Forall (fun u => lo <= u < 1) us /\ StronglySorted Rlt us /\
  (i <= j <= n + 1)%Z /\ (j = (n + 1)%Z \/ vs + v <= IZR j * step) /\
  (us <> [] -> 0 < v).

Lemma cubic_inner_spec fuel : forall vs v step n i,
  0 <= step -> (0 < v -> 0 < step) ->
  (i <= n + 1)%Z -> fuel = Z.to_nat (n + 1 - i) ->
  vs <= IZR i * step ->
  (i = (n + 1)%Z -> vs + v <= IZR i * step) ->
  exists us j, cubic_inner (H := RS) fuel vs v (1 / v) step n i (IZR i * step) = Some (us, j) /\
               inner_post vs v step n i ((IZR i * step - vs) * (1 / v)) us j.
Proof.
  induction fuel as [|k IH]; intros vs v step n i Hst Hvst Hi Hf Hlo Hend.
  - assert (i = (n + 1)%Z) by lia. rewrite cubic_inner_O.
    destruct (Rltb_spec (IZR i * step) (vs + v)) as [L|L]; [specialize (Hend H); lra|].
    exists [], i. split; [reflexivity|]. unfold inner_post.
    split; [constructor|]. split; [constructor|]. split; [lia|]. split; [right; lra|]. intros C; congruence.
  - rewrite cubic_inner_S.
    destruct (Rltb_spec (IZR i * step) (vs + v)) as [L|L].
    + assert (Hv : 0 < v) by lra. specialize (Hvst Hv).
      assert (Hin : (i <= n)%Z) by lia.
      assert (Hu : 0 <= (IZR i * step - vs) * (1 / v) < 1).
      { split.
        - apply Rmult_le_pos; [lra|]. left; apply Rdiv_lt_0_compat; lra.
        - apply (Rmult_lt_reg_r v); auto.
          replace ((IZR i * step - vs) * (1 / v) * v) with (IZR i * step - vs) by (field; lra). lra. }
      cbv zeta. destruct (Z.eqb_spec (i + 1) (n + 1)) as [E|NE].
      * exists [(IZR i * step - vs) * (1 / v)], (i + 1)%Z. split; [reflexivity|].
        unfold inner_post.
        split; [constructor; [lra|constructor]|]. split; [constructor; constructor|].
        split; [lia|]. split; [left; auto|]. intros _; exact Hv.
      * assert (Hstep : IZR i * step < IZR (i + 1) * step).
        { rewrite plus_IZR. lra. }
        destruct (IH vs v step n (i + 1)%Z) as [us [j [Ec [HF [HS [Hj [Hx Hne]]]]]]]; auto; try lia; try lra.
        rewrite Ec. exists ((IZR i * step - vs) * (1 / v) :: us), j. split; [reflexivity|].
        assert (Hlt : (IZR i * step - vs) * (1 / v) < (IZR (i + 1) * step - vs) * (1 / v)).
        { apply Rmult_lt_compat_r; [apply Rdiv_lt_0_compat; lra | lra]. }
        unfold inner_post.
        split. { constructor; [lra|]. eapply Forall_impl; [|exact HF]. simpl; intros a Ha; lra. }
        split. { constructor; auto. eapply Forall_impl; [|exact HF]. simpl; intros a Ha; lra. }
        split; [lia|]. split; [exact Hx|]. intros _; exact Hv.
    + exists [], i. split; [reflexivity|]. unfold inner_post.
      split; [constructor|]. split; [constructor|]. split; [lia|]. split; [right; lra|]. intros C; congruence.
Qed.

Fixpoint vsum (qb : list (QuadBez R * FlattenParams R)) : R :=
  match qb with
  | [] => 0
  | qp :: r => fp_val (snd qp) + vsum r
  end.

Lemma fp_sum_from qb : forall a, fold_left (fun s qp => s + fp_val (snd qp)) qb a = a + vsum qb.
Proof. induction qb as [|qp r IH]; intros a; simpl; [lra|]. rewrite IH. lra. Qed.

Lemma fp_sum_vsum qb : fp_sum (H := RS) qb = vsum qb.
Proof.
  unfold fp_sum. change (@f0 R RS) with 0.
  change (fold_left (fun s qp => s + fp_val (snd qp)) qb 0 = vsum qb).
  rewrite fp_sum_from. lra.
Qed.

Definition vals_nonneg (qb : list (QuadBez R * FlattenParams R)) : Prop :=
  Forall (fun qp => 0 <= fp_val (snd qp)) qb.

Lemma vsum_nonneg qb : vals_nonneg qb -> 0 <= vsum qb.
Proof. induction 1; simpl; lra. Qed.

Lemma vsum_ge_each qb qp : vals_nonneg qb -> In qp qb -> fp_val (snd qp) <= vsum qb.
Proof.
  induction 1 as [|a l Ha Hl IH]; simpl; [tauto|].
  pose proof (vsum_nonneg l Hl).
  intros [->|Hin]; [lra|]. specialize (IH Hin). lra.
Qed.

Definition piece_post (qp : QuadBez R * FlattenParams R) (us : list R) : Prop :=
  Forall (fun u => 0 <= u < 1) us /\ StronglySorted Rlt us /\ (us <> [] -> 0 < fp_val (snd qp)).

Lemma cubic_outer_spec step n qb : forall i vs,
  0 <= step -> (forall qp, In qp qb -> 0 < fp_val (snd qp) -> 0 < step) ->
  vals_nonneg qb ->
  (1 <= i <= n + 1)%Z ->
  vs <= IZR i * step ->
  vs + vsum qb <= IZR (n + 1) * step ->
  exists uss, cubic_outer (H := RS) qb step n i vs = Some uss /\ Forall2 piece_post qb uss.
Proof.
  induction qb as [|[q p] r IH]; intros i vs Hst Hpos Hnn Hi Hlo Hb.
  - exists []. split; [reflexivity|constructor].
  - inversion Hnn as [|? ? Hv Hr]; subst. simpl in Hv, Hb.
    pose proof (vsum_nonneg r Hr) as Hr0.
    cbn [cubic_outer]. change (@fofZ R RS i) with (IZR i). change (@f1 R RS) with 1.
    change (@fmul R RS (IZR i) step) with (IZR i * step).
    change (@fdiv R RS 1 (fp_val p)) with (1 / fp_val p).
    destruct (cubic_inner_spec (Z.to_nat (n + 1 - i)) vs (fp_val p) step n i) as [us [j [Ec [HF [HS [Hj [Hx Hne]]]]]]]; auto; try lia.
    { intros Hvp. apply (Hpos (q, p)); simpl; auto. }
    { intros ->. lra. }
    rewrite Ec.
    change (@fadd R RS vs (fp_val p)) with (vs + fp_val p).
    destruct (IH j (vs + fp_val p)) as [uss [Eo HF2]]; auto; try lia.
    { intros qp Hin. apply Hpos. simpl; auto. }
    { destruct Hx as [-> | Hx]; lra. }
    { lra. }
    rewrite Eo. exists (us :: uss). split; [reflexivity|]. constructor; auto.
    unfold piece_post. simpl. repeat split; auto.
    eapply Forall_impl; [|exact HF]. simpl. intros a [Ha1 Ha2]. split; [|lra].
    assert (0 <= (IZR i * step - vs) * (1 / fp_val p)); [|lra].
    destruct (Req_dec (fp_val p) 0) as [->|Hn0].
    + unfold Rdiv. rewrite Rinv_0. lra.
    + apply Rmult_le_pos; [lra|]. left. apply Rdiv_lt_0_compat; lra.
Qed.

(** the second loop never runs away, emits per quadratic parameters in [0,1) that strictly
    increase, and only for quadratics with a positive [val] *)
Lemma cubic_stage2_us_spec qb srt :
  vals_nonneg qb ->
  exists uss, cubic_stage2_us (H := RS) qb srt = Some uss /\ Forall2 piece_post qb uss.
Proof.
  intros Hnn. unfold cubic_stage2_us. cbv zeta. rewrite fp_sum_vsum.
  set (n := subdiv_count (vsum qb) srt).
  pose proof (subdiv_count_ge1 (vsum qb) srt) as Hn. fold n in Hn.
  pose proof (vsum_nonneg qb Hnn) as Hs.
  assert (Hn0 : 0 < IZR n) by (apply IZR_lt; lia).
  change (@fdiv R RS (vsum qb) (fofZ n)) with (vsum qb / IZR n).
  change (@f0 R RS) with 0.
  apply cubic_outer_spec; auto; try lia.
  - apply div_total_nonneg; lra.
  - intros qp Hin Hv. pose proof (vsum_ge_each qb qp Hnn Hin). apply Rdiv_lt_0_compat; lra.
  - simpl. assert (0 <= vsum qb / IZR n) by (apply div_total_nonneg; lra). lra.
  - rewrite plus_IZR. replace ((IZR n + 1) * (vsum qb / IZR n)) with (vsum qb + vsum qb / IZR n) by (field; lra).
    assert (0 <= vsum qb / IZR n) by (apply div_total_nonneg; lra). lra.
Qed.

(** ** the CurveTo arm as a whole *)
Lemma sqrt_remain_nonneg s : 0 <= s -> 0 <= sqrt_remain (H := RS) s.
Proof. intros. unfold sqrt_remain. rs_unfold. apply Rmult_le_pos; [auto|apply sqrt_pos]. Qed.

Lemma quad_buf_nonneg c tol s : 0 <= s -> vals_nonneg (cubic_quad_buf (H := RS) c tol s).
Proof.
  intros Hs. unfold cubic_quad_buf, vals_nonneg. apply Forall_forall. intros qp Hin.
  apply in_map_iff in Hin. destruct Hin as [tq [<- _]]. cbn [snd]. rewrite est_eq. cbn [fp_val].
  apply q_val_nonneg. apply sqrt_remain_nonneg; auto.
Qed.

Lemma quad_buf_ok c tol s qp : In qp (cubic_quad_buf (H := RS) c tol s) -> 0 < fp_val (snd qp) -> params_ok (snd qp).
Proof.
  unfold cubic_quad_buf. intros Hin. apply in_map_iff in Hin. destruct Hin as [tq [<- _]]. cbn [snd].
  apply est_val_pos_ok.
Qed.

Definition ts_ok (ts : list R) : Prop := Forall (fun t => 0 <= t < 1) ts /\ StronglySorted Rlt ts.

Lemma pieces_to_quads qb : forall uss,
  (forall qp, In qp qb -> 0 < fp_val (snd qp) -> params_ok (snd qp)) ->
  Forall2 piece_post qb uss ->
  exists tss, pieces_pts (H := RS) qb uss = quads_pts (map fst qb) tss /\
              length tss = length qb /\ Forall ts_ok tss.
Proof.
  induction qb as [|qp r IH]; intros uss Hok HF; inversion HF as [|? us ? uss' [Hr [Hs Hne]] HF']; subst.
  - exists []. repeat split; constructor.
  - destruct (IH uss') as [tss [E [Hl Ht]]]; auto.
    { intros; apply Hok; simpl; auto. }
    exists (map (det_t (snd qp)) us :: tss). split; [|split].
    + cbn [pieces_pts map quads_pts]. rewrite E. f_equal.
      unfold piece_pts. rewrite map_map. apply map_ext. intros u. rewrite det_t_eq. reflexivity.
    + simpl. rewrite Hl. reflexivity.
    + constructor; auto. destruct us as [|u0 us0]; [split; constructor|].
      assert (Hp : params_ok (snd qp)). { apply Hok; simpl; auto. apply Hne. congruence. }
      split.
      * apply Forall_forall. intros t Ht'. apply in_map_iff in Ht'. destruct Ht' as [u [<- Hu]].
        rewrite Forall_forall in Hr. specialize (Hr u Hu).
        pose proof (det_t_0 _ Hp). pose proof (det_t_1 _ Hp).
        assert (det_t (snd qp) u < det_t (snd qp) 1) by (apply det_t_incr; auto; lra).
        destruct Hr as [[Hr| <-] _]; [|lra].
        assert (det_t (snd qp) 0 < det_t (snd qp) u) by (apply det_t_incr; auto). lra.
      * eapply sorted_map; [exact Hs|]. intros x y _ _ Hxy. apply det_t_incr; auto.
Qed.

(** [flatten_cubic_vertices], geometric core: never a runaway; every vertex of a cubic's run is a
    point of one of the [to_quads] quadratics, at parameters in [0,1) that strictly increase within
    a quadratic, the quadratics being visited in order *)
Lemma cubic_vertices c tol s : 0 <= s ->
  exists tss,
    flatten_cubic_pts (H := RS) c tol s
      = Some (quads_pts (map snd (fl_to_quads (H := RS) c (tol * to_quad_tol))) tss) /\
    length tss = length (fl_to_quads (H := RS) c (tol * to_quad_tol)) /\
    Forall ts_ok tss.
Proof.
  intros Hs. unfold flatten_cubic_pts, cubic_stage2.
  destruct (cubic_stage2_us_spec (cubic_quad_buf c tol s) (sqrt_remain s) (quad_buf_nonneg c tol s Hs)) as [uss [E HF]].
  change (@fmul R RS tol to_quad_tol) with (tol * to_quad_tol) in *.
  rewrite E.
  destruct (pieces_to_quads _ uss (quad_buf_ok c tol s) HF) as [tss [Ep [Hl Ht]]].
  exists tss. rewrite Ep. split; [|split]; auto.
  - do 2 f_equal. unfold cubic_quad_buf. rewrite map_map. apply map_ext. reflexivity.
  - rewrite Hl. unfold cubic_quad_buf. rewrite map_length. reflexivity.
Qed.

(** ** from the quadratics to the cubic: C17's pointwise bound enters as a hypothesis *)
Definition quads_within (acc : R) (c : CubicBez R) (n : Z) : Prop :=
  forall i t, (0 <= i < n)%Z -> 0 <= t <= 1 ->
    pt_distance (H := RS) (quad_eval (snd (fl_to_quad (H := RS) c n i)) t)
                          (cubic_eval c (piece_param (H := RS) c n i t)) <= acc.

Lemma piece_param_eq c n i t : (0 < n)%Z -> piece_param (H := RS) c n i t = (IZR i + t) / IZR n.
Proof.
  intros Hn. assert (0 < IZR n) by (apply IZR_lt; lia).
  unfold piece_param, fl_to_quad. cbv zeta. rs_unfold. rewrite plus_IZR. field. lra.
Qed.

Fixpoint piece_params (c : CubicBez R) (n : Z) (is : list Z) (tss : list (list R)) : list R :=
  match is, tss with
  | i :: is', ts :: tss' => map (piece_param (H := RS) c n i) ts ++ piece_params c n is' tss'
  | _, _ => []
  end.

Lemma Forall2_map_same {A B C} (P : B -> C -> Prop) (f : A -> B) (g : A -> C) l :
  (forall a, In a l -> P (f a) (g a)) -> Forall2 P (map f l) (map g l).
Proof. induction l; simpl; intros Hl; constructor; auto. Qed.

Lemma near_pieces acc c n : quads_within acc c n -> forall is tss,
  (forall i, In i is -> (0 <= i < n)%Z) -> Forall ts_ok tss ->
  Forall2 (fun v u => pt_distance (H := RS) v (cubic_eval c u) <= acc)
          (quads_pts (map (fun i => snd (fl_to_quad (H := RS) c n i)) is) tss) (piece_params c n is tss).
Proof.
  intros Hw. induction is as [|i is IH]; intros tss Hi Ht; [constructor|].
  destruct tss as [|ts tss]; [constructor|]. inversion Ht as [|? ? [Hr _] Ht']; subst.
  cbn [map quads_pts piece_params]. apply Forall2_app.
  - apply Forall2_map_same. intros t Hin. rewrite Forall_forall in Hr. specialize (Hr t Hin).
    apply Hw; [apply Hi; simpl; auto | lra].
  - apply IH; auto. intros; apply Hi; simpl; auto.
Qed.

Lemma piece_params_In c n is : forall tss u, (0 < n)%Z -> Forall ts_ok tss ->
  In u (piece_params c n is tss) -> exists i t, In i is /\ 0 <= t < 1 /\ u = (IZR i + t) / IZR n.
Proof.
  induction is as [|i is IH]; intros tss u Hn Ht Hin; [contradiction|].
  destruct tss as [|ts tss]; [contradiction|]. inversion Ht as [|? ? [Hr _] Ht']; subst.
  cbn [piece_params] in Hin. apply in_app_or in Hin. destruct Hin as [Hin|Hin].
  - apply in_map_iff in Hin. destruct Hin as [t [<- Hin]]. rewrite Forall_forall in Hr.
    exists i, t. repeat split; simpl; auto; try apply Hr; auto. apply piece_param_eq; auto.
  - destruct (IH tss u Hn Ht' Hin) as [j [t [Hj Hx]]]. exists j, t. simpl; auto.
Qed.

Lemma sorted_app {A} (RA : A -> A -> Prop) l1 l2 :
  StronglySorted RA l1 -> StronglySorted RA l2 -> (forall x y, In x l1 -> In y l2 -> RA x y) ->
  StronglySorted RA (l1 ++ l2).
Proof.
  induction 1 as [|a l Hs IH Hf]; intros H2 Hc; simpl; auto.
  constructor.
  - apply IH; auto. intros; apply Hc; simpl; auto.
  - apply Forall_app. split; auto. apply Forall_forall. intros y Hy. apply Hc; simpl; auto.
Qed.

Lemma piece_params_sorted c n is : forall tss, (0 < n)%Z ->
  StronglySorted Z.lt is -> Forall ts_ok tss ->
  StronglySorted Rlt (piece_params c n is tss).
Proof.
  induction is as [|i is IH]; intros tss Hn Hs Ht; [constructor|].
  destruct tss as [|ts tss]; [constructor|]. inversion Ht as [|? ? [Hr Hso] Ht']; subst.
  inversion Hs as [|? ? Hs' Hlt]; subst.
  assert (0 < IZR n) by (apply IZR_lt; lia).
  cbn [piece_params]. apply sorted_app.
  - eapply sorted_map; [exact Hso|]. intros x y _ _ Hxy. rewrite !piece_param_eq by auto.
    apply Rmult_lt_compat_r; [apply Rinv_0_lt_compat; auto | lra].
  - apply IH; auto.
  - intros x y Hx Hy. apply in_map_iff in Hx. destruct Hx as [t [<- Hin]].
    rewrite Forall_forall in Hr. specialize (Hr t Hin). rewrite piece_param_eq by auto.
    destruct (piece_params_In c n is tss y Hn Ht' Hy) as [j [t' [Hj [Ht'' ->]]]].
    rewrite Forall_forall in Hlt. specialize (Hlt j Hj).
    assert (IZR i + 1 <= IZR j) by (rewrite <- plus_IZR; apply IZR_le; lia).
    apply Rmult_lt_compat_r; [apply Rinv_0_lt_compat; auto | lra].
Qed.

Lemma fl_to_quads_n_ge1 c acc : (1 <= fl_to_quads_n (H := RS) c acc)%Z.
Proof. unfold fl_to_quads_n. cbv zeta. lia. Qed.

(** [flatten_cubic_vertices]: given the pointwise bound of the quadratics (C17), every vertex of a
    cubic's run is within [accuracy = 0.1 * tolerance] of the cubic at a parameter in [0,1), and
    these parameters strictly increase along the run *)
Lemma cubic_vertices_near c tol s : 0 <= s ->
  quads_within (tol * to_quad_tol) c (fl_to_quads_n (H := RS) c (tol * to_quad_tol)) ->
  exists pts us, flatten_cubic_pts (H := RS) c tol s = Some pts /\
    Forall2 (fun v u => pt_distance (H := RS) v (cubic_eval c u) <= tol * to_quad_tol) pts us /\
    Forall (fun u => 0 <= u < 1) us /\ StronglySorted Rlt us.
Proof.
  intros Hs Hw. destruct (cubic_vertices c tol s Hs) as [tss [E [Hl Ht]]].
  set (acc := tol * to_quad_tol) in *. set (n := fl_to_quads_n c acc) in *.
  pose proof (fl_to_quads_n_ge1 c acc) as Hn. fold n in Hn.
  assert (Hq : map snd (fl_to_quads c acc) = map (fun i => snd (fl_to_quad c n i)) (zrange 0 n)).
  { unfold fl_to_quads. cbv zeta. fold n. rewrite map_map. reflexivity. }
  rewrite Hq in E.
  assert (Hi : forall i, In i (zrange 0 n) -> (0 <= i < n)%Z) by (intros i; apply zrange_In).
  exists (quads_pts (map (fun i => snd (fl_to_quad c n i)) (zrange 0 n)) tss), (piece_params c n (zrange 0 n) tss).
  split; [exact E|]. split; [|split].
  - apply near_pieces; auto.
  - apply Forall_forall. intros u Hu.
    destruct (piece_params_In c n _ tss u ltac:(lia) Ht Hu) as [i [t [Hin [Htr ->]]]].
    apply Hi in Hin. assert (0 < IZR n) by (apply IZR_lt; lia).
    assert (0 <= IZR i) by (apply IZR_le; lia).
    assert (IZR i + 1 <= IZR n) by (rewrite <- plus_IZR; apply IZR_le; lia).
    split.
    + apply Rmult_le_pos; [lra | left; apply Rinv_0_lt_compat; auto].
    + apply (Rmult_lt_reg_r (IZR n)); auto. replace ((IZR i + t) / IZR n * IZR n) with (IZR i + t) by (field; lra). lra.
  - apply piece_params_sorted; auto; try lia. apply zrange_sorted.
Qed.

(** ** totality over R: the model never reports a runaway *)
Lemma fl_step_total keep tol st e : exists st' out, fl_step (H := RS) keep tol (sqrt tol) st e = Some (st', out).
Proof.
  destruct st as [start last]; destruct e; simpl; eauto.
  - destruct last; eauto.
  - destruct last; eauto.
    destruct (cubic_vertices {| c0 := p; c1 := p1; c2 := p2; c3 := p3 |} tol (sqrt tol) (sqrt_pos tol)) as [tss [E _]].
    rewrite E. eauto.
Qed.

Lemma flatten_from_total keep tol els : forall st, exists out, flatten_from (H := RS) keep tol (sqrt tol) st els = Some out.
Proof.
  induction els as [|e r IH]; intros st; simpl; eauto.
  destruct (fl_step_total keep tol st e) as [st' [o E]]. rewrite E.
  destruct (IH st') as [rest Er]. rewrite Er. eauto.
Qed.

Lemma flatten_total keep tol els : exists out, flatten_gen (H := RS) keep tol els = Some out.
Proof. apply flatten_from_total. Qed.

(** ** the runs are the runs of the segments that [segments] yields (real instance) *)
Lemma pt_eqb_eq (a b : Point R) : pt_eqb a b = true -> a = b.
Proof.
  destruct a as [ax ay], b as [bx by']. unfold pt_eqb. cbn [px py]. rs_unfold. intros E. bool_to_prop. subst. reflexivity.
Qed.

Lemma segs_from_trace (st : option (Point R * Point R)) els :
  segs_from st els = option_map somes (seg_trace st els).
Proof.
  revert st; induction els as [|e r IH]; intros st; simpl; [reflexivity|].
  destruct (seg_step st e) as [[st' o]|]; [|reflexivity].
  rewrite IH. destruct (seg_trace (Some st') r); simpl; [|reflexivity].
  destruct o; reflexivity.
Qed.

Lemma flatten_from_segments tol els : forall s l out,
  flatten_from (H := RS) true tol (sqrt tol) (Some s, Some l) els = Some out ->
  exists sgs runs, seg_trace (Some (s, l)) els = Some sgs /\ out = concat runs /\
    Forall2 (fun es run => run_for_seg tol (sqrt tol) (fst es) (snd es) run) (combine els sgs) runs.
Proof.
  induction els as [|e r IH]; intros s l out E.
  - simpl in E. inversion E. exists [], []. repeat split; constructor.
  - cbn [flatten_from] in E.
    destruct (fl_step true tol (sqrt tol) (Some s, Some l) e) as [[st' o]|] eqn:Es; [|discriminate].
    destruct (flatten_from true tol (sqrt tol) st' r) as [rest|] eqn:Er; [|discriminate].
    inversion E; subst out. cbn [seg_trace].
    assert (exists s' l' sg, st' = (Some s', Some l') /\ seg_step (Some (s, l)) e = Some ((s', l'), sg) /\
                             run_for_seg tol (sqrt tol) e sg o) as [s' [l' [sg [-> [Est Hrun]]]]].
    { destruct e; cbn [fl_step] in Es.
      - inversion Es; subst. exists p, p, None. repeat split.
      - inversion Es; subst. exists s, p, (Some (SegLine (mkLine l p))). repeat split.
      - inversion Es; subst. exists s, p2, (Some (SegQuad (mkQuad l p1 p2))). repeat split.
        simpl. eexists; split; reflexivity.
      - destruct (flatten_cubic_pts _ _ _) as [pts|] eqn:Ec; inversion Es; subst.
        exists s, p3, (Some (SegCubic (mkCubic l p1 p2 p3))). repeat split.
        simpl. eexists; eexists; repeat split; eauto.
      - inversion Es; subst. cbn [seg_step el_end]. unfold pt_neb.
        destruct (pt_eqb l s) eqn:Eq; cbn [negb].
        + apply pt_eqb_eq in Eq; subst. exists s, s, None. repeat split.
        + exists s, s, (Some (SegLine (mkLine l s))). repeat split. }
    rewrite Est. destruct (IH _ _ _ Er) as [sgs [runs [Et [-> HF]]]]. rewrite Et.
    exists (sg :: sgs), (o :: runs). repeat split. constructor; auto.
Qed.

(** [flatten_runs], in terms of [segments]: one run per element, and the run of a curve element is
    computed from exactly the segment that [segments] yields for that element *)
Lemma flatten_runs_segments tol p0 els out :
  flatten (H := RS) tol (MoveTo p0 :: els) = Some out ->
  exists sgs runs,
    seg_trace None (MoveTo p0 :: els) = Some sgs /\
    segments (MoveTo p0 :: els) = Some (somes sgs) /\
    out = concat runs /\
    Forall2 (fun es run => run_for_seg tol (sqrt tol) (fst es) (snd es) run)
            (combine (MoveTo p0 :: els) sgs) runs.
Proof.
  unfold flatten, flatten_gen. change (@fsqrt R RS tol) with (sqrt tol). cbn [flatten_from fl_step].
  destruct (flatten_from true tol (sqrt tol) (Some p0, Some p0) els) as [rest|] eqn:Er; [|discriminate].
  intros E; inversion E; subst out.
  destruct (flatten_from_segments _ _ _ _ _ Er) as [sgs [runs [Et [-> HF]]]].
  exists (None :: sgs), ([MoveTo p0] :: runs).
  assert (Ets : seg_trace None (MoveTo p0 :: els) = Some (None :: sgs)).
  { cbn [seg_trace seg_step el_end]. rewrite Et. reflexivity. }
  split; [exact Ets|]. split; [|split; [reflexivity|]].
  - unfold segments. rewrite segs_from_trace, Ets. reflexivity.
  - constructor; [reflexivity|exact HF].
Qed.

(* ================================================================== *)
(** * Uniform scaling (real instance) *)
Definition scale_q (k : R) (q : QuadBez R) : QuadBez R :=
  mkQuad (scale_pt (H := RS) k (q0 q)) (scale_pt (H := RS) k (q1 q)) (scale_pt (H := RS) k (q2 q)).
Definition scale_c (k : R) (c : CubicBez R) : CubicBez R :=
  mkCubic (scale_pt (H := RS) k (c0 c)) (scale_pt (H := RS) k (c1 c)) (scale_pt (H := RS) k (c2 c)) (scale_pt (H := RS) k (c3 c)).
(** the parameters of the scaled quadratic: only [val] changes, by [sqrt k] *)
Definition scale_p (sk : R) (p : FlattenParams R) : FlattenParams R :=
  mkFP (fp_a0 p) (fp_a2 p) (fp_u0 p) (fp_uscale p) (sk * fp_val p).

Lemma div_scale m a b : m <> 0 -> (m * a) / (m * b) = a / b.
Proof.
  intros Hm. unfold Rdiv. rewrite Rinv_mult.
  replace (m * a * (/ m * / b)) with ((m * / m) * (a * / b)) by ring. rewrite Rinv_r by auto. ring.
Qed.

Lemma mul_inv_scale m d c : m <> 0 -> (m * d) * (1 / (m * c)) = d * (1 / c).
Proof.
  intros Hm. unfold Rdiv. rewrite Rinv_mult.
  replace (m * d * (1 * (/ m * / c))) with ((m * / m) * (d * (1 * / c))) by ring. rewrite Rinv_r by auto. ring.
Qed.

Ltac qunf :=
  cbv [q_cross q_dd scale_q scale_c scale_pt v_dot v_cross pt_sub v_sub v_add v_hypot v_hypot2 s_scale_v v_scale
       to_vec2 to_point vx vy px py q0 q1 q2 c0 c1 c2 c3]; rs_unfold.

Section Scaling.
Variable k : R.
Hypothesis Hk : 0 < k.
Let sk := sqrt k.

Lemma sk_pos : 0 < sk.
Proof. apply sqrt_lt_R0; auto. Qed.
Lemma sk_sq : sk * sk = k.
Proof. apply sqrt_sqrt; lra. Qed.

Lemma q_cross_scale q : q_cross (scale_q k q) = (k * k) * q_cross q.
Proof. destruct q as [[x0 y0] [x1 y1] [x2 y2]]. qunf. ring. Qed.

Lemma q_dot01_scale q :
  v_dot (pt_sub (q1 (scale_q k q)) (q0 (scale_q k q))) (q_dd (scale_q k q))
  = (k * k) * v_dot (pt_sub (q1 q) (q0 q)) (q_dd q).
Proof. destruct q as [[x0 y0] [x1 y1] [x2 y2]]. qunf. ring. Qed.
Lemma q_dot12_scale q :
  v_dot (pt_sub (q2 (scale_q k q)) (q1 (scale_q k q))) (q_dd (scale_q k q))
  = (k * k) * v_dot (pt_sub (q2 q) (q1 q)) (q_dd q).
Proof. destruct q as [[x0 y0] [x1 y1] [x2 y2]]. qunf. ring. Qed.

Lemma q_x0_scale q : q_x0 (scale_q k q) = q_x0 q.
Proof. unfold q_x0. rewrite q_cross_scale, q_dot01_scale. apply mul_inv_scale. nra. Qed.
Lemma q_x2_scale q : q_x2 (scale_q k q) = q_x2 q.
Proof. unfold q_x2. rewrite q_cross_scale, q_dot12_scale. apply mul_inv_scale. nra. Qed.

Lemma q_hypot_scale q : v_hypot (H := RS) (q_dd (scale_q k q)) = k * v_hypot (H := RS) (q_dd q).
Proof.
  destruct q as [[x0 y0] [x1 y1] [x2 y2]]. qunf.
  replace ((k * x1 - k * x0 - (k * x2 - k * x1)) * (k * x1 - k * x0 - (k * x2 - k * x1)) +
           (k * y1 - k * y0 - (k * y2 - k * y1)) * (k * y1 - k * y0 - (k * y2 - k * y1)))
    with ((k * k) * ((x1 - x0 - (x2 - x1)) * (x1 - x0 - (x2 - x1)) + (y1 - y0 - (y2 - y1)) * (y1 - y0 - (y2 - y1)))) by ring.
  rewrite sqrt_mult_alt by nra. rewrite sqrt_square by lra. reflexivity.
Qed.

Lemma q_scale_scale q : q_scale (scale_q k q) = k * q_scale q.
Proof.
  unfold q_scale. rewrite q_cross_scale, q_hypot_scale, q_x0_scale, q_x2_scale.
  replace (k * k * q_cross q) with (k * (k * q_cross q)) by ring.
  rewrite Rmult_assoc. rewrite div_scale by lra.
  unfold Rdiv. rewrite Rmult_assoc. rewrite Rabs_mult. rewrite (Rabs_pos_eq k) by lra. reflexivity.
Qed.

Lemma q_val_scale q s : q_val (scale_q k q) (sk * s) = sk * q_val q s.
Proof.
  unfold q_val. cbv zeta. rewrite q_x0_scale, q_x2_scale, q_scale_scale.
  rewrite sqrt_mult_alt by lra. fold sk.
  destruct (Reqb _ _); [ring|].
  rewrite div_scale by (pose proof sk_pos; lra). unfold Rdiv. ring.
Qed.

Lemma est_scale q s : estimate_subdiv (H := RS) (scale_q k q) (sk * s) = scale_p sk (estimate_subdiv (H := RS) q s).
Proof.
  rewrite !est_eq. unfold scale_p. cbn [fp_a0 fp_a2 fp_u0 fp_uscale fp_val].
  rewrite q_x0_scale, q_x2_scale, q_val_scale. reflexivity.
Qed.

Lemma subdiv_count_scale v s : subdiv_count (H := RS) (sk * v) (sk * s) = subdiv_count (H := RS) v s.
Proof.
  unfold subdiv_count. rs_unfold.
  replace (Q2R (1 # 2) * (sk * v) / (sk * s)) with (Q2R (1 # 2) * v / s); [reflexivity|].
  replace (Q2R (1 # 2) * (sk * v)) with (sk * (Q2R (1 # 2) * v)) by ring.
  rewrite div_scale by (pose proof sk_pos; lra). reflexivity.
Qed.

Lemma det_scale p x : determine_subdiv_t (H := RS) (scale_p sk p) x = determine_subdiv_t (H := RS) p x.
Proof. reflexivity. Qed.

Lemma quad_eval_scale q t : quad_eval (scale_q k q) t = scale_pt (H := RS) k (quad_eval q t).
Proof.
  destruct q as [[x0 y0] [x1 y1] [x2 y2]].
  cbv [quad_eval scale_q scale_pt to_point to_vec2 v_add v_scale vx vy px py q0 q1 q2]. rs_unfold.
  f_equal; ring.
Qed.

Lemma quad_ts_scale q s : flatten_quad_ts (H := RS) (scale_q k q) (sk * s) = flatten_quad_ts (H := RS) q s.
Proof.
  unfold flatten_quad_ts. cbv zeta. rewrite est_scale.
  cbn [fp_val scale_p]. rewrite subdiv_count_scale. reflexivity.
Qed.

Lemma quad_pts_scale q s :
  flatten_quad_pts (H := RS) (scale_q k q) (sk * s) = map (scale_pt (H := RS) k) (flatten_quad_pts (H := RS) q s).
Proof.
  unfold flatten_quad_pts. rewrite quad_ts_scale, map_map. apply map_ext. intros t. apply quad_eval_scale.
Qed.
End Scaling.

Definition tq_ratio (c : CubicBez R) (acc : R) : R :=
  let p1x2 := v_sub (s_scale_v (H := RS) 3 (to_vec2 (c1 c))) (to_vec2 (c0 c)) in
  let p2x2 := v_sub (s_scale_v (H := RS) 3 (to_vec2 (c2 c))) (to_vec2 (c3 c)) in
  v_hypot2 (H := RS) (v_sub p2x2 p1x2) / (432 * acc * acc).

Lemma fl_to_quads_n_ratio c acc :
  fl_to_quads_n (H := RS) c acc = Z.max (fto_usize (fceil (fpowf (tq_ratio c acc) (one_sixth (H := RS))))) 1.
Proof. reflexivity. Qed.

Ltac cunf :=
  cbv [fl_to_quad cubic_subsegment cubic_eval cubic_deriv quad_eval scale_q scale_c scale_pt
       pt_add_v pt_sub_v pt_sub v_add v_sub s_scale_v v_scale v_div to_point to_vec2 one_third
       vx vy px py q0 q1 q2 c0 c1 c2 c3 fst snd]; rs_unfold.

Section Scaling2.
Variable k : R.
Hypothesis Hk : 0 < k.
Let sk := sqrt k.
Let Hsk : 0 < sk := sk_pos k Hk.

Lemma tq_ratio_scale c acc : tq_ratio (scale_c k c) (k * acc) = tq_ratio c acc.
Proof.
  destruct c as [[x0 y0] [x1 y1] [x2 y2] [x3 y3]]. unfold tq_ratio. qunf.
  match goal with |- ?a / ?b = ?c / ?d =>
    replace a with ((k * k) * c) by ring; replace b with ((k * k) * d) by ring end.
  apply div_scale. nra.
Qed.

Lemma fl_to_quads_n_scale c acc : fl_to_quads_n (H := RS) (scale_c k c) (k * acc) = fl_to_quads_n (H := RS) c acc.
Proof. rewrite !fl_to_quads_n_ratio, tq_ratio_scale. reflexivity. Qed.

Lemma fl_to_quad_scale c n i :
  snd (fl_to_quad (H := RS) (scale_c k c) n i) = scale_q k (snd (fl_to_quad (H := RS) c n i)).
Proof.
  destruct c as [[x0 y0] [x1 y1] [x2 y2] [x3 y3]]. cunf.
  generalize (IZR i / IZR n) (IZR (i + 1) / IZR n). intros t0 t1.
  f_equal; f_equal; field.
Qed.

Definition scale_qp (qp : QuadBez R * FlattenParams R) := (scale_q k (fst qp), scale_p sk (snd qp)).

Lemma sqrt_remain_scale s : sqrt_remain (H := RS) (sk * s) = sk * sqrt_remain (H := RS) s.
Proof. unfold sqrt_remain. rs_unfold. ring. Qed.

Lemma quad_buf_scale c tol s :
  cubic_quad_buf (H := RS) (scale_c k c) (k * tol) (sk * s) = map scale_qp (cubic_quad_buf (H := RS) c tol s).
Proof.
  unfold cubic_quad_buf, fl_to_quads. cbv zeta.
  change (@fmul R RS (k * tol) to_quad_tol) with (k * tol * to_quad_tol).
  change (@fmul R RS tol to_quad_tol) with (tol * to_quad_tol).
  replace (k * tol * to_quad_tol) with (k * (tol * to_quad_tol)) by ring.
  rewrite fl_to_quads_n_scale. rewrite !map_map. apply map_ext. intros i.
  unfold scale_qp. cbn [fst snd]. rewrite fl_to_quad_scale, sqrt_remain_scale.
  rewrite (est_scale k Hk). reflexivity.
Qed.

Lemma Rltb_scale a b : Rltb (sk * a) (sk * b) = Rltb a b.
Proof.
  destruct (Rltb_spec a b) as [L|L]; destruct (Rltb_spec (sk * a) (sk * b)) as [L'|L']; auto; exfalso; nra.
Qed.

Lemma cubic_inner_scale fuel : forall vs v step n i target,
  cubic_inner (H := RS) fuel (sk * vs) (sk * v) (1 / (sk * v)) (sk * step) n i (sk * target)
  = cubic_inner (H := RS) fuel vs v (1 / v) step n i target.
Proof.
  induction fuel as [|f IH]; intros vs v step n i target.
  - rewrite !cubic_inner_O. replace (sk * vs + sk * v) with (sk * (vs + v)) by ring.
    rewrite Rltb_scale. reflexivity.
  - rewrite !cubic_inner_S. replace (sk * vs + sk * v) with (sk * (vs + v)) by ring.
    rewrite Rltb_scale. cbv zeta.
    replace ((sk * target - sk * vs) * (1 / (sk * v))) with ((target - vs) * (1 / v)).
    2:{ replace (sk * target - sk * vs) with (sk * (target - vs)) by ring. rewrite mul_inv_scale by lra. reflexivity. }
    replace (IZR (i + 1) * (sk * step)) with (sk * (IZR (i + 1) * step)) by ring.
    rewrite IH. reflexivity.
Qed.

Lemma cubic_outer_scale qb : forall step n i vs,
  cubic_outer (H := RS) (map scale_qp qb) (sk * step) n i (sk * vs) = cubic_outer (H := RS) qb step n i vs.
Proof.
  induction qb as [|[q p] r IH]; intros step n i vs; [reflexivity|].
  cbn [map scale_qp cubic_outer fst snd scale_p fp_val].
  change (@fofZ R RS i) with (IZR i). change (@f1 R RS) with 1.
  change (@fmul R RS (IZR i) (sk * step)) with (IZR i * (sk * step)).
  change (@fmul R RS (IZR i) step) with (IZR i * step).
  change (@fdiv R RS 1 (sk * fp_val p)) with (1 / (sk * fp_val p)).
  change (@fdiv R RS 1 (fp_val p)) with (1 / fp_val p).
  replace (IZR i * (sk * step)) with (sk * (IZR i * step)) by ring.
  rewrite cubic_inner_scale.
  destruct (cubic_inner (Z.to_nat (n + 1 - i)) vs (fp_val p) (1 / fp_val p) step n i (IZR i * step)) as [[us j]|]; [|reflexivity].
  change (@fadd R RS (sk * vs) (sk * fp_val p)) with (sk * vs + sk * fp_val p).
  change (@fadd R RS vs (fp_val p)) with (vs + fp_val p).
  replace (sk * vs + sk * fp_val p) with (sk * (vs + fp_val p)) by ring.
  rewrite IH. reflexivity.
Qed.

Lemma vsum_scale qb : vsum (map scale_qp qb) = sk * vsum qb.
Proof. induction qb as [|[q p] r IH]; simpl; [ring|]. rewrite IH. ring. Qed.

Lemma stage2_us_scale qb srt :
  cubic_stage2_us (H := RS) (map scale_qp qb) (sk * srt) = cubic_stage2_us (H := RS) qb srt.
Proof.
  unfold cubic_stage2_us. cbv zeta. rewrite !fp_sum_vsum, vsum_scale, (subdiv_count_scale k Hk).
  change (@f0 R RS) with 0. replace 0 with (sk * 0) at 1 by ring.
  change (@fdiv R RS (sk * vsum qb) (fofZ (subdiv_count (vsum qb) srt))) with (sk * vsum qb / IZR (subdiv_count (H := RS) (vsum qb) srt)).
  change (@fdiv R RS (vsum qb) (fofZ (subdiv_count (vsum qb) srt))) with (vsum qb / IZR (subdiv_count (H := RS) (vsum qb) srt)).
  replace (sk * vsum qb / IZR (subdiv_count (H := RS) (vsum qb) srt)) with (sk * (vsum qb / IZR (subdiv_count (H := RS) (vsum qb) srt))) by (unfold Rdiv; ring).
  apply cubic_outer_scale.
Qed.

Lemma pieces_pts_scale qb : forall uss,
  pieces_pts (H := RS) (map scale_qp qb) uss = map (scale_pt (H := RS) k) (pieces_pts (H := RS) qb uss).
Proof.
  induction qb as [|qp r IH]; intros uss; [reflexivity|]. destruct uss as [|us uss]; [reflexivity|].
  cbn [map pieces_pts]. rewrite IH, map_app. f_equal.
  unfold piece_pts, scale_qp. cbn [fst snd]. rewrite map_map. apply map_ext. intros u.
  exact (quad_eval_scale k (fst qp) (determine_subdiv_t (snd qp) u)).
Qed.

Lemma cubic_pts_scale c tol s :
  flatten_cubic_pts (H := RS) (scale_c k c) (k * tol) (sk * s)
  = option_map (map (scale_pt (H := RS) k)) (flatten_cubic_pts (H := RS) c tol s).
Proof.
  unfold flatten_cubic_pts, cubic_stage2. rewrite quad_buf_scale, sqrt_remain_scale, stage2_us_scale.
  destruct (cubic_stage2_us _ _); [|reflexivity]. simpl. rewrite pieces_pts_scale. reflexivity.
Qed.

Definition scale_st (st : fl_state R) : fl_state R :=
  (option_map (scale_pt (H := RS) k) (fst st), option_map (scale_pt (H := RS) k) (snd st)).

Lemma map_lineto_scale pts p :
  map (@LineTo R) (map (scale_pt (H := RS) k) pts ++ [scale_pt (H := RS) k p])
  = map (scale_el (H := RS) k) (map (@LineTo R) (pts ++ [p])).
Proof. rewrite !map_app, !map_map. reflexivity. Qed.

Lemma fl_step_scale keep tol s st e :
  fl_step (H := RS) keep (k * tol) (sk * s) (scale_st st) (scale_el (H := RS) k e)
  = option_map (fun so => (scale_st (fst so), map (scale_el (H := RS) k) (snd so))) (fl_step (H := RS) keep tol s st e).
Proof.
  destruct st as [start last]. destruct e; cbn [scale_el fl_step scale_st fst snd option_map]; try reflexivity.
  - destruct last as [p0|]; cbn [option_map]; [|reflexivity].
    change (mkQuad (scale_pt k p0) (scale_pt k p1) (scale_pt k p2)) with (scale_q k (mkQuad p0 p1 p2)).
    rewrite (quad_pts_scale k Hk). rewrite map_lineto_scale. reflexivity.
  - destruct last as [p0|]; cbn [option_map]; [|reflexivity].
    change (mkCubic (scale_pt k p0) (scale_pt k p1) (scale_pt k p2) (scale_pt k p3)) with (scale_c k (mkCubic p0 p1 p2 p3)).
    rewrite cubic_pts_scale. destruct (flatten_cubic_pts _ _ _); cbn [option_map]; [|reflexivity].
    rewrite map_lineto_scale. reflexivity.
  - destruct keep; reflexivity.
Qed.

Lemma flatten_from_scale keep tol s els : forall st,
  flatten_from (H := RS) keep (k * tol) (sk * s) (scale_st st) (map (scale_el (H := RS) k) els)
  = option_map (map (scale_el (H := RS) k)) (flatten_from (H := RS) keep tol s st els).
Proof.
  induction els as [|e r IH]; intros st; [reflexivity|].
  cbn [map flatten_from]. rewrite fl_step_scale.
  destruct (fl_step keep tol s st e) as [[st' o]|]; cbn [option_map fst snd]; [|reflexivity].
  rewrite IH. destruct (flatten_from keep tol s st' r); cbn [option_map]; [|reflexivity].
  rewrite map_app. reflexivity.
Qed.

(** [flatten_scale]: scaling path and tolerance by k > 0 scales the output by k (exact arithmetic) *)
Lemma flatten_gen_scale keep tol els :
  flatten_gen (H := RS) keep (k * tol) (map (scale_el (H := RS) k) els)
  = option_map (map (scale_el (H := RS) k)) (flatten_gen (H := RS) keep tol els).
Proof.
  unfold flatten_gen. change (@fsqrt R RS (k * tol)) with (sqrt (k * tol)). change (@fsqrt R RS tol) with (sqrt tol).
  rewrite sqrt_mult_alt by lra. fold sk.
  change (@None (Point R), @None (Point R)) with (scale_st (None, None)).
  apply flatten_from_scale.
Qed.
End Scaling2.

(* ================================================================== *)
(** * Statements in the vocabulary of the model (for Properties/C05.v) *)
Lemma q_cross_is_quad_cross q : q_cross q = quad_cross (H := RS) q.
Proof. reflexivity. Qed.

Lemma api_model_incr x y : x < y ->
  approx_parabola_integral (H := RS) x < approx_parabola_integral (H := RS) y.
Proof. rewrite !api_eq. apply api_incr. Qed.

Lemma apinv_model_incr x y : x < y ->
  approx_parabola_inv_integral (H := RS) x < approx_parabola_inv_integral (H := RS) y.
Proof. rewrite !apinv_eq. apply apinv_incr. Qed.

Lemma subdiv_t_monotone q s : quad_cross (H := RS) q <> 0 ->
  let p := estimate_subdiv (H := RS) q s in
  determine_subdiv_t (H := RS) p 0 = 0 /\ determine_subdiv_t (H := RS) p 1 = 1 /\
  (forall x y, x < y -> determine_subdiv_t (H := RS) p x < determine_subdiv_t (H := RS) p y) /\
  (forall x, 0 <= x <= 1 -> 0 <= determine_subdiv_t (H := RS) p x <= 1).
Proof.
  intros Hc p. pose proof (est_params_ok q s Hc) as Hp. fold p in Hp.
  repeat split; rewrite ?det_t_eq.
  - apply det_t_0; auto.
  - apply det_t_1; auto.
  - intros x y Hxy. rewrite !det_t_eq. apply det_t_incr; auto.
  - apply det_t_range; auto.
  - apply det_t_range; auto.
Qed.

(** the same, from the facts about the parameters alone *)
Lemma subdiv_t_monotone_params p :
  fp_u0 p = approx_parabola_inv_integral (H := RS) (fp_a0 p) ->
  fp_uscale p = 1 / (approx_parabola_inv_integral (H := RS) (fp_a2 p) - approx_parabola_inv_integral (H := RS) (fp_a0 p)) ->
  fp_a0 p <> fp_a2 p ->
  determine_subdiv_t (H := RS) p 0 = 0 /\ determine_subdiv_t (H := RS) p 1 = 1 /\
  (forall x y, x < y -> determine_subdiv_t (H := RS) p x < determine_subdiv_t (H := RS) p y).
Proof.
  rewrite !apinv_eq. intros E0 Es Hne. assert (Hp : params_ok p) by (repeat split; auto).
  repeat split; rewrite ?det_t_eq.
  - apply det_t_0; auto.
  - apply det_t_1; auto.
  - intros x y Hxy. rewrite !det_t_eq. apply det_t_incr; auto.
Qed.

Lemma flatten_kinds_R keep tol els :
  exists out, flatten_gen (H := RS) keep tol els = Some out /\ forallb is_flat_el out = true.
Proof.
  destruct (flatten_total keep tol els) as [out E]. exists out. split; auto.
  eapply flatten_gen_kinds; eauto.
Qed.

(** the refutation witness, with what [segments] says about it *)
Definition wit_els : list (PathEl R) :=
  [MoveTo (mkPoint 0 0); LineTo (mkPoint 10 0); @ClosePath R;
   QuadTo (mkPoint 5 5) (mkPoint 10 10); LineTo (mkPoint 0 10)].

Lemma wit_segments :
  segments wit_els = Some [SegLine (mkLine (mkPoint 0 0) (mkPoint 10 0));
                           SegLine (mkLine (mkPoint 10 0) (mkPoint 0 0));
                           SegQuad (mkQuad (mkPoint 0 0) (mkPoint 5 5) (mkPoint 10 10));
                           SegLine (mkLine (mkPoint 10 10) (mkPoint 0 10))].
Proof.
  assert (N : pt_neb (H := RS) (mkPoint 10 0) (mkPoint 0 0) = true).
  { unfold pt_neb, pt_eqb. cbn [px py]. rs_unfold. destruct (Reqb_spec 10 0) as [E|E]; [lra|reflexivity]. }
  unfold segments, wit_els. cbn [segs_from seg_step el_end]. rewrite N. reflexivity.
Qed.

Lemma flatten_runs_refuted :
  exists tol els out,
    (exists p r, els = MoveTo p :: r) /\
    (exists q, In (SegQuad q) (match segments els with Some l => l | None => [] end)) /\
    flatten_pinned (H := RS) tol els = Some out /\
    ~ exists runs, out = concat runs /\ Forall2 run_shape els runs.
Proof.
  exists (1 / 10), wit_els, [MoveTo (mkPoint 0 0); LineTo (mkPoint 10 0); @ClosePath R; LineTo (mkPoint 0 10)].
  split; [unfold wit_els; eauto|]. split; [|split].
  - rewrite wit_segments. eexists. simpl. right; right; left. reflexivity.
  - apply flatten_pinned_witness.
  - apply flatten_pinned_not_runs.
Qed.

(* ================================================================== *)
(** * Non-vacuity instances *)
Lemma ex_cross : quad_cross (H := RS) (mkQuad (mkPoint 0 0) (mkPoint 1 1) (mkPoint 2 0)) <> 0.
Proof. cbv [quad_cross v_cross pt_sub v_sub vx vy px py q0 q1 q2]. rs_unfold. lra. Qed.

Definition ex_raised : CubicBez R := mkCubic (mkPoint 0 0) (mkPoint 2 2) (mkPoint 4 2) (mkPoint 6 0).

Lemma ex_raised_n : fl_to_quads_n (H := RS) ex_raised (1 * to_quad_tol) = 1%Z.
Proof.
  rewrite fl_to_quads_n_ratio.
  assert (E : tq_ratio ex_raised (1 * to_quad_tol) = 0).
  { unfold tq_ratio, ex_raised. qunf. unfold Rdiv. ring. }
  rewrite E. rs_unfold. unfold Rpowf.
  destruct (Rlt_dec 0 0) as [L|_]; [lra|].
  match goal with |- context [Req_EM_T ?a ?b] => destruct (Req_EM_T a b) as [E6|_] end.
  { exfalso. revert E6. unfold one_sixth. rs_unfold. lra. }
  change 0 with (IZR 0). rewrite Zceil_IZR, Ztrunc_IZR. reflexivity.
Qed.

Lemma pt_distance_self (p : Point R) : pt_distance (H := RS) p p = 0.
Proof.
  destruct p as [x y]. cbv [pt_distance v_hypot pt_sub vx vy px py]. rs_unfold.
  replace ((x - x) * (x - x) + (y - y) * (y - y)) with 0 by ring. apply sqrt_0.
Qed.

(** a degree-raised parabola: its single quadratic reproduces it exactly, so the hypothesis of
    [cubic_vertices_near] holds *)
Lemma ex_raised_within : quads_within (1 * to_quad_tol) ex_raised (fl_to_quads_n (H := RS) ex_raised (1 * to_quad_tol)).
Proof.
  rewrite ex_raised_n. intros i t Hi Ht. assert (i = 0%Z) by lia. subst i.
  assert (E : quad_eval (snd (fl_to_quad (H := RS) ex_raised 1 0)) t = cubic_eval ex_raised (piece_param (H := RS) ex_raised 1 0 t)).
  { unfold piece_param, ex_raised. cunf. cbv [Z.add]. f_equal; field. }
  rewrite E, pt_distance_self. unfold to_quad_tol. rs_unfold. cbv [Q2R Qnum Qden]. lra.
Qed.
