(** C01: the telescoping argument uses only comparisons, so it holds for every scalar instance whose
    comparisons, min and max are those of an order embedded in the reals — in particular for the finite
    binary64 numbers. Result: on floats, a closed chain of pieces whose shared end points are equal values sums
    to 0 about any point on or right of every control column, on every row. *)
From Coq Require Import ZArith Reals List Bool Lra Lia.
From KV Require Import Scalar RInst Geom Curves Path Solvers Winding RTac WindingSpec C01_proofs.
Import ListNotations.
Local Open Scope R_scope.

Section OrderEmbedding.
Context {T : Type} `{Scalar T}.
Variable ok : T -> Prop.          (* the values the laws are claimed for (finite numbers) *)
Variable val : T -> R.            (* the order embedding *)
Hypothesis ltb_val : forall x y, ok x -> ok y -> fltb x y = Rltb (val x) (val y).
Hypothesis leb_val : forall x y, ok x -> ok y -> fleb x y = Rleb (val x) (val y).
Hypothesis max_val : forall x y, ok x -> ok y -> ok (fmax x y) /\ val (fmax x y) = Rmax (val x) (val y).
Hypothesis min_val : forall x y, ok x -> ok y -> ok (fmin x y) /\ val (fmin x y) = Rmin (val x) (val y).

Definition ok_pt (p : Point T) : Prop := ok (px p) /\ ok (py p).

Definition seg_ctrl_g (s : PathSeg T) : list (Point T) :=
  match s with
  | SegLine l => [l0 l; l1 l]
  | SegQuad q => [q0 q; q1 q; q2 q]
  | SegCubic c => [c0 c; c1 c; c2 c; c3 c]
  end.

Definition above_g (p q : Point T) : Z := if fltb (py p) (py q) then 1%Z else 0%Z.

(* the row logic of winding_inner, once the side is known to be [sign] *)
Lemma rows_telescope (sy ey y : T) (side : Z -> Z) :
  ok sy -> ok ey -> ok y -> (forall sg, side sg = sg) ->
  (if fltb sy ey then (if fltb y sy || fleb ey y then 0%Z else side (-1)%Z)
   else if fltb ey sy then (if fltb y ey || fleb sy y then 0%Z else side 1%Z) else 0%Z)
  = ((if fltb y sy then 1 else 0) - (if fltb y ey then 1 else 0))%Z.
Proof.
  intros Hs He Hy Hside. rewrite !Hside.
  rewrite !ltb_val, !leb_val by assumption.
  set (a := val sy). set (b := val ey). set (c := val y). clearbody a b c. cbv [orb].
  case_ifs; try reflexivity; exfalso; lra.
Qed.

Lemma piece_right_of_all_order (fx : bool) (s : PathSeg T) (p : Point T) :
  ok_pt p -> (forall c, In c (seg_ctrl_g s) -> ok_pt c /\ val (px c) <= val (px p)) ->
  winding_inner_gen fx s p = (above_g p (seg_start s) - above_g p (seg_end s))%Z.
Proof.
  intros [Hpx Hpy] Hc. unfold above_g, winding_inner_gen.
  destruct s as [[s e] | [s m e] | [s a b e]]; cbn [seg_ctrl_g seg_start seg_end l0 l1 q0 q1 q2 c0 c1 c2 c3] in *.
  - destruct (Hc s) as [[Hsx Hsy] Ls]; [simpl; auto|]. destruct (Hc e) as [[Hex Hey] Le]; [simpl; auto|].
    apply rows_telescope; try assumption. intro sg. unfold w_side. cbn [seg_start seg_end l0 l1].
    destruct (min_val (px s) (px e) Hsx Hex) as [Omin Vmin]. destruct (max_val (px s) (px e) Hsx Hex) as [Omax Vmax].
    rewrite ltb_val, leb_val by assumption. rewrite Vmin, Vmax.
    destruct (Rltb_spec (val (px p)) (Rmin (val (px s)) (val (px e)))); [exfalso; minmax|].
    destruct (Rleb_spec (Rmax (val (px s)) (val (px e))) (val (px p))); [reflexivity|exfalso; minmax].
  - destruct (Hc s) as [[Hsx Hsy] Ls]; [simpl; auto|]. destruct (Hc m) as [[Hmx Hmy] Lm]; [simpl; auto|].
    destruct (Hc e) as [[Hex Hey] Le]; [simpl; auto|].
    apply rows_telescope; try assumption. intro sg. unfold w_side. cbn [seg_start seg_end q0 q1 q2].
    destruct (min_val (px s) (px e) Hsx Hex) as [Omin Vmin]. destruct (max_val (px s) (px e) Hsx Hex) as [Omax Vmax].
    destruct (min_val _ (px m) Omin Hmx) as [Omin2 Vmin2]. destruct (max_val _ (px m) Omax Hmx) as [Omax2 Vmax2].
    rewrite ltb_val, leb_val by assumption. rewrite Vmin2, Vmax2, Vmin, Vmax.
    destruct (Rltb_spec (val (px p)) (Rmin (Rmin (val (px s)) (val (px e))) (val (px m)))); [exfalso; minmax|].
    destruct (Rleb_spec (Rmax (Rmax (val (px s)) (val (px e))) (val (px m))) (val (px p))); [reflexivity|exfalso; minmax].
  - destruct (Hc s) as [[Hsx Hsy] Ls]; [simpl; auto|]. destruct (Hc a) as [[Hax Hay] La]; [simpl; auto|].
    destruct (Hc b) as [[Hbx Hby] Lb]; [simpl; auto 6|]. destruct (Hc e) as [[Hex Hey] Le]; [simpl; auto 6|].
    apply rows_telescope; try assumption. intro sg. unfold w_side. cbn [seg_start seg_end c0 c1 c2 c3].
    destruct (min_val (px s) (px e) Hsx Hex) as [Omin Vmin]. destruct (max_val (px s) (px e) Hsx Hex) as [Omax Vmax].
    destruct (min_val _ (px a) Omin Hax) as [Omin2 Vmin2]. destruct (max_val _ (px a) Omax Hax) as [Omax2 Vmax2].
    destruct (min_val _ (px b) Omin2 Hbx) as [Omin3 Vmin3]. destruct (max_val _ (px b) Omax2 Hbx) as [Omax3 Vmax3].
    rewrite ltb_val, leb_val by assumption. rewrite Vmin3, Vmax3, Vmin2, Vmax2, Vmin, Vmax.
    destruct (Rltb_spec (val (px p)) (Rmin (Rmin (Rmin (val (px s)) (val (px e))) (val (px a))) (val (px b)))); [exfalso; minmax|].
    destruct (Rleb_spec (Rmax (Rmax (Rmax (val (px s)) (val (px e))) (val (px a))) (val (px b))) (val (px p))); [reflexivity|exfalso; minmax].
Qed.

Lemma chain_sum_right_order (fx : bool) (p : Point T) : ok_pt p ->
  forall (ps : list (PathSeg T)) (a b : Point T),
  chain_from_to a ps b ->
  (forall s c, In s ps -> In c (seg_ctrl_g s) -> ok_pt c /\ val (px c) <= val (px p)) ->
  sum_Z (map (fun s => winding_inner_gen fx s p) ps) = (above_g p a - above_g p b)%Z.
Proof.
  intro Hp. induction ps as [|s r IH]; intros a b Hc Hr; simpl in Hc.
  - subst. cbn. lia.
  - destruct Hc as [Hs Hc]. simpl. rewrite sum_Z_cons.
    rewrite (IH _ _ Hc) by (intros s' c Hin; apply Hr; simpl; auto).
    rewrite piece_right_of_all_order by (try assumption; intros c Hin; apply (Hr s); simpl; auto).
    rewrite Hs. lia.
Qed.

Lemma closed_chain_outside_zero_order (fx : bool) (ps : list (PathSeg T)) (p : Point T) :
  ok_pt p -> closed_chain ps ->
  (forall s c, In s ps -> In c (seg_ctrl_g s) -> ok_pt c /\ val (px c) <= val (px p)) ->
  sum_Z (map (fun s => winding_inner_gen fx s p) ps) = 0%Z.
Proof.
  intros Hp Hc Hr. destruct ps as [|s r]; [reflexivity|].
  unfold closed_chain in Hc. rewrite (chain_sum_right_order fx p Hp _ _ _ Hc Hr). lia.
Qed.

(** ** chains up to value equality (binary64: +0 and -0 are the same value), and closed polygons *)
Hypothesis eqb_val : forall x y, ok x -> ok y -> feqb x y = Reqb (val x) (val y).

Definition same_pt (a b : Point T) : Prop := val (px a) = val (px b) /\ val (py a) = val (py b).

Lemma above_same (p a b : Point T) : ok_pt p -> ok_pt a -> ok_pt b -> same_pt a b -> above_g p a = above_g p b.
Proof.
  intros [_ Hp] [_ Ha] [_ Hb] [_ E]. unfold above_g. rewrite !ltb_val by assumption. rewrite E. reflexivity.
Qed.

Fixpoint chain_same (a : Point T) (ps : list (PathSeg T)) (b : Point T) : Prop :=
  match ps with
  | [] => same_pt a b
  | s :: r => same_pt (seg_start s) a /\ chain_same (seg_end s) r b
  end.

Definition seg_ok (s : PathSeg T) : Prop := forall c, In c (seg_ctrl_g s) -> ok_pt c.
Lemma seg_ok_ends (s : PathSeg T) : seg_ok s -> ok_pt (seg_start s) /\ ok_pt (seg_end s).
Proof. intro Hk. destruct s; split; apply Hk; simpl; auto 6. Qed.

Lemma chain_same_sum_right (fx : bool) (p : Point T) : ok_pt p ->
  forall (ps : list (PathSeg T)) (a b : Point T), ok_pt a -> ok_pt b ->
  chain_same a ps b ->
  (forall s c, In s ps -> In c (seg_ctrl_g s) -> ok_pt c /\ val (px c) <= val (px p)) ->
  sum_Z (map (fun s => winding_inner_gen fx s p) ps) = (above_g p a - above_g p b)%Z.
Proof.
  intro Hp. induction ps as [|s r IH]; intros a b Ha Hb Hc Hr; simpl in Hc.
  - cbn. rewrite (above_same p a b) by assumption. lia.
  - destruct Hc as [Hs Hc]. simpl. rewrite sum_Z_cons.
    assert (Hok : seg_ok s) by (intros c Hin; apply (Hr s c); simpl; auto).
    destruct (seg_ok_ends s Hok) as [Os Oe].
    rewrite (IH _ _ Oe Hb Hc) by (intros s' c Hin; apply Hr; simpl; auto).
    rewrite piece_right_of_all_order by (try assumption; intros c Hin; apply (Hr s); simpl; auto).
    rewrite (above_same p (seg_start s) a) by assumption. lia.
Qed.

(* the segments of [MoveTo v0; LineTo v1; ...; ClosePath], any scalar instance *)
Fixpoint lines_from_g (prev : Point T) (vs : list (Point T)) : list (PathSeg T) :=
  match vs with
  | [] => []
  | v :: r => SegLine (mkLine prev v) :: lines_from_g v r
  end.
Fixpoint last_pt_g (prev : Point T) (vs : list (Point T)) : Point T :=
  match vs with
  | [] => prev
  | v :: r => last_pt_g v r
  end.
Definition polygon_els_g (v0 : Point T) (vs : list (Point T)) : list (PathEl T) :=
  MoveTo v0 :: map (@LineTo T) vs ++ [ClosePath].
Definition closing_edge_g (v0 last : Point T) : list (PathSeg T) :=
  if pt_neb last v0 then [SegLine (mkLine last v0)] else [].

Lemma segs_from_lines_g : forall (vs : list (Point T)) (start prev : Point T) (rest : list (PathEl T)),
  segs_from (Some (start, prev)) (map (@LineTo T) vs ++ rest) =
  option_map (app (lines_from_g prev vs)) (segs_from (Some (start, last_pt_g prev vs)) rest).
Proof.
  induction vs as [|v r IH]; intros start prev rest; simpl.
  - destruct (segs_from _ rest); reflexivity.
  - rewrite IH. destruct (segs_from _ rest); reflexivity.
Qed.

Lemma segments_polygon_g (v0 : Point T) (vs : list (Point T)) :
  segments (polygon_els_g v0 vs) = Some (lines_from_g v0 vs ++ closing_edge_g v0 (last_pt_g v0 vs)).
Proof.
  unfold segments, polygon_els_g. cbn [segs_from seg_step el_end].
  rewrite segs_from_lines_g. cbn [segs_from seg_step el_end]. unfold closing_edge_g.
  destruct (pt_neb _ _); reflexivity.
Qed.

Lemma same_refl (a : Point T) : same_pt a a. Proof. split; reflexivity. Qed.

Lemma lines_from_chain_g : forall (vs : list (Point T)) (prev b : Point T),
  same_pt (last_pt_g prev vs) b -> chain_same prev (lines_from_g prev vs) b.
Proof.
  induction vs as [|v r IH]; intros prev b Hb; simpl; [exact Hb|]. split; [apply same_refl|apply IH; exact Hb].
Qed.

Lemma chain_same_app : forall (l1 l2 : list (PathSeg T)) (a b c : Point T),
  chain_same a l1 b -> (forall x, same_pt x b -> chain_same x l2 c) -> chain_same a (l1 ++ l2) c.
Proof.
  induction l1 as [|s r IH]; intros l2 a b c H1 H2; simpl in *.
  - apply H2. exact H1.
  - destruct H1 as [Hs H1]. split; [exact Hs|]. eapply IH; eassumption.
Qed.

Lemma last_pt_g_in : forall (vs : list (Point T)) (prev : Point T), In (last_pt_g prev vs) (prev :: vs).
Proof. induction vs as [|v r IH]; intro prev; simpl; [auto|]. right. apply (IH v). Qed.

Lemma lines_from_g_ctrl : forall (vs : list (Point T)) (prev : Point T) (s : PathSeg T) (c : Point T),
  In s (lines_from_g prev vs) -> In c (seg_ctrl_g s) -> In c (prev :: vs).
Proof.
  induction vs as [|v r IH]; intros prev s c Hs Hc; simpl in Hs; [contradiction|].
  destruct Hs as [<-|Hs].
  - simpl in Hc. destruct Hc as [<-|[<-|[]]]; simpl; auto.
  - right. apply (IH v s c Hs Hc).
Qed.

Lemma lines_from_g_are_lines : forall (vs : list (Point T)) (prev : Point T) (s : PathSeg T),
  In s (lines_from_g prev vs) -> exists l, s = SegLine l.
Proof.
  induction vs as [|v r IH]; intros prev s Hs; simpl in Hs; [contradiction|].
  destruct Hs as [<-|Hs]; [eexists; reflexivity|apply (IH v s Hs)].
Qed.

Lemma segs_winding_lines (segs : list (PathSeg T)) (p : Point T) :
  (forall s, In s segs -> exists l, s = SegLine l) ->
  segs_winding_gen true segs p = sum_Z (map (fun s => winding_inner_gen true s p) segs).
Proof.
  intro Hl. unfold segs_winding_gen. apply sum_Z_map_ext. intros s Hs. destruct (Hl s Hs) as [l ->].
  unfold seg_winding_gen, w_pieces_gen, w_extrema_ranges. cbn. lia.
Qed.

(** closed polygon, all coordinates ok, p ok with every vertex abscissa <= p.x: the model returns 0 *)
Lemma polygon_outside_right_zero_order (v0 : Point T) (vs : list (Point T)) (p : Point T) :
  ok_pt p -> (forall v, In v (v0 :: vs) -> ok_pt v /\ val (px v) <= val (px p)) ->
  path_winding_gen true (polygon_els_g v0 vs) p = Some 0%Z.
Proof.
  intros Hp Hv. unfold path_winding_gen. rewrite segments_polygon_g. f_equal.
  set (last := last_pt_g v0 vs).
  assert (Hlast : In last (v0 :: vs)) by apply last_pt_g_in.
  assert (Ov0 : ok_pt v0) by (apply Hv; simpl; auto).
  assert (Olast : ok_pt last) by (apply Hv; exact Hlast).
  assert (Hctrl : forall s c, In s (lines_from_g v0 vs ++ closing_edge_g v0 last) -> In c (seg_ctrl_g s) -> In c (v0 :: vs)).
  { intros s c Hs Hc. apply in_app_or in Hs. destruct Hs as [Hs|Hs]; [eapply lines_from_g_ctrl; eassumption|].
    unfold closing_edge_g in Hs. destruct (pt_neb last v0); [|contradiction].
    destruct Hs as [<-|[]]. simpl in Hc. destruct Hc as [<-|[<-|[]]]; [exact Hlast|simpl; auto]. }
  rewrite segs_winding_lines.
  - rewrite (chain_same_sum_right true p Hp _ v0 v0 Ov0 Ov0).
    + lia.
    + apply (chain_same_app _ _ v0 last v0); [apply lines_from_chain_g; apply same_refl|].
      intros x Hx. unfold closing_edge_g. destruct (pt_neb last v0) eqn:E; simpl.
      * split; [split; symmetry; apply Hx|apply same_refl].
      * (* last == v0 under the scalar's equality: the same values *)
        unfold pt_neb, pt_eqb in E. apply negb_false_iff, andb_true_iff in E. destruct E as [E1 E2].
        destruct Olast as [Olx Oly], Ov0 as [Ovx Ovy].
        rewrite eqb_val in E1, E2 by assumption. apply Reqb_true in E1, E2.
        destruct Hx as [X1 X2]. split; congruence.
    + intros s c Hs Hc. apply Hv. eapply Hctrl; eassumption.
  - intros s Hs. apply in_app_or in Hs. destruct Hs as [Hs|Hs]; [eapply lines_from_g_are_lines; exact Hs|].
    unfold closing_edge_g in Hs. destruct (pt_neb last v0); [|contradiction]. destruct Hs as [<-|[]]. eexists; reflexivity.
Qed.

End OrderEmbedding.
