(** C06 on binary64 itself: evaluation of the [F64] instance of model/Curves.v at the parameters 0 and 1.
    No rounding error occurs on these paths for quadratics and cubics (multiplications by 1 and by a zero,
    additions of a zero), but an intermediate product [p*2] / [p*3] may overflow, after which
    [inf * 0 = NaN]: the guards below are exactly the finiteness of those products. *)
From Coq Require Import ZArith Reals List Bool Floats Lra Lia.
From Flocq Require Import Core.Zaux Core.Raux Core.Defs Core.Generic_fmt Core.FLT Core.Float_prop Core.Ulp
  IEEE754.BinarySingleNaN IEEE754.PrimFloat.
From KV Require Import Scalar RInst F64 Geom Curves F64_exact.
Local Open Scope R_scope.

(** [agree1 r a]: the computed coordinate [r] is finite, numerically equal to the stored one, and the same
    binary64 number bit for bit — except that a stored -0 may come back as +0. *)
Definition agree1 (r a : pfloat) : Prop :=
  ffin r /\ F.same r a = true /\ (r = a \/ (a = (-0)%float /\ r = 0%float)).
Definition pt_agree (p s : Point pfloat) : Prop := agree1 (px p) (px s) /\ agree1 (py p) (py s).

Lemma val_agree r a : ffin r -> ffin a -> fv r = fv a -> F.same r a = true /\ (fv a <> 0 -> r = a).
Proof. intros Fr Fa E. split; [apply fv_same; assumption|intro Z; apply fv_inj; assumption]. Qed.

(** the last operation of every evaluation at 0 or 1 is [a' + z] or [z + a'] with [z] a zero and [a'] the
    stored coordinate (possibly after multiplications by 1, which are exact including the sign) *)
Lemma mul_one_exact a : ffin a -> (a * 1)%float = a.
Proof.
  intros Fa. destruct (mul_one_fv a Fa) as [F V].
  destruct (Req_dec (fv a) 0) as [Z|Z].
  - destruct (zero_cases a Fa Z) as [->| ->]; reflexivity.
  - apply fv_inj; assumption.
Qed.
Lemma add_zero_r_agree a z : ffin a -> ffin z -> fv z = 0 -> agree1 (a + z)%float a.
Proof.
  intros Fa Fz Z. destruct (add_zero_r_fv a z Fa Fz Z) as [F V].
  split; [exact F|]. split; [apply fv_same; assumption|].
  destruct (Req_dec (fv a) 0) as [Za|Za].
  - destruct (zero_cases a Fa Za) as [->| ->]; destruct (zero_cases z Fz Z) as [->| ->]; vm_compute; auto.
  - left. apply fv_inj; assumption.
Qed.
Lemma add_zero_l_agree z a : ffin a -> ffin z -> fv z = 0 -> agree1 (z + a)%float a.
Proof.
  intros Fa Fz Z. destruct (add_zero_l_fv z a Fa Fz Z) as [F V].
  split; [exact F|]. split; [apply fv_same; assumption|].
  destruct (Req_dec (fv a) 0) as [Za|Za].
  - destruct (zero_cases a Fa Za) as [->| ->]; destruct (zero_cases z Fz Z) as [->| ->]; vm_compute; auto.
  - left. apply fv_inj; assumption.
Qed.
Lemma agree1_fv r a : ffin a -> agree1 r a -> ffin r /\ fv r = fv a.
Proof.
  intros Fa (F & _ & [->|[-> ->]]); split; try assumption; reflexivity.
Qed.
(** agreement composes: [r ~ a'] and [a' ~ a] *)
Lemma agree1_trans r b a : agree1 r b -> agree1 b a -> agree1 r a.
Proof.
  intros (Fr & Sr & Hr) (Fb & Sb & Hb). split; [exact Fr|].
  destruct Hr as [->|[-> ->]].
  - split; assumption.
  - destruct Hb as [<-|[-> E]].
    + split; [exact Sr|]. right. split; reflexivity.
    + apply (f_equal PrimFloat.get_sign) in E. vm_compute in E. discriminate E.
Qed.

(** * the scalar expressions of the model, one coordinate at a time (float_scope) *)
Definition line1 (a b t : pfloat) : pfloat := (a + (b - a) * t)%float.
Definition quad1 (a b c t : pfloat) : pfloat :=
  let mt := (1 - t)%float in (a * (mt * mt) + (b * (mt * 2) + c * t) * t)%float.
Definition cubic1 (a b c d t : pfloat) : pfloat :=
  let mt := (1 - t)%float in
  (a * (mt * mt * mt) + (b * (mt * mt * 3) + (c * (mt * 3) + d * t) * t) * t)%float.

Lemma line_eval_coords (l : Line pfloat) t :
  line_eval l t = mkPoint (line1 (px (l0 l)) (px (l1 l)) t) (line1 (py (l0 l)) (py (l1 l)) t).
Proof. reflexivity. Qed.
Lemma quad_eval_coords (q : QuadBez pfloat) t :
  quad_eval q t = mkPoint (quad1 (px (q0 q)) (px (q1 q)) (px (q2 q)) t) (quad1 (py (q0 q)) (py (q1 q)) (py (q2 q)) t).
Proof. reflexivity. Qed.
Lemma cubic_eval_coords (c : CubicBez pfloat) t :
  cubic_eval c t = mkPoint (cubic1 (px (c0 c)) (px (c1 c)) (px (c2 c)) (px (c3 c)) t)
                           (cubic1 (py (c0 c)) (py (c1 c)) (py (c2 c)) (py (c3 c)) t).
Proof. reflexivity. Qed.

(** the constants fold: 1 - 0 = 1, 1 - 1 = +0 *)
Lemma quad1_at0 a b c : quad1 a b c f0 = (a * 1 + (b * 2 + c * 0) * 0)%float. Proof. reflexivity. Qed.
Lemma quad1_at1 a b c : quad1 a b c f1 = (a * 0 + (b * 0 + c * 1) * 1)%float. Proof. reflexivity. Qed.
Lemma cubic1_at0 a b c d : cubic1 a b c d f0 = (a * 1 + (b * 3 + (c * 3 + d * 0) * 0) * 0)%float. Proof. reflexivity. Qed.
Lemma cubic1_at1 a b c d : cubic1 a b c d f1 = (a * 0 + (b * 0 + (c * 0 + d * 1) * 1) * 1)%float. Proof. reflexivity. Qed.
Lemma line1_at0 a b : line1 a b f0 = (a + (b - a) * 0)%float. Proof. reflexivity. Qed.
Lemma line1_at1 a b : line1 a b f1 = (a + (b - a) * 1)%float. Proof. reflexivity. Qed.

Lemma ffin_0 : ffin 0%float. Proof. reflexivity. Qed.
Lemma ffin_1 : ffin 1%float. Proof. reflexivity. Qed.

(** * quadratics *)
Lemma quad1_start a b c : ffin a -> ffin b -> ffin c -> ffin (b * 2)%float -> agree1 (quad1 a b c f0) a.
Proof.
  intros Fa Fb Fc Fb2. rewrite quad1_at0.
  destruct (mul_zero_fv c 0%float Fc ffin_0 fv_0) as [F1 V1].
  destruct (add_zero_r_fv _ _ Fb2 F1 V1) as [F2 V2].
  destruct (mul_zero_fv _ 0%float F2 ffin_0 fv_0) as [F3 V3].
  rewrite (mul_one_exact a Fa). apply add_zero_r_agree; assumption.
Qed.
Lemma quad1_end a b c : ffin a -> ffin b -> ffin c -> agree1 (quad1 a b c f1) c.
Proof.
  intros Fa Fb Fc. rewrite quad1_at1.
  destruct (mul_zero_fv a 0%float Fa ffin_0 fv_0) as [F1 V1].
  destruct (mul_zero_fv b 0%float Fb ffin_0 fv_0) as [F2 V2].
  rewrite (mul_one_exact c Fc).
  pose proof (add_zero_l_agree _ c Fc F2 V2) as A1.
  destruct (agree1_fv _ _ Fc A1) as [F3 V3].
  rewrite (mul_one_exact _ F3).
  eapply agree1_trans; [|exact A1].
  apply add_zero_l_agree; assumption.
Qed.

(** * cubics *)
Lemma cubic1_start a b c d : ffin a -> ffin b -> ffin c -> ffin d -> ffin (b * 3)%float -> ffin (c * 3)%float ->
  agree1 (cubic1 a b c d f0) a.
Proof.
  intros Fa Fb Fc Fd Fb3 Fc3. rewrite cubic1_at0.
  destruct (mul_zero_fv d 0%float Fd ffin_0 fv_0) as [F1 V1].
  destruct (add_zero_r_fv _ _ Fc3 F1 V1) as [F2 V2].
  destruct (mul_zero_fv _ 0%float F2 ffin_0 fv_0) as [F3 V3].
  destruct (add_zero_r_fv _ _ Fb3 F3 V3) as [F4 V4].
  destruct (mul_zero_fv _ 0%float F4 ffin_0 fv_0) as [F5 V5].
  rewrite (mul_one_exact a Fa). apply add_zero_r_agree; assumption.
Qed.
Lemma cubic1_end a b c d : ffin a -> ffin b -> ffin c -> ffin d -> agree1 (cubic1 a b c d f1) d.
Proof.
  intros Fa Fb Fc Fd. rewrite cubic1_at1.
  destruct (mul_zero_fv a 0%float Fa ffin_0 fv_0) as [F1 V1].
  destruct (mul_zero_fv b 0%float Fb ffin_0 fv_0) as [F2 V2].
  destruct (mul_zero_fv c 0%float Fc ffin_0 fv_0) as [F3 V3].
  rewrite (mul_one_exact d Fd).
  pose proof (add_zero_l_agree _ d Fd F3 V3) as A1.
  destruct (agree1_fv _ _ Fd A1) as [F4 V4].
  rewrite (mul_one_exact _ F4).
  pose proof (add_zero_l_agree _ _ F4 F2 V2) as A2.
  destruct (agree1_fv _ _ F4 A2) as [F5 V5].
  rewrite (mul_one_exact _ F5).
  eapply agree1_trans; [|exact A1]. eapply agree1_trans; [|exact A2].
  apply add_zero_l_agree; assumption.
Qed.

(** * lines: a + (b - a) * t *)
Lemma line1_start a b : ffin a -> ffin b -> ffin (b - a)%float -> agree1 (line1 a b f0) a.
Proof.
  intros Fa Fb Fd. rewrite line1_at0.
  destruct (mul_zero_fv _ 0%float Fd ffin_0 fv_0) as [F1 V1].
  apply add_zero_r_agree; assumption.
Qed.

(** at 1 the line recomputes its end point with two roundings: exactly [rnd (a + rnd (b - a))] *)
Lemma line1_end_exact a b : ffin a -> ffin b -> ffin (b - a)%float -> ffin (line1 a b f1) ->
  fv (line1 a b f1) = rnd64 (fv a + rnd64 (fv b - fv a)).
Proof.
  intros Fa Fb Fd Fr. rewrite line1_at1 in *. rewrite (mul_one_exact _ Fd) in *.
  rewrite (add_fin_inv a _ Fa Fd Fr), (sub_fin_inv b a Fb Fa Fd). reflexivity.
Qed.
(** hence within half an ulp of the difference plus half an ulp of the sum of the stored end point *)
Lemma line1_end_err a b : ffin a -> ffin b -> ffin (b - a)%float -> ffin (line1 a b f1) ->
  Rabs (fv (line1 a b f1) - fv b) <=
    / 2 * ulp64 (fv b - fv a) + / 2 * ulp64 (fv a + fv (b - a)%float).
Proof.
  intros Fa Fb Fd Fr. rewrite (line1_end_exact a b Fa Fb Fd Fr).
  rewrite (sub_fin_inv b a Fb Fa Fd).
  set (d := rnd64 (fv b - fv a)).
  replace (rnd64 (fv a + d) - fv b) with ((rnd64 (fv a + d) - (fv a + d)) + (d - (fv b - fv a))) by ring.
  eapply Rle_trans; [apply Rabs_triang|].
  pose proof (rnd_err (fv a + d)). pose proof (rnd_err (fv b - fv a)). fold d in H0. lra.
Qed.
(** when the difference b - a is representable (e.g. Sterbenz: b/2 <= a <= 2b; or coordinates on a common
    grid such as integers below 2^53), the recomputed end point is the stored one *)
Lemma line1_end_exact_diff a b : ffin a -> ffin b ->
  generic_format radix2 fexp64 (fv b - fv a) -> Rabs (fv b - fv a) < big ->
  let r := line1 a b f1 in
  ffin r /\ F.same r b = true /\ (PrimFloat.is_zero b = false -> r = b).
Proof.
  intros Fa Fb G Hd r. unfold r. rewrite line1_at1.
  destruct (sub_fv b a Fb Fa) as [Fd Vd]; [rewrite (rnd_id _ G); exact Hd|].
  rewrite (rnd_id _ G) in Vd. rewrite (mul_one_exact _ Fd).
  assert (E : rnd64 (fv a + fv (b - a)%float) = fv b).
  { rewrite Vd. replace (fv a + (fv b - fv a)) with (fv b) by ring. apply rnd_id, fv_format. }
  destruct (add_fv a (b - a)%float Fa Fd) as [Fr Vr]; [rewrite E; apply fv_lt_big|].
  rewrite E in Vr. split; [exact Fr|]. split; [apply fv_same; assumption|].
  intros Z. apply fv_inj; try assumption. intro Z0. apply (fv_zero_iff b Fb) in Z0. congruence.
Qed.

(** * the statements about the model *)
Definition pt_fin (p : Point pfloat) : Prop := ffin (px p) /\ ffin (py p).
Definition pt_small (p : Point pfloat) : Prop := small (px p) /\ small (py p).
Lemma pt_small_fin p : pt_small p -> pt_fin p.
Proof. intros [A B]. split; apply small_spec; assumption. Qed.

Lemma quad_eval_start (q : QuadBez pfloat) :
  pt_fin (q0 q) -> pt_fin (q1 q) -> pt_fin (q2 q) ->
  ffin (px (q1 q) * 2)%float -> ffin (py (q1 q) * 2)%float ->
  pt_agree (quad_eval q f0) (q0 q).
Proof.
  intros [A1 A2] [B1 B2] [C1 C2] G1 G2. rewrite quad_eval_coords. split; cbn [px py]; apply quad1_start; assumption.
Qed.
Lemma quad_eval_end (q : QuadBez pfloat) :
  pt_fin (q0 q) -> pt_fin (q1 q) -> pt_fin (q2 q) -> pt_agree (quad_eval q f1) (q2 q).
Proof.
  intros [A1 A2] [B1 B2] [C1 C2]. rewrite quad_eval_coords. split; cbn [px py]; apply quad1_end; assumption.
Qed.
Lemma cubic_eval_start (c : CubicBez pfloat) :
  pt_fin (c0 c) -> pt_fin (c1 c) -> pt_fin (c2 c) -> pt_fin (c3 c) ->
  ffin (px (c1 c) * 3)%float -> ffin (py (c1 c) * 3)%float ->
  ffin (px (c2 c) * 3)%float -> ffin (py (c2 c) * 3)%float ->
  pt_agree (cubic_eval c f0) (c0 c).
Proof.
  intros [A1 A2] [B1 B2] [C1 C2] [D1 D2] G1 G2 G3 G4. rewrite cubic_eval_coords.
  split; cbn [px py]; apply cubic1_start; assumption.
Qed.
Lemma cubic_eval_end (c : CubicBez pfloat) :
  pt_fin (c0 c) -> pt_fin (c1 c) -> pt_fin (c2 c) -> pt_fin (c3 c) -> pt_agree (cubic_eval c f1) (c3 c).
Proof.
  intros [A1 A2] [B1 B2] [C1 C2] [D1 D2]. rewrite cubic_eval_coords.
  split; cbn [px py]; apply cubic1_end; assumption.
Qed.
Lemma line_eval_start (l : Line pfloat) :
  pt_fin (l0 l) -> pt_fin (l1 l) ->
  ffin (px (l1 l) - px (l0 l))%float -> ffin (py (l1 l) - py (l0 l))%float ->
  pt_agree (line_eval l f0) (l0 l).
Proof.
  intros [A1 A2] [B1 B2] G1 G2. rewrite line_eval_coords. split; cbn [px py]; apply line1_start; assumption.
Qed.

Definition line_end_bound (a b r : pfloat) : Prop :=
  fv r = rnd64 (fv a + rnd64 (fv b - fv a)) /\
  Rabs (fv r - fv b) <= / 2 * ulp64 (fv b - fv a) + / 2 * ulp64 (fv a + fv (b - a)%float).

Lemma line_eval_end (l : Line pfloat) :
  pt_fin (l0 l) -> pt_fin (l1 l) ->
  ffin (px (l1 l) - px (l0 l))%float -> ffin (py (l1 l) - py (l0 l))%float ->
  pt_fin (line_eval l f1) ->
  line_end_bound (px (l0 l)) (px (l1 l)) (px (line_eval l f1)) /\
  line_end_bound (py (l0 l)) (py (l1 l)) (py (line_eval l f1)).
Proof.
  intros [A1 A2] [B1 B2] G1 G2. rewrite line_eval_coords. cbn [px py]. intros [R1 R2].
  split; (split; [apply line1_end_exact|apply line1_end_err]); assumption.
Qed.

(** uniform guard: every control coordinate of magnitude at most 2^1022 *)
Definition seg_small (s : PathSeg pfloat) : Prop :=
  match s with
  | SegLine l => pt_small (l0 l) /\ pt_small (l1 l)
  | SegQuad q => pt_small (q0 q) /\ pt_small (q1 q) /\ pt_small (q2 q)
  | SegCubic c => pt_small (c0 c) /\ pt_small (c1 c) /\ pt_small (c2 c) /\ pt_small (c3 c)
  end.

Lemma seg_eval_start_small (s : PathSeg pfloat) : seg_small s -> pt_agree (seg_eval s f0) (seg_start s).
Proof.
  destruct s as [l|q|c]; cbn [seg_small seg_eval seg_start].
  - intros [A B]. apply line_eval_start; try (apply pt_small_fin; assumption);
      apply small_sub; first [apply A|apply B].
  - intros (A & B & C). apply quad_eval_start; try (apply pt_small_fin; assumption); apply small_mul2; apply B.
  - intros (A & B & C & D). apply cubic_eval_start; try (apply pt_small_fin; assumption); apply small_mul3;
      first [apply B|apply C].
Qed.
Lemma seg_eval_end_small (s : PathSeg pfloat) : seg_small s ->
  match s with
  | SegLine l => pt_fin (line_eval l f1) ->
      line_end_bound (px (l0 l)) (px (l1 l)) (px (line_eval l f1)) /\
      line_end_bound (py (l0 l)) (py (l1 l)) (py (line_eval l f1))
  | _ => pt_agree (seg_eval s f1) (seg_end s)
  end.
Proof.
  destruct s as [l|q|c]; cbn [seg_small seg_eval seg_end].
  - intros [A B]. apply line_eval_end; try (apply pt_small_fin; assumption);
      apply small_sub; first [apply A|apply B].
  - intros (A & B & C). apply quad_eval_end; apply pt_small_fin; assumption.
  - intros (A & B & C & D). apply cubic_eval_end; apply pt_small_fin; assumption.
Qed.

(** the accessors are the stored points, for any scalar *)
Lemma seg_accessors {T} `{Scalar T} (s : PathSeg T) :
  seg_start s = match s with SegLine l => l0 l | SegQuad q => q0 q | SegCubic c => c0 c end /\
  seg_end s = match s with SegLine l => l1 l | SegQuad q => q2 q | SegCubic c => c3 c end.
Proof. split; reflexivity. Qed.

(** the statements of Properties/C06_f64.v *)
Lemma vocabulary (r a x : pfloat) (p s : Point pfloat) :
  (agree1 r a <-> F.is_finite r = true /\ F.same r a = true /\ (r = a \/ (a = (-0)%float /\ r = 0%float))) /\
  (pt_agree p s <-> agree1 (px p) (px s) /\ agree1 (py p) (py s)) /\
  (pt_fin p <-> F.is_finite (px p) = true /\ F.is_finite (py p) = true) /\
  (small x <-> PrimFloat.leb (abs x) 0x1p+1022%float = true) /\
  (small x -> F.is_finite x = true /\ Rabs (B2R (Prim2B x)) <= bpow radix2 1022).
Proof.
  split; [reflexivity|]. split; [reflexivity|]. split; [reflexivity|]. split; [reflexivity|apply small_spec].
Qed.
Lemma quad_endpoints (q : QuadBez pfloat) :
  pt_fin (q0 q) -> pt_fin (q1 q) -> pt_fin (q2 q) ->
  (F.is_finite (px (q1 q) * 2) = true -> F.is_finite (py (q1 q) * 2) = true ->
   pt_agree (quad_eval q f0) (q0 q)) /\
  pt_agree (quad_eval q f1) (q2 q).
Proof.
  intros A B C. split; [intros; apply quad_eval_start; assumption|apply quad_eval_end; assumption].
Qed.
Lemma cubic_endpoints (c : CubicBez pfloat) :
  pt_fin (c0 c) -> pt_fin (c1 c) -> pt_fin (c2 c) -> pt_fin (c3 c) ->
  (F.is_finite (px (c1 c) * 3) = true -> F.is_finite (py (c1 c) * 3) = true ->
   F.is_finite (px (c2 c) * 3) = true -> F.is_finite (py (c2 c) * 3) = true ->
   pt_agree (cubic_eval c f0) (c0 c)) /\
  pt_agree (cubic_eval c f1) (c3 c).
Proof.
  intros A B C D. split; [intros; apply cubic_eval_start; assumption|apply cubic_eval_end; assumption].
Qed.
Lemma eval_endpoints_small (s : PathSeg pfloat) : seg_small s ->
  pt_agree (seg_eval s f0) (seg_start s) /\
  match s with
  | SegLine l => pt_fin (line_eval l f1) ->
      line_end_bound (px (l0 l)) (px (l1 l)) (px (line_eval l f1)) /\
      line_end_bound (py (l0 l)) (py (l1 l)) (py (line_eval l f1))
  | _ => pt_agree (seg_eval s f1) (seg_end s)
  end.
Proof. intros H. split; [apply seg_eval_start_small|apply seg_eval_end_small]; exact H. Qed.

(** * witnesses *)
Local Open Scope float_scope.
(** the guard is needed: a control coordinate of 2^1023 makes [quad_eval q 0] NaN (2^1023 * 2 = inf, inf * 0 = NaN) *)
Definition quad_overflow : QuadBez pfloat := mkQuad (mkPoint 1 2) (mkPoint 0x1p+1023 3) (mkPoint 5 6).
Lemma quad_overflow_nan : PrimFloat.is_nan (px (quad_eval quad_overflow f0)) = true /\ F.is_finite 0x1p+1023 = true.
Proof. vm_compute. split; reflexivity. Qed.
Definition cubic_overflow : CubicBez pfloat := mkCubic (mkPoint 1 2) (mkPoint 3 4) (mkPoint 0x1.8p+1022 3) (mkPoint 5 6).
Lemma cubic_overflow_nan : PrimFloat.is_nan (px (cubic_eval cubic_overflow f0)) = true /\ F.is_finite 0x1.8p+1022 = true.
Proof. vm_compute. split; reflexivity. Qed.
(** the sign of a stored -0 is not preserved *)
Definition quad_negzero : QuadBez pfloat := mkQuad (mkPoint (-0) 2) (mkPoint 1 3) (mkPoint 5 6).
Lemma quad_negzero_sign :
  px (quad_eval quad_negzero f0) = 0 /\ px (q0 quad_negzero) = (-0) /\
  F.same (px (quad_eval quad_negzero f0)) (px (q0 quad_negzero)) = true /\
  F.same_bits (px (quad_eval quad_negzero f0)) (px (q0 quad_negzero)) = false.
Proof. vm_compute. repeat split. Qed.
(** a line's recomputed end point is NOT within an ulp of the stored one in general: the error is an
    ulp of the larger operand *)
Definition line_cancel : Line pfloat := mkLine (mkPoint (-0x1p+53) 0) (mkPoint 1 1).
Lemma line_cancel_end : px (line_eval line_cancel f1) = 0 /\ px (l1 line_cancel) = 1.
Proof. vm_compute. split; reflexivity. Qed.
(** a generic instance of the hypotheses *)
Definition quad_generic : QuadBez pfloat :=
  mkQuad (mkPoint 0x1.46224eaf1c618p+2 (-0x1.ccd2fb85e49bcp+1)) (mkPoint (-0x1.2e6749bb92fdfp+3) 0x1.c2a3977252f2p+2)
         (mkPoint 0x1.f9bcdf3e52ab4p-1 (-0x1.7ee526e188c1ep+5)).
Definition cubic_generic : CubicBez pfloat :=
  mkCubic (mkPoint 0x1.46224eaf1c618p+2 (-0x1.ccd2fb85e49bcp+1)) (mkPoint (-0x1.2e6749bb92fdfp+3) 0x1.c2a3977252f2p+2)
          (mkPoint 0x1.f9bcdf3e52ab4p-1 (-0x1.7ee526e188c1ep+5)) (mkPoint 0x1p+1022 (-0x1.8p-1060)).
Definition line_generic : Line pfloat :=
  mkLine (mkPoint (-0x1.ba155f91877e2p+3) (-0x1.fe694597efae2p+3)) (mkPoint 0x1.279e628591116p-1 0x1.d4c2c60fd7e98p-3).
Lemma generic_small : seg_small (SegQuad quad_generic) /\ seg_small (SegCubic cubic_generic) /\ seg_small (SegLine line_generic) /\
  pt_fin (line_eval line_generic f1) /\
  PrimFloat.eqb (px (line_eval line_generic f1)) (px (l1 line_generic)) = false.
Proof. vm_compute. repeat split. Qed.
(** the exact-difference hypothesis is met by a non-trivial pair: 3 and 5 + 2^-50 *)
Lemma exact_diff_example :
  let a := 0x1.8p+1 in let b := 0x1.4000000000001p+2 in
  ffin a /\ ffin b /\ generic_format radix2 fexp64 (fv b - fv a)%R /\ (Rabs (fv b - fv a) < big)%R /\
  line1 a b f1 = b.
Proof.
  intros a b. split; [reflexivity|]. split; [reflexivity|].
  assert (E : (fv b - fv a)%R = fv 0x1.0000000000002p+1).
  { unfold fv, a, b. cbv -[IZR Rmult Rinv Rminus bpow]. unfold F2R. cbn. lra. }
  split; [rewrite E; apply fv_format|]. split; [rewrite E; apply fv_lt_big|]. vm_compute. reflexivity.
Qed.
