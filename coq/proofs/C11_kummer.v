(** C11: the truncated Gauss-Kummer series for the perimeter of an ellipse, and its remainder bound
    as [kummer_elliptic_perimeter_range] computes it. The series itself (a classical fact about
    elliptic integrals) is a Section hypothesis that stays in the statement. *)
From Coq Require Import ZArith QArith Reals List Bool Lra Lia Psatz.
From Interval Require Import Tactic.
From KV Require Import Scalar RInst Geom ShapeTypes ShapeQueries RTac.
Local Open Scope R_scope.

(** binomial(1/2, n) and its square *)
Fixpoint half_binom (n : nat) : R :=
  match n with
  | O => 1
  | S k => half_binom k * (1 / 2 - INR k) / INR (S k)
  end.
Definition kummer_coeff (n : nat) : R := half_binom n * half_binom n.

Lemma kummer_coeff_nonneg n : 0 <= kummer_coeff n.
Proof. unfold kummer_coeff. nra. Qed.

Lemma kummer_coeffs_0_6 :
  kummer_coeff 0 = 1 /\ kummer_coeff 1 = 1 / 4 /\ kummer_coeff 2 = 1 / 64 /\ kummer_coeff 3 = 1 / 256 /\
  kummer_coeff 4 = 25 / 16384 /\ kummer_coeff 5 = 49 / 65536 /\ kummer_coeff 6 = 441 / 1048576.
Proof. unfold kummer_coeff, half_binom. simpl INR. repeat split; field. Qed.

Definition S6 : R := 1 + 1 / 4 + 1 / 64 + 1 / 256 + 25 / 16384 + 49 / 65536 + 441 / 1048576.

(** the constant of the code, 0.00101416479131503, is 4/pi - S6 = 0.0010141647913150299... rounded up *)
Lemma binom_remainder_const :
  4 / PI - S6 <= 101416479131503 / 100000000000000000 /\
  101416479131503 / 100000000000000000 <= 4 / PI - S6 + 1 / 1000000000000000000.
Proof. unfold S6. split; interval with (i_prec 120). Qed.

Section Kummer.
Variables x y P : R.
Hypothesis Hx : 0 < x.
Hypothesis Hy : 0 < y.
Let h := ((x - y) / (x + y)) * ((x - y) / (x + y)).
(** Gauss-Kummer: P = pi (x + y) sum_n binom(1/2,n)^2 h^n, and the value of the series at h = 1 *)
Hypothesis gauss_kummer : infinite_sum (fun n => kummer_coeff n * h ^ n) (P / (PI * (x + y))).
Hypothesis kummer_total : infinite_sum kummer_coeff (4 / PI).

Lemma h_range : 0 <= h < 1.
Proof.
  unfold h. set (q := (x - y) / (x + y)).
  assert (-1 < q < 1).
  { unfold q. split.
    - apply (Rmult_lt_reg_r (x + y)); [lra|]. unfold Rdiv. rewrite Rmult_assoc, Rinv_l by lra. lra.
    - apply (Rmult_lt_reg_r (x + y)); [lra|]. unfold Rdiv. rewrite Rmult_assoc, Rinv_l by lra. lra. }
  split; nra.
Qed.

Let f (n : nat) := kummer_coeff n * h ^ n.

Lemma f_nonneg n : 0 <= f n.
Proof. unfold f. pose proof (kummer_coeff_nonneg n). pose proof (pow_le h n (proj1 h_range)). nra. Qed.

Lemma sum_mono (g : nat -> R) : (forall n, 0 <= g n) -> forall N M, (N <= M)%nat -> sum_f_R0 g N <= sum_f_R0 g M.
Proof.
  intros Hg N M Hle. induction Hle; [lra|]. simpl. pose proof (Hg (S m)). lra.
Qed.

Lemma tail_bound N :
  sum_f_R0 f (7 + N) - sum_f_R0 f 6 <= h ^ 7 * (sum_f_R0 kummer_coeff (7 + N) - sum_f_R0 kummer_coeff 6).
Proof.
  induction N.
  - replace (7 + 0)%nat with 7%nat by lia. rewrite (tech5 f 6), (tech5 kummer_coeff 6). unfold f. lra.
  - replace (7 + S N)%nat with (S (7 + N)) by lia. rewrite (tech5 f (7 + N)), (tech5 kummer_coeff (7 + N)).
    assert (f (S (7 + N)) <= h ^ 7 * kummer_coeff (S (7 + N))).
    { unfold f. replace (S (7 + N)) with (7 + S N)%nat by lia. rewrite pow_add.
      pose proof (kummer_coeff_nonneg (7 + S N)). pose proof (pow_le h 7 (proj1 h_range)).
      assert (h ^ S N <= 1) by (rewrite <- (pow1 (S N)); apply pow_incr; pose proof h_range; lra).
      pose proof (pow_le h (S N) (proj1 h_range)).
      assert (0 <= kummer_coeff (7 + S N) * h ^ 7) by nra. nra. }
    set (M := (7 + N)%nat) in *. clearbody M. lra.
Qed.

Lemma partial_le_total N : sum_f_R0 kummer_coeff N <= 4 / PI.
Proof. apply sum_incr; [exact kummer_total|apply kummer_coeff_nonneg]. Qed.

Lemma sum6_f :
  sum_f_R0 f 6 = 1 + h / 4 + h * h / 64 + h * h * h / 256 + h * h * h * h * 25 / 16384
                 + h * h * h * h * h * 49 / 65536 + h * h * h * h * h * h * 441 / 1048576.
Proof.
  destruct kummer_coeffs_0_6 as (E0 & E1 & E2 & E3 & E4 & E5 & E6).
  simpl sum_f_R0. unfold f. rewrite E0, E1, E2, E3, E4, E5, E6. simpl pow. field.
Qed.

Lemma sum6_b : sum_f_R0 kummer_coeff 6 = S6.
Proof.
  destruct kummer_coeffs_0_6 as (E0 & E1 & E2 & E3 & E4 & E5 & E6).
  simpl sum_f_R0. rewrite E0, E1, E2, E3, E4, E5, E6. unfold S6. ring.
Qed.

Lemma series_bounds :
  sum_f_R0 f 6 <= P / (PI * (x + y)) <= sum_f_R0 f 6 + h ^ 7 * (4 / PI - S6).
Proof.
  split.
  - apply sum_incr; [exact gauss_kummer|apply f_nonneg].
  - apply Rle_cv_lim with (Un := fun n => sum_f_R0 f n) (Vn := fun _ : nat => sum_f_R0 f 6 + h ^ 7 * (4 / PI - S6)).
    + intros N.
      apply Rle_trans with (sum_f_R0 f (7 + N)); [apply sum_mono; [apply f_nonneg|lia]|].
      pose proof (tail_bound N). pose proof (partial_le_total (7 + N)). rewrite sum6_b in *.
      pose proof (pow_le h 7 (proj1 h_range)). nra.
    + exact gauss_kummer.
    + intros eps Heps. exists 0%nat. intros n _. unfold R_dist. rewrite Rminus_diag_eq, Rabs_R0 by reflexivity. exact Heps.
Qed.

Lemma kummer_value :
  kummer_elliptic_perimeter (mkVec2 x y) = PI * (x + y) * sum_f_R0 f 6.
Proof.
  rewrite sum6_f. unfold kummer_elliptic_perimeter, kummer_h. cbn [vx vy]. rs_unfold. simpl powerRZ.
  fold h. unfold h. field. lra.
Qed.

Lemma kummer_range_value :
  kummer_elliptic_perimeter_range (mkVec2 x y)
  = PI * (101416479131503 / 100000000000000000) * h ^ 7 * (x + y).
Proof.
  unfold kummer_elliptic_perimeter_range, kummer_h, binom_squared_remainder. cbn [vx vy]. rs_unfold.
  cbv [Q2R Qnum Qden]. simpl powerRZ. unfold h. simpl pow. field. lra.
Qed.

(** the truncated series underestimates the perimeter, by at most the bound the code computes *)
Lemma kummer_remainder :
  let K := kummer_elliptic_perimeter (mkVec2 x y) in
  let Rg := kummer_elliptic_perimeter_range (mkVec2 x y) in
  0 <= P - K /\ P - K <= PI * (x + y) * h ^ 7 * (4 / PI - S6) /\
  PI * (x + y) * h ^ 7 * (4 / PI - S6) <= Rg /\ P - K <= Rg.
Proof.
  cbv zeta. rewrite kummer_value, kummer_range_value.
  pose proof PI_RGT_0 as Ppi. destruct series_bounds as [Lo Hi].
  destruct binom_remainder_const as [C1 C2].
  pose proof (pow_le h 7 (proj1 h_range)) as H7.
  assert (0 < PI * (x + y)) as Hs by nra.
  assert (P = PI * (x + y) * (P / (PI * (x + y)))) as EP by (field; lra).
  set (q := P / (PI * (x + y))) in *.
  set (A := sum_f_R0 f 6) in *. set (D := 4 / PI - S6) in *.
  set (C := 101416479131503 / 100000000000000000) in *.
  assert (0 <= PI * (x + y) * (q - A)) as B0 by nra.
  assert (PI * (x + y) * (q - A) <= PI * (x + y) * (h ^ 7 * D)) as B1 by (apply Rmult_le_compat_l; lra).
  assert (PI * (x + y) * (h ^ 7 * D) <= PI * (x + y) * (h ^ 7 * C)) as B2.
  { apply Rmult_le_compat_l; [lra|]. apply Rmult_le_compat_l; lra. }
  repeat split; lra.
Qed.

End Kummer.
