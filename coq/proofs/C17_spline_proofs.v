(** C17: the cu2qu port (approx_spline_n, approx_spline, cubics_to_quadratic_splines,
    QuadSpline::to_quads) — lemmas at the real instance. *)
From Coq Require Import ZArith QArith Reals List Bool Lra Lia Psatz.
From KV Require Import Scalar RInst Geom Curves ToQuads RTac C06_proofs C17_proofs.
Import ListNotations.
Local Open Scope R_scope.

(** * The spline search *)

Definition pdiff (p q : Point R) : Point R := mkPoint (px p - px q) (py p - py q).

(* the quadratic stays within [acc] of the cubic at every common parameter *)
Definition close_to (acc : R) (Q : QuadBez R) (C : CubicBez R) : Prop :=
  forall t, 0 <= t <= 1 -> within acc (pdiff (quad_eval Q t) (cubic_eval C t)).

(* the cubic that [approx_spline_n] hands to [fit_inside] is quadratic minus cubic *)
Lemma error_cubic_eval (cur : CubicBez R) (a b e : Point R) t :
  cubic_eval (mkCubic (to_point (pt_sub a (c0 cur)))
                      (pt_sub_v (pt_lerp a b two_thirds) (to_vec2 (c1 cur)))
                      (pt_sub_v (pt_lerp e b two_thirds) (to_vec2 (c2 cur)))
                      (to_point (v_sub (to_vec2 e) (to_vec2 (c3 cur))))) t
  = pdiff (quad_eval (mkQuad a b e) t) (cubic_eval cur t).
Proof.
  destruct cur as [[x0 y0] [x1 y1] [x2 y2] [x3 y3]], a as [ax ay], b as [bx by_], e as [ex ey].
  unfold pdiff. tq_unfold. f_equal; field.
Qed.

Lemma spline_check_sound fuel acc (cur : CubicBez R) (a b e : Point R) d0 d1 :
  spline_check fuel acc cur a b e d0 d1 = Some true ->
  d0 = pt_sub a (c0 cur) -> within acc (to_point d0) ->
  d1 = v_sub (to_vec2 e) (to_vec2 (c3 cur)) ->
  0 <= acc /\ within acc (to_point d1) /\ close_to acc (mkQuad a b e) cur.
Proof.
  intros Hc E0 W0 E1. unfold spline_check in Hc.
  destruct (v_hypot d1 >? acc)%S eqn:Eh; [discriminate|].
  apply hypot_not_gt_within in Eh. destruct Eh as [Ha W1].
  split; [exact Ha|]. split; [exact W1|].
  intros t Ht. rewrite <- error_cubic_eval. rewrite <- E0, <- E1.
  apply (fit_inside_sound fuel _ acc Hc); [exact W0 | exact W1 | exact Ht].
Qed.

(** the quadratics implied by the control points the loop pushes *)
Section SplineQuads.
Context {T : Type} `{Scalar T}.
Fixpoint spline_quads (a b : Point T) (tl : list (Point T)) (e : Point T) : list (QuadBez T) :=
  match tl with
  | [] => [mkQuad a b e]
  | nb :: tl' => let m := pt_midpoint b nb in mkQuad a b m :: spline_quads m nb tl' e
  end.

Lemma quads_from_false (tl : list (Point T)) : forall a b e,
  quadspline_quads_from false (a :: b :: tl ++ [e]) = spline_quads (pt_midpoint a b) b tl e.
Proof.
  induction tl as [|nb tl IH]; intros a b e.
  - reflexivity.
  - cbn [app spline_quads]. rewrite <- IH. cbn [quadspline_quads_from app].
    destruct (tl ++ [e]) eqn:E; [destruct tl; discriminate|]. reflexivity.
Qed.

Lemma quads_from_true (tl : list (Point T)) a b e :
  quadspline_to_quads (a :: b :: tl ++ [e]) = spline_quads a b tl e.
Proof.
  unfold quadspline_to_quads. destruct tl as [|nb tl].
  - reflexivity.
  - cbn [app spline_quads]. rewrite <- quads_from_false. cbn [quadspline_quads_from app].
    destruct (tl ++ [e]) eqn:E; [destruct tl; discriminate|]. reflexivity.
Qed.

Lemma spline_quads_length (tl : list (Point T)) : forall a b e, length (spline_quads a b tl e) = S (length tl).
Proof. induction tl; intros; cbn [spline_quads length]; [reflexivity | now rewrite IHtl]. Qed.
End SplineQuads.

Fixpoint chained (cur : CubicBez R) (rest : list (CubicBez R)) : Prop :=
  match rest with
  | [] => True
  | nxt :: r => c3 cur = c0 nxt /\ chained nxt r
  end.

Lemma spline_loop_sound fuel acc n : forall rest i cur a b d0 tl,
  spline_loop fuel acc n i cur rest a b d0 = Some (Some tl) ->
  d0 = pt_sub a (c0 cur) -> within acc (to_point d0) -> chained cur rest ->
  0 <= acc /\ length tl = length rest /\
  Forall2 (close_to acc) (spline_quads a b tl (c3 (last rest cur))) (cur :: rest).
Proof.
  induction rest as [|nxt rest IH]; intros i cur a b d0 tl Hl E0 W0 Hch.
  - cbn [spline_loop] in Hl.
    destruct (spline_check fuel acc cur a b (c3 cur) d0 _) as [[|]|] eqn:Ec; try discriminate.
    injection Hl as <-.
    destruct (spline_check_sound _ _ _ _ _ _ _ _ Ec E0 W0 eq_refl) as (Ha & _ & Hcl).
    cbn [last spline_quads length]. repeat split; [exact Ha|]. constructor; [exact Hcl | constructor].
  - cbn [spline_loop] in Hl.
    set (nb := approx_quad_control nxt _) in *.
    set (m := pt_midpoint b nb) in *.
    destruct (spline_check fuel acc cur a b m d0 _) as [[|]|] eqn:Ec; try discriminate.
    destruct (spline_loop fuel acc n (i + 1) nxt rest m nb _) as [[tl'|]|] eqn:El; try discriminate.
    injection Hl as <-.
    destruct (spline_check_sound _ _ _ _ _ _ _ _ Ec E0 W0 eq_refl) as (Ha & W1 & Hcl).
    destruct Hch as [Hj Hch].
    assert (E1 : v_sub (to_vec2 m) (to_vec2 (c3 cur)) = pt_sub m (c0 nxt)) by (rewrite Hj; reflexivity).
    destruct (IH _ _ _ _ _ _ El E1) as (_ & Hlen & Hall); [exact W1 | exact Hch |].
    split; [exact Ha|]. split; [cbn [length]; now rewrite Hlen|].
    cbn [spline_quads]. fold m. constructor; [exact Hcl|].
    replace (last (nxt :: rest) cur) with (last rest nxt); [exact Hall|].
    clear. revert nxt. induction rest; intros; [reflexivity|]. cbn [last] in *. destruct rest; auto.
Qed.

Lemma Forall2_nth_error {A B} (P : A -> B -> Prop) l1 : forall l2 i a,
  Forall2 P l1 l2 -> nth_error l1 i = Some a -> exists b, nth_error l2 i = Some b /\ P a b.
Proof.
  induction l1 as [|x l1 IH]; intros l2 i a HF Hn; [destruct i; discriminate|].
  inversion HF as [|? y ? l2' Hxy HF']; subst.
  destruct i as [|i]; cbn [nth_error] in *.
  - injection Hn as <-. eauto.
  - eapply IH; eauto.
Qed.

Lemma within_zero acc : within acc (mkPoint 0 0).
Proof. unfold within. cbn [px py]. pose proof (Rle_0_sqr acc). unfold Rsqr in *. lra. Qed.

Lemma fit_inside_true_nonneg fuel (c : CubicBez R) d : fit_inside fuel c d = Some true -> 0 <= d.
Proof.
  destruct fuel as [|k]; [discriminate|]. cbn [fit_inside].
  destruct ((v_hypot (to_vec2 (c2 c)) <=? d)%S && (v_hypot (to_vec2 (c1 c)) <=? d)%S) eqn:E.
  - intros _. apply andb_true_iff in E. destruct E as [E2 _]. apply hypot_le_within in E2. tauto.
  - match goal with |- (if ?b then _ else _) = _ -> _ => destruct b eqn:Em end; [discriminate|].
    intros _. apply hypot_not_gt_within in Em. tauto.
Qed.

Lemma within_distance acc (p q : Point R) : 0 <= acc -> within acc (pdiff p q) -> pt_distance p q <= acc.
Proof.
  intros Ha Hw. unfold pt_distance, v_hypot, pt_sub, within, pdiff in *. cbn [vx vy px py] in *. rs_unfold.
  apply sqrt_le_of_sq; assumption.
Qed.

(** what a returned spline satisfies, relative to its cubic, the accuracy and the number of pieces *)
Definition spline_ok (c : CubicBez R) (acc : R) (n : nat) (pts : list (Point R)) : Prop :=
  (exists mid, pts = c0 c :: mid ++ [c3 c] /\ length mid = n) /\
  length (quadspline_to_quads pts) = n /\
  forall i Q t, nth_error (quadspline_to_quads pts) i = Some Q -> 0 <= t <= 1 ->
    pt_distance (quad_eval Q t) (cubic_eval c ((INR i + t) / INR n)) <= acc.

(* the pieces of [split_spec] are joined *)
Lemma split_spec_chained (c : CubicBez R) N : forall len s x r,
  map (fun i => cubic_subsegment c (INR i / N) (INR (i + 1) / N)) (seq s len) = x :: r -> chained x r.
Proof.
  induction len as [|len IH]; intros s x r E; [discriminate|].
  cbn [seq map] in E. injection E as <- <-.
  destruct len as [|len]; [exact I|].
  cbn [seq map chained]. split.
  - replace (s + 1)%nat with (S s) by lia. reflexivity.
  - apply (IH (S s)). reflexivity.
Qed.

Lemma split_spec_nth (c : CubicBez R) n i C : nth_error (split_spec c n) i = Some C ->
  (i < n)%nat /\ C = cubic_subsegment c (INR i / INR n) (INR (i + 1) / INR n).
Proof.
  intros E. assert (Hi : (i < n)%nat).
  { rewrite <- (seq_length n 0), <- (map_length (fun i => cubic_subsegment c (INR i / INR n) (INR (i + 1) / INR n))).
    apply nth_error_Some. unfold split_spec in E. rewrite E. discriminate. }
  split; [exact Hi|]. unfold split_spec in E.
  rewrite nth_error_map, nth_error_nth' with (d := O) in E by now rewrite seq_length.
  rewrite seq_nth in E by exact Hi. cbn in E. congruence.
Qed.

Lemma c0_subsegment (c : CubicBez R) a b : c0 (cubic_subsegment c a b) = cubic_eval c a.
Proof. reflexivity. Qed.
Lemma c3_subsegment (c : CubicBez R) a b : c3 (cubic_subsegment c a b) = cubic_eval c b.
Proof. reflexivity. Qed.

Lemma split_spec_last (c : CubicBez R) n first rest : (1 <= n)%nat ->
  split_spec c n = first :: rest -> c0 first = c0 c /\ c3 (last rest first) = c3 c.
Proof.
  intros Hn E.
  assert (HN : INR n <> 0) by (apply not_0_INR; lia).
  split.
  - unfold split_spec in E. destruct n as [|n]; [lia|].
    change (seq 0 (S n)) with (0%nat :: seq 1 n) in E. rewrite map_cons in E.
    assert (Ef : first = cubic_subsegment c (INR 0 / INR (S n)) (INR (0 + 1) / INR (S n))) by congruence.
    rewrite Ef, c0_subsegment. replace (INR 0 / INR (S n)) with 0 by (change (INR 0) with 0; unfold Rdiv; ring).
    apply (proj1 (seg_eval_endpoints (SegCubic c))).
  - assert (L : last (first :: rest) first = last rest first) by (destruct rest; reflexivity).
    rewrite <- L, <- E. unfold split_spec.
    destruct n as [|n]; [lia|]. rewrite seq_S, map_app. cbn [map]. rewrite last_last.
    rewrite c3_subsegment. replace (INR (0 + n + 1) / INR (S n)) with 1.
    + apply (proj2 (seg_eval_endpoints (SegCubic c))).
    + replace (0 + n + 1)%nat with (S n) by lia. field. exact HN.
Qed.

Lemma approx_spline_n_sound fuel (c : CubicBez R) n acc pts :
  approx_spline_n fuel c n acc = Some (Some pts) -> spline_ok c acc n pts.
Proof.
  intros Ha. destruct n as [|[|k]].
  - (* n = 0: the model returns no spline *)
    cbn in Ha. discriminate.
  - (* n = 1: a single quadratic through the crossing point of the end tangents *)
    cbn [approx_spline_n] in Ha. unfold try_approx_quadratic in Ha.
    destruct (crossing_point (c0 c) (c1 c) (c2 c) (c3 c)) as [b|]; [|discriminate].
    match type of Ha with context [fit_inside fuel ?E acc] => set (EC := E) in *; destruct (fit_inside fuel EC acc) as [[|]|] eqn:Ef end;
      try discriminate.
    injection Ha as <-. cbn [q0 q1 q2].
    pose proof (fit_inside_true_nonneg _ _ _ Ef) as Hacc.
    unfold spline_ok. split; [exists [b]; split; reflexivity|]. split; [reflexivity|].
    intros i Q t Hn Ht. cbn in Hn. destruct i as [|[|i]]; try discriminate. injection Hn as <-.
    simpl (INR 0). simpl (INR 1). replace ((0 + t) / 1) with t by field.
    apply within_distance; [exact Hacc|]. rewrite <- error_cubic_eval.
    assert (EE : EC = mkCubic (to_point (pt_sub (c0 c) (c0 c)))
                      (pt_sub_v (pt_lerp (c0 c) b two_thirds) (to_vec2 (c1 c)))
                      (pt_sub_v (pt_lerp (c3 c) b two_thirds) (to_vec2 (c2 c)))
                      (to_point (v_sub (to_vec2 (c3 c)) (to_vec2 (c3 c))))).
    { unfold EC, pt_zero, f0, to_point, pt_sub, v_sub, to_vec2. cbn [vx vy px py]. rs_unfold.
      f_equal; f_equal; ring. }
    rewrite <- EE.
    apply (fit_inside_sound fuel EC acc Ef); [apply within_zero | apply within_zero | exact Ht].
  - (* n >= 2 *)
    set (n := S (S k)) in *. assert (Hn : (2 <= n)%nat) by (unfold n; lia).
    assert (Ha' : match split_into_n c n with
                  | [] => Some None
                  | first :: rest =>
                      match spline_loop fuel acc (Z.of_nat n) 1 first rest (c0 c) (approx_quad_control first f0) v_zero with
                      | Some (Some tl) => Some (Some (c0 c :: approx_quad_control first f0 :: tl ++ [c3 c]))
                      | other => other
                      end
                  end = Some (Some pts)) by exact Ha.
    clear Ha. rewrite split_into_n_spec in Ha' by lia.
    destruct (split_spec c n) as [|first rest] eqn:Es; [discriminate|].
    set (b := approx_quad_control first f0) in *.
    destruct (spline_loop fuel acc (Z.of_nat n) 1 first rest (c0 c) b v_zero) as [[tl|]|] eqn:El; try discriminate.
    injection Ha' as <-.
    destruct (split_spec_last c n first rest ltac:(lia) Es) as [F0 L3].
    assert (Hlen : length (first :: rest) = n) by (rewrite <- Es; unfold split_spec; now rewrite map_length, seq_length).
    assert (E0 : v_zero = pt_sub (c0 c) (c0 first)).
    { rewrite F0. unfold v_zero, pt_sub, f0. rs_unfold. f_equal; ring. }
    destruct (spline_loop_sound fuel acc (Z.of_nat n) rest 1 first (c0 c) b v_zero tl El E0) as (Hacc & Hl & HF).
    { apply within_zero. }
    { unfold split_spec in Es. eapply split_spec_chained. exact Es. }
    rewrite L3 in HF. cbn [length] in Hlen.
    unfold spline_ok. split; [exists (b :: tl); split; [reflexivity | cbn [length]; lia]|].
    change (c0 c :: b :: tl ++ [c3 c]) with (c0 c :: b :: tl ++ [c3 c]).
    rewrite (quads_from_true tl (c0 c) b (c3 c)).
    split; [rewrite spline_quads_length; lia|].
    intros i Q t Hq Ht.
    destruct (Forall2_nth_error _ _ _ _ _ HF Hq) as (C & HC & Hcl).
    rewrite <- Es in HC. apply split_spec_nth in HC. destruct HC as [Hi ->].
    apply within_distance; [exact Hacc|].
    specialize (Hcl t Ht). rewrite cubic_subsegment_eval in Hcl.
    replace ((INR i + t) / INR n) with (INR i / INR n + t * (INR (i + 1) / INR n - INR i / INR n)); [exact Hcl|].
    rewrite plus_INR. simpl (INR 1). field. apply not_0_INR. lia.
Qed.

Lemma spline_search_sound fuel (c : CubicBez R) acc : forall k n pts,
  spline_search fuel c acc k n = Some (Some pts) ->
  exists m, (n <= m < n + k)%nat /\ spline_ok c acc m pts.
Proof.
  induction k as [|k IH]; intros n pts Hs; [discriminate|].
  cbn [spline_search] in Hs.
  destruct (approx_spline_n fuel c n acc) as [[s|]|] eqn:Ea; try discriminate.
  - injection Hs as <-. exists n. split; [lia|]. apply (approx_spline_n_sound fuel). exact Ea.
  - destruct (IH _ _ Hs) as (m & Hm & Hok). exists m. split; [lia | exact Hok].
Qed.

Lemma approx_spline_sound fuel (c : CubicBez R) acc pts :
  approx_spline fuel c acc = Some (Some pts) ->
  exists n, (1 <= n <= 100)%nat /\ spline_ok c acc n pts.
Proof.
  intros Hs. destruct (spline_search_sound _ _ _ _ _ _ Hs) as (m & Hm & Hok).
  exists m. unfold MAX_SPLINE_SPLIT in Hm. split; [lia | exact Hok].
Qed.

Lemma all_splines_n_sound fuel n acc : forall (cs : list (CubicBez R)) ss,
  all_splines_n fuel cs n acc = Some (Some ss) -> Forall2 (fun c pts => spline_ok c acc n pts) cs ss.
Proof.
  induction cs as [|c cs IH]; intros ss Hs; cbn [all_splines_n] in Hs.
  - injection Hs as <-. constructor.
  - destruct (approx_spline_n fuel c n acc) as [[s|]|] eqn:Ea; try discriminate.
    destruct (all_splines_n fuel cs n acc) as [[ss'|]|] eqn:Er; try discriminate.
    injection Hs as <-. constructor; [apply (approx_spline_n_sound fuel); exact Ea | apply IH; reflexivity].
Qed.

Lemma splines_search_sound fuel (cs : list (CubicBez R)) acc : forall k n ss,
  splines_search fuel cs acc k n = Some (Some ss) ->
  exists m, (n <= m < n + k)%nat /\ Forall2 (fun c pts => spline_ok c acc m pts) cs ss.
Proof.
  induction k as [|k IH]; intros n ss Hs; [discriminate|].
  cbn [splines_search] in Hs.
  destruct (all_splines_n fuel cs n acc) as [[s|]|] eqn:Ea; try discriminate.
  - injection Hs as <-. exists n. split; [lia|]. apply (all_splines_n_sound fuel). exact Ea.
  - destruct (IH _ _ Hs) as (m & Hm & Hok). exists m. split; [lia | exact Hok].
Qed.

Lemma cubics_to_quadratic_splines_sound fuel (cs : list (CubicBez R)) acc ss :
  cubics_to_quadratic_splines fuel cs acc = Some (Some ss) ->
  exists n, (1 <= n <= 101)%nat /\ Forall2 (fun c pts => spline_ok c acc n pts) cs ss.
Proof.
  intros Hs. destruct (splines_search_sound _ _ _ _ _ _ Hs) as (m & Hm & Hok).
  exists m. unfold MAX_SPLINE_SPLIT in Hm. split; [lia | exact Hok].
Qed.

Lemma Forall2_len {A B} (P : A -> B -> Prop) l1 l2 : Forall2 P l1 l2 -> length l1 = length l2.
Proof. induction 1; cbn [length]; congruence. Qed.

Lemma spline_ok_length (c : CubicBez R) acc n pts : spline_ok c acc n pts -> length pts = (n + 2)%nat.
Proof.
  intros ((mid & -> & Hl) & _). cbn [length]. rewrite app_length. cbn [length]. lia.
Qed.

Lemma splines_same_length fuel (cs : list (CubicBez R)) acc ss :
  cubics_to_quadratic_splines fuel cs acc = Some (Some ss) ->
  length ss = length cs /\
  exists n, (1 <= n <= 101)%nat /\ forall pts, In pts ss -> length pts = (n + 2)%nat.
Proof.
  intros Hs. destruct (cubics_to_quadratic_splines_sound _ _ _ _ Hs) as (n & Hn & HF).
  split; [symmetry; eapply Forall2_len; exact HF|].
  exists n. split; [exact Hn|]. intros pts Hin.
  clear Hs. induction HF as [|c s cs' ss' Hok HF IH]; [destruct Hin|].
  destruct Hin as [<-|Hin]; [eapply spline_ok_length; exact Hok | apply IH; exact Hin].
Qed.

(** * QuadSpline::to_quads: for every scalar (so also for binary64) *)
Section Chain.
Context {T : Type} `{Scalar T}.

Lemma qf_step first (a b c : Point T) rest :
  quadspline_quads_from first (a :: b :: c :: rest) =
  mkQuad (if first then a else pt_midpoint a b) b (match rest with [] => c | _ :: _ => pt_midpoint b c end)
  :: quadspline_quads_from false (b :: c :: rest).
Proof. reflexivity. Qed.

Lemma quads_from_length : forall (pts : list (Point T)) first,
  length (quadspline_quads_from first pts) = (length pts - 2)%nat.
Proof.
  induction pts as [|a tl IH]; intros first; [reflexivity|].
  destruct tl as [|b [|c rest]]; try reflexivity.
  rewrite qf_step. cbn [length]. rewrite IH. cbn [length]. lia.
Qed.

Lemma quads_from_control : forall (pts : list (Point T)) first i Q,
  nth_error (quadspline_quads_from first pts) i = Some Q -> nth_error pts (S i) = Some (q1 Q).
Proof.
  induction pts as [|a tl IH]; intros first i Q Hn; [destruct i; discriminate|].
  destruct tl as [|b [|c rest]]; try (destruct i; discriminate).
  rewrite qf_step in Hn. destruct i as [|i].
  - injection Hn as <-. reflexivity.
  - cbn [nth_error] in Hn. apply IH in Hn. exact Hn.
Qed.

Lemma quads_from_first (pts : list (Point T)) Q :
  nth_error (quadspline_to_quads pts) 0 = Some Q -> nth_error pts 0 = Some (q0 Q).
Proof.
  unfold quadspline_to_quads. destruct pts as [|a [|b [|c rest]]]; try discriminate.
  rewrite qf_step. cbn [nth_error]. intros E. injection E as <-. reflexivity.
Qed.

Lemma quads_from_joined : forall (pts : list (Point T)) first i Q Q',
  nth_error (quadspline_quads_from first pts) i = Some Q ->
  nth_error (quadspline_quads_from first pts) (S i) = Some Q' -> q2 Q = q0 Q'.
Proof.
  induction pts as [|a tl IH]; intros first i Q Q' Hn Hn'; [destruct i; discriminate|].
  destruct tl as [|b [|c rest]]; try (destruct i; discriminate).
  rewrite qf_step in Hn, Hn'. destruct i as [|i].
  - cbn [nth_error] in Hn, Hn'. injection Hn as <-.
    destruct rest as [|d rest]; [discriminate|].
    rewrite qf_step in Hn'. cbn [nth_error] in Hn'. injection Hn' as <-. reflexivity.
  - cbn [nth_error] in Hn, Hn'. eapply IH; eassumption.
Qed.

Lemma quads_from_last : forall (pts : list (Point T)) first Q d,
  nth_error (quadspline_quads_from first pts) (length pts - 3) = Some Q -> (3 <= length pts)%nat ->
  q2 Q = last pts d.
Proof.
  induction pts as [|a tl IH]; intros first Q d Hn Hl; [cbn in Hl; lia|].
  destruct tl as [|b [|c rest]]; try (cbn in Hl; lia).
  destruct rest as [|e rest].
  - cbn in Hn. injection Hn as <-. reflexivity.
  - rewrite qf_step in Hn.
    replace (length (a :: b :: c :: e :: rest) - 3)%nat with (S (length (b :: c :: e :: rest) - 3)) in Hn by (cbn [length]; lia).
    cbn [nth_error] in Hn. apply (IH false Q d) in Hn; [|cbn [length]; lia].
    rewrite Hn. reflexivity.
Qed.
End Chain.

(** * Packaged statements used by Properties/C17.v *)

Lemma to_quads_tiles (c : CubicBez R) (a : R) :
  let ps := to_quads c a in
  let n := length ps in
  (1 <= n)%nat /\
  (forall i, (i < n)%nat -> exists q, nth_error ps i = Some (INR i / INR n, INR (i + 1) / INR n, q)) /\
  (exists t1 q, nth_error ps 0 = Some (0, t1, q)) /\
  (exists t0 q, nth_error ps (n - 1) = Some (t0, 1, q)).
Proof.
  cbv zeta. pose proof (to_quads_length c a) as Hl.
  unfold to_quads in *. set (n := Z.to_nat (to_quads_count c a)) in *.
  rewrite to_quads_n_length in *.
  split; [exact Hl|].
  assert (P : forall i, (i < n)%nat -> exists q,
            nth_error (to_quads_n c n) i = Some (INR i / INR n, INR (i + 1) / INR n, q)).
  { intros i Hi. rewrite to_quads_n_nth by exact Hi.
    destruct (to_quads_range c n i) as [E0 E1].
    destruct (to_quads_piece c (Z.of_nat n) (Z.of_nat i)) as [[t0 t1] q]. cbn [fst snd] in *. subst.
    exists q. reflexivity. }
  split; [exact P|]. split.
  - destruct (P 0%nat ltac:(lia)) as [q Hq]. exists (INR (0 + 1) / INR n), q. rewrite Hq.
    change (INR 0) with 0. unfold Rdiv. now rewrite Rmult_0_l.
  - destruct (P (n - 1)%nat ltac:(lia)) as [q Hq]. exists (INR (n - 1) / INR n), q. rewrite Hq.
    replace (n - 1 + 1)%nat with n by lia. unfold Rdiv. rewrite Rinv_r; [reflexivity|].
    apply not_0_INR. lia.
Qed.

Lemma to_quads_endpoints_on_cubic (c : CubicBez R) a i t0 t1 q :
  nth_error (to_quads c a) i = Some (t0, t1, q) -> q0 q = cubic_eval c t0 /\ q2 q = cubic_eval c t1.
Proof.
  intros Hn. unfold to_quads in Hn. set (n := Z.to_nat (to_quads_count c a)) in *.
  assert (Hi : (i < n)%nat).
  { rewrite <- (to_quads_n_length c n). apply nth_error_Some. rewrite Hn. discriminate. }
  rewrite to_quads_n_nth in Hn by exact Hi.
  pose proof (to_quads_piece_endpoints c (Z.of_nat n) (Z.of_nat i)) as E.
  assert (Hp : to_quads_piece c (Z.of_nat n) (Z.of_nat i) = (t0, t1, q)) by congruence.
  rewrite Hp in E. exact E.
Qed.

Lemma spline_param_range (i n : nat) t : (i < n)%nat -> 0 <= t <= 1 -> 0 <= (INR i + t) / INR n <= 1.
Proof.
  intros Hi Ht. assert (Hn : 0 < INR n) by (apply lt_0_INR; lia).
  assert (INR i + 1 <= INR n) by (rewrite <- S_INR; apply le_INR; lia).
  pose proof (pos_INR i). split.
  - apply Rmult_le_pos; [lra | left; apply Rinv_0_lt_compat; exact Hn].
  - apply Rmult_le_reg_r with (INR n); [exact Hn|]. unfold Rdiv. rewrite Rmult_assoc, Rinv_l by lra. lra.
Qed.

(* every point of every quadratic of a returned spline is within [acc] of some point of the cubic *)
Lemma spline_ok_lies_within (c : CubicBez R) acc n pts : spline_ok c acc n pts ->
  forall i Q t, nth_error (quadspline_to_quads pts) i = Some Q -> 0 <= t <= 1 ->
  exists s, 0 <= s <= 1 /\ pt_distance (quad_eval Q t) (cubic_eval c s) <= acc.
Proof.
  intros (_ & Hl & Hd) i Q t Hq Ht. exists ((INR i + t) / INR n). split.
  - apply spline_param_range; [|exact Ht]. rewrite <- Hl. apply nth_error_Some. rewrite Hq. discriminate.
  - eapply Hd; eassumption.
Qed.

(** non-vacuity: concrete instances at the real numbers *)
Lemma sqrt_sq0 x : 0 <= x -> R_sqrt.sqrt (x * x + 0 * 0) = x.
Proof. intros. replace (x * x + 0 * 0) with (x * x) by ring. apply sqrt_square. exact H. Qed.

Lemma hyp_le_true x y d : 0 <= d -> x * x + y * y <= d * d -> Rleb (R_sqrt.sqrt (x * x + y * y)) d = true.
Proof. intros. apply Rleb_true. apply sqrt_le_of_sq; assumption. Qed.
Lemma hyp_le_false x y d : 0 <= d -> d * d < x * x + y * y -> Rleb (R_sqrt.sqrt (x * x + y * y)) d = false.
Proof.
  intros Hd Hl. apply Rleb_false. rewrite <- (sqrt_square d Hd). apply sqrt_lt_1_alt. split; [|exact Hl].
  apply Rle_0_sqr.
Qed.
Lemma hyp_gt_false x y d : 0 <= d -> x * x + y * y <= d * d -> Rltb d (R_sqrt.sqrt (x * x + y * y)) = false.
Proof. intros. apply Rltb_false. apply sqrt_le_of_sq; assumption. Qed.

(* a curve that needs one subdivision: control points outside, curve inside *)
Definition ex_bump : CubicBez R := mkCubic (mkPoint 0 0) (mkPoint (6 / 5) 0) (mkPoint (6 / 5) 0) (mkPoint 0 0).

Ltac ex_unfold :=
  cbv [v_hypot cubic_subdivide cubic_eval pt_midpoint to_point to_vec2 v_scale v_add v_sub s_scale_v
       pt_add_v pt_sub_v pt_sub pt_lerp v_lerp v_cross two_thirds pt_zero
       c0 c1 c2 c3 q0 q1 q2 px py vx vy fquarter f0_125];
  rs_unfold; cbv [Q2R Qnum Qden].

Lemma ex_bump_fits : fit_inside 2 ex_bump 1 = Some true /\ fit_inside 1 ex_bump 1 = None.
Proof.
  unfold ex_bump. cbn [fit_inside]. ex_unfold.
  rewrite (hyp_le_false (6 / 5) 0 1) by lra. cbn [andb].
  rewrite hyp_gt_false by lra.
  rewrite !hyp_le_true by lra. cbn [andb]. split; reflexivity.
Qed.

(* a degree-raised parabola is converted back to the parabola by the n = 1 branch *)
Definition ex_raised : CubicBez R := mkCubic (mkPoint 0 0) (mkPoint 2 2) (mkPoint 4 2) (mkPoint 6 0).

Lemma ex_raised_spline :
  approx_spline_n 1 ex_raised 1 (/ 10) = Some (Some [mkPoint 0 0; mkPoint 3 3; mkPoint 6 0]).
Proof.
  unfold ex_raised. cbn [approx_spline_n]. unfold try_approx_quadratic, crossing_point. ex_unfold.
  destruct (Reqb_spec ((2 - 0) * (0 - 2) - (2 - 0) * (6 - 4)) 0) as [E|_]; [lra|].
  cbn [fit_inside]. ex_unfold.
  rewrite !hyp_le_true by (try lra; apply Req_le; field).
  cbn [andb q0 q1 q2]. repeat f_equal; field.
Qed.

(** * The fuel is only a bound on the recursion depth: a result, once produced, does not
      depend on it (any scalar). *)
Section Fuel.
Context {T : Type} `{Scalar T}.

Lemma fit_inside_fuel_S : forall k (c : CubicBez T) d b,
  fit_inside k c d = Some b -> fit_inside (S k) c d = Some b.
Proof.
  induction k as [|k IH]; intros c d b Hf; [discriminate|].
  change (fit_inside (S (S k)) c d) with
    (if (fleb (v_hypot (to_vec2 (c2 c))) d) && (fleb (v_hypot (to_vec2 (c1 c))) d) then Some true
     else if fltb d (v_hypot (v_scale (v_add (v_add (to_vec2 (c0 c)) (s_scale_v f3 (v_add (to_vec2 (c1 c)) (to_vec2 (c2 c))))) (to_vec2 (c3 c))) f0_125))
          then Some false
          else let '(l, r) := cubic_subdivide c in
               match fit_inside (S k) l d with Some true => fit_inside (S k) r d | other => other end).
  change (fit_inside (S k) c d) with
    (if (fleb (v_hypot (to_vec2 (c2 c))) d) && (fleb (v_hypot (to_vec2 (c1 c))) d) then Some true
     else if fltb d (v_hypot (v_scale (v_add (v_add (to_vec2 (c0 c)) (s_scale_v f3 (v_add (to_vec2 (c1 c)) (to_vec2 (c2 c))))) (to_vec2 (c3 c))) f0_125))
          then Some false
          else let '(l, r) := cubic_subdivide c in
               match fit_inside k l d with Some true => fit_inside k r d | other => other end) in Hf.
  destruct (_ && _); [exact Hf|]. destruct (fltb _ _); [exact Hf|].
  destruct (cubic_subdivide c) as [l r].
  destruct (fit_inside k l d) as [[|]|] eqn:El; try discriminate.
  - rewrite (IH _ _ _ El). apply IH. exact Hf.
  - rewrite (IH _ _ _ El). exact Hf.
Qed.

Lemma fit_inside_fuel_mono k j (c : CubicBez T) d b :
  fit_inside k c d = Some b -> fit_inside (k + j) c d = Some b.
Proof.
  intros Hf. induction j as [|j IH]; [now rewrite Nat.add_0_r|].
  rewrite Nat.add_succ_r. apply fit_inside_fuel_S. exact IH.
Qed.
End Fuel.

(** the other direction: every point of the cubic has a spline point within [acc] *)
Lemma spline_ok_covers (c : CubicBez R) acc n pts : spline_ok c acc n pts -> (1 <= n)%nat ->
  forall s, 0 <= s <= 1 ->
  exists i Q t, nth_error (quadspline_to_quads pts) i = Some Q /\ 0 <= t <= 1 /\
                pt_distance (quad_eval Q t) (cubic_eval c s) <= acc.
Proof.
  intros (_ & Hl & Hd) Hn s Hs.
  assert (HN : 0 < INR n) by (apply lt_0_INR; lia).
  set (x := s * INR n).
  assert (Hx : 0 <= x <= INR n) by (unfold x; split; [apply Rmult_le_pos; lra | nra]).
  set (z := Flocq.Core.Raux.Zfloor x).
  assert (Hz0 : (0 <= z)%Z) by (apply Flocq.Core.Raux.Zfloor_lub; simpl; lra).
  assert (Hzx : IZR z <= x) by apply Flocq.Core.Raux.Zfloor_lb.
  assert (Hxz : x < IZR z + 1) by apply Flocq.Core.Raux.Zfloor_ub.
  assert (Hzn : (z <= Z.of_nat n)%Z).
  { apply le_IZR. rewrite <- INR_IZR_INZ. lra. }
  set (i := Nat.min (n - 1) (Z.to_nat z)).
  assert (Hi : (i < n)%nat) by (unfold i; lia).
  set (t := x - INR i).
  assert (Ht : 0 <= t <= 1).
  { unfold t, i. destruct (Z.eq_dec z (Z.of_nat n)) as [E|NE].
    - rewrite Nat.min_l by lia. rewrite minus_INR by lia. simpl (INR 1).
      rewrite E, <- INR_IZR_INZ in Hzx. lra.
    - rewrite Nat.min_r by lia. rewrite INR_IZR_INZ, Z2Nat.id by lia. lra. }
  destruct (nth_error (quadspline_to_quads pts) i) as [Q|] eqn:EQ.
  - exists i, Q, t. split; [exact EQ|]. split; [exact Ht|].
    replace s with ((INR i + t) / INR n); [eapply Hd; eassumption|].
    unfold t, x. field. lra.
  - apply nth_error_None in EQ. lia.
Qed.
