(** C09: nearest-point queries — proofs at the real instance. *)
From Coq Require Import ZArith QArith Reals List Bool Lra Lia Psatz.
From Coquelicot Require Import Coquelicot.
From KV Require Import Scalar RInst Geom Curves Solvers Nearest NearestSpec RTac.
Import ListNotations.
Local Open Scope R_scope.

Ltac nr_unfold :=
  cbv [line_nearest quad_nearest_coeffs nr_quad_of_cubic nr_quads_piece
       line_dist2 quad_dist2 cubic_dist crit_poly quad_d1
       cubic_subsegment cubic_deriv cubic_eval quad_eval line_eval
       pt_lerp pt_midpoint v_lerp pt_add_v pt_sub_v pt_sub v_add v_sub s_scale_v v_scale v_neg v_div
       v_dot v_cross v_hypot2 v_hypot pt_distance_squared pt_distance
       to_point to_vec2 two_thirds one_third one_sixth nr_4 nr_432
       px py vx vy l0 l1 q0 q1 q2 c0 c1 c2 c3 fst snd] in *;
  rs_unfold; cbv [Q2R Qnum Qden] in *.

(** * Line *)

Lemma line_nearest_min (l : Line R) (p : Point R) :
  let '(t, d) := line_nearest l p in min_on_unit_at (line_dist2 l p) t d.
Proof.
  destruct l as [[x0 y0] [x1 y1]], p as [x y].
  unfold min_on_unit_at. nr_unfold.
  set (dx := x1 - x0). set (dy := y1 - y0).
  set (ex := x - x0). set (ey := y - y0).
  assert (Hu0 : forall u, (x - (x0 + dx * u)) * (x - (x0 + dx * u)) + (y - (y0 + dy * u)) * (y - (y0 + dy * u))
                = ex * ex + ey * ey - 2 * u * (dx * ex + dy * ey) + u * u * (dx * dx + dy * dy))
    by (intros; unfold ex, ey; ring).
  destruct (Rleb_spec (dx * ex + dy * ey) 0) as [H1|H1].
  - split; [lra|]. split; [rewrite Hu0; ring|].
    intros u Hu. rewrite Hu0. nra.
  - destruct (Rleb_spec (dx * dx + dy * dy) (dx * ex + dy * ey)) as [H2|H2].
    + assert (E1 : (x - x1) * (x - x1) + (y - y1) * (y - y1)
                   = ex * ex + ey * ey - 2 * (dx * ex + dy * ey) + (dx * dx + dy * dy)) by (unfold ex, ey, dx, dy; ring).
      split; [lra|]. split; [rewrite Hu0, E1; ring|].
      intros u Hu. rewrite Hu0, E1.
      assert (0 <= (1 - u) * (2 * (dx * ex + dy * ey) - (dx * dx + dy * dy) * (1 + u))) by (apply Rmult_le_pos; nra).
      nra.
    + assert (Hs : 0 < dx * dx + dy * dy) by lra.
      set (s := dx * dx + dy * dy) in *. set (dp := dx * ex + dy * ey) in *.
      assert (Ht : 0 < dp / s < 1).
      { split; [apply Rdiv_lt_0_compat; lra|]. apply Rmult_lt_reg_r with s; [lra|]. unfold Rdiv. rewrite Rmult_assoc, Rinv_l by lra. lra. }
      split; [lra|]. split; [reflexivity|].
      intros u Hu. rewrite !Hu0.
      set (t := dp / s) in *.
      assert (Et : t * s = dp) by (unfold t; field; lra).
      assert (0 <= s * ((u - t) * (u - t))) by (apply Rmult_le_pos; [lra | apply Rle_0_sqr]).
      rewrite <- Et. nra.
Qed.

(** * The best-so-far state of [QuadBez::nearest] / [CubicBez::nearest] *)

Definition in_unit (t : R) : bool := Rleb 0 t && Rleb t 1.

Lemma in_unit_true t : in_unit t = true <-> 0 <= t <= 1.
Proof.
  unfold in_unit. rewrite andb_true_iff, !Rleb_true. tauto.
Qed.

Lemma quad_eval_0 (q : QuadBez R) : quad_eval q 0 = q0 q.
Proof. destruct q as [[x0 y0] [x1 y1] [x2 y2]]. nr_unfold. f_equal; ring. Qed.
Lemma quad_eval_1 (q : QuadBez R) : quad_eval q 1 = q2 q.
Proof. destruct q as [[x0 y0] [x1 y1] [x2 y2]]. nr_unfold. f_equal; ring. Qed.

Section Fold.
Variable p : Point R.
Variable crv : R -> Point R.
Let F (u : R) : R := pt_distance_squared (crv u) p.

(* [seen]: the parameters evaluated so far *)
Definition st_inv (seen : list R) (st : nr_state (T:=R)) : Prop :=
  match snd st with
  | None => seen = []
  | Some r => In (fst st) seen /\ r = F (fst st) /\ forall x, In x seen -> r <= F x
  end.

Lemma eval_t_inv seen st t :
  st_inv seen st -> st_inv (seen ++ [t]) (nr_eval_t p st t (crv t)).
Proof.
  destruct st as [tb [rb|]]; unfold st_inv, nr_eval_t; cbn [fst snd].
  - intros (Hin & Hr & Hmin).
    change (v_hypot2 (pt_sub (crv t) p)) with (F t).
    change (fltb (F t) rb) with (Rltb (F t) rb).
    destruct (Rltb_spec (F t) rb) as [Hlt|Hge]; cbn [fst snd].
    + split; [apply in_or_app; right; left; reflexivity|]. split; [reflexivity|].
      intros x Hx. apply in_app_or in Hx. destruct Hx as [Hx|[Hx|[]]].
      * specialize (Hmin x Hx). lra.
      * subst x. lra.
    + split; [apply in_or_app; left; exact Hin|]. split; [exact Hr|].
      intros x Hx. apply in_app_or in Hx. destruct Hx as [Hx|[Hx|[]]].
      * apply Hmin; exact Hx.
      * subst x. lra.
  - intros ->. change (v_hypot2 (pt_sub (crv t) p)) with (F t). cbn.
    split; [left; reflexivity|]. split; [reflexivity|].
    intros x [Hx|[]]. subst x. lra.
Qed.

Lemma st_inv_some seen st : st_inv seen st -> seen <> [] -> exists r, snd st = Some r.
Proof.
  unfold st_inv. destruct (snd st) as [r|]; intros H Hne; [exists r; reflexivity | contradiction].
Qed.
End Fold.

(* which parameters [quad_nearest_from_roots] evaluates *)
Definition need_ends_of (roots : list R) : bool :=
  match roots with [] => true | _ :: _ => false end || existsb (fun t => negb (in_unit t)) roots.
Definition cands_of (roots : list R) : list R :=
  filter in_unit roots ++ (if need_ends_of roots then [0; 1] else []).

Lemma need_ends_false roots :
  need_ends_of roots = false -> roots <> [] /\ forall x, In x roots -> 0 <= x <= 1.
Proof.
  unfold need_ends_of. intros H. apply orb_false_iff in H. destruct H as [H1 H2].
  split; [destruct roots; [discriminate | discriminate]|].
  intros x Hx. apply in_unit_true.
  destruct (in_unit x) eqn:E; [reflexivity|].
  assert (existsb (fun t => negb (in_unit t)) roots = true).
  { apply existsb_exists. exists x. split; [exact Hx | rewrite E; reflexivity]. }
  congruence.
Qed.

Lemma cands_in_unit roots x : In x (cands_of roots) -> 0 <= x <= 1.
Proof.
  unfold cands_of. intros H. apply in_app_or in H. destruct H as [H|H].
  - apply filter_In in H. apply in_unit_true. tauto.
  - destruct (need_ends_of roots); [|contradiction]. destruct H as [<-|[<-|[]]]; lra.
Qed.

Section QuadFold.
Variable q : QuadBez R.
Variable p : Point R.
Let F (u : R) : R := quad_dist2 q p u.

Lemma try_roots_spec (roots : list R) : forall ne st seen,
  st_inv p (quad_eval q) seen st ->
  fst (nr_try_roots q p roots ne st) = ne || existsb (fun t => negb (in_unit t)) roots /\
  st_inv p (quad_eval q) (seen ++ filter in_unit roots) (snd (nr_try_roots q p roots ne st)).
Proof.
  induction roots as [|t rest IH]; intros ne st seen Hinv; cbn [nr_try_roots existsb filter].
  - rewrite orb_false_r, app_nil_r. split; [reflexivity | exact Hinv].
  - unfold nr_try_t.
    change ((f0 <=? t)%S && (t <=? f1)%S) with (in_unit t).
    destruct (in_unit t) eqn:Hin; cbn [negb].
    + specialize (IH (ne || false) (nr_eval_t p st t (quad_eval q t)) (seen ++ [t])
                     (eval_t_inv p (quad_eval q) seen st t Hinv)).
      destruct IH as [IH1 IH2]. split.
      * rewrite IH1. destruct ne; reflexivity.
      * rewrite <- app_assoc in IH2. exact IH2.
    + specialize (IH (ne || true) st seen Hinv). destruct IH as [IH1 IH2]. split.
      * rewrite IH1. destruct ne; reflexivity.
      * exact IH2.
Qed.

Lemma from_roots_result (roots : list R) :
  exists t d, quad_nearest_from_roots q p roots = Some (t, d) /\
    In t (cands_of roots) /\ d = F t /\ forall x, In x (cands_of roots) -> d <= F x.
Proof.
  unfold quad_nearest_from_roots.
  assert (Hinit : st_inv p (quad_eval q) [] (nr_init (T:=R))) by (unfold st_inv, nr_init; reflexivity).
  destruct (try_roots_spec roots (match roots with [] => true | _ :: _ => false end) nr_init [] Hinit)
    as [Hne Hst].
  destruct (nr_try_roots q p roots (match roots with [] => true | _ :: _ => false end) nr_init)
    as [ne st] eqn:E. cbn [fst snd] in Hne, Hst. cbn [app] in Hst.
  fold (need_ends_of roots) in Hne.
  assert (Hfin : st_inv p (quad_eval q) (cands_of roots)
                   (if ne then nr_eval_t p (nr_eval_t p st f0 (q0 q)) f1 (q2 q) else st)).
  { unfold cands_of. rewrite <- Hne. destruct ne.
    - rewrite <- (quad_eval_0 q), <- (quad_eval_1 q).
      change f0 with 0. change f1 with 1.
      pose proof (eval_t_inv p (quad_eval q) _ _ 1
                    (eval_t_inv p (quad_eval q) _ _ 0 Hst)) as H2.
      rewrite <- app_assoc in H2. exact H2.
    - rewrite app_nil_r. exact Hst. }
  assert (Hnonempty : cands_of roots <> []).
  { unfold cands_of. destruct (need_ends_of roots) eqn:En.
    - intros Hc. apply app_eq_nil in Hc. destruct Hc; discriminate.
    - rewrite app_nil_r. destruct (need_ends_false roots En) as [Hr Hall].
      destruct roots as [|x rest]; [contradiction|]. cbn [filter].
      assert (Hx : in_unit x = true) by (apply in_unit_true; apply Hall; left; reflexivity).
      rewrite Hx. discriminate. }
  set (stf := if ne then nr_eval_t p (nr_eval_t p st f0 (q0 q)) f1 (q2 q) else st) in *.
  destruct (st_inv_some p (quad_eval q) _ _ Hfin Hnonempty) as [r Hr].
  unfold st_inv in Hfin. rewrite Hr in *. destruct Hfin as (H1 & H2 & H3).
  exists (fst stf), r. split; [reflexivity|]. split; [exact H1|]. split; [exact H2 | exact H3].
Qed.

End QuadFold.

(** * The squared distance to a quadratic and its critical-point cubic *)

Lemma quad_dist2_deriv (q : QuadBez R) (p : Point R) (u : R) :
  derivable_pt_lim (quad_dist2 q p) u (4 * crit_poly (quad_nearest_coeffs q p) u).
Proof.
  apply is_derive_Reals.
  destruct q as [[x0 y0] [x1 y1] [x2 y2]], p as [x y]. nr_unfold.
  auto_derive; [exact I|]. ring.
Qed.

Lemma quad_dist2_continuity (q : QuadBez R) (p : Point R) : continuity (quad_dist2 q p).
Proof.
  intros u. apply derivable_continuous_pt.
  exists (4 * crit_poly (quad_nearest_coeffs q p) u). apply quad_dist2_deriv.
Qed.

(** a function with a negative derivative at [m] goes below [F m] just to the right of [m] *)
Lemma deriv_neg_right (F : R -> R) m l b :
  derivable_pt_lim F m l -> l < 0 -> m < b -> exists u, m < u <= b /\ F u < F m.
Proof.
  intros HD Hl Hb.
  destruct (HD (- l / 2) ltac:(lra)) as [[delta Hdelta] Hh].
  set (h := Rmin (delta / 2) (b - m)).
  assert (Hh0 : 0 < h) by (unfold h; apply Rmin_glb_lt; lra).
  assert (Hh1 : h <= delta / 2) by apply Rmin_l.
  assert (Hh2 : h <= b - m) by apply Rmin_r.
  specialize (Hh h ltac:(lra) ltac:(rewrite Rabs_pos_eq; simpl; lra)).
  exists (m + h). split; [lra|].
  apply Rabs_def2 in Hh. destruct Hh as [Hlt _].
  assert (Hq : (F (m + h) - F m) / h < l / 2) by lra.
  assert ((F (m + h) - F m) / h * h < l / 2 * h) by (apply Rmult_lt_compat_r; lra).
  unfold Rdiv in H at 1. rewrite Rmult_assoc, Rinv_l, Rmult_1_r in H by lra.
  nra.
Qed.

Lemma deriv_pos_left (F : R -> R) m l a :
  derivable_pt_lim F m l -> 0 < l -> a < m -> exists u, a <= u < m /\ F u < F m.
Proof.
  intros HD Hl Ha.
  destruct (HD (l / 2) ltac:(lra)) as [[delta Hdelta] Hh].
  set (h := Rmin (delta / 2) (m - a)).
  assert (Hh0 : 0 < h) by (unfold h; apply Rmin_glb_lt; lra).
  assert (Hh1 : h <= delta / 2) by apply Rmin_l.
  assert (Hh2 : h <= m - a) by apply Rmin_r.
  specialize (Hh (- h) ltac:(lra) ltac:(rewrite Rabs_Ropp, Rabs_pos_eq; simpl; lra)).
  exists (m + - h). split; [lra|].
  apply Rabs_def2 in Hh. destruct Hh as [_ Hgt].
  assert (Hq : l / 2 < (F (m + - h) - F m) / - h) by lra.
  assert (l / 2 * h < (F (m + - h) - F m) / - h * h) by (apply Rmult_lt_compat_r; lra).
  replace ((F (m + - h) - F m) / - h * h) with (- (F (m + - h) - F m)) in H by (field; lra).
  nra.
Qed.

(** a cubic with positive leading coefficient is negative far to the left, positive far to the right *)
Definition far (k0 k1 k2 k3 : R) : R := 1 + (Rabs k0 + Rabs k1 + Rabs k2) / k3.

Lemma cubic_far (k0 k1 k2 k3 : R) : 0 < k3 ->
  let M := far k0 k1 k2 k3 in
  1 <= M /\ crit_poly (k0, k1, k2, k3) (- M) < 0 /\ 0 < crit_poly (k0, k1, k2, k3) M.
Proof.
  intros Hk M. unfold crit_poly.
  set (S := Rabs k0 + Rabs k1 + Rabs k2).
  assert (HS : 0 <= S) by (unfold S; pose proof (Rabs_pos k0); pose proof (Rabs_pos k1); pose proof (Rabs_pos k2); lra).
  assert (HM : M = 1 + S / k3) by reflexivity.
  assert (H1 : 1 <= M) by (rewrite HM; assert (0 <= S / k3) by (apply Rmult_le_pos; [lra | left; apply Rinv_0_lt_compat; lra]); lra).
  assert (Hk3M : k3 * M = k3 + S) by (rewrite HM; field; lra).
  assert (A0 : - Rabs k0 <= k0 <= Rabs k0) by (split; [pose proof (Rle_abs (- k0)); rewrite Rabs_Ropp in *; lra | apply Rle_abs]).
  assert (A1 : - Rabs k1 <= k1 <= Rabs k1) by (split; [pose proof (Rle_abs (- k1)); rewrite Rabs_Ropp in *; lra | apply Rle_abs]).
  assert (A2 : - Rabs k2 <= k2 <= Rabs k2) by (split; [pose proof (Rle_abs (- k2)); rewrite Rabs_Ropp in *; lra | apply Rle_abs]).
  pose proof (Rabs_pos k0) as P0. pose proof (Rabs_pos k1) as P1. pose proof (Rabs_pos k2) as P2.
  clearbody M.
  assert (HM2 : 1 <= M * M) by nra.
  assert (HM1 : M <= M * M) by nra.
  assert (B0 : Rabs k0 <= Rabs k0 * (M * M)) by (rewrite <- (Rmult_1_r (Rabs k0)) at 1; apply Rmult_le_compat_l; lra).
  assert (B1 : Rabs k1 * M <= Rabs k1 * (M * M)) by (apply Rmult_le_compat_l; lra).
  assert (Hmain : Rabs k0 + Rabs k1 * M + Rabs k2 * (M * M) < k3 * M * (M * M)).
  { rewrite Hk3M. unfold S in *. 
    replace ((k3 + (Rabs k0 + Rabs k1 + Rabs k2)) * (M * M))
      with (k3 * (M * M) + Rabs k0 * (M * M) + Rabs k1 * (M * M) + Rabs k2 * (M * M)) by ring.
    assert (0 < k3 * (M * M)) by (apply Rmult_lt_0_compat; lra). lra. }
  split; [exact H1|]. split.
  - assert (k1 * - M <= Rabs k1 * M) by nra.
    assert (k2 * (- M * - M) <= Rabs k2 * (M * M)) by nra.
    replace (k3 * (- M * - M * - M)) with (- (k3 * M * (M * M))) by ring. lra.
  - assert (- (Rabs k1 * M) <= k1 * M) by nra.
    assert (- (Rabs k2 * (M * M)) <= k2 * (M * M)) by nra.
    replace (k3 * (M * M * M)) with (k3 * M * (M * M)) by ring. lra.
Qed.

Lemma crit_poly_continuity k : continuity (crit_poly k).
Proof.
  destruct k as [[[k0 k1] k2] k3]. unfold crit_poly. reg.
Qed.

Lemma cubic_root_left (k0 k1 k2 k3 : R) : 0 < k3 -> 0 < crit_poly (k0, k1, k2, k3) 0 ->
  exists x, x < 0 /\ crit_poly (k0, k1, k2, k3) x = 0.
Proof.
  intros Hk H0. destruct (cubic_far k0 k1 k2 k3 Hk) as (HM & Hneg & _).
  set (M := far k0 k1 k2 k3) in *.
  destruct (IVT_cor (crit_poly (k0, k1, k2, k3)) (- M) 0 (crit_poly_continuity _) ltac:(lra) ltac:(nra))
    as [z [Hz Hg]].
  exists z. split; [|exact Hg].
  destruct (Req_dec z 0) as [E|E]; [subst z; lra | lra].
Qed.

Lemma cubic_root_right (k0 k1 k2 k3 : R) : 0 < k3 -> crit_poly (k0, k1, k2, k3) 1 < 0 ->
  exists x, 1 < x /\ crit_poly (k0, k1, k2, k3) x = 0.
Proof.
  intros Hk H1. destruct (cubic_far k0 k1 k2 k3 Hk) as (HM & _ & Hpos).
  set (M := far k0 k1 k2 k3) in *.
  destruct (IVT_cor (crit_poly (k0, k1, k2, k3)) 1 M (crit_poly_continuity _) HM ltac:(nra))
    as [z [Hz Hg]].
  exists z. split; [|exact Hg].
  destruct (Req_dec z 1) as [E|E]; [subst z; lra | lra].
Qed.

(** * The [need_ends] case analysis *)

Lemma quad_k3_nonneg (q : QuadBez R) (p : Point R) :
  let '(k0, k1, k2, k3) := quad_nearest_coeffs q p in
  0 <= k3 /\ k3 = v_hypot2 (quad_d1 q).
Proof.
  destruct q as [[x0 y0] [x1 y1] [x2 y2]], p as [x y]. nr_unfold.
  split; [|reflexivity].
  pose proof (Rle_0_sqr (x0 + x2 - x1 * 2)). pose proof (Rle_0_sqr (y0 + y2 - y1 * 2)). unfold Rsqr in *. lra.
Qed.

(** Every point of [0,1] is matched or beaten by an evaluated candidate: the heart of C09.
    [k3 > 0]: the quartic D(u) = |q(u) - p|^2 has a positive leading coefficient and D' = 4 g.
    A minimiser of D over [0,1] in the interior is a root of g, hence listed, in range, evaluated.
    A minimiser at 0: either the end points are evaluated, or every listed root is in [0,1]; then
    g(0) <= 0 (a positive g(0) would give a root left of 0, listed and out of range), and g(0) < 0
    would let D decrease to the right of 0; so g(0) = 0 and 0 itself is a listed, evaluated root.
    Symmetrically at 1. *)
Lemma quad_cands_cover (q : QuadBez R) (p : Point R) (roots : list R) :
  let k := quad_nearest_coeffs q p in
  0 < snd k ->
  roots_complete k roots ->
  forall u, 0 <= u <= 1 -> exists x, In x (cands_of roots) /\ quad_dist2 q p x <= quad_dist2 q p u.
Proof.
  intros k Hk3 Hcomp u Hu.
  set (F := quad_dist2 q p).
  destruct (continuity_ab_min F 0 1 ltac:(lra) (fun c _ => quad_dist2_continuity q p c)) as [m [Hmin Hm]].
  assert (Hgoal : exists x, In x (cands_of roots) /\ F x <= F m).
  2:{ destruct Hgoal as [x [Hx Hle]]. exists x. split; [exact Hx|]. specialize (Hmin u Hu). fold F. lra. }
  pose proof (quad_dist2_deriv q p m) as HD. fold k F in HD.
  destruct k as [[[k0 k1] k2] k3] eqn:Ek. cbn [snd] in Hk3.
  set (g := crit_poly (k0, k1, k2, k3)) in *.
  (* a root in [0,1] is an evaluated candidate *)
  assert (Hroot : forall x, 0 <= x <= 1 -> g x = 0 -> In x (cands_of roots)).
  { intros x Hx Hg. unfold cands_of. apply in_or_app. left. apply filter_In.
    split; [apply Hcomp; exact Hg | apply in_unit_true; exact Hx]. }
  destruct (Rtotal_order (g m) 0) as [Hneg | [Hzero | Hpos]].
  - (* g m < 0: D decreases to the right of m, so m = 1 *)
    destruct (Rle_lt_or_eq_dec m 1 ltac:(lra)) as [Hlt | ->].
    { destruct (deriv_neg_right F m (4 * g m) 1 HD ltac:(lra) Hlt) as [v [Hv Hlt2]].
      specialize (Hmin v ltac:(lra)). lra. }
    destruct (need_ends_of roots) eqn:En.
    + exists 1. split; [|lra]. unfold cands_of. rewrite En. apply in_or_app. right. right. left. reflexivity.
    + destruct (need_ends_false roots En) as [_ Hall].
      destruct (cubic_root_right k0 k1 k2 k3 Hk3 Hneg) as [x [Hx Hgx]].
      specialize (Hall x (Hcomp x Hgx)). lra.
  - exists m. split; [apply Hroot; [exact Hm | exact Hzero] | lra].
  - (* g m > 0: D decreases to the left of m, so m = 0 *)
    destruct (Rle_lt_or_eq_dec 0 m ltac:(lra)) as [Hlt | <-].
    { destruct (deriv_pos_left F m (4 * g m) 0 HD ltac:(lra) Hlt) as [v [Hv Hlt2]].
      specialize (Hmin v ltac:(lra)). lra. }
    destruct (need_ends_of roots) eqn:En.
    + exists 0. split; [|lra]. unfold cands_of. rewrite En. apply in_or_app. right. left. reflexivity.
    + destruct (need_ends_false roots En) as [_ Hall].
      destruct (cubic_root_left k0 k1 k2 k3 Hk3 Hpos) as [x [Hx Hgx]].
      specialize (Hall x (Hcomp x Hgx)). lra.
Qed.

(** ** The non-degenerate quadratic: any complete root list *)
Lemma quad_nearest_from_roots_min (q : QuadBez R) (p : Point R) (roots : list R) :
  let k := quad_nearest_coeffs q p in
  0 < snd k ->
  roots_complete k roots ->
  quad_nearest_spec q p (quad_nearest_from_roots q p roots).
Proof.
  intros k Hk3 Hcomp.
  destruct (from_roots_result q p roots) as (t & d & Hres & Hin & Hd & Hmin).
  exists t, d. split; [exact Hres|].
  split; [exact (cands_in_unit roots t Hin)|]. split; [symmetry; exact Hd|].
  intros u Hu.
  destruct (quad_cands_cover q p roots Hk3 Hcomp u Hu) as [x [Hx Hle]].
  specialize (Hmin x Hx). lra.
Qed.

(** ** With a root-complete cubic solver *)
Definition cubic_solver_complete_prop : Prop :=
  forall c0 c1 c2 c3 x : R, c3 <> 0 ->
    c0 + c1 * x + c2 * (x * x) + c3 * (x * x * x) = 0 -> In x (solve_cubic c0 c1 c2 c3).

Lemma quad_nearest_min (Hsolver : cubic_solver_complete_prop) (q : QuadBez R) (p : Point R) :
  quad_d1 q <> mkVec2 0 0 ->
  quad_nearest_spec q p (quad_nearest q p).
Proof.
  intros Hd1. unfold quad_nearest, quad_nearest_with.
  pose proof (quad_k3_nonneg q p) as Hk.
  pose proof (quad_nearest_from_roots_min q p) as Hmain.
  destruct (quad_nearest_coeffs q p) as [[[k0 k1] k2] k3] eqn:Ek.
  destruct Hk as [Hk3 Ek3].
  assert (Hpos : 0 < k3).
  { destruct (Rle_lt_or_eq_dec 0 k3 Hk3) as [H|H]; [exact H|]. exfalso. apply Hd1.
    destruct (quad_d1 q) as [a b]. unfold v_hypot2, v_dot in Ek3. cbn [vx vy] in Ek3. rs_unfold.
    assert (a = 0) by nra. assert (b = 0) by nra. subst; reflexivity. }
  apply Hmain; [exact Hpos|].
  intros x Hx. apply Hsolver; [lra | exact Hx].
Qed.

(** * The degree-degenerate quadratic (p0 - 2 p1 + p2 = 0: a uniformly parametrised line, or a point)

    The critical-point cubic degenerates to [k0 + k1 x]; the compiled code reaches [quad_linear]
    through the two non-finiteness tests of the solvers ([1/0 = inf]); see
    [solve_cubic_delegates_linear] below for the scalar-generic statement of that path. *)

Lemma parabola_cands (F : R -> R) (A k0 k1 : R) :
  (forall u, F u = A + 4 * u * k0 + 2 * (u * u) * k1) ->
  0 <= k1 -> (k1 = 0 -> k0 = 0) ->
  forall u, 0 <= u <= 1 -> exists x, In x (cands_of [(- k0) / k1]) /\ F x <= F u.
Proof.
  intros HF Hk1 Hk0 u Hu.
  set (r := (- k0) / k1).
  destruct (Req_dec k1 0) as [Z|NZ].
  - (* a point: constant distance, the single root 0 is evaluated *)
    assert (E0 : k0 = 0) by auto. assert (Er : r = 0) by (unfold r; rewrite E0, Z; unfold Rdiv; ring).
    exists 0. split.
    + unfold cands_of. rewrite Er. cbn [filter]. 
      replace (in_unit 0) with true by (symmetry; apply in_unit_true; lra).
      left; reflexivity.
    + rewrite !HF, E0, Z. lra.
  - assert (Hpos : 0 < k1) by lra.
    assert (Er : k1 * r = - k0) by (unfold r; field; lra).
    destruct (in_unit r) eqn:Hin.
    + exists r. split.
      * unfold cands_of. cbn [filter]. rewrite Hin. left; reflexivity.
      * rewrite !HF.
        assert (0 <= k1 * ((u - r) * (u - r))) by (apply Rmult_le_pos; [lra | apply Rle_0_sqr]).
        nra.
    + assert (Hne : need_ends_of [r] = true) by (unfold need_ends_of; cbn [existsb]; rewrite Hin; reflexivity).
      assert (Hout : r < 0 \/ 1 < r).
      { destruct (Rlt_dec r 0); [left; assumption|]. destruct (Rlt_dec 1 r); [right; assumption|].
        assert (in_unit r = true) by (apply in_unit_true; lra). congruence. }
      destruct Hout as [Hl|Hr].
      * exists 0. split.
        { unfold cands_of. rewrite Hne. apply in_or_app. right. left. reflexivity. }
        rewrite !HF.
        assert (0 <= u * (k1 * (u - 2 * r))) by (apply Rmult_le_pos; [lra | apply Rmult_le_pos; lra]).
        nra.
      * exists 1. split.
        { unfold cands_of. rewrite Hne. apply in_or_app. right. right. left. reflexivity. }
        rewrite !HF.
        assert (0 <= (1 - u) * (k1 * (2 * r - u - 1))) by (apply Rmult_le_pos; [lra | apply Rmult_le_pos; lra]).
        nra.
Qed.

Lemma quad_dist2_linear (q : QuadBez R) (p : Point R) :
  quad_d1 q = mkVec2 0 0 ->
  let '(k0, k1, k2, k3) := quad_nearest_coeffs q p in
  (forall u, quad_dist2 q p u = quad_dist2 q p 0 + 4 * u * k0 + 2 * (u * u) * k1) /\
  0 <= k1 /\ (k1 = 0 -> k0 = 0) /\ k2 = 0 /\ k3 = 0.
Proof.
  destruct q as [[x0 y0] [x1 y1] [x2 y2]], p as [x y]. nr_unfold.
  intros H. injection H as Hx Hy.
  assert (Ex : x2 = x1 * 2 - x0) by lra. assert (Ey : y2 = y1 * 2 - y0) by lra. subst x2 y2.
  split; [intros u; ring|].
  split; [pose proof (Rle_0_sqr (x1 - x0)); pose proof (Rle_0_sqr (y1 - y0)); unfold Rsqr in *; lra|].
  split.
  - intros Hz. set (a := x1 - x0) in *. set (b := y1 - y0) in *.
    assert (Hs : a * a + b * b = 0) by (ring_simplify in Hz; nra).
    assert (a = 0) by nra. assert (b = 0) by nra.
    replace a with 0 by lra. replace b with 0 by lra. ring.
  - split; ring.
Qed.

Lemma quad_nearest_linear_min (q : QuadBez R) (p : Point R) :
  quad_d1 q = mkVec2 0 0 ->
  let '(k0, k1, k2, k3) := quad_nearest_coeffs q p in
  quad_nearest_spec q p (quad_nearest_from_roots q p (quad_linear k0 k1)).
Proof.
  intros Hd1. pose proof (quad_dist2_linear q p Hd1) as HL.
  destruct (quad_nearest_coeffs q p) as [[[k0 k1] k2] k3].
  destruct HL as (HF & Hk1 & Hk0 & _ & _).
  assert (Eroots : quad_linear k0 k1 = [(- k0) / k1]) by reflexivity.
  rewrite Eroots.
  destruct (from_roots_result q p [(- k0) / k1]) as (t & d & Hres & Hin & Hd & Hmin).
  exists t, d. split; [exact Hres|].
  split; [exact (cands_in_unit _ t Hin)|]. split; [symmetry; exact Hd|].
  intros u Hu.
  destruct (parabola_cands (quad_dist2 q p) _ k0 k1 HF Hk1 Hk0 u Hu) as [x [Hx Hle]].
  specialize (Hmin x Hx). lra.
Qed.

(** the path of the compiled code to [quad_linear], for any scalar: both non-finiteness tests fire *)
Lemma solve_cubic_delegates_linear (T : Type) (S : Scalar T) (c0 c1 c2 c3 : T) :
  (fis_finite (c0 * (f1 / c3)) && fis_finite (c1 * (sv_third * (f1 / c3)))
     && fis_finite (c2 * (sv_third * (f1 / c3))))%S = false ->
  (negb (fis_finite (c0 * (f1 / c2))) || negb (fis_finite (c1 * (f1 / c2))))%S = true ->
  solve_cubic c0 c1 c2 c3 = quad_linear c0 c1.
Proof.
  intros H1 H2. unfold solve_cubic, solve_quadratic. rewrite H1. cbn [negb]. rewrite H2. reflexivity.
Qed.

(** [r_best.unwrap()] never panics: the result is always [Some] *)
Lemma quad_nearest_total (q : QuadBez R) (p : Point R) (roots : list R) :
  exists t d, quad_nearest_from_roots q p roots = Some (t, d) /\ 0 <= t <= 1 /\ d = quad_dist2 q p t.
Proof.
  destruct (from_roots_result q p roots) as (t & d & Hres & Hin & Hd & _).
  exists t, d. split; [exact Hres|]. split; [exact (cands_in_unit _ t Hin) | exact Hd].
Qed.

(** * Any root-complete solver: every quadratic, degenerate ones included

    A solver is root-complete when, for every polynomial of degree <= 3 that is not identically
    zero, it lists every real root.  (For the zero polynomial - the quadratic is a single point -
    any answer will do: the distance is constant and something is always evaluated.) *)

Definition solver_root_complete (solver : R -> R -> R -> R -> list R) : Prop :=
  forall k0 k1 k2 k3 x : R, (k0, k1, k2, k3) <> (0, 0, 0, 0) ->
    k0 + k1 * x + k2 * (x * x) + k3 * (x * x * x) = 0 -> In x (solver k0 k1 k2 k3).

Lemma linear_cands_cover (F : R -> R) (A k0 k1 : R) (roots : list R) :
  (forall u, F u = A + 4 * u * k0 + 2 * (u * u) * k1) ->
  0 < k1 -> In ((- k0) / k1) roots ->
  forall u, 0 <= u <= 1 -> exists x, In x (cands_of roots) /\ F x <= F u.
Proof.
  intros HF Hpos Hin u Hu.
  set (r := (- k0) / k1) in *.
  assert (Er : k1 * r = - k0) by (unfold r; field; lra).
  destruct (in_unit r) eqn:Hr.
  - exists r. split.
    + unfold cands_of. apply in_or_app. left. apply filter_In. split; assumption.
    + rewrite !HF.
      assert (0 <= k1 * ((u - r) * (u - r))) by (apply Rmult_le_pos; [lra | apply Rle_0_sqr]).
      nra.
  - assert (Hne : need_ends_of roots = true).
    { unfold need_ends_of. apply orb_true_iff. right. apply existsb_exists. exists r.
      split; [exact Hin | rewrite Hr; reflexivity]. }
    assert (Hout : r < 0 \/ 1 < r).
    { destruct (Rlt_dec r 0); [left; assumption|]. destruct (Rlt_dec 1 r); [right; assumption|].
      assert (in_unit r = true) by (apply in_unit_true; lra). congruence. }
    destruct Hout as [Hl|Hg].
    + exists 0. split.
      { unfold cands_of. rewrite Hne. apply in_or_app. right. left. reflexivity. }
      rewrite !HF.
      assert (0 <= u * (k1 * (u - 2 * r))) by (apply Rmult_le_pos; [lra | apply Rmult_le_pos; lra]).
      nra.
    + exists 1. split.
      { unfold cands_of. rewrite Hne. apply in_or_app. right. right. left. reflexivity. }
      rewrite !HF.
      assert (0 <= (1 - u) * (k1 * (2 * r - u - 1))) by (apply Rmult_le_pos; [lra | apply Rmult_le_pos; lra]).
      nra.
Qed.

Lemma quad_from_roots_min_any (q : QuadBez R) (p : Point R) (roots : list R) :
  (quad_nearest_coeffs q p <> (0, 0, 0, 0) -> roots_complete (quad_nearest_coeffs q p) roots) ->
  quad_nearest_spec q p (quad_nearest_from_roots q p roots).
Proof.
  intros Hcomp.
  pose proof (quad_k3_nonneg q p) as Hk.
  pose proof (quad_nearest_from_roots_min q p roots) as Hmain.
  pose proof (quad_dist2_linear q p) as Hlin.
  destruct (quad_nearest_coeffs q p) as [[[k0 k1] k2] k3] eqn:Ek.
  destruct Hk as [Hk3 Ek3].
  destruct (Rle_lt_or_eq_dec 0 k3 Hk3) as [Hpos|Hz].
  - (* a genuine cubic *)
    apply Hmain; [exact Hpos|]. apply Hcomp.
    intros E. injection E as _ _ _ E3. lra.
  - (* degree-degenerate *)
    assert (Hd1 : quad_d1 q = mkVec2 0 0).
    { destruct (quad_d1 q) as [a b]. unfold v_hypot2, v_dot in Ek3. cbn [vx vy] in Ek3. rs_unfold.
      assert (a = 0) by nra. assert (b = 0) by nra. subst; reflexivity. }
    destruct (Hlin Hd1) as (HF & Hk1 & Hk0 & E2 & E3).
    destruct (from_roots_result q p roots) as (t & d & Hres & Hin & Hd & Hmin).
    exists t, d. split; [exact Hres|].
    split; [exact (cands_in_unit _ t Hin)|]. split; [symmetry; exact Hd|].
    intros u Hu.
    destruct (Rle_lt_or_eq_dec 0 k1 Hk1) as [Hk1pos|Hk1z].
    + (* a uniformly parametrised line: the single root of k0 + k1 x is listed *)
      assert (Hr : In ((- k0) / k1) roots).
      { apply Hcomp.
        - intros E. injection E as _ E1 _ _. lra.
        - unfold crit_poly. rewrite E2, E3. field. lra. }
      destruct (linear_cands_cover (quad_dist2 q p) _ k0 k1 roots HF Hk1pos Hr u Hu) as [x [Hx Hle]].
      specialize (Hmin x Hx). lra.
    + (* a single point: the distance is constant *)
      assert (Ek0 : k0 = 0) by (apply Hk0; lra).
      rewrite Hd, (HF t), (HF u), Ek0, <- Hk1z. lra.
Qed.

Lemma quad_nearest_with_min (solver : R -> R -> R -> R -> list R) :
  solver_root_complete solver ->
  forall (q : QuadBez R) (p : Point R), quad_nearest_spec q p (quad_nearest_with solver q p).
Proof.
  intros Hsolver q p. unfold quad_nearest_with.
  pose proof (quad_from_roots_min_any q p) as H.
  destruct (quad_nearest_coeffs q p) as [[[k0 k1] k2] k3].
  apply H. intros Hnz x Hx. apply Hsolver; [exact Hnz | exact Hx].
Qed.

(** * The repaired [QuadBez::nearest] (proposed_fixes/C09-nearest-degenerate-quad.diff) *)

Lemma nr_poly_crit k0 k1 k2 k3 t : nr_poly k0 k1 k2 k3 t = crit_poly (k0, k1, k2, k3) t.
Proof. unfold nr_poly, crit_poly. rs_unfold. ring. Qed.

(* the Newton polish leaves an exact root where it is *)
Lemma polish_root_fixed k0 k1 k2 k3 t :
  crit_poly (k0, k1, k2, k3) t = 0 -> nr_polish_root k0 k1 k2 k3 t = t.
Proof.
  intros H. unfold nr_polish_root. rewrite nr_poly_crit, H.
  cbn [nr_polish].
  replace (t - 0 / (k1 + t * (f2 * k2 + t * (f3 * k3))))%S with t by (rs_unfold; unfold Rdiv; ring).
  rewrite nr_poly_crit, H.
  change (fabs 0 <? fabs 0)%S with (Rltb (Rabs 0) (Rabs 0)).
  destruct (Rltb_spec (Rabs 0) (Rabs 0)); [lra | reflexivity].
Qed.

Definition quad_solver_root_complete (squad : R -> R -> R -> list R) : Prop :=
  forall k0 k1 k2 x : R, (k0, k1, k2) <> (0, 0, 0) ->
    k0 + k1 * x + k2 * (x * x) = 0 -> In x (squad k0 k1 k2).

(** outside the band 0 < |d1|^2 <= 2^-104 |d0|^2, in which the repaired code drops the cubic
    term on purpose, the repaired [nearest] returns the minimum, for all complete solvers *)
Lemma quad_nearest_repaired_min (scubic : R -> R -> R -> R -> list R) (squad : R -> R -> R -> list R) :
  solver_root_complete scubic -> quad_solver_root_complete squad ->
  forall (q : QuadBez R) (p : Point R),
  quad_d1 q = mkVec2 0 0 \/
    Q2R (1 # 2 ^ 104) * v_hypot2 (pt_sub (q1 q) (q0 q)) < v_hypot2 (quad_d1 q) ->
  quad_nearest_spec q p (quad_nearest_repaired_with scubic squad q p).
Proof.
  intros Hc Hq q p Hband. unfold quad_nearest_repaired_with.
  pose proof (quad_from_roots_min_any q p) as H.
  pose proof (quad_k3_nonneg q p) as Hk.
  pose proof (quad_dist2_linear q p) as Hlin.
  destruct (quad_nearest_coeffs q p) as [[[k0 k1] k2] k3] eqn:Ek.
  destruct Hk as [Hk3 Ek3].
  apply H. intros Hnz x Hx.
  rewrite <- (polish_root_fixed k0 k1 k2 k3 x Hx). apply in_map.
  change (k3 <=? nr_eps2 * v_hypot2 (pt_sub (q1 q) (q0 q)))%S
    with (Rleb k3 (Q2R (1 # 2 ^ 104) * v_hypot2 (pt_sub (q1 q) (q0 q)))).
  destruct (Rleb_spec k3 (Q2R (1 # 2 ^ 104) * v_hypot2 (pt_sub (q1 q) (q0 q)))) as [Hle|Hgt].
  - destruct Hband as [Hd1|Hlt]; [|rewrite <- Ek3 in Hlt; lra].
    destruct (Hlin Hd1) as (_ & _ & _ & E2 & E3).
    apply Hq.
    + intros E. injection E as E0 E1 _. apply Hnz. rewrite E0, E1, E2, E3. reflexivity.
    + unfold crit_poly in Hx. rewrite E3 in Hx. lra.
  - apply Hc; [exact Hnz | exact Hx].
Qed.

(** * CubicBez::nearest *)

Lemma pt_distance_sqrt (a b : Point R) : pt_distance a b = sqrt (pt_distance_squared a b).
Proof. reflexivity. Qed.

Lemma pt_distance_sym (a b : Point R) : pt_distance a b = pt_distance b a.
Proof. rewrite !pt_distance_sqrt. f_equal. destruct a, b. nr_unfold. ring. Qed.

Lemma pt_distance_triangle (a b m : Point R) : pt_distance a b <= pt_distance a m + pt_distance m b.
Proof.
  destruct a as [ax ay], b as [bx by_], m as [mx my].
  pose proof (Rgeom.triangle ax ay bx by_ mx my) as H.
  unfold Rgeom.dist_euc, Rsqr in H. nr_unfold. exact H.
Qed.

Lemma pt_distance_squared_nonneg (a b : Point R) : 0 <= pt_distance_squared a b.
Proof.
  destruct a as [ax ay], b as [bx by_]. nr_unfold.
  pose proof (Rle_0_sqr (ax - bx)). pose proof (Rle_0_sqr (ay - by_)). unfold Rsqr in *. lra.
Qed.

(* every u in [0,1] lies in one of the n equal cells *)
Lemma unit_cell (n : nat) : (1 <= n)%nat -> forall x, 0 <= x <= INR n ->
  exists k, (k < n)%nat /\ INR k <= x <= INR k + 1.
Proof.
  induction n as [|m IH]; intros Hn x Hx; [lia|].
  destruct m as [|m'].
  - exists 0%nat. split; [lia|]. simpl in *. lra.
  - destruct (Rle_dec x (INR (S m'))) as [Hle|Hgt].
    + destruct (IH ltac:(lia) x ltac:(lra)) as [k [Hk Hkx]]. exists k. split; [lia | exact Hkx].
    + exists (S m'). split; [lia|]. rewrite (S_INR (S m')) in Hx. lra.
Qed.

Section CubicNearest.
Variable c : CubicBez R.
Variable p : Point R.
Variable n : nat.
Variable a : R.
(* what answers the quadratic pieces *)
Variable qn : QuadBez R -> Point R -> option (R * R).
Hypothesis Hn : (1 <= n)%nat.

Let N : Z := Z.of_nat n.
Let piece (i : Z) := nr_quads_piece c N i.
Let pq (i : Z) : QuadBez R := snd (piece i).
Let pt0 (i : Z) : R := fst (fst (piece i)).
Let pt1 (i : Z) : R := snd (fst (piece i)).

(* the C17 bound: each quadratic is within [a] of its cubic piece at corresponding parameters *)
Hypothesis to_quads_pointwise_bound : forall (i : nat) (u : R), (i < n)%nat -> 0 <= u <= 1 ->
  pt_distance (cubic_eval c (pt0 (Z.of_nat i) + u * (pt1 (Z.of_nat i) - pt0 (Z.of_nat i))))
              (quad_eval (pq (Z.of_nat i)) u) <= a.
(* each quadratic piece is answered correctly *)
Hypothesis pieces_nearest : forall i : nat, (i < n)%nat ->
  quad_nearest_spec (pq (Z.of_nat i)) p (qn (pq (Z.of_nat i)) p).

Lemma piece_params (i : nat) : pt0 (Z.of_nat i) = INR i / INR n /\ pt1 (Z.of_nat i) = (INR i + 1) / INR n.
Proof.
  unfold pt0, pt1, piece, nr_quads_piece, N. cbn [fst snd]. rs_unfold.
  rewrite <- !INR_IZR_INZ. split; [reflexivity|].
  replace (Z.of_nat i + 1)%Z with (Z.of_nat (S i)) by lia. rewrite <- INR_IZR_INZ, S_INR. reflexivity.
Qed.

(* loop invariant: [done] are the piece indices processed so far *)
Definition cinv (done : list nat) (st : nr_state (T:=R)) : Prop :=
  match snd st with
  | None => done = []
  | Some r => exists j nt, In j done /\ (j < n)%nat /\
        qn (pq (Z.of_nat j)) p = Some (nt, r) /\
        fst st = pt0 (Z.of_nat j) + nt * (pt1 (Z.of_nat j) - pt0 (Z.of_nat j)) /\
        forall i nt' d', In i done -> qn (pq (Z.of_nat i)) p = Some (nt', d') -> r <= d'
  end.

Lemma cubic_loop_spec (is : list nat) : forall done st,
  (forall i, In i is -> (i < n)%nat) ->
  cinv done st ->
  exists st', cubic_nearest_loop_with qn c p N (map Z.of_nat is) st = Some st' /\ cinv (done ++ is) st'.
Proof.
  induction is as [|i rest IH]; intros done st Hlt Hinv; cbn [map cubic_nearest_loop_with].
  - exists st. rewrite app_nil_r. split; [reflexivity | exact Hinv].
  - assert (Hi : (i < n)%nat) by (apply Hlt; left; reflexivity).
    destruct (pieces_nearest i Hi) as (nt & nd & Hq & _).
    fold (piece (Z.of_nat i)).
    destruct (piece (Z.of_nat i)) as [[t0 t1] qi] eqn:Ep.
    assert (Eq : pq (Z.of_nat i) = qi) by (unfold pq; rewrite Ep; reflexivity).
    assert (E0 : pt0 (Z.of_nat i) = t0) by (unfold pt0; rewrite Ep; reflexivity).
    assert (E1 : pt1 (Z.of_nat i) = t1) by (unfold pt1; rewrite Ep; reflexivity).
    rewrite Eq in Hq. rewrite Hq.
    replace (done ++ i :: rest) with ((done ++ [i]) ++ rest) by (rewrite <- app_assoc; reflexivity).
    apply IH; [intros k Hk; apply Hlt; right; exact Hk|].
    unfold cinv, nr_cubic_step in *. destruct st as [bt [br|]]; cbn [fst snd] in *.
    + destruct Hinv as (j & ntj & Hj & Hjn & Hqj & Hbt & Hmin).
      change (fltb nd br) with (Rltb nd br).
      destruct (Rltb_spec nd br) as [Hlt2|Hge]; cbn [fst snd].
      * exists i, nt. split; [apply in_or_app; right; left; reflexivity|]. split; [exact Hi|].
        split; [rewrite Eq; exact Hq|]. split; [rewrite E0, E1; reflexivity|].
        intros k nt' d' Hk Hqk. apply in_app_or in Hk. destruct Hk as [Hk|[Hk|[]]].
        -- specialize (Hmin k nt' d' Hk Hqk). lra.
        -- subst k. rewrite Eq, Hq in Hqk. injection Hqk as _ <-. lra.
      * exists j, ntj. split; [apply in_or_app; left; exact Hj|]. split; [exact Hjn|].
        split; [exact Hqj|]. split; [exact Hbt|].
        intros k nt' d' Hk Hqk. apply in_app_or in Hk. destruct Hk as [Hk|[Hk|[]]].
        -- exact (Hmin k nt' d' Hk Hqk).
        -- subst k. rewrite Eq, Hq in Hqk. injection Hqk as _ <-. lra.
    + subst done. cbn [app].
      exists i, nt. split; [left; reflexivity|]. split; [exact Hi|].
      split; [rewrite Eq; exact Hq|]. split; [rewrite E0, E1; reflexivity|].
      intros k nt' d' [Hk|[]] Hqk. subst k. rewrite Eq, Hq in Hqk. injection Hqk as _ <-. lra.
Qed.

Lemma cubic_nearest_within_accuracy :
  exists t d, cubic_nearest_n_with qn c p n = Some (t, d) /\ 0 <= t <= 1 /\ 0 <= d /\
    (forall u, 0 <= u <= 1 -> sqrt d <= cubic_dist c p u + a) /\
    cubic_dist c p t <= sqrt d + a.
Proof.
  assert (Hinit : cinv [] (nr_init (T:=R))) by (unfold cinv, nr_init; reflexivity).
  destruct (cubic_loop_spec (seq 0 n) [] nr_init
              ltac:(intros i Hi; apply in_seq in Hi; lia) Hinit) as [st [Hloop Hinv]].
  cbn [app] in Hinv.
  unfold cubic_nearest_n_with. fold N. rewrite Hloop.
  unfold cinv in Hinv. destruct st as [bt [r|]]; cbn [fst snd] in Hinv.
  2:{ exfalso. assert (Hl : length (seq 0 n) = 0%nat) by (rewrite Hinv; reflexivity). rewrite seq_length in Hl. lia. }
  destruct Hinv as (j & nt & _ & Hjn & Hqj & Hbt & Hmin).
  exists bt, r. split; [reflexivity|].
  destruct (pieces_nearest j Hjn) as (nt' & d' & Hq' & (Hnt & Hd & _)).
  rewrite Hqj in Hq'. injection Hq' as <- <-.
  destruct (piece_params j) as [E0 E1].
  assert (HnR : 0 < INR n) by (apply lt_0_INR; lia).
  assert (Hjr : INR j + 1 <= INR n) by (rewrite <- S_INR; apply le_INR; lia).
  assert (Hj0 : 0 <= INR j) by apply pos_INR.
  split.
  { (* the returned parameter is in [0,1] *)
    rewrite Hbt, E0, E1.
    replace (INR j / INR n + nt * ((INR j + 1) / INR n - INR j / INR n)) with ((INR j + nt) / INR n) by (field; lra).
    split.
    - apply Rmult_le_pos; [lra | left; apply Rinv_0_lt_compat; exact HnR].
    - apply Rmult_le_reg_r with (INR n); [exact HnR|]. unfold Rdiv. rewrite Rmult_assoc, Rinv_l by lra. lra. }
  split; [rewrite <- Hd; apply pt_distance_squared_nonneg|].
  split.
  - intros u Hu.
    destruct (unit_cell n Hn (u * INR n) ltac:(split; [apply Rmult_le_pos; lra | nra])) as [k [Hk Hku]].
    destruct (pieces_nearest k Hk) as (ntk & dk & Hqk & (_ & _ & Hmk)).
    specialize (Hmin k ntk dk ltac:(apply in_seq; lia) Hqk).
    destruct (piece_params k) as [K0 K1].
    set (s := u * INR n - INR k).
    assert (Hs : 0 <= s <= 1) by (unfold s; lra).
    specialize (Hmk s Hs).
    pose proof (to_quads_pointwise_bound k s Hk Hs) as Hb.
    assert (Eu : pt0 (Z.of_nat k) + s * (pt1 (Z.of_nat k) - pt0 (Z.of_nat k)) = u).
    { rewrite K0, K1. unfold s. field. lra. }
    rewrite Eu in Hb.
    unfold cubic_dist.
    apply Rle_trans with (sqrt (quad_dist2 (pq (Z.of_nat k)) p s)); [apply sqrt_le_1_alt; lra|].
    change (sqrt (quad_dist2 (pq (Z.of_nat k)) p s)) with (pt_distance (quad_eval (pq (Z.of_nat k)) s) p).
    pose proof (pt_distance_triangle (quad_eval (pq (Z.of_nat k)) s) p (cubic_eval c u)) as Ht.
    rewrite (pt_distance_sym (quad_eval (pq (Z.of_nat k)) s) (cubic_eval c u)) in Ht. lra.
  - unfold cubic_dist. rewrite Hbt.
    pose proof (to_quads_pointwise_bound j nt Hjn Hnt) as Hb.
    pose proof (pt_distance_triangle (cubic_eval c (pt0 (Z.of_nat j) + nt * (pt1 (Z.of_nat j) - pt0 (Z.of_nat j)))) p
                  (quad_eval (pq (Z.of_nat j)) nt)) as Ht.
    rewrite <- Hd.
    change (sqrt (quad_dist2 (pq (Z.of_nat j)) p nt)) with (pt_distance (quad_eval (pq (Z.of_nat j)) nt) p).
    lra.
Qed.

(** the property's two claims, against any attained minimum distance *)
Lemma cubic_nearest_vs_minimum :
  exists t d, cubic_nearest_n_with qn c p n = Some (t, d) /\ 0 <= t <= 1 /\
    forall tm dmin, min_on_unit_at (cubic_dist c p) tm dmin ->
      Rabs (sqrt d - dmin) <= a /\ cubic_dist c p t <= dmin + 2 * a.
Proof.
  destruct cubic_nearest_within_accuracy as (t & d & Hres & Ht & Hd & Hup & Hat).
  exists t, d. split; [exact Hres|]. split; [exact Ht|].
  intros tm dmin (Htm & Hdm & Hmin).
  specialize (Hup tm Htm). rewrite Hdm in Hup.
  specialize (Hmin t Ht).
  split; [apply Rabs_le; lra | lra].
Qed.

End CubicNearest.

(** [CubicBez::nearest] over any root-complete solver: every cubic, straight ones included *)
Lemma cubic_nearest_with_complete_solver (solver : R -> R -> R -> R -> list R) :
  solver_root_complete solver ->
  forall (c : CubicBez R) (p : Point R) (n : nat) (a : R),
  (1 <= n)%nat ->
  (forall (i : nat) (u : R), (i < n)%nat -> 0 <= u <= 1 ->
     let '(t0, t1, q) := nr_quads_piece c (Z.of_nat n) (Z.of_nat i) in
     pt_distance (cubic_eval c (t0 + u * (t1 - t0))) (quad_eval q u) <= a) ->
  exists t d, cubic_nearest_n_with (quad_nearest_with solver) c p n = Some (t, d) /\ 0 <= t <= 1 /\
    forall tm dmin, min_on_unit_at (cubic_dist c p) tm dmin ->
      Rabs (sqrt d - dmin) <= a /\ cubic_dist c p t <= dmin + 2 * a.
Proof.
  intros Hsolver c p n a Hn Hb.
  apply (cubic_nearest_vs_minimum c p n a (quad_nearest_with solver) Hn).
  - intros i u Hi Hu. specialize (Hb i u Hi Hu).
    destruct (nr_quads_piece c (Z.of_nat n) (Z.of_nat i)) as [[t0 t1] q]. exact Hb.
  - intros i Hi. apply quad_nearest_with_min. exact Hsolver.
Qed.

(** the minimum distance to a cubic over [0,1] is attained (so the statements against "any attained
    minimum" are not vacuous) *)
Lemma cubic_dist_min_exists (c : CubicBez R) (p : Point R) :
  exists tm, min_on_unit_at (cubic_dist c p) tm (cubic_dist c p tm).
Proof.
  set (D := fun u => pt_distance_squared (cubic_eval c u) p).
  assert (HC : continuity D).
  { unfold D. destruct c as [[x0 y0] [x1 y1] [x2 y2] [x3 y3]], p as [x y]. nr_unfold. reg. }
  destruct (continuity_ab_min D 0 1 ltac:(lra) (fun u _ => HC u)) as [m [Hmin Hm]].
  exists m. split; [exact Hm|]. split; [reflexivity|].
  intros u Hu. unfold cubic_dist. rewrite !pt_distance_sqrt. apply sqrt_le_1_alt. exact (Hmin u Hu).
Qed.

(** [cubic_nearest_within_accuracy] with the C17 bound in pattern form, over a complete solver *)
Lemma cubic_nearest_with_complete_solver_bounds (solver : R -> R -> R -> R -> list R) :
  solver_root_complete solver ->
  forall (c : CubicBez R) (p : Point R) (n : nat) (a : R),
  (1 <= n)%nat ->
  (forall (i : nat) (u : R), (i < n)%nat -> 0 <= u <= 1 ->
     let '(t0, t1, q) := nr_quads_piece c (Z.of_nat n) (Z.of_nat i) in
     pt_distance (cubic_eval c (t0 + u * (t1 - t0))) (quad_eval q u) <= a) ->
  exists t d, cubic_nearest_n_with (quad_nearest_with solver) c p n = Some (t, d) /\ 0 <= t <= 1 /\ 0 <= d /\
    (forall u, 0 <= u <= 1 -> sqrt d <= cubic_dist c p u + a) /\
    cubic_dist c p t <= sqrt d + a.
Proof.
  intros Hsolver c p n a Hn Hb.
  apply (cubic_nearest_within_accuracy c p n a (quad_nearest_with solver) Hn).
  - intros i u Hi Hu. specialize (Hb i u Hi Hu).
    destruct (nr_quads_piece c (Z.of_nat n) (Z.of_nat i)) as [[t0 t1] q]. exact Hb.
  - intros i Hi. apply quad_nearest_with_min. exact Hsolver.
Qed.

(** [CubicBez::nearest] never panics and its parameter is in [0,1], whatever answers the pieces
    (as long as that answer is [Some] with a parameter in [0,1], which [quad_nearest_total] gives
    for every solver) *)
Section CubicTotal.
Variable qn : QuadBez R -> Point R -> option (R * R).
Variable c : CubicBez R.
Variable p : Point R.
Variable n : nat.
Hypothesis Hn : (1 <= n)%nat.
Hypothesis Hqn : forall q, exists nt nd, qn q p = Some (nt, nd) /\ 0 <= nt <= 1.

Let tinv (st : nr_state (T:=R)) : Prop :=
  match snd st with None => True | Some _ => 0 <= fst st <= 1 end.

Lemma cubic_loop_total (is : list nat) : forall st,
  (forall i, In i is -> (i < n)%nat) -> tinv st ->
  exists st', cubic_nearest_loop_with qn c p (Z.of_nat n) (map Z.of_nat is) st = Some st' /\ tinv st' /\
              (is <> [] -> snd st' <> None).
Proof.
  induction is as [|i rest IH]; intros st Hlt Hinv; cbn [map cubic_nearest_loop_with].
  - exists st. split; [reflexivity|]. split; [exact Hinv | intros H; contradiction].
  - assert (Hi : (i < n)%nat) by (apply Hlt; left; reflexivity).
    unfold nr_quads_piece. rs_unfold.
    set (q := nr_quad_of_cubic _).
    destruct (Hqn q) as (nt & nd & Eq & Hnt). rewrite Eq.
    set (st1 := nr_cubic_step st _ _ nt nd).
    assert (Hst1 : tinv st1 /\ snd st1 <> None).
    { unfold st1, nr_cubic_step, tinv in *.
      assert (Hrange : 0 <= IZR (Z.of_nat i) / IZR (Z.of_nat n)
                            + nt * (IZR (Z.of_nat i + 1) / IZR (Z.of_nat n) - IZR (Z.of_nat i) / IZR (Z.of_nat n)) <= 1).
      { replace (Z.of_nat i + 1)%Z with (Z.of_nat (S i)) by lia.
        rewrite <- !INR_IZR_INZ, S_INR.
        assert (HnR : 0 < INR n) by (apply lt_0_INR; lia).
        assert (Hjr : INR i + 1 <= INR n) by (rewrite <- S_INR; apply le_INR; lia).
        assert (Hj0 : 0 <= INR i) by apply pos_INR.
        replace (INR i / INR n + nt * ((INR i + 1) / INR n - INR i / INR n)) with ((INR i + nt) / INR n) by (field; lra).
        split.
        - apply Rmult_le_pos; [lra | left; apply Rinv_0_lt_compat; exact HnR].
        - apply Rmult_le_reg_r with (INR n); [exact HnR|]. unfold Rdiv. rewrite Rmult_assoc, Rinv_l by lra. lra. }
      destruct st as [bt [br|]]; cbn [fst snd] in *.
      - change (fltb nd br) with (Rltb nd br). destruct (Rltb nd br); cbn [fst snd]; split; try exact Hrange; try exact Hinv; discriminate.
      - split; [exact Hrange | discriminate]. }
    destruct Hst1 as [Ht1 Hs1].
    destruct (IH st1 ltac:(intros k Hk; apply Hlt; right; exact Hk) Ht1) as (st' & Hloop & Hinv' & Hne).
    exists st'. split; [exact Hloop|]. split; [exact Hinv'|]. intros _.
    destruct rest as [|j rest'].
    + cbn in Hloop. injection Hloop as <-. exact Hs1.
    + apply Hne. discriminate.
Qed.

Lemma cubic_nearest_total :
  exists t d, cubic_nearest_n_with qn c p n = Some (t, d) /\ 0 <= t <= 1.
Proof.
  destruct (cubic_loop_total (seq 0 n) nr_init ltac:(intros i Hi; apply in_seq in Hi; lia) I)
    as (st & Hloop & Hinv & Hne).
  unfold cubic_nearest_n_with. rewrite Hloop.
  assert (Hs : snd st <> None).
  { apply Hne. destruct n; [lia | discriminate]. }
  destruct st as [bt [r|]]; [|contradiction].
  exists bt, r. split; [reflexivity | exact Hinv].
Qed.
End CubicTotal.

Lemma cubic_nearest_total_any_solver (solver : R -> R -> R -> R -> list R) (c : CubicBez R) (p : Point R) (n : nat) :
  (1 <= n)%nat ->
  exists t d, cubic_nearest_n_with (quad_nearest_with solver) c p n = Some (t, d) /\ 0 <= t <= 1.
Proof.
  intros Hn. apply cubic_nearest_total; [exact Hn|].
  intros q. unfold quad_nearest_with.
  destruct (quad_nearest_coeffs q p) as [[[k0 k1] k2] k3].
  destruct (quad_nearest_total q p (solver k0 k1 k2 k3)) as (t & d & H1 & H2 & _).
  exists t, d. split; assumption.
Qed.
