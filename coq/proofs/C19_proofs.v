(** C19 — the libm backend table: soundness of the decision [table_ok], for every scalar. *)
From Coq Require Import ZArith List Bool String Ascii Floats.
From KV Require Import Scalar F64 Libm.
Import ListNotations.
Local Open Scope string_scope.

Lemma entry_sig_eqb_l64 a b : entry_sig_eqb a b = true ->
  e_name a = e_name b /\ List.length (e_args a) = List.length (e_args b) /\ e_l64 a = e_l64 b /\ e_l32 a = e_l32 b
  /\ e_ret a = e_ret b.
Proof.
  unfold entry_sig_eqb; intro E.
  repeat rewrite andb_true_iff in E.
  destruct E as (((((E1 & E2) & _) & E4) & E5) & E6).
  apply String.eqb_eq in E1, E4, E5, E6. apply Nat.eqb_eq in E2.
  repeat split; assumption.
Qed.

Lemma table_ok_shape sh sg t : table_ok sh sg t = true ->
  sh_self_first sh = true /\ sh_args_in_order sh = true /\ sh_f64_uses_l64 sh = true /\ sh_f32_uses_l32 sh = true
  /\ sg_nan_guard sg = true /\ sg_one_copysign_self sg = true
  /\ forall m, In m required_methods -> entry_ok t m = true.
Proof.
  unfold table_ok; intro E.
  repeat rewrite andb_true_iff in E.
  destruct E as ((((((E1 & E2) & E3) & E4) & E5) & E6) & E7).
  repeat split; try assumption.
  intros m Hm. rewrite forallb_forall in E7. apply E7, Hm.
Qed.

Section Generic.
Context {T : Type} `{Scalar T}.

(** If the table found in the source passes [table_ok], then for every method the crate needs and
    every argument list on which the std method is defined, the libm build computes the very same
    scalar operation: same function, same argument order. *)
Lemma backend_agrees sh sg t : table_ok sh sg t = true ->
  forall m (a r : list T), In m required_methods ->
  method_sem m a = Some r -> backend_eval sh t m a = Some r.
Proof.
  intros OK m a r Hm Hsem.
  destruct (table_ok_shape _ _ _ OK) as (S1 & S2 & S3 & _ & _ & _ & EO).
  specialize (EO m Hm).
  unfold entry_ok in EO.
  destruct (lookup t m) as [e|] eqn:Le; [|discriminate].
  destruct (lookup spec_table m) as [s|] eqn:Ls; [|discriminate].
  apply andb_true_iff in EO; destruct EO as [EO _].
  destruct (entry_sig_eqb_l64 _ _ EO) as (_ & Hlen & H64 & _ & _).
  unfold backend_eval; rewrite Le, S1, S2, S3, H64, Hlen; cbn [andb].
  (* now one case per required method *)
  unfold required_methods in Hm; cbn [In] in Hm.
  repeat (destruct Hm as [Hm|Hm];
          [ subst m; cbv in Ls; injection Ls as <-;
            destruct a as [|x [|y [|z [|w a']]]]; cbn in Hsem |- *; try discriminate; try exact Hsem;
            (* powi: defined only on integral exponents *)
            try (destruct (is_integral y); [exact Hsem | discriminate])
          | ]).
  destruct Hm.
Qed.

End Generic.

(** the hand-written [signum] of the macro is std's: NaN on NaN, else a unit with the sign bit of the
    argument (so signum(+0) = 1, signum(-0) = -1) — on every binary64 value *)
Lemma signum_equiv (x : float) :
  F.signum x = if PrimFloat.is_nan x then nan else if PrimFloat.get_sign x then (-1)%float else 1%float.
Proof.
  unfold F.signum, F.copysign.
  destruct (PrimFloat.is_nan x); [reflexivity|].
  change (PrimFloat.get_sign 1) with false.
  destruct (PrimFloat.get_sign x); reflexivity.
Qed.

(** non-vacuity: the reference table passes; a swapped mapping, a swapped argument order, a missing
    entry and an f32 sibling mismatch are each rejected *)
Definition good_shape := mkShape true true true true.
Definition good_signum := mkSignum true true.

Lemma spec_table_passes : table_ok good_shape good_signum spec_table = true.
Proof. vm_compute. reflexivity. Qed.

Definition swap_sin_cos (e : entry) : entry :=
  if String.eqb (e_name e) "sin" then mkEntry "sin" [] "Self" "cos" "cosf"
  else if String.eqb (e_name e) "cos" then mkEntry "cos" [] "Self" "sin" "sinf" else e.

Lemma swapped_mapping_rejected : table_ok good_shape good_signum (map swap_sin_cos spec_table) = false.
Proof. vm_compute. reflexivity. Qed.
Lemma args_out_of_order_rejected : table_ok (mkShape true false true true) good_signum spec_table = false.
Proof. vm_compute. reflexivity. Qed.
Lemma missing_entry_rejected : table_ok good_shape good_signum (tl spec_table) = false.
Proof. vm_compute. reflexivity. Qed.
Lemma signum_without_nan_guard_rejected : table_ok good_shape (mkSignum false true) spec_table = false.
Proof. vm_compute. reflexivity. Qed.
