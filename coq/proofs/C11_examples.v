(** C11: concrete instances meeting the hypotheses of the theorems (non-vacuity). *)
From Coq Require Import ZArith QArith Reals List Bool Lra Lia Psatz.
From KV Require Import Scalar RInst Geom Rect Affine Curves ShapeTypes ShapeQueries RTac RectSpec RayCast ShapeSpec.
From KV Require Import C11_proofs C11_curved C11_cseg.
Import ListNotations.
Local Open Scope R_scope.

Lemma tiling_example :
  sorted_idx [0; 1; 1; 3] /\ (2 <= length [0; 1; 1; 3])%nat /\
  rect_winding (tile [0; 1; 1; 3] [0; 2] 2 0) (mkPoint 1 0) = 1%Z /\
  rect_winding (tile [0; 1; 1; 3] [0; 2] 0 0) (mkPoint 1 0) = 0%Z.
Proof.
  split; [|split; [simpl; lia|]].
  - intros i Hi. simpl in Hi. destruct i as [|[|[|i]]]; simpl; try lra; lia.
  - unfold tile. cbn [nth]. sq_unfold. unfold Rmin, Rmax. split; dec_all; reflexivity.
Qed.

Lemma not_on_segment_by_orient s e p : orient s e p <> 0 -> ~ on_segment s e p.
Proof. intros H [O _]. contradiction. Qed.

Lemma triangle_example :
  let t := mkTriangle (mkPoint 0 0) (mkPoint 4 0) (mkPoint 0 4) in
  ~ on_polygon (tri_outline t) (mkPoint 1 1) /\ tri_winding t (mkPoint 1 1) = 1%Z /\
  ~ on_polygon (tri_outline t) (mkPoint 5 5) /\ tri_winding t (mkPoint 5 5) = 0%Z /\
  tri_winding (mkTriangle (mkPoint 0 0) (mkPoint 0 4) (mkPoint 4 0)) (mkPoint 1 1) = (-1)%Z.
Proof.
  cbv zeta. repeat split.
  - intros (se & Hin & Hon). cbn in Hin. destruct Hin as [<-|[<-|[<-|[]]]];
      revert Hon; apply not_on_segment_by_orient; unfold orient; cbn [px py fst snd]; lra.
  - sq_unfold. unfold Rsignum. dec_all; reflexivity.
  - intros (se & Hin & Hon). cbn in Hin. destruct Hin as [<-|[<-|[<-|[]]]];
      revert Hon; apply not_on_segment_by_orient; unfold orient; cbn [px py fst snd]; lra.
  - sq_unfold. unfold Rsignum. dec_all; reflexivity.
  - sq_unfold. unfold Rsignum. dec_all; reflexivity.
Qed.

Lemma rounded_rect_example :
  let rr := rr_from_rect (mkRect 10 4 0 0) (mkRadii 1 (-2) 5 0) in
  rr_wf rr /\ rr_radii rr = mkRadii 1 2 2 0 /\
  rr_winding rr (mkPoint 5 2) = 1%Z /\ rr_winding rr (mkPoint (99 / 10) (39 / 10)) = 0%Z.
Proof.
  cbv zeta. split; [apply rr_from_rect_wf|].
  assert (rr_from_rect (mkRect 10 4 0 0) (mkRadii 1 (-2) 5 0) = mkRoundedRect (mkRect 0 0 10 4) (mkRadii 1 2 2 0)) as E.
  { unfold rr_from_rect, rect_abs, radii_abs, radii_clamp, rect_width, rect_height.
    cbn [rx0 ry0 rx1 ry1 r_top_left r_top_right r_bottom_right r_bottom_left]. rs_unfold.
    repeat f_equal; minmax. }
  rewrite E. split; [reflexivity|].
  assert (rr_wf (mkRoundedRect (mkRect 0 0 10 4) (mkRadii 1 2 2 0))) as WF.
  { unfold rr_wf, radii_ok, nonneg. cbn. unfold Rmin. destruct (Rle_dec _ _); lra. }
  split.
  - apply rr_winding_spec; [exact WF|].
    unfold in_rounded_rect, in_closed, corner_ok, sq. cbn. repeat split; intros; lra.
  - apply rr_winding_spec; [exact WF|].
    unfold in_rounded_rect, in_closed, corner_ok, sq. cbn. intros (_ & _ & _ & H3 & _).
    assert (0 <= 1 * (99 / 10 - (10 - 2))) as A by lra. assert (0 <= 1 * (39 / 10 - (4 - 2))) as B by lra.
    specialize (H3 A B). lra.
Qed.

Lemma ellipse_example :
  aff_determinant (mkAffine 2 0 0 (-1) 5 5) <> 0 /\
  ellipse_winding (mkEllipse (mkAffine 2 0 0 (-1) 5 5)) (mkPoint 6 5) = 1%Z /\
  ellipse_winding (mkEllipse (mkAffine 2 0 0 (-1) 5 5)) (mkPoint 5 7) = 0%Z.
Proof.
  split; [sq_unfold; lra|]. split; sq_unfold.
  - match goal with |- context [Rltb ?a ?b] => destruct (Rltb_spec a b) as [L|L] end; [reflexivity|exfalso; apply L; lra].
  - match goal with |- context [Rltb ?a ?b] => destruct (Rltb_spec a b) as [L|L] end; [exfalso; lra|reflexivity].
Qed.
