(** C11: closed-form shape queries vs. the shapes' own outlines — proofs at the real instance. *)
From Coq Require Import ZArith QArith Reals List Bool Lra Lia Psatz.
From Flocq Require Import Core.Raux.
From KV Require Import Scalar RInst Geom Rect Affine Curves ShapeTypes ShapeQueries RTac RectSpec RayCast.
Import ListNotations.
Local Open Scope R_scope.

(* one call-by-value pass over a white-list, then the real operations *)
Ltac sq_unfold :=
  cbv [line_winding_inner sign_to_T poly_winding poly_cast poly_edges poly_edges_from rect_outline tri_outline
       edge_cast orient on_segment crosses_up crosses_down
       rect_winding rect_abs rect_bounding_box rect_area rect_perimeter rect_width rect_height rect_center
       rect_from_points
       rr_from_rect radii_abs radii_clamp rr_width rr_height rr_center rr_area rr_perimeter rr_winding
       rr_bounding_box sum4 frac_pi_2 frac_pi_4 two_pi
       circle_area circle_perimeter circle_winding circle_bounding_box
       cseg_area cseg_perimeter cseg_in_band cseg_winding cseg_winding_pinned cseg_bounding_box
       ellipse_from_affine ellipse_center ellipse_winding ellipse_bounding_box
       tri_area tri_perimeter tri_crosses tri_winding tri_winding_pinned tri_bounding_box
       line_shape_area line_shape_perimeter line_shape_winding line_shape_bounding_box
       aff_inverse aff_apply aff_determinant aff_translation
       pt_sub v_cross v_dot v_hypot2 v_hypot pt_distance to_point to_vec2
       map fold_left fst snd
       px py vx vy rx0 ry0 rx1 ry1 l0 l1 aa ab ac ad ae af
       r_top_left r_top_right r_bottom_right r_bottom_left rr_rect rr_radii
       ci_center ci_radius cs_center cs_outer_radius cs_inner_radius cs_start_angle cs_sweep_angle
       el_inner tri_a tri_b tri_c] in *;
  rs_unfold; cbv [Q2R Qnum Qden] in *.

Ltac destruct_pts :=
  repeat match goal with
  | p : Point R |- _ => destruct p
  | r : Rect R |- _ => destruct r
  | t : Triangle R |- _ => destruct t
  end.

(** ** The line case of [PathSeg::winding_inner] is the half-open rule *)

Lemma line_winding_inner_eq_edge_cast (s e p : Point R) :
  line_winding_inner s e p = edge_cast s e p.
Proof.
  destruct s as [sx sy], e as [ex ey], p as [x y]. sq_unfold.
  destruct (Rltb_spec sy ey) as [Hup|Hnup].
  - (* upward edge *)
    destruct (Rltb_spec y sy) as [H1|H1]; cbn [orb].
    { destruct (Rle_dec sy y); [lra|]. destruct (Rle_dec ey y); [lra|reflexivity]. }
    destruct (Rleb_spec ey y) as [H2|H2]; cbn [orb].
    { destruct (Rle_dec sy y); [|lra]. destruct (Rlt_dec y ey); [lra|reflexivity]. }
    destruct (Rle_dec sy y); [|lra]. destruct (Rlt_dec y ey); [|lra].
    destruct (Rltb_spec x (Rmin sx ex)) as [H3|H3].
    { destruct (Rle_dec _ 0) as [H4|H4]; [|reflexivity]. exfalso. revert H3. minmax; nra. }
    destruct (Rleb_spec (Rmax sx ex) x) as [H5|H5].
    { destruct (Rle_dec _ 0) as [H4|H4]; [reflexivity|]. exfalso. apply H4. revert H5. minmax; nra. }
    case_ifs; destruct (Rle_dec _ 0) as [H4|H4]; try reflexivity; exfalso; nra.
  - destruct (Rltb_spec ey sy) as [Hdn|Hndn].
    + destruct (Rltb_spec y ey) as [H1|H1]; cbn [orb].
      { destruct (Rle_dec sy y); [lra|]. destruct (Rle_dec ey y); [lra|reflexivity]. }
      destruct (Rleb_spec sy y) as [H2|H2]; cbn [orb].
      { destruct (Rle_dec sy y); [|lra]. destruct (Rlt_dec y ey); [lra|reflexivity]. }
      destruct (Rle_dec sy y); [lra|]. destruct (Rle_dec ey y); [|lra].
      destruct (Rltb_spec x (Rmin sx ex)) as [H3|H3].
      { destruct (Rle_dec 0 _) as [H4|H4]; [|reflexivity]. exfalso. revert H3. minmax; nra. }
      destruct (Rleb_spec (Rmax sx ex) x) as [H5|H5].
      { destruct (Rle_dec 0 _) as [H4|H4]; [reflexivity|]. exfalso. apply H4. revert H5. minmax; nra. }
      case_ifs; destruct (Rle_dec 0 _) as [H4|H4]; try reflexivity; exfalso; nra.
    + (* horizontal *)
      assert (sy = ey) by lra. subst ey.
      destruct (Rle_dec sy y); [destruct (Rlt_dec y sy); [lra|reflexivity]|].
      destruct (Rle_dec sy y); [lra|reflexivity].
Qed.

Lemma poly_winding_eq_poly_cast (vs : list (Point R)) (p : Point R) :
  poly_winding vs p = poly_cast vs p.
Proof.
  unfold poly_winding, poly_cast. f_equal. apply map_ext. intros [s e]. apply line_winding_inner_eq_edge_cast.
Qed.

(** ** Rect: the closed form is the ray cast of its own outline, for every point *)

Lemma edge_cast_horizontal a b y p : edge_cast (mkPoint a y) (mkPoint b y) p = 0%Z.
Proof.
  destruct p as [x yy]. sq_unfold.
  destruct (Rle_dec y yy); [destruct (Rlt_dec yy y); [lra|reflexivity]|].
  destruct (Rle_dec y yy); [lra|reflexivity].
Qed.

Definition vert_cast (X ya yb : R) (p : Point R) : Z :=
  if Rle_dec ya (py p) then
    if Rlt_dec (py p) yb then (if Rle_dec X (px p) then (-1)%Z else 0%Z) else 0%Z
  else if Rle_dec yb (py p) then (if Rle_dec X (px p) then 1%Z else 0%Z) else 0%Z.

Lemma edge_cast_vertical X ya yb p : edge_cast (mkPoint X ya) (mkPoint X yb) p = vert_cast X ya yb p.
Proof.
  destruct p as [x y]. unfold vert_cast. sq_unfold.
  destruct (Rle_dec ya y).
  - destruct (Rlt_dec y yb); [|reflexivity].
    destruct (Rle_dec _ 0) as [H|H]; destruct (Rle_dec X x) as [G|G]; try reflexivity; exfalso; nra.
  - destruct (Rle_dec yb y); [|reflexivity].
    destruct (Rle_dec 0 _) as [H|H]; destruct (Rle_dec X x) as [G|G]; try reflexivity; exfalso; nra.
Qed.

Ltac dec_all :=
  repeat (match goal with
  | |- context [Rle_dec ?a ?b] => destruct (Rle_dec a b)
  | |- context [Rlt_dec ?a ?b] => destruct (Rlt_dec a b)
  | |- context [Rltb ?a ?b] => destruct (Rltb_spec a b)
  | |- context [Rleb ?a ?b] => destruct (Rleb_spec a b)
  | |- context [Reqb ?a ?b] => destruct (Reqb_spec a b)
  end; try (exfalso; lra); cbn [andb orb xorb negb]).

Lemma rect_winding_eq_outline (r : Rect R) (p : Point R) :
  rect_winding r p = poly_cast (rect_outline r) p.
Proof.
  destruct r as [x0 y0 x1 y1].
  unfold poly_cast, rect_outline, poly_edges, poly_edges_from. cbn [map fold_left fst snd].
  rewrite !edge_cast_horizontal, !edge_cast_vertical.
  destruct p as [x y]. unfold vert_cast, rect_winding. cbn [px py rx0 ry0 rx1 ry1].
  rs_unfold. unfold Rmin, Rmax.
  dec_all; reflexivity.
Qed.

(** the code's own ray cast of the outline (model of [BezPath::winding] on the 4 edges) agrees too *)
Lemma rect_winding_eq_path_winding (r : Rect R) (p : Point R) :
  rect_winding r p = poly_winding (rect_outline r) p.
Proof. rewrite poly_winding_eq_poly_cast. apply rect_winding_eq_outline. Qed.

(** the half-open rule and the orientation sign *)
Lemma rect_winding_half_open (r : Rect R) (p : Point R) :
  let inside := Rmin (rx0 r) (rx1 r) <= px p < Rmax (rx0 r) (rx1 r) /\
                Rmin (ry0 r) (ry1 r) <= py p < Rmax (ry0 r) (ry1 r) in
  (inside -> 0 < rect_area r -> rect_winding r p = 1%Z) /\
  (inside -> rect_area r < 0 -> rect_winding r p = (-1)%Z) /\
  (~ inside -> rect_winding r p = 0%Z) /\
  (rect_area r = 0 -> rect_winding r p = 0%Z).
Proof.
  destruct r as [x0 y0 x1 y1], p as [x y]. sq_unfold. unfold Rmin, Rmax.
  repeat split; intros; dec_all; try reflexivity; exfalso; try nra; tauto.
Qed.

Lemma rect_winding_corner_order (x0 y0 x1 y1 : R) (p : Point R) :
  let w := rect_winding (mkRect x0 y0 x1 y1) p in
  rect_winding (mkRect x1 y0 x0 y1) p = (- w)%Z /\
  rect_winding (mkRect x0 y1 x1 y0) p = (- w)%Z /\
  rect_winding (mkRect x1 y1 x0 y0) p = w.
Proof.
  destruct p as [x y]. sq_unfold. unfold Rmin, Rmax.
  repeat split; dec_all; reflexivity.
Qed.

(** area, perimeter, bounding box *)
Lemma rect_queries (r : Rect R) :
  let b := rect_bounding_box r in
  b = rect_abs r /\ nonneg b /\
  (forall c, In c (rect_outline r) -> in_closed b c) /\
  (forall b', (forall c, In c (rect_outline r) -> in_closed b' c) -> subset b b') /\
  Rabs (rect_area r) = rect_area b /\
  rect_perimeter r = rect_perimeter b /\
  rect_perimeter r = 2 * (Rabs (rx1 r - rx0 r) + Rabs (ry1 r - ry0 r)).
Proof.
  destruct r as [x0 y0 x1 y1]. unfold rect_outline, nonneg, in_closed, subset. sq_unfold.
  split; [reflexivity|]. split; [minmax|]. split.
  { intros c [<-|[<-|[<-|[<-|[]]]]]; cbn; minmax. }
  split.
  { intros [a0 b0 a1 b1] Hb; cbn in *.
    pose proof (Hb _ (or_introl eq_refl)) as P0.
    pose proof (Hb _ (or_intror (or_intror (or_introl eq_refl)))) as P2. cbn in P0, P2. minmax. }
  split.
  { unfold Rmin, Rmax, Rabs. repeat (match goal with
      | |- context [Rle_dec ?a ?b] => destruct (Rle_dec a b)
      | |- context [Rcase_abs ?a] => destruct (Rcase_abs a) end); try nra. }
  split; [|reflexivity].
  unfold Rmin, Rmax, Rabs. repeat (match goal with
      | |- context [Rle_dec ?a ?b] => destruct (Rle_dec a b)
      | |- context [Rcase_abs ?a] => destruct (Rcase_abs a) end); try lra.
Qed.

(** ** Rectangles sharing edges tile the covered region: a grid given by sorted cut lists *)

Definition sorted_idx (xs : list R) : Prop :=
  forall i, (S i < length xs)%nat -> nth i xs 0 <= nth (S i) xs 0.

Lemma sorted_idx_mono xs : sorted_idx xs ->
  forall i j, (i <= j)%nat -> (j < length xs)%nat -> nth i xs 0 <= nth j xs 0.
Proof.
  intros Hs i j Hij. induction Hij; intros Hl; [lra|].
  eapply Rle_trans; [apply IHHij; lia|]. apply Hs. exact Hl.
Qed.

Lemma interval_exists xs v : forall k, (S k < length xs)%nat ->
  nth 0 xs 0 <= v < nth (S k) xs 0 ->
  exists i, (i <= k)%nat /\ nth i xs 0 <= v < nth (S i) xs 0.
Proof.
  induction k; intros Hl Hv.
  - exists 0%nat. split; [lia|exact Hv].
  - destruct (Rlt_dec v (nth (S k) xs 0)) as [Hlt|Hge].
    + destruct (IHk ltac:(lia) ltac:(lra)) as (i & Hi & Hv'). exists i. split; [lia|exact Hv'].
    + exists (S k). split; [lia|lra].
Qed.

Lemma interval_unique xs v : sorted_idx xs -> (2 <= length xs)%nat ->
  nth 0 xs 0 <= v < nth (length xs - 1) xs 0 ->
  exists! i, (S i < length xs)%nat /\ nth i xs 0 <= v < nth (S i) xs 0.
Proof.
  intros Hs Hl Hv.
  destruct (interval_exists xs v (length xs - 2)) as (i & Hi & Hvi); [lia| |].
  { replace (S (length xs - 2)) with (length xs - 1)%nat by lia. exact Hv. }
  exists i. split; [split; [lia|exact Hvi]|].
  intros j [Hj Hvj].
  destruct (Nat.lt_trichotomy i j) as [L|[E|L]]; [|exact E|]; exfalso.
  - pose proof (sorted_idx_mono xs Hs (S i) j ltac:(lia) ltac:(lia)). lra.
  - pose proof (sorted_idx_mono xs Hs (S j) i ltac:(lia) ltac:(lia)). lra.
Qed.

Definition tile (xs ys : list R) (i j : nat) : Rect R :=
  mkRect (nth i xs 0) (nth j ys 0) (nth (S i) xs 0) (nth (S j) ys 0).

Lemma tile_winding_nonzero xs ys i j p : sorted_idx xs -> sorted_idx ys ->
  (S i < length xs)%nat -> (S j < length ys)%nat ->
  (rect_winding (tile xs ys i j) p <> 0%Z <->
   nth i xs 0 <= px p < nth (S i) xs 0 /\ nth j ys 0 <= py p < nth (S j) ys 0).
Proof.
  intros Hx Hy Hi Hj. pose proof (Hx i Hi). pose proof (Hy j Hj).
  destruct p as [x y]. unfold tile. sq_unfold. unfold Rmin, Rmax.
  split.
  - dec_all; intros G; try (exfalso; apply G; reflexivity); lra.
  - intros G. dec_all; discriminate.
Qed.

Lemma rect_tiling (xs ys : list R) (p : Point R) :
  sorted_idx xs -> sorted_idx ys -> (2 <= length xs)%nat -> (2 <= length ys)%nat ->
  nth 0 xs 0 <= px p < nth (length xs - 1) xs 0 ->
  nth 0 ys 0 <= py p < nth (length ys - 1) ys 0 ->
  exists! ij : nat * nat,
    (S (fst ij) < length xs)%nat /\ (S (snd ij) < length ys)%nat /\
    rect_winding (tile xs ys (fst ij) (snd ij)) p <> 0%Z.
Proof.
  intros Hx Hy Lx Ly Px Py.
  destruct (interval_unique xs (px p) Hx Lx Px) as (i & [Hi Vi] & Ui).
  destruct (interval_unique ys (py p) Hy Ly Py) as (j & [Hj Vj] & Uj).
  exists (i, j). split.
  - cbn [fst snd]. repeat split; try assumption. apply tile_winding_nonzero; auto.
  - intros [i' j'] (Hi' & Hj' & W). cbn [fst snd] in *.
    apply tile_winding_nonzero in W; auto. destruct W as [Wx Wy].
    f_equal; [apply Ui|apply Uj]; split; assumption.
Qed.

(** outside the covered region no tile owns the point *)
Lemma rect_tiling_outside (xs ys : list R) (p : Point R) i j :
  sorted_idx xs -> sorted_idx ys -> (S i < length xs)%nat -> (S j < length ys)%nat ->
  ~ (nth 0 xs 0 <= px p < nth (length xs - 1) xs 0 /\ nth 0 ys 0 <= py p < nth (length ys - 1) ys 0) ->
  rect_winding (tile xs ys i j) p = 0%Z.
Proof.
  intros Hx Hy Hi Hj Out.
  destruct (Z.eq_dec (rect_winding (tile xs ys i j) p) 0) as [E|N]; [exact E|exfalso].
  apply tile_winding_nonzero in N; auto. apply Out.
  pose proof (sorted_idx_mono xs Hx 0 i ltac:(lia) ltac:(lia)).
  pose proof (sorted_idx_mono xs Hx (S i) (length xs - 1) ltac:(lia) ltac:(lia)).
  pose proof (sorted_idx_mono ys Hy 0 j ltac:(lia) ltac:(lia)).
  pose proof (sorted_idx_mono ys Hy (S j) (length ys - 1) ltac:(lia) ltac:(lia)).
  lra.
Qed.

(** ** Triangle: the closed form is the ray cast of the outline, off the boundary *)

Lemma convex_between k1 k2 a b x : 0 <= k1 -> 0 <= k2 -> 0 < k1 + k2 ->
  k1 * (a - x) + k2 * (b - x) = 0 -> Rmin a b <= x <= Rmax a b.
Proof.
  intros H1 H2 H3 E.
  assert (x * (k1 + k2) = k1 * a + k2 * b) as Ex by lra.
  unfold Rmin, Rmax; destruct (Rle_dec a b); split; nra.
Qed.

(** a point on the supporting line of an edge, in the half-open row range of the edge, is on the edge *)
Lemma on_line_in_rows_on_segment (s e p : Point R) :
  orient s e p = 0 -> (py s <= py p < py e \/ py e <= py p < py s) -> on_segment s e p.
Proof.
  destruct s as [sx sy], e as [ex ey], p as [x y]. unfold on_segment, orient. cbn [px py].
  intros O Hrow. split; [exact O|]. split.
  - destruct Hrow as [Hr|Hr].
    + apply (convex_between (ey - y) (y - sy)); try lra.
    + rewrite Rmin_comm, Rmax_comm. apply (convex_between (sy - y) (y - ey)); try lra.
  - unfold Rmin, Rmax; destruct (Rle_dec sy ey); lra.
Qed.

Definition tri_closed (K0 K1 K2 : R) : Z :=
  if Reqb (Rsignum K0) (Rsignum K1) && Reqb (Rsignum K1) (Rsignum K2)
  then if Rltb 0 (Rsignum K0) then 1%Z else if Rltb (Rsignum K0) 0 then (-1)%Z else 0%Z else 0%Z.

Definition cast_K (sy ey y K : R) : Z :=
  if Rle_dec sy y then if Rlt_dec y ey then if Rle_dec K 0 then (-1)%Z else 0%Z else 0%Z
  else if Rle_dec ey y then if Rle_dec 0 K then 1%Z else 0%Z else 0%Z.

Lemma edge_cast_K s e p : edge_cast s e p = cast_K (py s) (py e) (py p) (orient s e p).
Proof. reflexivity. Qed.

Lemma tri_core (K0 K1 K2 ay by_ cy y D : R) :
  K0 + K1 + K2 = D -> D <> 0 -> ~ (ay = by_ /\ by_ = cy) ->
  K1 * (ay - y) + K2 * (by_ - y) + K0 * (cy - y) = 0 ->
  (K0 = 0 -> K1 < 0 /\ K2 > 0 \/ K1 > 0 /\ K2 < 0) ->
  (K1 = 0 -> K2 < 0 /\ K0 > 0 \/ K2 > 0 /\ K0 < 0) ->
  (K2 = 0 -> K0 < 0 /\ K1 > 0 \/ K0 > 0 /\ K1 < 0) ->
  tri_closed K0 K1 K2 = (0 + cast_K ay by_ y K0 + cast_K by_ cy y K1 + cast_K cy ay y K2)%Z.
Proof.
  intros I1 HD NR I2 Z0 Z1 Z2.
  unfold tri_closed, cast_K, Rsignum.
  destruct (Rle_dec 0 K0) as [P0|N0]; destruct (Rle_dec 0 K1) as [P1|N1]; destruct (Rle_dec 0 K2) as [P2|N2];
  destruct (Rle_dec ay y); destruct (Rle_dec by_ y); destruct (Rle_dec cy y);
  dec_all; try reflexivity; exfalso;
  try (destruct (Req_dec K0 0) as [E0|E0]; [destruct (Z0 E0) as [[? ?]|[? ?]]; nra|]);
  try (destruct (Req_dec K1 0) as [E1|E1]; [destruct (Z1 E1) as [[? ?]|[? ?]]; nra|]);
  try (destruct (Req_dec K2 0) as [E2|E2]; [destruct (Z2 E2) as [[? ?]|[? ?]]; nra|]);
  try nra;
  (assert (ay = y) by nra; assert (by_ = y) by nra; assert (cy = y) by nra; apply NR; lra).
Qed.

(** zero area: the three relations K_i dy_j = K_j dy_i hold and the outline winds around nothing *)
Lemma tri_core_degenerate (K0 K1 K2 ay by_ cy y : R) :
  K0 * (cy - by_) = K1 * (by_ - ay) -> K1 * (ay - cy) = K2 * (cy - by_) -> K2 * (by_ - ay) = K0 * (ay - cy) ->
  (K0 = 0 -> ~ (ay <= y < by_) /\ ~ (by_ <= y < ay)) ->
  (K1 = 0 -> ~ (by_ <= y < cy) /\ ~ (cy <= y < by_)) ->
  (K2 = 0 -> ~ (cy <= y < ay) /\ ~ (ay <= y < cy)) ->
  (0 + cast_K ay by_ y K0 + cast_K by_ cy y K1 + cast_K cy ay y K2)%Z = 0%Z.
Proof.
  intros R01 R12 R20 Z0 Z1 Z2. unfold cast_K.
  destruct (Rle_dec ay y); destruct (Rle_dec by_ y); destruct (Rle_dec cy y);
  dec_all; try reflexivity; exfalso;
  try (destruct (Req_dec K0 0) as [E0|E0]; [destruct (Z0 E0); lra|]);
  try (destruct (Req_dec K1 0) as [E1|E1]; [destruct (Z1 E1); lra|]);
  try (destruct (Req_dec K2 0) as [E2|E2]; [destruct (Z2 E2); lra|]);
  nra.
Qed.

Lemma tri_off_boundary (t : Triangle R) (p : Point R) :
  ~ on_polygon (tri_outline t) p ->
  ~ on_segment (tri_a t) (tri_b t) p /\ ~ on_segment (tri_b t) (tri_c t) p /\ ~ on_segment (tri_c t) (tri_a t) p.
Proof.
  intros H. unfold on_polygon, tri_outline, poly_edges, poly_edges_from in H.
  repeat split; intros S; apply H.
  - exists (tri_a t, tri_b t). split; [left; reflexivity|exact S].
  - exists (tri_b t, tri_c t). split; [right; left; reflexivity|exact S].
  - exists (tri_c t, tri_a t). split; [right; right; left; reflexivity|exact S].
Qed.

(** on the supporting line of edge (s,e) of a triangle with apex c and D <> 0, off the edge:
    the other two orientation values have strictly opposite signs *)
Lemma off_segment_zero (s e c p : Point R) :
  orient s e c <> 0 -> orient s e p = 0 -> ~ on_segment s e p ->
  orient e c p < 0 /\ orient c s p > 0 \/ orient e c p > 0 /\ orient c s p < 0.
Proof.
  destruct s as [sx sy], e as [ex ey], c as [cx cy], p as [x y]. unfold on_segment, orient. cbn [px py].
  intros HD O NS.
  set (K1 := (cx - ex) * (y - ey) - (cy - ey) * (x - ex)).
  set (K2 := (sx - cx) * (y - cy) - (sy - cy) * (x - cx)).
  assert (K1 + K2 = (ex - sx) * (cy - sy) - (ey - sy) * (cx - sx)) as I1.
  { transitivity ((ex - sx) * (cy - sy) - (ey - sy) * (cx - sx) - ((ex - sx) * (y - sy) - (ey - sy) * (x - sx))); [unfold K1, K2; ring|rewrite O; ring]. }
  assert (K1 * (sx - x) + K2 * (ex - x) = 0) as I3.
  { transitivity (- ((ex - sx) * (y - sy) - (ey - sy) * (x - sx)) * (cx - x)); [unfold K1, K2; ring|rewrite O; ring]. }
  assert (K1 * (sy - y) + K2 * (ey - y) = 0) as I2.
  { transitivity (- ((ex - sx) * (y - sy) - (ey - sy) * (x - sx)) * (cy - y)); [unfold K1, K2; ring|rewrite O; ring]. }
  destruct (Rlt_dec K1 0) as [L1|G1]; destruct (Rlt_dec 0 K2) as [L2|G2]; try (left; lra).
  - (* K1 < 0, K2 <= 0 *)
    exfalso. apply NS. split; [exact O|]. split.
    + apply (convex_between (- K1) (- K2)); lra.
    + apply (convex_between (- K1) (- K2)); lra.
  - (* K1 >= 0, K2 > 0 *)
    exfalso. apply NS. split; [exact O|]. split.
    + apply (convex_between K1 K2); lra.
    + apply (convex_between K1 K2); lra.
  - (* K1 >= 0, K2 <= 0 *)
    destruct (Rlt_dec 0 K1) as [P1|NP1]; destruct (Rlt_dec K2 0) as [N2|NN2]; try (right; lra);
    exfalso; apply NS; (split; [exact O|]); split.
    + apply (convex_between K1 K2); lra.
    + apply (convex_between K1 K2); lra.
    + apply (convex_between (- K1) (- K2)); lra.
    + apply (convex_between (- K1) (- K2)); lra.
Qed.

Lemma orient_cyclic a b c : orient b c a = orient a b c.
Proof. unfold orient. ring. Qed.

Lemma tri_pinned_form a b c p :
  tri_winding_pinned (mkTriangle a b c) p = tri_closed (orient a b p) (orient b c p) (orient c a p).
Proof. reflexivity. Qed.

Lemma tri_area_orient a b c : tri_area (mkTriangle a b c) = orient a b c / 2.
Proof. destruct a, b, c. sq_unfold. field. Qed.

Lemma tri_cast_form a b c p :
  poly_cast (tri_outline (mkTriangle a b c)) p =
  (0 + cast_K (py a) (py b) (py p) (orient a b p) + cast_K (py b) (py c) (py p) (orient b c p)
     + cast_K (py c) (py a) (py p) (orient c a p))%Z.
Proof. reflexivity. Qed.

Lemma tri_winding_eq_outline (t : Triangle R) (p : Point R) :
  ~ on_polygon (tri_outline t) p -> tri_winding t p = poly_cast (tri_outline t) p.
Proof.
  intros Hoff. apply tri_off_boundary in Hoff. destruct t as [a b c]. cbn [tri_a tri_b tri_c] in Hoff.
  destruct Hoff as (Sab & Sbc & Sca).
  rewrite tri_cast_form. unfold tri_winding. rewrite tri_area_orient.
  change (@feqb R RS) with Reqb. change (@f0 R RS) with 0.
  destruct (Reqb_spec (orient a b c / 2) 0) as [E|NE].
  - (* zero area *)
    assert (orient a b c = 0) as D0 by lra. symmetry.
    apply tri_core_degenerate.
    + transitivity ((py p - py b) * orient a b c + orient b c p * (py b - py a)); [unfold orient; ring|rewrite D0; ring].
    + transitivity ((py p - py c) * orient a b c + orient c a p * (py c - py b)); [unfold orient; ring|rewrite D0; ring].
    + transitivity ((py p - py a) * orient a b c + orient a b p * (py a - py c)); [unfold orient; ring|rewrite D0; ring].
    + intros Z. split; intros R; apply Sab; apply on_line_in_rows_on_segment; auto.
    + intros Z. split; intros R; apply Sbc; apply on_line_in_rows_on_segment; auto.
    + intros Z. split; intros R; apply Sca; apply on_line_in_rows_on_segment; auto.
  - assert (orient a b c <> 0) as DN by lra.
    rewrite tri_pinned_form.
    apply (tri_core _ _ _ _ _ _ _ (orient a b c)).
    + unfold orient; ring.
    + exact DN.
    + intros [E1 E2]. apply DN. unfold orient. rewrite E1, E2. ring.
    + unfold orient; ring.
    + intros Z. apply (off_segment_zero a b c p); auto.
    + intros Z. apply (off_segment_zero b c a p); auto. rewrite orient_cyclic. exact DN.
    + intros Z. apply (off_segment_zero c a b p); auto. rewrite <- orient_cyclic. exact DN.
Qed.

(** the pinned code agrees with the outline for triangles of non-zero area (both orientations) ... *)
Lemma tri_winding_pinned_eq_outline (t : Triangle R) (p : Point R) :
  tri_area t <> 0 -> ~ on_polygon (tri_outline t) p ->
  tri_winding_pinned t p = poly_cast (tri_outline t) p.
Proof.
  intros HA Hoff. rewrite <- tri_winding_eq_outline by exact Hoff.
  unfold tri_winding. change (@feqb R RS) with Reqb. change (@f0 R RS) with 0.
  destruct (Reqb_spec (tri_area t) 0); [contradiction|reflexivity].
Qed.

(** ... and the sign is the orientation: +1 inside when the area is positive, -1 when negative *)
Lemma tri_winding_sign (t : Triangle R) (p : Point R) :
  (tri_winding t p = 1%Z -> 0 < tri_area t) /\ (tri_winding t p = (-1)%Z -> tri_area t < 0).
Proof.
  destruct t as [a b c]. unfold tri_winding. rewrite tri_area_orient, tri_pinned_form.
  change (@feqb R RS) with Reqb. change (@f0 R RS) with 0.
  assert (orient a b p + orient b c p + orient c a p = orient a b c) as I1 by (unfold orient; ring).
  unfold tri_closed, Rsignum.
  destruct (Reqb_spec (orient a b c / 2) 0); [split; discriminate|].
  split; dec_all; intros; try discriminate; lra.
Qed.

(** but not for degenerate triangles: with all three vertices equal every point is "inside" *)
Lemma tri_winding_pinned_degenerate_refuted :
  exists (t : Triangle R) (p : Point R),
    ~ on_polygon (tri_outline t) p /\ tri_winding_pinned t p <> poly_cast (tri_outline t) p.
Proof.
  exists (mkTriangle (mkPoint 0 0) (mkPoint 0 0) (mkPoint 0 0)), (mkPoint 5 5). split.
  - intros (se & Hin & _ & (_ & Hx) & _).
    cbn in Hin. destruct Hin as [<-|[<-|[<-|[]]]]; cbn in Hx; revert Hx; unfold Rmin, Rmax; destruct (Rle_dec 0 0); lra.
  - rewrite tri_pinned_form, tri_cast_form. unfold tri_closed, cast_K, orient, Rsignum. cbn [px py].
    dec_all; discriminate.
Qed.

Lemma tri_queries (t : Triangle R) :
  let b := tri_bounding_box t in
  nonneg b /\
  (forall c, In c (tri_outline t) -> in_closed b c) /\
  (forall b', (forall c, In c (tri_outline t) -> in_closed b' c) -> subset b b') /\
  tri_area t = orient (tri_a t) (tri_b t) (tri_c t) / 2.
Proof.
  destruct t as [[ax ay] [bx by_] [cx cy]]. unfold tri_outline, nonneg, in_closed, subset.
  cbn [tri_a tri_b tri_c]. split; [|split; [|split]].
  - sq_unfold. minmax.
  - intros c [<-|[<-|[<-|[]]]]; sq_unfold; minmax.
  - intros [a0 b0 a1 b1] Hb.
    pose proof (Hb _ (or_introl eq_refl)) as P0.
    pose proof (Hb _ (or_intror (or_introl eq_refl))) as P1.
    pose proof (Hb _ (or_intror (or_intror (or_introl eq_refl)))) as P2. sq_unfold. minmax.
  - apply tri_area_orient.
Qed.
