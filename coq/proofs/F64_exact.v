(** Exact facts about the binary64 instance [F64] itself (not its real-number shadow):
    - the non-NaN binary64 numbers (both infinities included, the two zeros identified) with
      [PrimFloat.ltb/leb/eqb] and Rust's [min]/[max] ([F.min]/[F.max]) are a total order embedded in the
      reals by [xv] (finite x -> its value, +-infinity -> +-2^1024);
    - multiplication, addition, subtraction of finite numbers: the result is the rounded exact
      result unless that overflows; x*1 = x, x*(+-0) = +-0, x + (+-0) = x numerically.
    Used by C06_f64_proofs, C20_f64_proofs, C11_f64_proofs, C07_f64_proofs. *)
From Coq Require Import ZArith Reals List Bool Floats Lra Lia.
From Flocq Require Import Core.Zaux Core.Raux Core.Defs Core.Generic_fmt Core.FLT Core.Float_prop Core.Ulp
  Core.Round_NE IEEE754.BinarySingleNaN IEEE754.PrimFloat.
From KV Require Import Scalar RInst F64.
Local Open Scope R_scope.

Notation pfloat := PrimFloat.float.
Notation emin64 := (SpecFloat.emin prec emax).
Notation fexp64 := (SpecFloat.fexp prec emax).
#[local] Instance Hprec64x : FLX.Prec_gt_0 prec := eq_refl _.
#[local] Instance Hmax64x : Prec_lt_emax prec emax := eq_refl _.
Notation rnd64 := (round radix2 fexp64 (round_mode mode_NE)).
Notation ulp64 := (ulp radix2 fexp64).

(** * validity predicates (executable: they are boolean equations) *)
Definition nn (x : pfloat) : Prop := PrimFloat.is_nan x = false.
Definition ffin (x : pfloat) : Prop := F.is_finite x = true.

(** the value of a finite number; [xv] extends it monotonically to the infinities *)
Definition fv (x : pfloat) : R := B2R (Prim2B x).
Definition big : R := bpow radix2 emax.
Arguments big : simpl never.
Definition xvB (b : binary_float prec emax) : R :=
  match b with
  | B754_infinity false => big
  | B754_infinity true => - big
  | _ => B2R b
  end.
Definition xv (x : pfloat) : R := xvB (Prim2B x).

Lemma ffin_B x : ffin x <-> is_finite (Prim2B x) = true.
Proof. unfold ffin. rewrite <- is_finite_equiv. reflexivity. Qed.
Lemma nn_B x : nn x <-> is_nan (Prim2B x) = false.
Proof. unfold nn. rewrite <- is_nan_equiv. reflexivity. Qed.
Lemma ffin_nn x : ffin x -> nn x.
Proof. unfold ffin, nn, F.is_finite. intro H. apply negb_true_iff, orb_false_iff in H. apply H. Qed.
Lemma xv_fv x : ffin x -> xv x = fv x.
Proof. rewrite ffin_B. unfold xv, fv. destruct (Prim2B x) as [s|[|]| |s m e B]; simpl; try discriminate; reflexivity. Qed.

Lemma big_pos : 0 < big. Proof. apply bpow_gt_0. Qed.

(** * comparisons *)
Lemma Bcompare_xv (a b : binary_float prec emax) : is_nan a = false -> is_nan b = false ->
  Bcompare a b = Some (Rcompare (xvB a) (xvB b)).
Proof.
  intros Na Nb. pose proof big_pos as Hb.
  destruct (is_finite a) eqn:Fa; destruct (is_finite b) eqn:Fb.
  - rewrite (Bcompare_correct _ _ a b Fa Fb).
    destruct a as [s|[|]| |s m e B]; try discriminate; destruct b as [s'|[|]| |s' m' e' B']; try discriminate; reflexivity.
  - pose proof (abs_B2R_lt_emax _ _ a) as La. fold big in La.
    destruct b as [s'|[|]| |s' m' e' B']; try discriminate;
    (destruct a as [s|[|]| |s m e B]; try discriminate); cbn [xvB] in *; unfold Bcompare; cbn -[big B2R];
    apply f_equal; symmetry; apply Rabs_lt_inv in La;
    first [apply Rcompare_Gt; lra | apply Rcompare_Lt; lra].
  - pose proof (abs_B2R_lt_emax _ _ b) as Lb. fold big in Lb.
    destruct a as [s|[|]| |s m e B]; try discriminate;
    (destruct b as [s'|[|]| |s' m' e' B']; try discriminate); cbn [xvB] in *; unfold Bcompare; cbn -[big B2R];
    apply f_equal; symmetry; apply Rabs_lt_inv in Lb;
    first [apply Rcompare_Gt; lra | apply Rcompare_Lt; lra].
  - destruct a as [s|[|]| |s m e B]; try discriminate; destruct b as [s'|[|]| |s' m' e' B']; try discriminate;
    cbn [xvB]; unfold Bcompare; cbn -[big B2R]; apply f_equal; symmetry;
    first [apply Rcompare_Eq; lra | apply Rcompare_Gt; lra | apply Rcompare_Lt; lra].
Qed.

Lemma ltb_xv x y : nn x -> nn y -> PrimFloat.ltb x y = Rltb (xv x) (xv y).
Proof.
  rewrite !nn_B. intros Nx Ny. rewrite ltb_equiv. unfold Bltb, SFltb.
  fold (Bcompare (Prim2B x) (Prim2B y)). rewrite (Bcompare_xv _ _ Nx Ny). unfold xv.
  case Rcompare_spec; intro H; destruct (Rltb_spec (xvB (Prim2B x)) (xvB (Prim2B y))); try reflexivity; lra.
Qed.
Lemma leb_xv x y : nn x -> nn y -> PrimFloat.leb x y = Rleb (xv x) (xv y).
Proof.
  rewrite !nn_B. intros Nx Ny. rewrite leb_equiv. unfold Bleb, SFleb.
  fold (Bcompare (Prim2B x) (Prim2B y)). rewrite (Bcompare_xv _ _ Nx Ny). unfold xv.
  case Rcompare_spec; intro H; destruct (Rleb_spec (xvB (Prim2B x)) (xvB (Prim2B y))); try reflexivity; lra.
Qed.
Lemma eqb_xv x y : nn x -> nn y -> PrimFloat.eqb x y = Reqb (xv x) (xv y).
Proof.
  rewrite !nn_B. intros Nx Ny. rewrite eqb_equiv. unfold Beqb, SFeqb.
  fold (Bcompare (Prim2B x) (Prim2B y)). rewrite (Bcompare_xv _ _ Nx Ny). unfold xv.
  case Rcompare_spec; intro H; destruct (Reqb_spec (xvB (Prim2B x)) (xvB (Prim2B y))); try reflexivity; lra.
Qed.

(** a NaN operand makes every comparison false *)
Lemma Bcompare_nan_l (b : binary_float prec emax) : Bcompare B754_nan b = None.
Proof. destruct b as [s|[|]| |s m e B]; reflexivity. Qed.
Lemma Bcompare_nan_r (b : binary_float prec emax) : Bcompare b B754_nan = None.
Proof. destruct b as [s|[|]| |[|] m e B]; reflexivity. Qed.
Lemma cmp_nan x y : PrimFloat.is_nan x = true \/ PrimFloat.is_nan y = true ->
  PrimFloat.ltb x y = false /\ PrimFloat.leb x y = false /\ PrimFloat.eqb x y = false.
Proof.
  rewrite !is_nan_equiv, ltb_equiv, leb_equiv, eqb_equiv. unfold Bltb, Bleb, Beqb, SFltb, SFleb, SFeqb.
  fold (Bcompare (Prim2B x) (Prim2B y)).
  intros [H|H].
  - destruct (Prim2B x); try discriminate. rewrite Bcompare_nan_l. auto.
  - destruct (Prim2B y); try discriminate. rewrite Bcompare_nan_r. auto.
Qed.

(** * Rust's min / max on non-NaN operands: selection, and Rmin / Rmax of the values *)
Lemma max_sel x y : nn x -> nn y -> F.max x y = (if PrimFloat.ltb x y then y else x).
Proof. unfold nn, F.max. intros -> ->. reflexivity. Qed.
Lemma min_sel x y : nn x -> nn y -> F.min x y = (if PrimFloat.ltb y x then y else x).
Proof. unfold nn, F.min. intros -> ->. reflexivity. Qed.

Lemma max_xv x y : nn x -> nn y -> nn (F.max x y) /\ xv (F.max x y) = Rmax (xv x) (xv y).
Proof.
  intros Nx Ny. rewrite (max_sel x y Nx Ny), (ltb_xv x y Nx Ny).
  destruct (Rltb_spec (xv x) (xv y)); (split; [assumption|]); unfold Rmax; destruct (Rle_dec (xv x) (xv y)); lra.
Qed.
Lemma min_xv x y : nn x -> nn y -> nn (F.min x y) /\ xv (F.min x y) = Rmin (xv x) (xv y).
Proof.
  intros Nx Ny. rewrite (min_sel x y Nx Ny), (ltb_xv y x Ny Nx).
  destruct (Rltb_spec (xv y) (xv x)); (split; [assumption|]); unfold Rmin; destruct (Rle_dec (xv x) (xv y)); lra.
Qed.
Lemma max_nn x y : nn x -> nn y -> nn (F.max x y). Proof. intros; apply max_xv; assumption. Qed.
Lemma min_nn x y : nn x -> nn y -> nn (F.min x y). Proof. intros; apply min_xv; assumption. Qed.
Lemma max_ffin x y : ffin x -> ffin y -> ffin (F.max x y).
Proof. intros Fx Fy. rewrite (max_sel x y (ffin_nn x Fx) (ffin_nn y Fy)). destruct (PrimFloat.ltb x y); assumption. Qed.
Lemma min_ffin x y : ffin x -> ffin y -> ffin (F.min x y).
Proof. intros Fx Fy. rewrite (min_sel x y (ffin_nn x Fx) (ffin_nn y Fy)). destruct (PrimFloat.ltb y x); assumption. Qed.

(** [F.same] (the correspondence check's equality) on non-NaN operands is numerical equality *)
Lemma same_xv x y : nn x -> nn y -> F.same x y = Reqb (xv x) (xv y).
Proof. intros Nx Ny. unfold F.same. rewrite Nx, (eqb_xv x y Nx Ny). reflexivity. Qed.
Lemma same_refl x : F.same x x = true.
Proof.
  destruct (PrimFloat.is_nan x) eqn:N.
  - unfold F.same. rewrite N. reflexivity.
  - rewrite (same_xv x x N N). apply Reqb_true. reflexivity.
Qed.

(** two non-NaN numbers with the same [xv] are the same number, except that they may be the two zeros *)
Lemma xv_inj x y : nn x -> nn y -> xv x = xv y -> xv x <> 0 -> x = y.
Proof.
  rewrite !nn_B. unfold xv. intros Nx Ny E Z. apply Prim2B_inj. revert Nx Ny E Z.
  pose proof big_pos as Hb.
  pose proof (abs_B2R_lt_emax _ _ (Prim2B x)) as Lx. pose proof (abs_B2R_lt_emax _ _ (Prim2B y)) as Ly.
  fold big in Lx, Ly. apply Rabs_lt_inv in Lx. apply Rabs_lt_inv in Ly.
  destruct (Prim2B x) as [s|[|]| |s m e B] eqn:Ex; destruct (Prim2B y) as [s'|[|]| |s' m' e' B'] eqn:Ey;
    cbn [xvB is_nan]; intros Nx Ny E Z; try discriminate; try reflexivity;
    try (exfalso; cbn [B2R] in *; lra).
  apply B2R_inj; try reflexivity. exact E.
Qed.

(** * arithmetic on finite operands *)
Lemma fv_format x : generic_format radix2 fexp64 (fv x).
Proof. apply generic_format_B2R. Qed.
Lemma rnd_id x : generic_format radix2 fexp64 x -> rnd64 x = x.
Proof. intros. apply round_generic; [apply valid_rnd_round_mode|assumption]. Qed.
Lemma fv_lt_big x : Rabs (fv x) < big.
Proof. apply abs_B2R_lt_emax. Qed.

(* the bridge lemmas restated with this file's (convertible) precision instances, so that rewriting matches *)
Lemma mul_equiv' x y : Prim2B (x * y)%float = Bmult mode_NE (Prim2B x) (Prim2B y).
Proof. exact (mul_equiv x y). Qed.
Lemma add_equiv' x y : Prim2B (x + y)%float = Bplus mode_NE (Prim2B x) (Prim2B y).
Proof. exact (add_equiv x y). Qed.
Lemma sub_equiv' x y : Prim2B (x - y)%float = Bminus mode_NE (Prim2B x) (Prim2B y).
Proof. exact (sub_equiv x y). Qed.

Lemma mul_fv x y : ffin x -> ffin y -> Rabs (rnd64 (fv x * fv y)) < big ->
  ffin (x * y)%float /\ fv (x * y)%float = rnd64 (fv x * fv y).
Proof.
  rewrite !ffin_B. intros Fx Fy Hb. unfold fv. rewrite mul_equiv'.
  pose proof (Bmult_correct prec emax _ _ mode_NE (Prim2B x) (Prim2B y)) as HM.
  unfold fv, big in Hb. rewrite (Rlt_bool_true _ _ Hb) in HM. destruct HM as (H1 & H2 & _).
  split; [eapply eq_trans; [exact H2|rewrite Fx, Fy; reflexivity]|exact H1].
Qed.
Lemma add_fv x y : ffin x -> ffin y -> Rabs (rnd64 (fv x + fv y)) < big ->
  ffin (x + y)%float /\ fv (x + y)%float = rnd64 (fv x + fv y).
Proof.
  rewrite !ffin_B. intros Fx Fy Hb. unfold fv. rewrite add_equiv'.
  pose proof (Bplus_correct prec emax _ _ mode_NE (Prim2B x) (Prim2B y) Fx Fy) as HM.
  unfold fv, big in Hb. rewrite (Rlt_bool_true _ _ Hb) in HM. destruct HM as (H1 & H2 & _).
  split; assumption.
Qed.
Lemma sub_fv x y : ffin x -> ffin y -> Rabs (rnd64 (fv x - fv y)) < big ->
  ffin (x - y)%float /\ fv (x - y)%float = rnd64 (fv x - fv y).
Proof.
  rewrite !ffin_B. intros Fx Fy Hb. unfold fv. rewrite sub_equiv'.
  pose proof (Bminus_correct prec emax _ _ mode_NE (Prim2B x) (Prim2B y) Fx Fy) as HM.
  unfold fv, big in Hb. rewrite (Rlt_bool_true _ _ Hb) in HM. destruct HM as (H1 & H2 & _).
  split; assumption.
Qed.

(** converses: a finite result means the rounded exact result is below the overflow threshold *)
Lemma mul_fin_inv x y : ffin x -> ffin y -> ffin (x * y)%float -> fv (x * y)%float = rnd64 (fv x * fv y).
Proof.
  rewrite !ffin_B. intros Fx Fy Fxy. unfold fv. rewrite mul_equiv' in *.
  pose proof (Bmult_correct prec emax _ _ mode_NE (Prim2B x) (Prim2B y)) as HM.
  destruct (Rlt_bool _ _) in HM; [apply HM|].
  exfalso. revert Fxy. rewrite <- is_finite_SF_B2SF, HM. unfold binary_overflow. cbn. discriminate.
Qed.
Lemma add_fin_inv x y : ffin x -> ffin y -> ffin (x + y)%float -> fv (x + y)%float = rnd64 (fv x + fv y).
Proof.
  rewrite !ffin_B. intros Fx Fy Fxy. unfold fv. rewrite add_equiv' in *.
  pose proof (Bplus_correct prec emax _ _ mode_NE (Prim2B x) (Prim2B y) Fx Fy) as HM.
  destruct (Rlt_bool _ _) in HM; [apply HM|].
  exfalso. destruct HM as [HM _]. revert Fxy. rewrite <- is_finite_SF_B2SF, HM. unfold binary_overflow. cbn. discriminate.
Qed.
Lemma sub_fin_inv x y : ffin x -> ffin y -> ffin (x - y)%float -> fv (x - y)%float = rnd64 (fv x - fv y).
Proof.
  rewrite !ffin_B. intros Fx Fy Fxy. unfold fv. rewrite sub_equiv' in *.
  pose proof (Bminus_correct prec emax _ _ mode_NE (Prim2B x) (Prim2B y) Fx Fy) as HM.
  destruct (Rlt_bool _ _) in HM; [apply HM|].
  exfalso. destruct HM as [HM _]. revert Fxy. rewrite <- is_finite_SF_B2SF, HM. unfold binary_overflow. cbn. discriminate.
Qed.

(** exact cases *)
Lemma fv_1 : fv 1%float = 1.
Proof. unfold fv. cbv -[IZR Rmult Rinv bpow]. unfold F2R. cbn. lra. Qed.
Lemma fv_0 : fv 0%float = 0. Proof. unfold fv. cbn. reflexivity. Qed.

(** x * 1 has the value of x *)
Lemma mul_one_fv x : ffin x -> ffin (x * 1)%float /\ fv (x * 1)%float = fv x.
Proof.
  intros Fx. assert (E : rnd64 (fv x * fv 1%float) = fv x).
  { rewrite fv_1, Rmult_1_r. apply rnd_id, fv_format. }
  destruct (mul_fv x 1%float Fx eq_refl) as [F V].
  - rewrite E. apply fv_lt_big.
  - split; [exact F|rewrite V; exact E].
Qed.
(** x * z with z a zero is a zero *)
Lemma mul_zero_fv x z : ffin x -> ffin z -> fv z = 0 -> ffin (x * z)%float /\ fv (x * z)%float = 0.
Proof.
  intros Fx Fz Z. assert (E : rnd64 (fv x * fv z) = 0).
  { rewrite Z, Rmult_0_r. apply round_0. apply valid_rnd_round_mode. }
  destruct (mul_fv x z Fx Fz) as [F V].
  - rewrite E, Rabs_R0. apply big_pos.
  - split; [exact F|rewrite V; exact E].
Qed.
(** x + z and z + x with z a zero have the value of x *)
Lemma add_zero_r_fv x z : ffin x -> ffin z -> fv z = 0 -> ffin (x + z)%float /\ fv (x + z)%float = fv x.
Proof.
  intros Fx Fz Z. assert (E : rnd64 (fv x + fv z) = fv x).
  { rewrite Z, Rplus_0_r. apply rnd_id, fv_format. }
  destruct (add_fv x z Fx Fz) as [F V].
  - rewrite E. apply fv_lt_big.
  - split; [exact F|rewrite V; exact E].
Qed.
Lemma add_zero_l_fv z x : ffin x -> ffin z -> fv z = 0 -> ffin (z + x)%float /\ fv (z + x)%float = fv x.
Proof.
  intros Fx Fz Z. assert (E : rnd64 (fv z + fv x) = fv x).
  { rewrite Z, Rplus_0_l. apply rnd_id, fv_format. }
  destruct (add_fv z x Fz Fx) as [F V].
  - rewrite E. apply fv_lt_big.
  - split; [exact F|rewrite V; exact E].
Qed.

(** finite numbers with the same value are the same number unless they are the two zeros;
    in any case [F.same] holds *)
Lemma fv_inj x y : ffin x -> ffin y -> fv x = fv y -> fv y <> 0 -> x = y.
Proof.
  intros Fx Fy E Z. apply xv_inj; try (apply ffin_nn; assumption); rewrite !xv_fv by assumption; congruence.
Qed.
Lemma fv_same x y : ffin x -> ffin y -> fv x = fv y -> F.same x y = true.
Proof.
  intros Fx Fy E. rewrite same_xv by (apply ffin_nn; assumption). rewrite !xv_fv by assumption.
  apply Reqb_true. exact E.
Qed.
Lemma fv_zero_iff x : ffin x -> (fv x = 0 <-> PrimFloat.is_zero x = true).
Proof.
  rewrite ffin_B, is_zero_equiv. unfold fv. destruct (Prim2B x) as [s|[|]| |s m e B]; cbn; try discriminate.
  - intros _. split; reflexivity.
  - intros _. split; [|discriminate]. intros H. exfalso.
    destruct s; [apply (Rlt_irrefl 0); rewrite <- H at 1; apply F2R_lt_0; reflexivity
                |apply (Rlt_irrefl 0); rewrite <- H at 2; apply F2R_gt_0; reflexivity].
Qed.

(** half an ulp: the error of one rounding to nearest *)
Lemma rnd_err x : Rabs (rnd64 x - x) <= / 2 * ulp64 x.
Proof. apply error_le_half_ulp. apply (fexp_correct prec emax); reflexivity. Qed.

(** magnitudes: |x| <= 2^1022 (as a float comparison) implies finite, and 2x, 3x do not overflow *)
Definition small (x : pfloat) : Prop := PrimFloat.leb (abs x) 0x1p+1022 = true.

Lemma fv_2 : fv 2%float = 2.
Proof. unfold fv. cbv -[IZR Rmult Rinv bpow]. unfold F2R. cbn. lra. Qed.
Lemma fv_3 : fv 3%float = 3.
Proof. unfold fv. cbv -[IZR Rmult Rinv bpow]. unfold F2R. cbn. lra. Qed.
Lemma xv_2p1022 : xv 0x1p+1022%float = bpow radix2 1022.
Proof. unfold xv. cbv -[IZR Rmult Rinv bpow]. unfold F2R. cbn -[bpow]. change 4503599627370496 with (bpow radix2 52). rewrite <- bpow_plus. reflexivity. Qed.

Lemma abs_nan_iff x : PrimFloat.is_nan (abs x) = PrimFloat.is_nan x.
Proof. rewrite !is_nan_equiv, abs_equiv. destruct (Prim2B x); reflexivity. Qed.

Lemma small_spec x : small x -> ffin x /\ Rabs (fv x) <= bpow radix2 1022.
Proof.
  unfold small. intros H.
  assert (Na : nn (abs x)).
  { unfold nn. destruct (PrimFloat.is_nan (abs x)) eqn:E; [|reflexivity].
    destruct (cmp_nan (abs x) 0x1p+1022%float (or_introl E)) as (_ & L & _). congruence. }
  assert (Nx : nn x) by (unfold nn; rewrite <- abs_nan_iff; exact Na).
  rewrite (leb_xv (abs x) 0x1p+1022%float Na eq_refl), xv_2p1022 in H. apply Rleb_true in H.
  assert (Hlt : bpow radix2 1022 < big) by (apply bpow_lt; reflexivity).
  assert (Hc0 : 0 <= bpow radix2 1022) by apply bpow_ge_0.
  set (c := bpow radix2 1022) in *. clearbody c.
  unfold xv in H. rewrite abs_equiv in H. apply nn_B in Nx.
  rewrite ffin_B. unfold fv. destruct (Prim2B x) as [s|[|]| |s m e B] eqn:Ex; try discriminate.
  - split; [reflexivity|]. cbn [B2R]. rewrite Rabs_R0. exact Hc0.
  - exfalso. cbn [xvB Babs] in H. lra.
  - exfalso. cbn [xvB Babs] in H. lra.
  - split; [reflexivity|]. rewrite <- (B2R_Babs prec emax). exact H.
Qed.

Lemma format_3_1022 : generic_format radix2 fexp64 (3 * bpow radix2 1022).
Proof.
  apply generic_format_FLT. exists (Float radix2 3 1022).
  - unfold F2R. cbn [Fnum Fexp]. reflexivity.
  - cbn. lia.
  - cbn. lia.
Qed.
Lemma format_bpow_1023 : generic_format radix2 fexp64 (bpow radix2 1023).
Proof. apply generic_format_bpow. cbv. discriminate. Qed.

Lemma rnd_abs_le x y : generic_format radix2 fexp64 y -> Rabs x <= y -> Rabs (rnd64 x) <= y.
Proof.
  intros Fy H. apply abs_round_le_generic; try assumption.
  - apply (fexp_correct prec emax); reflexivity.
  - apply valid_rnd_round_mode.
Qed.

Lemma small_mul2 x : small x -> ffin (x * 2)%float.
Proof.
  intros S. destruct (small_spec x S) as [Fx Hx].
  apply (mul_fv x 2%float Fx eq_refl). rewrite fv_2.
  apply Rle_lt_trans with (bpow radix2 1023); [|apply bpow_lt; reflexivity].
  apply rnd_abs_le; [apply format_bpow_1023|].
  rewrite Rabs_mult, (Rabs_pos_eq 2) by lra.
  change (bpow radix2 1023) with (bpow radix2 (1022 + 1)). rewrite bpow_plus. change (bpow radix2 1) with 2. lra.
Qed.
Lemma small_mul3 x : small x -> ffin (x * 3)%float.
Proof.
  intros S. destruct (small_spec x S) as [Fx Hx].
  apply (mul_fv x 3%float Fx eq_refl). rewrite fv_3.
  apply Rle_lt_trans with (3 * bpow radix2 1022).
  - apply rnd_abs_le; [apply format_3_1022|]. rewrite Rabs_mult, (Rabs_pos_eq 3) by lra. lra.
  - change big with (bpow radix2 (1022 + 2)). rewrite bpow_plus. change (bpow radix2 2) with 4.
    pose proof (bpow_gt_0 radix2 1022). lra.
Qed.
Lemma small_sub x y : small x -> small y -> ffin (x - y)%float.
Proof.
  intros Sx Sy. destruct (small_spec x Sx) as [Fx Hx]. destruct (small_spec y Sy) as [Fy Hy].
  apply (sub_fv x y Fx Fy).
  apply Rle_lt_trans with (bpow radix2 1023); [|apply bpow_lt; reflexivity].
  apply rnd_abs_le; [apply format_bpow_1023|].
  change (bpow radix2 1023) with (bpow radix2 (1022 + 1)). rewrite bpow_plus. change (bpow radix2 1) with 2.
  unfold Rminus. eapply Rle_trans; [apply Rabs_triang|]. rewrite Rabs_Ropp. lra.
Qed.

(** a finite number of value 0 is one of the two zeros *)
Lemma zero_cases z : ffin z -> fv z = 0 -> z = 0%float \/ z = (-0)%float.
Proof.
  intros Fz Z. apply fv_zero_iff in Z; [|exact Fz]. rewrite is_zero_equiv in Z.
  rewrite <- (B2Prim_Prim2B z). destruct (Prim2B z) as [[|]|[|]| |s m e B]; try discriminate.
  - right. reflexivity.
  - left. reflexivity.
Qed.
