(** C11 on binary64 itself: the closed-form [Rect::winding] at the [F64] instance equals
    (a) the half-open rule stated with binary64 comparisons, (b) the binary64 run of the path winding
    ([poly_winding] = sum of [line_winding_inner], the model of [PathSeg::winding_inner]) over its own
    outline, and (c) the exact real ray cast of the rectangle with the same coordinates; and a grid of
    rectangles given by sorted non-NaN cut lists tiles the covered region. Comparisons only: no rounding.
    Method: the homomorphism [rv]/[pv] of C20_f64_proofs.v. *)
From Coq Require Import ZArith Reals List Bool Floats Lra Lia.
From Flocq Require Import Core.Zaux Core.Raux Core.Defs IEEE754.BinarySingleNaN IEEE754.PrimFloat.
From KV Require Import Scalar RInst F64 Geom Rect Affine Curves ShapeTypes ShapeQueries RTac RectSpec RayCast
  C20_proofs C11_proofs F64_exact C20_f64_proofs.
Import ListNotations.
Local Open Scope R_scope.

Lemma winding_rv r p : rect_nn r -> pt_nn p -> rect_winding r p = rect_winding (rv r) (pv p).
Proof.
  intros (A & B & C & D) (X & Y). unfold rect_winding, rv, pv. cbn [rx0 ry0 rx1 ry1 px py]. f64_ops.
  destruct (min_xv _ _ A C) as [N1 E1], (min_xv _ _ B D) as [N2 E2],
           (max_xv _ _ A C) as [N3 E3], (max_xv _ _ B D) as [N4 E4].
  rewrite (leb_xv _ _ N1 X), (ltb_xv _ _ X N3), (leb_xv _ _ N2 Y), (ltb_xv _ _ Y N4),
          (ltb_xv _ _ A C), (ltb_xv _ _ B D), E1, E2, E3, E4. reflexivity.
Qed.

(** (a) the half-open rule, in binary64 comparisons; orientation by comparing the corners (the sign of
    the computed area is not used: it can underflow to 0 or overflow) *)
Lemma f_rect_winding_half_open (r : Rect pfloat) (p : Point pfloat) :
  let inside := (fle (F.min (rx0 r) (rx1 r)) (px p) /\ flt (px p) (F.max (rx0 r) (rx1 r))) /\
                (fle (F.min (ry0 r) (ry1 r)) (py p) /\ flt (py p) (F.max (ry0 r) (ry1 r))) in
  (inside -> xorb (PrimFloat.ltb (rx0 r) (rx1 r)) (PrimFloat.ltb (ry0 r) (ry1 r)) = false -> rect_winding r p = 1%Z) /\
  (inside -> xorb (PrimFloat.ltb (rx0 r) (rx1 r)) (PrimFloat.ltb (ry0 r) (ry1 r)) = true -> rect_winding r p = (-1)%Z) /\
  (~ inside -> rect_winding r p = 0%Z) /\
  (rect_nn r -> pt_nn p -> F.same (rx0 r) (rx1 r) = true \/ F.same (ry0 r) (ry1 r) = true -> rect_winding r p = 0%Z).
Proof.
  intros inside. unfold rect_winding. f64_ops.
  assert (I : inside <-> (PrimFloat.leb (F.min (rx0 r) (rx1 r)) (px p) && PrimFloat.ltb (px p) (F.max (rx0 r) (rx1 r))
                       && PrimFloat.leb (F.min (ry0 r) (ry1 r)) (py p) && PrimFloat.ltb (py p) (F.max (ry0 r) (ry1 r))) = true).
  { unfold inside, fle, flt. rewrite !andb_true_iff. tauto. }
  split; [intros Hi Ho; apply I in Hi; rewrite Hi, Ho; reflexivity|].
  split; [intros Hi Ho; apply I in Hi; rewrite Hi, Ho; reflexivity|].
  split.
  - intros Hn. destruct (_ && _) eqn:E; [exfalso; apply Hn, I; reflexivity|reflexivity].
  - intros (A & B & C & D) (X & Y) Hd.
    destruct (_ && _) eqn:E; [exfalso|reflexivity]. assert (Hi : inside) by (apply I; reflexivity).
    destruct Hi as ((E1 & E2) & (E3 & E4)).
    apply fle_to in E1, E3. apply flt_to in E2, E4.
    destruct (min_xv _ _ A C) as [_ M1], (min_xv _ _ B D) as [_ M2],
             (max_xv _ _ A C) as [_ M3], (max_xv _ _ B D) as [_ M4].
    rewrite M1 in E1. rewrite M2 in E3. rewrite M3 in E2. rewrite M4 in E4.
    destruct Hd as [Hd|Hd]; apply same_xv_iff in Hd; try assumption; rewrite Hd in *; revert E1 E2 E3 E4; minmax.
Qed.

(** (b) the binary64 path winding of the outline. Every edge of the outline is axis-parallel with both end
    points sharing the SAME binary64 coordinate, so [line_winding_inner] never reaches its arithmetic. *)
Lemma lwi_horizontal (s e p : Point pfloat) : py s = py e ->
  line_winding_inner s e p = 0%Z /\ line_winding_inner (pv s) (pv e) (pv p) = 0%Z.
Proof.
  intros E. unfold line_winding_inner, pv. cbn [px py]. rewrite E. f64_ops.
  assert (L : PrimFloat.ltb (py e) (py e) = false).
  { destruct (PrimFloat.is_nan (py e)) eqn:N; [apply (cmp_nan _ _ (or_introl N))|].
    rewrite (ltb_xv _ _ N N). apply Rltb_false. lra. }
  rewrite L. split; [reflexivity|].
  destruct (Rltb_spec (xv (py e)) (xv (py e))); [lra|reflexivity].
Qed.
Lemma lwi_vertical (s e p : Point pfloat) : px s = px e -> pt_nn s -> pt_nn e -> pt_nn p ->
  line_winding_inner s e p = line_winding_inner (pv s) (pv e) (pv p).
Proof.
  intros E [Sx Sy] [Ex Ey] [Px Py]. unfold line_winding_inner, pv. cbn [px py]. rewrite E. f64_ops.
  destruct (min_xv _ _ Ex Ex) as [N1 M1], (max_xv _ _ Ex Ex) as [N2 M2].
  rewrite (ltb_xv _ _ Sy Ey), (ltb_xv _ _ Ey Sy), (ltb_xv _ _ Py Sy), (ltb_xv _ _ Py Ey),
          (leb_xv _ _ Ey Py), (leb_xv _ _ Sy Py), (ltb_xv _ _ Px N1), (leb_xv _ _ N2 Px), M1, M2.
  assert (Hmin : Rmin (xv (px e)) (xv (px e)) = xv (px e)) by (apply Rmin_left; lra).
  assert (Hmax : Rmax (xv (px e)) (xv (px e)) = xv (px e)) by (apply Rmax_left; lra).
  rewrite Hmin, Hmax.
  destruct (Rltb_spec (xv (px p)) (xv (px e))), (Rleb_spec (xv (px e)) (xv (px p))); try lra; reflexivity.
Qed.

Lemma poly_winding_outline_rv r p : rect_nn r -> pt_nn p ->
  poly_winding (rect_outline r) p = poly_winding (rect_outline (rv r)) (pv p).
Proof.
  intros (A & B & C & D) Np.
  unfold poly_winding, rect_outline, poly_edges, poly_edges_from, rv. cbn [map fold_left fst snd rx0 ry0 rx1 ry1].
  set (v0 := mkPoint (rx0 r) (ry0 r)). set (v1 := mkPoint (rx1 r) (ry0 r)).
  set (v2 := mkPoint (rx1 r) (ry1 r)). set (v3 := mkPoint (rx0 r) (ry1 r)).
  change (mkPoint (xv (rx0 r)) (xv (ry0 r))) with (pv v0). change (mkPoint (xv (rx1 r)) (xv (ry0 r))) with (pv v1).
  change (mkPoint (xv (rx1 r)) (xv (ry1 r))) with (pv v2). change (mkPoint (xv (rx0 r)) (xv (ry1 r))) with (pv v3).
  destruct (lwi_horizontal v0 v1 p eq_refl) as [-> ->]. destruct (lwi_horizontal v2 v3 p eq_refl) as [-> ->].
  rewrite (lwi_vertical v1 v2 p eq_refl), (lwi_vertical v3 v0 p eq_refl) by (first [assumption|split; assumption]).
  reflexivity.
Qed.

Lemma f_rect_winding_eq_path_winding r p : rect_nn r -> pt_nn p ->
  rect_winding r p = poly_winding (rect_outline r) p.
Proof.
  intros Nr Np. rewrite (winding_rv r p Nr Np), (poly_winding_outline_rv r p Nr Np).
  apply rect_winding_eq_path_winding.
Qed.

(** (c) for finite coordinates [xv] is the exact value: the binary64 closed form is the exact half-open
    ray cast of the exact rectangle about the exact point *)
Definition rvf (r : Rect pfloat) : Rect R := mkRect (fv (rx0 r)) (fv (ry0 r)) (fv (rx1 r)) (fv (ry1 r)).
Definition pvf (p : Point pfloat) : Point R := mkPoint (fv (px p)) (fv (py p)).
Lemma f_rect_winding_exact r p :
  ffin (rx0 r) -> ffin (ry0 r) -> ffin (rx1 r) -> ffin (ry1 r) -> ffin (px p) -> ffin (py p) ->
  rect_winding r p = poly_cast (rect_outline (rvf r)) (pvf p) /\
  rect_winding r p = rect_winding (rvf r) (pvf p).
Proof.
  intros A B C D X Y.
  assert (E1 : rvf r = rv r) by (unfold rvf, rv; rewrite !xv_fv by assumption; reflexivity).
  assert (E2 : pvf p = pv p) by (unfold pvf, pv; rewrite !xv_fv by assumption; reflexivity).
  rewrite E1, E2, <- rect_winding_eq_outline.
  split; apply winding_rv; repeat split; apply ffin_nn; assumption.
Qed.

Lemma f_rect_winding_corner_order (x0 y0 x1 y1 : pfloat) (p : Point pfloat) :
  nn x0 -> nn y0 -> nn x1 -> nn y1 -> pt_nn p ->
  let w := rect_winding (mkRect x0 y0 x1 y1) p in
  rect_winding (mkRect x1 y0 x0 y1) p = (- w)%Z /\
  rect_winding (mkRect x0 y1 x1 y0) p = (- w)%Z /\
  rect_winding (mkRect x1 y1 x0 y0) p = w.
Proof.
  intros A B C D Np w. unfold w. rewrite !winding_rv by (try assumption; repeat split; assumption).
  apply (rect_winding_corner_order (xv x0) (xv y0) (xv x1) (xv y1) (pv p)).
Qed.

(** * tiling by a grid of sorted cuts *)
Definition fsorted_idx (xs : list pfloat) : Prop :=
  forall i, (S i < length xs)%nat -> fle (nth i xs 0%float) (nth (S i) xs 0%float).
Definition ftile (xs ys : list pfloat) (i j : nat) : Rect pfloat :=
  mkRect (nth i xs 0%float) (nth j ys 0%float) (nth (S i) xs 0%float) (nth (S j) ys 0%float).

Lemma xv_0 : xv 0%float = 0. Proof. rewrite xv_fv by reflexivity. apply fv_0. Qed.
Lemma nth_xv xs i : nth i (map xv xs) 0 = xv (nth i xs 0%float).
Proof. rewrite <- xv_0. apply map_nth. Qed.
Lemma fsorted_nn xs i : fsorted_idx xs -> (S i < length xs)%nat ->
  nn (nth i xs 0%float) /\ nn (nth (S i) xs 0%float).
Proof. intros Hs Hi. apply fle_nn. apply Hs. exact Hi. Qed.
Lemma fsorted_rv xs : fsorted_idx xs -> sorted_idx (map xv xs).
Proof. intros Hs i Hi. rewrite map_length in Hi. rewrite !nth_xv. apply fle_to. apply Hs. exact Hi. Qed.
Lemma ftile_rv xs ys i j p : fsorted_idx xs -> fsorted_idx ys ->
  (S i < length xs)%nat -> (S j < length ys)%nat -> pt_nn p ->
  rect_winding (ftile xs ys i j) p = rect_winding (tile (map xv xs) (map xv ys) i j) (pv p).
Proof.
  intros Hx Hy Hi Hj Np. destruct (fsorted_nn xs i Hx Hi) as [A C]. destruct (fsorted_nn ys j Hy Hj) as [B D].
  rewrite winding_rv by (try assumption; repeat split; assumption).
  unfold tile, ftile, rv. cbn [rx0 ry0 rx1 ry1]. rewrite !nth_xv. reflexivity.
Qed.

Lemma f_rect_tiling (xs ys : list pfloat) (p : Point pfloat) :
  fsorted_idx xs -> fsorted_idx ys -> (2 <= length xs)%nat -> (2 <= length ys)%nat ->
  fle (nth 0 xs 0%float) (px p) /\ flt (px p) (nth (length xs - 1) xs 0%float) ->
  fle (nth 0 ys 0%float) (py p) /\ flt (py p) (nth (length ys - 1) ys 0%float) ->
  exists! ij : nat * nat,
    (S (fst ij) < length xs)%nat /\ (S (snd ij) < length ys)%nat /\
    rect_winding (ftile xs ys (fst ij) (snd ij)) p <> 0%Z.
Proof.
  intros Hx Hy Lx Ly [Px1 Px2] [Py1 Py2].
  assert (Np : pt_nn p) by (split; [apply (fle_nn _ _ Px1)|apply (fle_nn _ _ Py1)]).
  destruct (rect_tiling (map xv xs) (map xv ys) (pv p) (fsorted_rv xs Hx) (fsorted_rv ys Hy))
    as ([i j] & (Hi & Hj & W) & U).
  - rewrite map_length. exact Lx.
  - rewrite map_length. exact Ly.
  - rewrite map_length, !nth_xv. unfold pv. cbn [px]. split; [apply fle_to|apply flt_to]; assumption.
  - rewrite map_length, !nth_xv. unfold pv. cbn [py]. split; [apply fle_to|apply flt_to]; assumption.
  - cbn [fst snd] in *. rewrite map_length in Hi, Hj. exists (i, j). split.
    + cbn [fst snd]. split; [exact Hi|]. split; [exact Hj|]. rewrite ftile_rv by assumption. exact W.
    + intros [i' j'] (Hi' & Hj' & W'). cbn [fst snd] in *. apply U. cbn [fst snd].
      rewrite !map_length. split; [exact Hi'|]. split; [exact Hj'|]. rewrite <- ftile_rv by assumption. exact W'.
Qed.

Lemma f_rect_tiling_outside (xs ys : list pfloat) (p : Point pfloat) i j :
  fsorted_idx xs -> fsorted_idx ys -> (S i < length xs)%nat -> (S j < length ys)%nat -> pt_nn p ->
  ~ ((fle (nth 0 xs 0%float) (px p) /\ flt (px p) (nth (length xs - 1) xs 0%float)) /\
     (fle (nth 0 ys 0%float) (py p) /\ flt (py p) (nth (length ys - 1) ys 0%float))) ->
  rect_winding (ftile xs ys i j) p = 0%Z.
Proof.
  intros Hx Hy Hi Hj Np Out. rewrite ftile_rv by assumption.
  apply rect_tiling_outside; try (apply fsorted_rv; assumption); try (rewrite map_length; assumption).
  intros [[Q1 Q2] [Q3 Q4]]. apply Out. rewrite !map_length, !nth_xv in *. unfold pv in *. cbn [px py] in *.
  destruct Np as [X Y].
  destruct (fsorted_nn xs 0 Hx ltac:(lia)) as [A0 _]. destruct (fsorted_nn ys 0 Hy ltac:(lia)) as [B0 _].
  assert (A1 : nn (nth (length xs - 1) xs 0%float)).
  { replace (length xs - 1)%nat with (S (length xs - 2)) by lia. apply (fsorted_nn xs (length xs - 2) Hx). lia. }
  assert (B1 : nn (nth (length ys - 1) ys 0%float)).
  { replace (length ys - 1)%nat with (S (length ys - 2)) by lia. apply (fsorted_nn ys (length ys - 2) Hy). lia. }
  repeat split; first [apply fle_xv|apply flt_xv]; assumption.
Qed.

(** * witnesses *)
Local Open Scope float_scope.
Definition cuts_x : list pfloat := [neg_infinity; -0x1.8p+1; -0; 0; 0x1p-1074; 0x1.fffffffffffffp+1023; infinity].
Definition cuts_y : list pfloat := [-1; 0x1.0000000000001p+0; 0x1.0000000000001p+0; 3].
Lemma fsorted_dec (xs : list pfloat) :
  forallb (fun i => PrimFloat.leb (nth i xs 0) (nth (S i) xs 0)) (seq 0 (length xs - 1)) = true -> fsorted_idx xs.
Proof.
  intros H i Hi. rewrite forallb_forall in H. apply (H i). apply in_seq. lia.
Qed.
Lemma tiling_witness :
  fsorted_idx cuts_x /\ fsorted_idx cuts_y /\
  rect_winding (ftile cuts_x cuts_y 3 0) (mkPoint 0 1) = 1%Z /\
  rect_winding (ftile cuts_x cuts_y 2 0) (mkPoint 0 1) = 0%Z /\
  rect_winding (ftile cuts_x cuts_y 1 0) (mkPoint (-0) 1) = 0%Z /\
  rect_winding (ftile cuts_x cuts_y 3 0) (mkPoint (-0) 1) = 1%Z /\
  rect_winding (ftile cuts_x cuts_y 5 2) (mkPoint 0x1.fffffffffffffp+1023 2) = 1%Z /\
  rect_winding (mkRect 3 4 (-1) 0) (mkPoint 0 1) = 1%Z /\
  rect_winding (mkRect 3 0 (-1) 4) (mkPoint 0 1) = (-1)%Z.
Proof.
  split; [apply fsorted_dec; vm_compute; reflexivity|]. split; [apply fsorted_dec; vm_compute; reflexivity|].
  repeat split; vm_compute; reflexivity.
Qed.
(** the sign of the computed area is not a usable orientation test on binary64: it underflows *)
Lemma area_underflow :
  rect_winding (mkRect 0 0 0x1p-600 0x1p-600) (mkPoint 0x1p-601 0x1p-601) = 1%Z /\
  PrimFloat.is_zero (rect_area (mkRect 0 0 0x1p-600 0x1p-600)) = true.
Proof. split; vm_compute; reflexivity. Qed.
(** a finite, flipped rectangle with a subnormal corner and a boundary point: hypotheses of [f_rect_winding_exact] *)
Definition rex : Rect pfloat := mkRect 0x1.0000000000001p+1 5 (-0x1.8p+1) (-0x1p-1074).
Definition pex : Point pfloat := mkPoint (-0x1.8p+1) (-0x1p-1074).
Lemma exact_witness :
  ffin (rx0 rex) /\ ffin (ry0 rex) /\ ffin (rx1 rex) /\ ffin (ry1 rex) /\ ffin (px pex) /\ ffin (py pex) /\
  rect_winding rex pex = 1%Z /\ rect_winding rex (mkPoint 0x1.0000000000001p+1 0) = 0%Z.
Proof. repeat split; vm_compute; reflexivity. Qed.
