(** C03: facts about the binary64 run of the model, by evaluation ([vm_compute]). *)
From Coq Require Import ZArith Floats List Bool.
From KV Require Import Scalar F64 Geom Curves Arclen.
Local Open Scope float_scope.

(** a quadratic whose control point coincides with its end point: the pinned code's
    [sabc = (a + b + c).sqrt()] takes the square root of a sum that rounds to a negative number.
    Only exact operations (+ - * sqrt) are involved up to that point, so this reproduces the
    compiled crate bit for bit (QuadBez::arclen of this curve is NaN). *)
Definition quad_p2_eq_p1 : QuadBez float :=
  mkQuad (mkPoint 0x1.46224eaf1c618p+2 (-0x1.ccd2fb85e49bcp+1))
         (mkPoint (-0x1.2e6749bb92fdfp+3) 0x1.c2a3977252f2p+2)
         (mkPoint (-0x1.2e6749bb92fdfp+3) 0x1.c2a3977252f2p+2).

Definition quad_zero_length : QuadBez float :=
  mkQuad (mkPoint 1 2) (mkPoint 1 2) (mkPoint 1 2).

Lemma quad_arclen_pinned_nan_p2_eq_p1 : PrimFloat.is_nan (quad_arclen_pinned quad_p2_eq_p1) = true.
Proof. vm_compute. reflexivity. Qed.

Lemma quad_arclen_pinned_nan_zero_length : PrimFloat.is_nan (quad_arclen_pinned quad_zero_length) = true.
Proof. vm_compute. reflexivity. Qed.

(** the behaviour the property requires (and the proposed repair gives): finite, and right *)
Lemma quad_arclen_fixed_p2_eq_p1 :
  F.close 0x1p-40 (quad_arclen quad_p2_eq_p1) 0x1.205dc3a9350b1p+4 = true.
Proof. vm_compute. reflexivity. Qed.

Lemma quad_arclen_fixed_zero_length : PrimFloat.eqb (quad_arclen quad_zero_length) 0 = true
                                      \/ PrimFloat.ltb (quad_arclen quad_zero_length) 0x1p-40 = true.
Proof. vm_compute. right. reflexivity. Qed.

Lemma quad_arclen_pinned_refuted :
  (exists q : QuadBez float, q2 q = q1 q /\ PrimFloat.is_nan (quad_arclen_pinned q) = true) /\
  (exists q : QuadBez float, q0 q = q1 q /\ q1 q = q2 q /\ PrimFloat.is_nan (quad_arclen_pinned q) = true).
Proof.
  split.
  - exists quad_p2_eq_p1. split; [reflexivity | exact quad_arclen_pinned_nan_p2_eq_p1].
  - exists quad_zero_length. split; [reflexivity|]. split; [reflexivity | exact quad_arclen_pinned_nan_zero_length].
Qed.

Lemma quad_arclen_required :
  F.close 0x1p-40 (quad_arclen quad_p2_eq_p1) 0x1.205dc3a9350b1p+4 = true /\
  (PrimFloat.eqb (quad_arclen quad_zero_length) 0 = true \/ PrimFloat.ltb (quad_arclen quad_zero_length) 0x1p-40 = true).
Proof. split; [exact quad_arclen_fixed_p2_eq_p1 | exact quad_arclen_fixed_zero_length]. Qed.
