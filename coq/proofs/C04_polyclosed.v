(** C04: the outline of a closed polyline (two contours) as a sum of positively traversed pieces, and the
    region-level statement for closed polylines. Bevel joins, repaired join, no join skipped. Real instance. *)
From Coq Require Import ZArith QArith Reals List Bool Lra Lia Psatz.
From KV Require Import Scalar RInst Geom Curves Path Affine Stroke RTac StrokeSpec C04_proofs C04_region C04_pieces C04_round C04_polyregion C04_polyfill.
Import ListNotations.
Local Open Scope R_scope.

Section Closed.
Variable st : StrokeStyle R.
Hypothesis Hbevel : sk_join st = JoinBevel.
Hypothesis Hpivot : sk_inner_pivot st = true.
Let w := sk_width st.
Variable q : Point R.
Notation ee := (e q).

Ltac antisym_facts :=
  repeat match goal with
  | |- context [e q ?a ?b] =>
      lazymatch goal with
      | H : e q a b = (- e q b a)%Z |- _ => fail
      | _ => pose proof (e_antisym q a b)
      end
  end.

(** two closed contours: forward vertices, and backward vertices reversed *)
Lemma wn_two_contours f0 fs b0 bs :
  outline_wn ((MoveTo f0 :: map (@LineTo R) fs) ++ [ClosePath] ++ [MoveTo (last bs b0)] ++
              extend_reversed (MoveTo b0 :: map (@LineTo R) bs) ++ [ClosePath]) q =
  (chain_from q f0 fs + ee (last fs f0) f0 - chain_from q b0 bs + ee b0 (last bs b0))%Z.
Proof.
  unfold outline_wn. cbn [app outline_wn_from]. rewrite edge_w_self, Z.add_0_l.
  rewrite wn_lines. cbn [app outline_wn_from el_end].
  rewrite edge_w_self, Z.add_0_l.
  rewrite ext_rev_lines, wn_lines. cbn [el_end_or el_end outline_wn_from].
  rewrite chain_from_revtail, last_revtail, edge_w_self. unfold e. ring.
Qed.

(** what the join adds, as an identity between crossing sums *)
Lemma join_identity P t t' :
  (chain_from q (om st t P) (jf_pts st P t t') - chain_from q (op st t P) (jb_pts st P t t')
   + Xs st q P t')%Z = (Xs st q P t + join_piece st q P t t')%Z.
Proof.
  unfold jf_pts, jb_pts, join_piece.
  destruct (Rltb 0 (rcross t t')); [|destruct (Rltb (rcross t t') 0)];
    cbn [app chain_from]; unfold tri_f, tri_b, Xs; antisym_facts; lia.
Qed.

Lemma last_jf P t t' d : last (jf_pts st P t t') d = om st t' P.
Proof. unfold jf_pts. apply last_last. Qed.
Lemma last_jb P t t' d : last (jb_pts st P t t') d = op st t' P.
Proof. unfold jb_pts. apply last_last. Qed.

Lemma last_state_fst ps : forall lp lt, fst (last_state lp lt ps) = last ps lp.
Proof.
  induction ps as [|p r IH]; intros lp lt; [reflexivity|].
  cbn [last_state]. rewrite last_cons. destruct (pt_neb p lp) eqn:E; rewrite IH; [reflexivity|].
  apply pt_neb_false_eq in E. subst. reflexivity.
Qed.

Lemma first_edge_suffix p0 ps p1 r : first_edge p0 ps = Some (p1, r) ->
  pt_neb p1 p0 = true /\ last r p1 = last ps p1 /\ exists pre, ps = pre ++ p1 :: r.
Proof.
  induction ps as [|p ps IH]; cbn [first_edge]; [discriminate|].
  destruct (pt_neb p p0) eqn:E.
  - intros [= <- <-]. split; [exact E|]. split; [symmetry; apply last_cons | exists []; reflexivity].
  - intros H. destruct (IH H) as (A & B & pre & C). split; [exact A|]. split.
    + subst ps. change (p :: pre ++ p1 :: r) with ((p :: pre) ++ p1 :: r). rewrite last_app_cons. reflexivity.
    + exists (p :: pre). subst; reflexivity.
Qed.

Lemma last_map_lines bs : forall h : PathEl R, el_end_or (last (map (@LineTo R) bs) h) = last bs (el_end_or h).
Proof.
  induction bs as [|b bs IH]; intros h; [reflexivity|].
  cbn [map]. rewrite !last_cons, IH. reflexivity.
Qed.

Lemma last_end_lines (h : PathEl R) bs : last_end (h :: map (@LineTo R) bs) = last bs (el_end_or h).
Proof. unfold last_end. rewrite last_cons. apply last_map_lines. Qed.

Lemma last_app_ne_pts {A} (a b : list A) d : b <> [] -> last (a ++ b) d = last b d.
Proof.
  intros Hb. destruct (exists_last Hb) as (b' & x & ->). rewrite app_assoc, !last_last. reflexivity.
Qed.

(** decomposition for a closed polyline: the rectangle of the first edge, the pieces along the way back
    to the start, and the closing join *)
Theorem closed_polyline_decomposition_thm tol p0 ps p1 r out :
  first_edge p0 (ps ++ [p0]) = Some (p1, r) ->
  all_emitted (2 * tol / sk_width st) p1 (vec p0 p1) r ->
  emitted (snd (last_state p1 (vec p0 p1) r)) (vec p0 p1) (2 * tol / sk_width st) ->
  stroke_undashed (MoveTo p0 :: map (@LineTo R) ps ++ [ClosePath]) st tol = Some out ->
  outline_wn out q =
  (hex st q p0 p1 (vec p0 p1) + pieces st q p1 (vec p0 p1) r +
   join_piece st q p0 (snd (last_state p1 (vec p0 p1) r)) (vec p0 p1))%Z.
Proof.
  intros E Hall Hclose. rewrite closed_polyline_outline_thm, E. cbv zeta. intros [= <-].
  set (th := 2 * tol / sk_width st) in *. set (t1 := vec p0 p1) in *.
  destruct (first_edge_suffix p0 (ps ++ [p0]) p1 r E) as (Hne & Hlast & _).
  assert (Hlp : fst (last_state p1 t1 r) = p0).
  { rewrite last_state_fst, Hlast. rewrite last_last. reflexivity. }
  rewrite Hlp. set (lt := snd (last_state p1 t1 r)) in *.
  rewrite !(side_path_head st th _ p0 (ps ++ [p0]) p1 r E), !(side_rest_lines st Hbevel Hpivot _ _ _ _ _ Hall).
  pose proof (side_join_pts st Hbevel Hpivot false p0 lt t1 th Hclose) as JF.
  pose proof (side_join_pts st Hbevel Hpivot true p0 lt t1 th Hclose) as JB.
  unfold side_join in JF, JB. cbv zeta in JF, JB. rewrite JF, JB.
  fold w. fold t1. unfold sgn.
  set (restF := rest_pts st false p1 t1 r). set (restB := rest_pts st true p1 t1 r).
  pose proof (last_rest_pts st false r p1 t1 (om st t1 p1) eq_refl) as LF. cbn [sgn] in LF.
  pose proof (last_rest_pts st true r p1 t1 (op st t1 p1) eq_refl) as LB. cbn [sgn] in LB.
  fold restF in LF. fold restB in LB. fold t1 in LF, LB. rewrite Hlp in LF, LB. fold lt in LF, LB. fold w in LF, LB.
  (* shape the two paths as MoveTo :: map LineTo *)
  change (MoveTo (offs w (-1) t1 p0) :: LineTo (offs w (-1) t1 p1) :: map (@LineTo R) restF)
    with (MoveTo (om st t1 p0) :: map (@LineTo R) (om st t1 p1 :: restF)).
  change (MoveTo (offs w 1 t1 p0) :: LineTo (offs w 1 t1 p1) :: map (@LineTo R) restB)
    with (MoveTo (op st t1 p0) :: map (@LineTo R) (op st t1 p1 :: restB)).
  change ((MoveTo (om st t1 p0) :: map (@LineTo R) (om st t1 p1 :: restF)) ++ map (@LineTo R) (jf_pts st p0 lt t1))
    with (MoveTo (om st t1 p0) :: (map (@LineTo R) (om st t1 p1 :: restF) ++ map (@LineTo R) (jf_pts st p0 lt t1))).
  change ((MoveTo (op st t1 p0) :: map (@LineTo R) (op st t1 p1 :: restB)) ++ map (@LineTo R) (jb_pts st p0 lt t1))
    with (MoveTo (op st t1 p0) :: (map (@LineTo R) (op st t1 p1 :: restB) ++ map (@LineTo R) (jb_pts st p0 lt t1))).
  rewrite <- !map_app.
  set (fs := (om st t1 p1 :: restF) ++ jf_pts st p0 lt t1).
  set (bs := (op st t1 p1 :: restB) ++ jb_pts st p0 lt t1).
  assert (Hle : last_end (MoveTo (op st t1 p0) :: map (@LineTo R) bs) = last bs (op st t1 p0)) by apply last_end_lines.
  rewrite Hle.
  change (MoveTo (om st t1 p0) :: map (@LineTo R) fs) with (MoveTo (om st t1 p0) :: map (@LineTo R) fs).
  pose proof (wn_two_contours (om st t1 p0) fs (op st t1 p0) bs) as W2. cbn [app] in W2. cbn [app]. rewrite W2. clear W2.
  (* ends of the two paths: back at the start offset points *)
  assert (Lfs : last fs (om st t1 p0) = om st t1 p0).
  { unfold fs. rewrite last_app_ne_pts; [apply last_jf | unfold jf_pts; intros H; apply app_eq_nil in H; destruct H; discriminate]. }
  assert (Lbs : last bs (op st t1 p0) = op st t1 p0).
  { unfold bs. rewrite last_app_ne_pts; [apply last_jb | unfold jb_pts; intros H; apply app_eq_nil in H; destruct H; discriminate]. }
  rewrite Lfs, Lbs, !e_self.
  unfold fs, bs. rewrite !chain_from_app. cbn [chain_from].
  rewrite !last_cons. fold restF restB. rewrite LF, LB.
  pose proof (step_identity st q r p1 t1) as SI. fold restF restB in SI.
  rewrite Hlp in SI. fold lt in SI.
  pose proof (join_identity p0 lt t1) as JI.
  change (offs w (-1) lt p0) with (om st lt p0). change (offs w 1 lt p0) with (op st lt p0).
  unfold hex, Xs in *. antisym_facts. lia.
Qed.
End Closed.

Section ClosedRegion.
Variable st : StrokeStyle R.
Variable q : Point R.
Hypothesis Hw : 0 < sk_width st.
Hypothesis Hbevel : sk_join st = JoinBevel.
Hypothesis Hpivot : sk_inner_pivot st = true.
Let w := sk_width st.
Let k2 := (w / 2) * (w / 2).

Lemma last_state_nz ps : forall lp lt, vnonzero lt -> vnonzero (snd (last_state lp lt ps)).
Proof.
  induction ps as [|p r IH]; intros lp lt Hn; [exact Hn|].
  cbn [last_state]. destruct (pt_neb p lp) eqn:E; apply IH; [apply vec_nz_of_neb; exact E | exact Hn].
Qed.

Lemma poly_edges_neq ps : forall lp a b, In (a, b) (poly_edges lp ps) -> b <> a.
Proof.
  induction ps as [|p r IH]; intros lp a b Hin; cbn [poly_edges] in Hin; [destruct Hin|].
  destruct (pt_neb p lp) eqn:En; [|eapply IH; eauto].
  destruct Hin as [Hin|Hin]; [injection Hin as <- <-; apply pt_neb_neq; exact En | eapply IH; eauto].
Qed.

(** the property for a closed polyline (any caps: a closed sub-path has none) *)
Theorem closed_polyline_region_thm tol p0 ps p1 r out :
  first_edge p0 (ps ++ [p0]) = Some (p1, r) ->
  all_emitted (2 * tol / sk_width st) p1 (vec p0 p1) r ->
  emitted (snd (last_state p1 (vec p0 p1) r)) (vec p0 p1) (2 * tol / sk_width st) ->
  stroke_undashed (MoveTo p0 :: map (@LineTo R) ps ++ [ClosePath]) st tol = Some out ->
  let edges := (p0, p1) :: poly_edges p1 r in
  (forall a b, In (a, b) edges ->
     0 < foot_par a b q < 1 -> -1 < rel_dist w a b q < 1 -> (1 <= outline_wn out q)%Z) /\
  ((forall a b, In (a, b) edges -> seg_far a b q k2) -> outline_wn out q = 0%Z) /\
  (0 <= outline_wn out q)%Z.
Proof.
  intros E Hall Hclose Hout. cbv zeta.
  rewrite (closed_polyline_decomposition_thm st Hbevel Hpivot q tol p0 ps p1 r out E Hall Hclose Hout).
  destruct (first_edge_suffix p0 (ps ++ [p0]) p1 r E) as (Hneb & _ & _).
  assert (Hne1 : p1 <> p0) by (apply pt_neb_neq; exact Hneb).
  assert (Hn1 : vnonzero (vec p0 p1)) by (apply vec_nz_of_neb; exact Hneb).
  pose proof (last_state_nz r p1 (vec p0 p1) Hn1) as Hnl.
  set (lt := snd (last_state p1 (vec p0 p1) r)) in *.
  destruct (hex_value st q Hw p0 p1 Hne1) as ([H0 H1] & Hin1 & Hout1).
  pose proof (pieces_nonneg st q Hw r p1 (vec p0 p1) Hn1) as P0.
  destruct (join_piece_value st q Hw p0 lt (vec p0 p1) Hnl Hn1) as [[J0 J1] Jfar].
  split; [|split].
  - intros a b [Hab|Hab] Ha Hb.
    + injection Hab as <- <-. rewrite (Hin1 Ha Hb). lia.
    + pose proof (poly_edges_neq r p1 a b Hab) as Hne.
      destruct (hex_value st q Hw a b Hne) as (_ & Hin & _).
      pose proof (pieces_ge_edge st q Hw r p1 (vec p0 p1) a b Hn1 Hab (Hin Ha Hb)). lia.
  - intros Hfar.
    pose proof (Hfar p0 p1 (or_introl eq_refl)) as Hf0.
    rewrite (Hout1 (far_outside_rect st q Hw p0 p1 Hne1 Hf0)).
    rewrite (pieces_zero st q Hw r p1 (vec p0 p1) Hn1).
    + rewrite Jfar; [reflexivity|]. specialize (Hf0 0 ltac:(lra)). rewrite lerp_0 in Hf0. exact Hf0.
    + intros a b Hab. pose proof (poly_edges_neq r p1 a b Hab) as Hne.
      pose proof (Hfar a b (or_intror Hab)) as Hf.
      destruct (hex_value st q Hw a b Hne) as (_ & _ & Ho).
      split; [apply Ho; apply far_outside_rect; assumption|].
      specialize (Hf 0 ltac:(lra)). rewrite lerp_0 in Hf. exact Hf.
  - lia.
Qed.
End ClosedRegion.
